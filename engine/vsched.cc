// Deterministic scheduler implementation.  Compiled WITHOUT the renaming shim.
#include "engine/vsched.h"

#include <algorithm>
#include <cassert>
#include <cstdio>
#include <cstdlib>
#include <map>
#include <random>
#include <sstream>
#include <unistd.h>

namespace vs
{
namespace
{
enum St { RUNNABLE, BLK_MUTEX, BLK_CV, BLK_JOIN, BLK_SLEEP, BLK_FUT, BLK_END, DONE };
const char *st_name(St s)
{
  static const char *n[] = {"RUNNABLE", "BLK_MUTEX", "BLK_CV", "BLK_JOIN", "BLK_SLEEP", "BLK_FUT", "BLK_END", "DONE"};
  return n[s];
}
}  // namespace

struct ThreadImpl
{
  int id          = 0;
  St st           = RUNNABLE;
  const void *obj = nullptr;
  bool timed      = false;
  int64_t deadline = 0;
  bool timedout   = false;
  std::condition_variable cv;
  bool go = false;
  std::thread os;
  std::function<void()> f;
  long prio       = 0;
  int idle        = 0;      // consecutive points without a state-changing operation
  bool did_mutate = false;
  bool yield_req  = false;
  bool spurious_next = false;
  int noyield     = 0;
  Kind pend_kind  = K_USER;
  const void *pend_obj = nullptr;
};

namespace
{
typedef ThreadImpl Thr;

struct State
{
  std::mutex G;
  std::vector<std::unique_ptr<Thr>> thrs;
  Config cfg;
  Result res;
  std::mt19937_64 rng;
  int64_t now = 0;
  long step   = 0;
  bool fair   = false;
  int preempt_used = 0;
  size_t tape_pos  = 0;
  long low_prio    = 0;
  std::vector<long> change_points;
  Thr *last_ran = nullptr;
  std::map<const void *, std::string> names;
  std::vector<std::string> log;
  bool active = false;
};
State S;
thread_local Thr *self = nullptr;
std::function<void(int, const std::string &)> g_on_stuck;

double rnd01() { return std::uniform_real_distribution<double>(0.0, 1.0)(S.rng); }
int rndi(int n) { return n <= 1 ? 0 : (int)(S.rng() % (uint64_t)n); }

[[noreturn]] void stuck(int status, const std::string &why)
{
  std::string d = why + "\n" + describe_threads();
  if (g_on_stuck)
  {
    g_on_stuck(status, d);
  }
  fprintf(stderr, "[vsched] STUCK status=%d %s\n", status, d.c_str());
  fflush(stderr);
  _exit(3);
}

void wake_timers_upto_now()
{
  for (auto &t : S.thrs)
  {
    if ((t->st == BLK_CV || t->st == BLK_SLEEP || t->st == BLK_FUT) && t->timed && t->deadline <= S.now)
    {
      t->st       = RUNNABLE;
      t->timedout = true;
    }
  }
}

Thr *fire(Thr *t)
{
  if (t->deadline > S.now)
    S.now = t->deadline;
  wake_timers_upto_now();
  return t;
}

int take_choice(int n)
{
  if (n <= 1)
    return 0;
  int c = 0;
  if (S.tape_pos < S.cfg.tape.size())
  {
    c = S.cfg.tape[S.tape_pos];
    if (c < 0 || c >= n)
      c = 0;
  }
  S.tape_pos++;
  S.res.choices.push_back(Choice{n, c});
  return c;
}

// Decide who runs next.  `me_enabled`: the calling thread could continue.
Thr *pick(bool me_enabled)
{
  Thr *me = self;
  wake_timers_upto_now();   // the clock may have advanced (clock reads, yields)
  if (!me_enabled && me != nullptr && me->st == RUNNABLE)
    me_enabled = true;      // the caller was blocking on a timer that is already due: it times out at once
  std::vector<Thr *> R;   // runnable, ascending id
  std::vector<Thr *> T;   // timed-blocked, ascending (deadline, id)
  for (auto &t : S.thrs)
  {
    if (t->st == RUNNABLE && (t.get() != me || me_enabled))
      R.push_back(t.get());
    else if ((t->st == BLK_CV || t->st == BLK_SLEEP || t->st == BLK_FUT) && t->timed)
      T.push_back(t.get());
  }
  std::sort(T.begin(), T.end(), [](Thr *a, Thr *b) {
    return a->deadline != b->deadline ? a->deadline < b->deadline : a->id < b->id;
  });
  if (R.empty() && T.empty())
    stuck(1, "deadlock: no runnable thread and no pending timer");

  bool spinning   = me_enabled && me->idle > S.cfg.spin_limit;
  bool must_leave = me_enabled && (me->yield_req || spinning);
  if (me_enabled)
    me->yield_req = false;
  std::vector<Thr *> others;
  for (Thr *t : R)
    if (t != me)
      others.push_back(t);

  int strat = S.fair ? (int)S_RR : S.cfg.strategy;

  if (strat == S_THREADS)
  {
    if (S.tape_pos < S.cfg.tape.size())
    {
      int want    = S.cfg.tape[S.tape_pos];
      bool spur   = want >= 1000;
      if (spur)
        want -= 1000;
      Thr *w = (want >= 0 && want < (int)S.thrs.size()) ? S.thrs[want].get() : nullptr;
      if (w != nullptr && std::find(R.begin(), R.end(), w) != R.end())
      {
        S.tape_pos++;
        w->spurious_next = spur;
        return w;
      }
      if (w != nullptr && std::find(T.begin(), T.end(), w) != T.end())
      {
        S.tape_pos++;
        w->spurious_next = spur;
        return fire(w);
      }
      if (S.res.tape_mismatch < 0)
        S.res.tape_mismatch = (int)S.tape_pos;
    }
    // tape exhausted or not followable: continue fairly
    strat = S_RR;
  }

  if (strat == S_RR)
  {
    // cyclic id order after me; the earliest pending timer gets its turn at every wrap-around
    int start = me ? me->id : -1;
    int n     = (int)S.thrs.size();
    for (int id = start + 1; id < n; ++id)
    {
      Thr *c = S.thrs[id].get();
      if (c->st == RUNNABLE)
        return c;
    }
    if (!T.empty())
      return fire(T.front());
    for (int id = 0; id <= start && id < n; ++id)
    {
      Thr *c = S.thrs[id].get();
      if (c->st == RUNNABLE && (c != me || me_enabled))
        return c;
    }
    stuck(1, "deadlock (fair)");
  }

  if (strat == S_RANDOM)
  {
    if (me_enabled && !must_leave && rnd01() >= S.cfg.p_switch)
      return me;
    std::vector<Thr *> cand = (must_leave && !others.empty()) ? others : R;
    if (spinning && others.empty() && !T.empty())
      return fire(T[rndi((int)T.size())]);
    if (!T.empty() && (cand.empty() || rnd01() < S.cfg.p_timer))
      return fire(T[rndi((int)T.size())]);
    if (cand.empty())
      stuck(1, "deadlock");
    return cand[rndi((int)cand.size())];
  }

  if (strat == S_PCT)
  {
    if (me_enabled)
    {
      for (long cp : S.change_points)
        if (cp == S.step)
          me->prio = --S.low_prio;
      if (must_leave)
        me->prio = --S.low_prio;
    }
    if (!T.empty() && (R.empty() || rnd01() < S.cfg.p_timer))
      return fire(R.empty() ? T.front() : T[rndi((int)T.size())]);
    if (spinning && others.empty() && !T.empty())
      return fire(T.front());
    Thr *best = nullptr;
    for (Thr *t : R)
      if (best == nullptr || t->prio > best->prio)
        best = t;
    return best;
  }

  // S_TAPE: delay-bounded enumeration.  The default (cost 0) is the deterministic non-preemptive
  // schedule: keep running the current thread; when it cannot or must not continue, take the next
  // runnable thread in cyclic id order; when nothing is runnable, fire the earliest timer.  Every
  // other option (another thread, a timer firing while threads are runnable) costs one unit of
  // the bound, so the tree of executions is finite even for spin-waiting programs.
  {
    struct Opt { Thr *t; bool timer; int cost; };
    std::vector<Opt> opts;
    bool stay = me_enabled && !(must_leave && (!others.empty() || (spinning && !T.empty())));
    Thr *dflt = nullptr;
    if (stay)
      dflt = me;
    else if (!others.empty())
    {
      int start = me ? me->id : -1;
      for (Thr *t : others)
        if (t->id > start) { dflt = t; break; }
      if (dflt == nullptr)
        dflt = others.front();
    }
    if (dflt != nullptr)
      opts.push_back(Opt{dflt, false, 0});
    else if (!T.empty())
      opts.push_back(Opt{T.front(), true, 0});
    bool budget = S.preempt_used < S.cfg.preempt_bound;
    if (budget)
    {
      for (Thr *t : others)
        if (t != dflt)
          opts.push_back(Opt{t, false, 1});
      for (Thr *t : T)
        if (!(dflt == nullptr && t == T.front()))
          opts.push_back(Opt{t, true, 1});
    }
    if (opts.empty())
      stuck(1, "deadlock (tape)");
    int c = take_choice((int)opts.size());
    S.preempt_used += opts[c].cost;
    return opts[c].timer ? fire(opts[c].t) : opts[c].t;
  }
}

void switch_to(Thr *n, bool wait_back)
{
  Thr *me = self;
  if (n == me)
    return;
  std::unique_lock<std::mutex> lk(S.G);
  n->go = true;
  n->cv.notify_one();
  if (!wait_back)
    return;
  while (!me->go)
    me->cv.wait(lk);
  me->go = false;
}

void account_step()
{
  S.step++;
  if (S.cfg.on_point && self != nullptr)
  {
    self->noyield++;
    S.cfg.on_point(self->id, self->pend_kind, self->pend_obj);
    self->noyield--;
  }
  if (!S.fair && S.step > S.cfg.max_steps)
  {
    S.fair            = true;
    S.res.turned_fair = true;
  }
  if (S.step > S.cfg.max_steps + S.cfg.fair_extra_steps)
    stuck(2, "livelock: step budget exhausted under the fair schedule");
}

void block(St st, const void *obj, bool timed, int64_t deadline)
{
  Thr *me      = self;
  me->st       = st;
  me->obj      = obj;
  me->timed    = timed;
  me->deadline = deadline;
  me->timedout = false;
  me->idle     = 0;
  account_step();
  Thr *n = pick(false);
  S.last_ran = n;
  switch_to(n, true);
}

}  // namespace

const char *kind_name(Kind k)
{
  static const char *n[] = {"load", "store", "xchg", "cas", "rmw", "flag", "lock", "trylock", "unlock",
                            "cvwait", "notify", "spawn", "join", "exit", "yield", "sleep", "futwait",
                            "promset", "user"};
  return n[k];
}

void set_on_stuck(std::function<void(int, const std::string &)> f) { g_on_stuck = std::move(f); }
bool active() { return S.active && self != nullptr; }
int self_id() { return self ? self->id : -1; }
int64_t now_ns() { return S.now; }
void advance_ns(int64_t d) { S.now += d; }
long step() { return S.step; }
std::vector<std::string> &log_lines() { return S.log; }
void emit(const std::string &l) { S.log.push_back(l); }

void name_object(const void *obj, const std::string &name) { S.names[obj] = name; }
std::string object_name(const void *obj)
{
  auto it = S.names.find(obj);
  if (it != S.names.end())
    return it->second;
  return "?";
}

std::string describe_threads()
{
  std::ostringstream o;
  o << "step=" << S.step << " now_ns=" << S.now << " fair=" << S.fair << "\n";
  for (auto &t : S.thrs)
  {
    o << "  T" << t->id << " " << st_name(t->st);
    if (t->st != RUNNABLE && t->st != DONE)
      o << " on " << object_name(t->obj) << (t->timed ? " timed dl=" + std::to_string(t->deadline) : "");
    o << " pending=" << kind_name(t->pend_kind) << "(" << object_name(t->pend_obj) << ")\n";
  }
  return o.str();
}

void oplog(Kind k, const void *obj, long long value, int ok)
{
  if (!S.active || self == nullptr || !S.cfg.log_ops || self->noyield > 0)
    return;
  char buf[256];
  snprintf(buf, sizeof buf, "{\"e\":\"op\",\"t\":%d,\"k\":\"%s\",\"o\":\"%s\",\"v\":%lld,\"ok\":%d}", self->id,
           kind_name(k), object_name(obj).c_str(), value, ok);
  S.log.push_back(buf);
}

NoYield::NoYield()
{
  if (self)
    self->noyield++;
}
NoYield::~NoYield()
{
  if (self)
    self->noyield--;
}

void mutated()
{
  if (self)
    self->did_mutate = true;
}

// Real-time watchdog: the baton scheduler only sees the operations of the shimmed primitives.  If the code
// under test blocks in (or spins on) something else, no scheduling point is ever reached again and the
// process would hang until the driver's timeout.  Leave with status 5 instead (the driver reports a broken
// check: the engine cannot decide whether this is a deadlock of the code or a primitive it does not control).
static std::atomic<unsigned long> g_progress{0};
static void start_watchdog()
{
  static bool started = false;
  if (started)
    return;
  started = true;
  long limit = 120;
  if (const char *e = getenv("VERIF_HANG_SECS"))
    limit = atol(e) > 0 ? atol(e) : limit;
  std::thread([limit]() {
    unsigned long last = g_progress.load();
    long quiet         = 0;
    for (;;)
    {
      ::sleep(1);
      unsigned long now = g_progress.load();
      if (now != last || !S.active)
      {
        last  = now;
        quiet = 0;
        continue;
      }
      if (++quiet >= limit)
      {
        fprintf(stderr,
                "[vsched] HANG: no scheduling point for %ld s of real time - a thread is blocked in or spinning on "
                "something the scheduler does not control\n",
                limit);
        fflush(stderr);
        _exit(5);
      }
    }
  }).detach();
}

void point(Kind k, const void *obj)
{
  g_progress.fetch_add(1, std::memory_order_relaxed);
  Thr *me = self;
  if (!S.active || me == nullptr || me->noyield > 0)
    return;
  me->pend_kind = k;
  me->pend_obj  = obj;
  if (S.last_ran == me && !me->did_mutate)
    me->idle++;
  else
    me->idle = 0;
  me->did_mutate = false;
  account_step();
  Thr *n = pick(true);
  if (n != me)
    me->idle = 0;
  S.last_ran = n;
  switch_to(n, true);
}

int choose(int n)
{
  if (!S.active || self == nullptr || n <= 1)
    return 0;
  switch (S.fair ? (int)S_RR : S.cfg.strategy)
  {
    case S_RANDOM:
    case S_PCT:
      return rndi(n);
    case S_TAPE:
    {
      // option 0 is free; any other option costs one unit of the delay bound (keeps the tree of
      // executions finite when a harness choice is taken again and again, e.g. a failing exporter)
      if (S.preempt_used >= S.cfg.preempt_bound)
        return 0;
      int c = take_choice(n);
      if (c != 0)
        S.preempt_used++;
      return c;
    }
    default:
      return 0;
  }
}

bool spurious_cas()
{
  Thr *me = self;
  if (!S.active || me == nullptr || me->noyield > 0)
    return false;
  if (me->spurious_next)
  {
    me->spurious_next = false;
    return true;
  }
  if (S.fair)
    return false;
  switch (S.cfg.strategy)
  {
    case S_RANDOM:
    case S_PCT:
      return S.cfg.p_spurious_cas > 0 && rnd01() < S.cfg.p_spurious_cas;
    case S_TAPE:
      if (S.cfg.p_spurious_cas > 0 && S.preempt_used < S.cfg.preempt_bound)
      {
        int c = take_choice(2);
        if (c == 1)
          S.preempt_used++;
        return c == 1;
      }
      return false;
    default:
      return false;
  }
}

int64_t to_deadline(long double ns)
{
  const long double lim = 4.0e18L;
  if (ns <= 0)
    return S.now;
  if (ns >= lim || (long double)S.now + ns >= lim)
    return INT64_MAX / 2;
  return S.now + (int64_t)ns;
}

SteadyClock::time_point SteadyClock::now() noexcept
{
  if (S.active && self != nullptr)
    S.now += 1000;  // reading the clock takes a microsecond of virtual time
  return time_point(duration(S.now));
}

// ---- mutex --------------------------------------------------------------------------------------
void mutex_lock(MutexImpl *m)
{
  if (!active() || self->noyield > 0)
  {
    if (m->locked)
    {
      fprintf(stderr, "[vsched] mutex contended outside the scheduler / in NoYield\n");
      abort();
    }
    m->locked = true;
    m->owner  = self_id();
    return;
  }
  point(K_LOCK, m);
  while (m->locked)
    block(BLK_MUTEX, m, false, 0);
  m->locked = true;
  m->owner  = self->id;
  mutated();
  oplog(K_LOCK, m, 0, 1);
}

bool mutex_try_lock(MutexImpl *m)
{
  if (active() && self->noyield == 0)
    point(K_TRYLOCK, m);
  if (m->locked)
  {
    oplog(K_TRYLOCK, m, 0, 0);
    return false;
  }
  m->locked = true;
  m->owner  = self_id();
  mutated();
  oplog(K_TRYLOCK, m, 0, 1);
  return true;
}

static void release_mutex(MutexImpl *m)
{
  m->locked = false;
  m->owner  = -1;
  for (auto &t : S.thrs)
    if (t->st == BLK_MUTEX && t->obj == m)
      t->st = RUNNABLE;
}

void mutex_unlock(MutexImpl *m)
{
  if (!active() || self->noyield > 0)
  {
    m->locked = false;
    m->owner  = -1;
    return;
  }
  point(K_UNLOCK, m);
  release_mutex(m);
  mutated();
  oplog(K_UNLOCK, m, 0, 1);
}

// ---- condition variable ----------------------------------------------------------------------------
bool cv_wait(CvImpl *cv, MutexImpl *m, bool timed, int64_t deadline)
{
  if (!active() || self->noyield > 0)
  {
    fprintf(stderr, "[vsched] condition_variable wait outside the scheduler\n");
    abort();
  }
  point(K_CVWAIT, cv);
  release_mutex(m);
  mutated();
  oplog(K_CVWAIT, cv, timed, 1);
  block(BLK_CV, cv, timed, deadline);
  bool to = self->timedout;
  while (m->locked)
    block(BLK_MUTEX, m, false, 0);
  m->locked = true;
  m->owner  = self->id;
  oplog(K_LOCK, m, to, 2);
  return to;
}

void cv_notify(CvImpl *cv, bool all)
{
  if (!active() || self->noyield > 0)
    return;
  point(K_NOTIFY, cv);
  int woken = 0;
  for (auto &t : S.thrs)
  {
    if (t->st == BLK_CV && t->obj == cv)
    {
      t->st       = RUNNABLE;
      t->timedout = false;
      woken++;
      if (!all)
        break;
    }
  }
  if (woken)
    mutated();
  oplog(K_NOTIFY, cv, woken, 1);
}

void cv_destroy(CvImpl *) {}

// ---- threads ---------------------------------------------------------------------------------------
static void thread_main(Thr *t)
{
  self = t;
  {
    std::unique_lock<std::mutex> lk(S.G);
    while (!t->go)
      t->cv.wait(lk);
    t->go = false;
  }
  t->f();
  t->f = nullptr;
  // exit
  point(K_EXIT, t);
  t->st = DONE;
  for (auto &o : S.thrs)
    if ((o->st == BLK_JOIN && o->obj == t) || o->st == BLK_END)
      o->st = RUNNABLE;
  account_step();
  Thr *n     = pick(false);
  S.last_ran = n;
  self       = nullptr;
  std::unique_lock<std::mutex> lk(S.G);
  n->go = true;
  n->cv.notify_one();
}

ThreadImpl *thread_spawn(std::function<void()> f)
{
  if (!active())
  {
    fprintf(stderr, "[vsched] std::thread created outside vs::run\n");
    abort();
  }
  point(K_SPAWN, nullptr);
  Thr *t  = new Thr();
  t->id   = (int)S.thrs.size();
  t->f    = std::move(f);
  t->prio = (long)(S.rng() % 1000000) + 1000;
  S.thrs.emplace_back(t);
  t->os = std::thread(thread_main, t);
  mutated();
  oplog(K_SPAWN, t, t->id, 1);
  return t;
}

void thread_join(ThreadImpl *t)
{
  if (t == nullptr)
    return;
  if (active() && self->noyield == 0)
  {
    point(K_JOIN, t);
    while (t->st != DONE)
      block(BLK_JOIN, t, false, 0);
    oplog(K_JOIN, t, t->id, 1);
  }
  // the OS thread is joined at the end of vs::run
}

void thread_detach(ThreadImpl *) {}
int thread_vid(ThreadImpl *t) { return t->id; }

void do_yield()
{
  if (!active() || self->noyield > 0)
    return;
  // a yield takes (virtual) time: a loop that polls a clock between yields makes progress even when
  // every other thread is blocked on a timer
  S.now += S.cfg.yield_ns;
  self->yield_req = true;
  point(K_YIELD, nullptr);
}

void do_sleep_until(int64_t deadline)
{
  if (!active() || self->noyield > 0)
    return;
  point(K_SLEEP, nullptr);
  if (S.now >= deadline)
    return;
  block(BLK_SLEEP, nullptr, true, deadline);
}

// ---- future / promise ------------------------------------------------------------------------------
bool fut_wait(FutImpl *f, bool timed, int64_t deadline)
{
  if (!active() || self->noyield > 0)
    return f->ready;
  point(K_FUTWAIT, f);
  if (f->ready)
    return true;
  if (timed && S.now >= deadline)
    return false;
  block(BLK_FUT, f, timed, deadline);
  return f->ready;
}

void fut_set(FutImpl *f)
{
  if (active() && self->noyield == 0)
    point(K_PROMSET, f);
  f->ready = true;
  for (auto &t : S.thrs)
    if (t->st == BLK_FUT && t->obj == f)
    {
      t->st       = RUNNABLE;
      t->timedout = false;
    }
  mutated();
}

// ---- run -------------------------------------------------------------------------------------------
Result run(const Config &cfg, const std::function<void()> &body)
{
  assert(!S.active);
  start_watchdog();
  g_progress.fetch_add(1, std::memory_order_relaxed);
  S.cfg = cfg;
  S.res = Result();
  S.rng.seed(cfg.seed * 0x9E3779B97F4A7C15ULL + 12345);
  S.now          = 0;
  S.step         = 0;
  S.fair         = false;
  S.preempt_used = 0;
  S.tape_pos     = 0;
  S.low_prio     = 0;
  S.last_ran     = nullptr;
  S.change_points.clear();
  S.log.clear();
  S.names.clear();
  if (cfg.strategy == S_PCT)
    for (int i = 0; i < cfg.pct_depth - 1; ++i)
      S.change_points.push_back(1 + (long)(S.rng() % (uint64_t)std::max(1L, cfg.pct_len)));
  S.thrs.clear();
  Thr *t0  = new Thr();
  t0->id   = 0;
  t0->prio = (long)(S.rng() % 1000000) + 1000;
  S.thrs.emplace_back(t0);
  self       = t0;
  S.last_ran = t0;
  S.active   = true;

  body();

  // wait until every other virtual thread has finished
  for (;;)
  {
    bool all = true;
    for (auto &t : S.thrs)
      if (t.get() != t0 && t->st != DONE)
        all = false;
    if (all)
      break;
    block(BLK_END, nullptr, false, 0);
  }
  S.active = false;
  for (auto &t : S.thrs)
    if (t->os.joinable())
      t->os.join();
  S.res.steps = S.step;
  self        = nullptr;
  S.thrs.clear();
  return S.res;
}

}  // namespace vs
