// Token-renaming shim: force-included (-include) in front of every translation unit of the
// "shim" flavour.  /repo is not modified.  All standard headers are pulled in FIRST with their
// genuine meaning; afterwards the tokens below name the deterministic-scheduler classes of
// engine/vsched.h.  (Header names inside #include <...> are not macro-expanded.)
#pragma once
#include <bits/stdc++.h>
#include "engine/vsched.h"

namespace std
{
template <class T>
using verif_atomic = ::vs::Atomic<T>;
using verif_atomic_flag         = ::vs::AtomicFlag;
using verif_mutex               = ::vs::Mutex;
using verif_condition_variable  = ::vs::ConditionVariable;
using verif_condition_variable_any = ::vs::ConditionVariableAny;
using verif_recursive_mutex       = ::vs::RecursiveMutex;
using verif_timed_mutex           = ::vs::TimedMutex;
using verif_recursive_timed_mutex = ::vs::RecursiveMutex;
using verif_shared_mutex          = ::vs::SharedMutex;
using verif_shared_timed_mutex    = ::vs::SharedMutex;
using verif_thread              = ::vs::Thread;
template <class T>
using verif_promise = ::vs::Promise<T>;
template <class T>
using verif_future = ::vs::Future<T>;
namespace verif_this_thread = ::vs::this_thread_;
namespace chrono
{
using verif_steady_clock = ::vs::SteadyClock;
}
}  // namespace std

#define atomic verif_atomic
#define atomic_flag verif_atomic_flag
#define mutex verif_mutex
#define condition_variable verif_condition_variable
#define condition_variable_any verif_condition_variable_any
#define recursive_mutex verif_recursive_mutex
#define timed_mutex verif_timed_mutex
#define recursive_timed_mutex verif_recursive_timed_mutex
#define shared_mutex verif_shared_mutex
#define shared_timed_mutex verif_shared_timed_mutex
#define thread verif_thread
#define this_thread verif_this_thread
#define promise verif_promise
#define future verif_future
#define steady_clock verif_steady_clock
#define VERIF_SHIM 1
