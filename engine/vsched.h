// Deterministic controlled scheduler for the *unmodified* opentelemetry-cpp sources.
//
// The SDK is recompiled with `-include engine/stdshim.h`, which renames the tokens
// atomic / atomic_flag / mutex / condition_variable / thread / this_thread / steady_clock /
// promise / future to the classes below.  Real OS threads are used (thread_local keeps working)
// but exactly one of them runs at a time: every synchronisation operation first calls
// vs::point(), where the scheduler decides who continues.  Timers (wait_for, sleep_for, future
// wait_for) are scheduler choices backed by a virtual clock.  Consequently every execution is
// sequentially consistent and reproducible from (seed | choice tape).
//
// This header is included BEFORE the renaming macros, so it sees the genuine std:: names.
#pragma once
#include <atomic>
#include <chrono>
#include <condition_variable>
#include <cstdint>
#include <functional>
#include <future>
#include <tuple>
#include <type_traits>
#include <utility>
#include <memory>
#include <mutex>
#include <string>
#include <thread>
#include <vector>

namespace vs
{
enum Kind : uint8_t
{
  K_LOAD, K_STORE, K_XCHG, K_CAS, K_RMW, K_FLAG,
  K_LOCK, K_TRYLOCK, K_UNLOCK, K_CVWAIT, K_NOTIFY,
  K_SPAWN, K_JOIN, K_EXIT, K_YIELD, K_SLEEP, K_FUTWAIT, K_PROMSET, K_USER
};
const char *kind_name(Kind k);

enum Strategy { S_RANDOM = 0, S_PCT = 1, S_TAPE = 2, S_RR = 3, S_THREADS = 4 };

struct Config
{
  uint64_t seed         = 1;
  int strategy          = S_RANDOM;
  long max_steps        = 20000;   // after this many points the scheduler turns fair (round robin)
  long fair_extra_steps = 20000;   // ... and after this many more the execution is declared stuck
  double p_timer        = 0.05;    // random: probability of firing a timer while threads are runnable
  double p_switch       = 0.5;     // random: probability of leaving the running thread at a point
  double p_spurious_cas = 0.02;    // random: probability that an otherwise successful weak CAS fails
  int pct_depth         = 3;
  long pct_len          = 400;
  int preempt_bound     = 2;       // tape/DFS: non-forced switches (+ timer firings, spurious CAS)
  std::vector<int> tape;           // S_TAPE: choice indices; S_THREADS: thread ids to run, in order
  bool log_ops          = false;   // log every synchronisation operation (Level B)
  int64_t yield_ns      = 20000;   // virtual time consumed by a this_thread::yield()
  int spin_limit        = 64;      // consecutive non-mutating points before a thread is descheduled
  std::function<void(int tid, Kind k, const void *obj)> on_point;  // called at every point (NoYield)
};

struct Choice { int n; int c; };

struct Result
{
  int status = 0;          // 0 finished, 1 deadlock, 2 livelock (step budget under fair schedule)
  long steps = 0;
  std::vector<Choice> choices;   // S_TAPE: every recorded choice (n options, index taken)
  int tape_mismatch = -1;        // S_THREADS: first position at which the wanted thread was not enabled
  bool turned_fair = false;
};

// Runs `body` as virtual thread 0 on the calling OS thread; returns when every virtual thread has
// finished.  If the execution gets stuck (deadlock, or livelock under the fair schedule) the
// `on_stuck` callback is invoked (status, description) and must not return (typically it flushes
// logs and calls _exit); the default prints and _exit(3)s.
Result run(const Config &cfg, const std::function<void()> &body);
void set_on_stuck(std::function<void(int, const std::string &)> f);

bool active();                       // inside vs::run on a virtual thread
int self_id();                       // virtual thread id or -1
void point(Kind k, const void *obj); // scheduling point, called BEFORE the operation
void mutated();                      // the operation just performed changed shared state
int choose(int n);                   // harness-visible nondeterminism (exporter results, ...)
bool spurious_cas();                 // may a weak CAS fail spuriously now?
int64_t now_ns();                    // virtual clock
void advance_ns(int64_t d);
long step();
std::string describe_threads();

void oplog(Kind k, const void *obj, long long value, int ok);  // Level-B operation log
void name_object(const void *obj, const std::string &name);
std::string object_name(const void *obj);
void emit(const std::string &json_line);     // append a (Level-A) event line to the execution log
std::vector<std::string> &log_lines();       // the execution's log (cleared by run())

struct NoYield
{
  NoYield();
  ~NoYield();
};

// ---- blocking primitives (implemented in vsched.cc) -------------------------------------------
struct MutexImpl
{
  int owner = -1;  // virtual thread id
  bool locked = false;
};
void mutex_lock(MutexImpl *m);
bool mutex_try_lock(MutexImpl *m);
void mutex_unlock(MutexImpl *m);

struct CvImpl { int dummy = 0; };
// Releases m, blocks until notified or (timed) the scheduler fires the timer. Re-acquires m.
// Returns true iff it timed out.
bool cv_wait(CvImpl *cv, MutexImpl *m, bool timed, int64_t deadline_ns);
void cv_notify(CvImpl *cv, bool all);
void cv_destroy(CvImpl *cv);

struct ThreadImpl;
ThreadImpl *thread_spawn(std::function<void()> f);
void thread_join(ThreadImpl *t);
void thread_detach(ThreadImpl *t);
int thread_vid(ThreadImpl *t);

void do_yield();
void do_sleep_until(int64_t deadline_ns);

struct FutImpl
{
  bool ready = false;
};
// returns true if ready, false if timed out
bool fut_wait(FutImpl *f, bool timed, int64_t deadline_ns);
void fut_set(FutImpl *f);

int64_t to_deadline(long double ns_from_now);

template <class Rep, class Period>
inline int64_t deadline_after(const std::chrono::duration<Rep, Period> &d)
{
  long double ns = static_cast<long double>(d.count()) * static_cast<long double>(Period::num) /
                   static_cast<long double>(Period::den) * 1e9L;
  return to_deadline(ns);
}

// ---- std replacements ------------------------------------------------------------------------
struct SteadyClock
{
  typedef std::chrono::nanoseconds duration;
  typedef duration::rep rep;
  typedef duration::period period;
  typedef std::chrono::time_point<SteadyClock, duration> time_point;
  static constexpr bool is_steady = true;
  static time_point now() noexcept;
};

template <class T>
class Atomic
{
  T v_;

public:
  typedef T value_type;
  Atomic() noexcept : v_() {}
  constexpr Atomic(T v) noexcept : v_(v) {}
  Atomic(const Atomic &)            = delete;
  Atomic &operator=(const Atomic &) = delete;
  bool is_lock_free() const noexcept { return true; }

  T load(std::memory_order = std::memory_order_seq_cst) const noexcept
  {
    point(K_LOAD, this);
    T r = v_;
    oplog(K_LOAD, this, tolog(r), 1);
    return r;
  }
  void store(T d, std::memory_order = std::memory_order_seq_cst) noexcept
  {
    point(K_STORE, this);
    if (!(v_ == d)) mutated();
    v_ = d;
    oplog(K_STORE, this, tolog(d), 1);
  }
  T exchange(T d, std::memory_order = std::memory_order_seq_cst) noexcept
  {
    point(K_XCHG, this);
    T r = v_;
    if (!(v_ == d)) mutated();
    v_ = d;
    oplog(K_XCHG, this, tolog(r), 1);
    return r;
  }
  bool compare_exchange_strong(T &e, T d, std::memory_order = std::memory_order_seq_cst,
                               std::memory_order = std::memory_order_seq_cst) noexcept
  {
    point(K_CAS, this);
    if (v_ == e)
    {
      v_ = d;
      mutated();
      oplog(K_CAS, this, tolog(d), 1);
      return true;
    }
    e = v_;
    oplog(K_CAS, this, tolog(e), 0);
    return false;
  }
  bool compare_exchange_weak(T &e, T d, std::memory_order = std::memory_order_seq_cst,
                             std::memory_order = std::memory_order_seq_cst) noexcept
  {
    point(K_CAS, this);
    if (v_ == e)
    {
      if (spurious_cas())
      {
        oplog(K_CAS, this, tolog(e), 2);
        return false;
      }
      v_ = d;
      mutated();
      oplog(K_CAS, this, tolog(d), 1);
      return true;
    }
    e = v_;
    oplog(K_CAS, this, tolog(e), 0);
    return false;
  }
  template <class U>
  T fetch_add(U x, std::memory_order = std::memory_order_seq_cst) noexcept
  {
    point(K_RMW, this);
    T r = v_;
    v_  = v_ + x;
    mutated();
    oplog(K_RMW, this, tolog(r), 1);
    return r;
  }
  template <class U>
  T fetch_sub(U x, std::memory_order = std::memory_order_seq_cst) noexcept
  {
    point(K_RMW, this);
    T r = v_;
    v_  = v_ - x;
    mutated();
    oplog(K_RMW, this, tolog(r), 1);
    return r;
  }
  template <class U>
  T fetch_or(U x, std::memory_order = std::memory_order_seq_cst) noexcept
  {
    point(K_RMW, this);
    T r = v_;
    v_  = v_ | x;
    mutated();
    return r;
  }
  template <class U>
  T fetch_and(U x, std::memory_order = std::memory_order_seq_cst) noexcept
  {
    point(K_RMW, this);
    T r = v_;
    v_  = v_ & x;
    mutated();
    return r;
  }
  operator T() const noexcept { return load(); }
  T operator=(T d) noexcept
  {
    store(d);
    return d;
  }
  T operator++() noexcept { return fetch_add(1) + 1; }
  T operator++(int) noexcept { return fetch_add(1); }
  T operator--() noexcept { return fetch_sub(1) - 1; }
  T operator--(int) noexcept { return fetch_sub(1); }
  template <class U>
  T operator+=(U x) noexcept { return fetch_add(x) + x; }
  template <class U>
  T operator-=(U x) noexcept { return fetch_sub(x) - x; }
  template <class U>
  T operator|=(U x) noexcept { return fetch_or(x) | x; }
  template <class U>
  T operator&=(U x) noexcept { return fetch_and(x) & x; }

  // harness-only, no scheduling point
  T peek() const noexcept { return v_; }

private:
  template <class X>
  static typename std::enable_if<std::is_arithmetic<X>::value || std::is_enum<X>::value, long long>::type
  tolog(X x) { return static_cast<long long>(x); }
  template <class X>
  static typename std::enable_if<std::is_pointer<X>::value, long long>::type
  tolog(X x) { return x == nullptr ? 0 : 1; }
  template <class X>
  static typename std::enable_if<!std::is_arithmetic<X>::value && !std::is_enum<X>::value &&
                                     !std::is_pointer<X>::value, long long>::type
  tolog(const X &) { return -1; }
};

class AtomicFlag
{
  bool v_;

public:
  AtomicFlag() noexcept : v_(false) {}
  AtomicFlag(int v) noexcept : v_(v != 0) {}
  AtomicFlag(const AtomicFlag &)            = delete;
  AtomicFlag &operator=(const AtomicFlag &) = delete;
  bool test_and_set(std::memory_order = std::memory_order_seq_cst) noexcept
  {
    point(K_FLAG, this);
    bool r = v_;
    if (!v_) mutated();
    v_ = true;
    oplog(K_FLAG, this, r, 1);
    return r;
  }
  void clear(std::memory_order = std::memory_order_seq_cst) noexcept
  {
    point(K_FLAG, this);
    if (v_) mutated();
    v_ = false;
  }
  bool test(std::memory_order = std::memory_order_seq_cst) const noexcept
  {
    point(K_FLAG, this);
    return v_;
  }
};

class Mutex
{
  MutexImpl m_;

public:
  Mutex() noexcept {}
  Mutex(const Mutex &)            = delete;
  Mutex &operator=(const Mutex &) = delete;
  void lock() { mutex_lock(&m_); }
  bool try_lock() { return mutex_try_lock(&m_); }
  void unlock() { mutex_unlock(&m_); }
  MutexImpl *impl() { return &m_; }
  typedef MutexImpl *native_handle_type;
};

enum class CvStatus { no_timeout, timeout };

class ConditionVariable
{
  CvImpl cv_;

public:
  ConditionVariable() {}
  ~ConditionVariable() { cv_destroy(&cv_); }
  ConditionVariable(const ConditionVariable &)            = delete;
  ConditionVariable &operator=(const ConditionVariable &) = delete;
  void notify_one() noexcept { cv_notify(&cv_, false); }
  void notify_all() noexcept { cv_notify(&cv_, true); }
  void wait(std::unique_lock<Mutex> &lk) { cv_wait(&cv_, lk.mutex()->impl(), false, 0); }
  template <class Pred>
  void wait(std::unique_lock<Mutex> &lk, Pred pred)
  {
    while (!pred()) wait(lk);
  }
  template <class Rep, class Period>
  std::cv_status wait_for(std::unique_lock<Mutex> &lk, const std::chrono::duration<Rep, Period> &d)
  {
    int64_t dl = deadline_after(d);
    if (now_ns() >= dl)
    {
      // zero / negative duration: still a scheduling point, mutex released and re-acquired
      lk.unlock();
      do_yield();
      lk.lock();
      return std::cv_status::timeout;
    }
    return cv_wait(&cv_, lk.mutex()->impl(), true, dl) ? std::cv_status::timeout
                                                        : std::cv_status::no_timeout;
  }
  template <class Rep, class Period, class Pred>
  bool wait_for(std::unique_lock<Mutex> &lk, const std::chrono::duration<Rep, Period> &d, Pred pred)
  {
    int64_t dl = deadline_after(d);
    while (!pred())
    {
      if (now_ns() >= dl) return pred();
      if (cv_wait(&cv_, lk.mutex()->impl(), true, dl)) return pred();
    }
    return true;
  }
  template <class Clock, class Dur>
  std::cv_status wait_until(std::unique_lock<Mutex> &lk, const std::chrono::time_point<Clock, Dur> &tp)
  {
    return wait_for(lk, tp - Clock::now());
  }
  template <class Clock, class Dur, class Pred>
  bool wait_until(std::unique_lock<Mutex> &lk, const std::chrono::time_point<Clock, Dur> &tp, Pred pred)
  {
    return wait_for(lk, tp - Clock::now(), pred);
  }
};

// ---- further lock types, built from the primitives above (so every operation is a scheduling point) ----
// A change to the code under test may replace a std::mutex by another standard lock type; without these
// classes such a lock would block for real inside the baton scheduler and the harness would hang.
class RecursiveMutex
{
  Mutex m_;
  ConditionVariable cv_;
  std::thread::id owner_{};
  int depth_ = 0;

public:
  RecursiveMutex() {}
  RecursiveMutex(const RecursiveMutex &)            = delete;
  RecursiveMutex &operator=(const RecursiveMutex &) = delete;
  void lock()
  {
    std::unique_lock<Mutex> lk(m_);
    auto me = std::this_thread::get_id();
    while (depth_ > 0 && owner_ != me) cv_.wait(lk);
    owner_ = me;
    ++depth_;
  }
  bool try_lock()
  {
    std::unique_lock<Mutex> lk(m_);
    auto me = std::this_thread::get_id();
    if (depth_ > 0 && owner_ != me) return false;
    owner_ = me;
    ++depth_;
    return true;
  }
  template <class Rep, class Period>
  bool try_lock_for(const std::chrono::duration<Rep, Period> &d)
  {
    std::unique_lock<Mutex> lk(m_);
    auto me = std::this_thread::get_id();
    if (!cv_.wait_for(lk, d, [&] { return depth_ == 0 || owner_ == me; })) return false;
    owner_ = me;
    ++depth_;
    return true;
  }
  template <class Clock, class Dur>
  bool try_lock_until(const std::chrono::time_point<Clock, Dur> &tp)
  {
    return try_lock_for(tp - Clock::now());
  }
  void unlock()
  {
    bool wake;
    {
      std::unique_lock<Mutex> lk(m_);
      wake = (--depth_ == 0);
    }
    if (wake) cv_.notify_all();
  }
};

class TimedMutex
{
  Mutex m_;
  ConditionVariable cv_;
  bool held_ = false;

public:
  TimedMutex() {}
  TimedMutex(const TimedMutex &)            = delete;
  TimedMutex &operator=(const TimedMutex &) = delete;
  void lock()
  {
    std::unique_lock<Mutex> lk(m_);
    while (held_) cv_.wait(lk);
    held_ = true;
  }
  bool try_lock()
  {
    std::unique_lock<Mutex> lk(m_);
    if (held_) return false;
    held_ = true;
    return true;
  }
  template <class Rep, class Period>
  bool try_lock_for(const std::chrono::duration<Rep, Period> &d)
  {
    std::unique_lock<Mutex> lk(m_);
    if (!cv_.wait_for(lk, d, [&] { return !held_; })) return false;
    held_ = true;
    return true;
  }
  template <class Clock, class Dur>
  bool try_lock_until(const std::chrono::time_point<Clock, Dur> &tp)
  {
    return try_lock_for(tp - Clock::now());
  }
  void unlock()
  {
    {
      std::unique_lock<Mutex> lk(m_);
      held_ = false;
    }
    cv_.notify_all();
  }
};

// reader/writer lock (std::shared_mutex / std::shared_timed_mutex); no fairness promise, like the standard
class SharedMutex
{
  Mutex m_;
  ConditionVariable cv_;
  int readers_ = 0;
  bool writer_ = false;

public:
  SharedMutex() {}
  SharedMutex(const SharedMutex &)            = delete;
  SharedMutex &operator=(const SharedMutex &) = delete;
  void lock()
  {
    std::unique_lock<Mutex> lk(m_);
    while (writer_ || readers_ > 0) cv_.wait(lk);
    writer_ = true;
  }
  bool try_lock()
  {
    std::unique_lock<Mutex> lk(m_);
    if (writer_ || readers_ > 0) return false;
    writer_ = true;
    return true;
  }
  template <class Rep, class Period>
  bool try_lock_for(const std::chrono::duration<Rep, Period> &d)
  {
    std::unique_lock<Mutex> lk(m_);
    if (!cv_.wait_for(lk, d, [&] { return !writer_ && readers_ == 0; })) return false;
    writer_ = true;
    return true;
  }
  template <class Clock, class Dur>
  bool try_lock_until(const std::chrono::time_point<Clock, Dur> &tp)
  {
    return try_lock_for(tp - Clock::now());
  }
  void unlock()
  {
    {
      std::unique_lock<Mutex> lk(m_);
      writer_ = false;
    }
    cv_.notify_all();
  }
  void lock_shared()
  {
    std::unique_lock<Mutex> lk(m_);
    while (writer_) cv_.wait(lk);
    ++readers_;
  }
  bool try_lock_shared()
  {
    std::unique_lock<Mutex> lk(m_);
    if (writer_) return false;
    ++readers_;
    return true;
  }
  template <class Rep, class Period>
  bool try_lock_shared_for(const std::chrono::duration<Rep, Period> &d)
  {
    std::unique_lock<Mutex> lk(m_);
    if (!cv_.wait_for(lk, d, [&] { return !writer_; })) return false;
    ++readers_;
    return true;
  }
  template <class Clock, class Dur>
  bool try_lock_shared_until(const std::chrono::time_point<Clock, Dur> &tp)
  {
    return try_lock_shared_for(tp - Clock::now());
  }
  void unlock_shared()
  {
    bool wake;
    {
      std::unique_lock<Mutex> lk(m_);
      wake = (--readers_ == 0);
    }
    if (wake) cv_.notify_all();
  }
};

// std::condition_variable_any: works with every lock type above (and with user-defined BasicLockables)
class ConditionVariableAny
{
  Mutex im_;
  ConditionVariable cv_;

public:
  ConditionVariableAny() {}
  ConditionVariableAny(const ConditionVariableAny &)            = delete;
  ConditionVariableAny &operator=(const ConditionVariableAny &) = delete;
  void notify_one() noexcept
  {
    { std::lock_guard<Mutex> g(im_); }
    cv_.notify_one();
  }
  void notify_all() noexcept
  {
    { std::lock_guard<Mutex> g(im_); }
    cv_.notify_all();
  }
  template <class L>
  void wait(L &l)
  {
    std::unique_lock<Mutex> lk(im_);
    l.unlock();
    cv_.wait(lk);
    lk.unlock();
    l.lock();
  }
  template <class L, class Pred>
  void wait(L &l, Pred pred)
  {
    while (!pred()) wait(l);
  }
  template <class L, class Rep, class Period>
  std::cv_status wait_for(L &l, const std::chrono::duration<Rep, Period> &d)
  {
    std::unique_lock<Mutex> lk(im_);
    l.unlock();
    std::cv_status st = cv_.wait_for(lk, d);
    lk.unlock();
    l.lock();
    return st;
  }
  template <class L, class Rep, class Period, class Pred>
  bool wait_for(L &l, const std::chrono::duration<Rep, Period> &d, Pred pred)
  {
    int64_t dl = deadline_after(d);
    while (!pred())
    {
      int64_t left = dl - now_ns();
      if (left <= 0) return pred();
      if (wait_for(l, std::chrono::nanoseconds(left)) == std::cv_status::timeout) return pred();
    }
    return true;
  }
  template <class L, class Clock, class Dur>
  std::cv_status wait_until(L &l, const std::chrono::time_point<Clock, Dur> &tp)
  {
    return wait_for(l, tp - Clock::now());
  }
  template <class L, class Clock, class Dur, class Pred>
  bool wait_until(L &l, const std::chrono::time_point<Clock, Dur> &tp, Pred pred)
  {
    return wait_for(l, tp - Clock::now(), pred);
  }
};

class Thread
{
  ThreadImpl *t_ = nullptr;

public:
  typedef std::thread::id id;
  typedef ThreadImpl *native_handle_type;
  Thread() noexcept {}
  Thread(const Thread &) = delete;
  Thread(Thread &&o) noexcept : t_(o.t_) { o.t_ = nullptr; }
  template <class F, class... Args,
            class = typename std::enable_if<!std::is_same<typename std::decay<F>::type, Thread>::value>::type>
  explicit Thread(F &&f, Args &&...args)
  {
    auto sp = std::make_shared<std::tuple<typename std::decay<F>::type, typename std::decay<Args>::type...>>(
        std::forward<F>(f), std::forward<Args>(args)...);
    t_ = thread_spawn([sp]() { invoke_tuple(*sp, std::index_sequence_for<Args...>{}); });
  }
  ~Thread()
  {
    if (t_ != nullptr) std::terminate();
  }
  Thread &operator=(Thread &&o) noexcept
  {
    if (t_ != nullptr) std::terminate();
    t_   = o.t_;
    o.t_ = nullptr;
    return *this;
  }
  Thread &operator=(const Thread &) = delete;
  bool joinable() const noexcept { return t_ != nullptr; }
  void join()
  {
    thread_join(t_);
    t_ = nullptr;
  }
  void detach()
  {
    thread_detach(t_);
    t_ = nullptr;
  }
  int vid() const { return t_ ? thread_vid(t_) : -1; }
  static unsigned hardware_concurrency() noexcept { return 4; }
  void swap(Thread &o) noexcept { std::swap(t_, o.t_); }

private:
  template <class Tup, size_t... I>
  static void invoke_tuple(Tup &t, std::index_sequence<I...>)
  {
    std::invoke(std::move(std::get<0>(t)), std::move(std::get<I + 1>(t))...);
  }
};

namespace this_thread_
{
inline void yield() noexcept { do_yield(); }
template <class Rep, class Period>
inline void sleep_for(const std::chrono::duration<Rep, Period> &d)
{
  do_sleep_until(deadline_after(d));
}
template <class Clock, class Dur>
inline void sleep_until(const std::chrono::time_point<Clock, Dur> &tp)
{
  sleep_for(tp - Clock::now());
}
inline std::thread::id get_id() noexcept { return std::this_thread::get_id(); }
}  // namespace this_thread_

template <class T>
class Future;

template <class T>
struct SharedState
{
  FutImpl f;
  typename std::conditional<std::is_void<T>::value, char, T>::type value{};
};

template <class T>
class Promise
{
  std::shared_ptr<SharedState<T>> s_;

public:
  Promise() : s_(std::make_shared<SharedState<T>>()) {}
  Promise(Promise &&) noexcept            = default;
  Promise &operator=(Promise &&) noexcept = default;
  Promise(const Promise &)                = delete;
  Future<T> get_future();
  template <class U = T>
  typename std::enable_if<std::is_void<U>::value>::type set_value()
  {
    fut_set(&s_->f);
  }
  template <class U = T>
  typename std::enable_if<!std::is_void<U>::value>::type set_value(const U &v)
  {
    s_->value = v;
    fut_set(&s_->f);
  }
};

template <class T>
class Future
{
  std::shared_ptr<SharedState<T>> s_;
  friend class Promise<T>;

public:
  Future() noexcept {}
  Future(Future &&) noexcept            = default;
  Future &operator=(Future &&) noexcept = default;
  Future(const Future &)                = delete;
  bool valid() const noexcept { return static_cast<bool>(s_); }
  void wait() const { fut_wait(&s_->f, false, 0); }
  template <class Rep, class Period>
  std::future_status wait_for(const std::chrono::duration<Rep, Period> &d) const
  {
    return fut_wait(&s_->f, true, deadline_after(d)) ? std::future_status::ready
                                                      : std::future_status::timeout;
  }
  template <class U = T>
  typename std::enable_if<std::is_void<U>::value>::type get()
  {
    wait();
    s_.reset();
  }
  template <class U = T>
  typename std::enable_if<!std::is_void<U>::value, U>::type get()
  {
    wait();
    U v = s_->value;
    s_.reset();
    return v;
  }
};

template <class T>
Future<T> Promise<T>::get_future()
{
  Future<T> f;
  f.s_ = s_;
  return f;
}

}  // namespace vs
