#!/bin/bash
# usage: recheck.sh <scratch-worktree> <seed-name> [<seed-name> ...]
# Re-runs seeded changes (/verif/seeded/<name>/patch.diff, or patch.ported.diff when present) against the CURRENT
# quick checks, in a scratch worktree of /repo (created when missing; never /repo itself).
# Prints one line per change:  <name> :: <verdict lines of the check>
WT=$1; shift
[ -d "$WT" ] || git -C /repo worktree add -q --detach "$WT" HEAD
cd "$WT" && git checkout -q -- . && git checkout -q --detach "$(git -C /repo rev-parse HEAD)"
for name in "$@"; do
  d=/verif/seeded/$name; prop=${name%%-*}
  p=$d/patch.diff; for q in $d/patch-ported*.diff; do [ -f "$q" ] && p=$q; done
  cd "$WT" && git checkout -q -- .
  if ! git apply "$p" 2>/dev/null; then echo "$name :: APPLY-FAILED"; continue; fi
  t0=$(date +%s)
  res=$(cd /verif && VERIF_REPO=$WT timeout 2400 tools/check $prop --tier quick 2>&1 | grep -E "VIOLATION property|BROKEN|done in" | head -2 | tr '\n' ' ' | cut -c1-260)
  echo "$name :: $(( $(date +%s) - t0 ))s :: $res"
  cd "$WT" && git checkout -q -- .
done
echo RECHECK_DONE
