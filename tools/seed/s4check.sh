#!/bin/bash
# usage: s4check.sh <prefix> <ID> ...   runs the quick check of <ID> against /tmp/<prefix>-<ID> with out/change1/patch.diff applied
pre=$1; shift
for ID in "$@"; do
  WT=/tmp/$pre-$ID
  cd $WT && git checkout -q -- . && git apply out/change1/patch.diff || { echo "$ID :: APPLY-FAILED"; continue; }
  t0=$(date +%s)
  out=$(cd /verif && VERIF_REPO=$WT timeout 3000 tools/check $ID --tier quick 2>&1); rc=$?
  echo "$ID change :: rc=$rc $(( $(date +%s) - t0 ))s :: $(echo "$out" | grep -E "VIOLATION property|BROKEN|done in" | head -2 | tr '\n' ' ' | cut -c1-300)"
  echo "$out" > /tmp/s4check-$ID.log
  cd $WT && git checkout -q -- .
done
echo S4CHECK_DONE
