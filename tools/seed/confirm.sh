#!/bin/bash
# usage: confirm.sh <change-dir> <prop> <ctest-regex> [worktree]
# Confirms a seeded property-breaking change in a scratch worktree with its own cmake build (<wt>/_b):
# patch applies, tree builds, related existing tests pass, demo fails with / passes without the change,
# and runs the property's quick check against the patched tree.
CD=$1; PROP=$2; RX=$3; WT=${4:-/tmp/wt-confirm}
cd $WT && git checkout -q -- .
echo "##### $CD ($PROP)"
git apply $CD/patch.diff || { echo "APPLY FAILED"; exit 1; }
if nice ninja -C $WT/_b -j8 > $WT/inc.log 2>&1; then echo "BUILD ok"; else echo "BUILD FAILED"; tail -5 $WT/inc.log; git checkout -q -- .; exit 1; fi
( cd $WT/_b && timeout 1500 ctest -j6 --timeout 600 -R "$RX" 2>&1 | tail -4 )
echo "--- demo WITH change:"; ( cd $CD && timeout 900 bash ./build.sh $WT > $WT/demo_with.log 2>&1; echo "exit=$?"; tail -3 $WT/demo_with.log | cut -c1-300 )
[ -n "$SKIPCHECK" ] || { echo "--- check WITH change:"; ( cd /verif && VERIF_REPO=$WT timeout 3000 tools/check $PROP --tier quick 2>&1 | grep -E "VIOLATION|KNOWN|BROKEN|done in|violation:" | cut -c1-330 | head -5 ); }
git checkout -q -- .
echo "--- demo WITHOUT change:"; ( cd $CD && timeout 900 bash ./build.sh $WT > $WT/demo_without.log 2>&1; echo "exit=$?"; tail -2 $WT/demo_without.log | cut -c1-300 )
