#!/bin/bash
# usage: benign.sh <ID> [worktree=/tmp/sb-<ID>]   runs the property's quick check against each property-preserving change
# /tmp/sb-<ID>/out/benign<i>/patch.diff applied to the scratch worktree; expected verdict: exit 0, no VIOLATION.
ID=$1; WT=${2:-/tmp/sb-$ID}
cd $WT && git checkout -q -- .
for d in $WT/out/benign*; do
  cd $WT && git checkout -q -- .
  if ! git apply $d/patch.diff 2>/dev/null; then echo "$ID $(basename $d) :: APPLY-FAILED"; continue; fi
  t0=$(date +%s)
  out=$(cd /verif && VERIF_REPO=$WT timeout 2400 tools/check $ID --tier quick 2>&1); rc=$?
  echo "$ID $(basename $d) :: rc=$rc $(( $(date +%s) - t0 ))s :: $(echo "$out" | grep -E "VIOLATION property|BROKEN|done in|KNOWN-FINDING" | head -3 | tr '\n' ' ' | cut -c1-300)"
  [ $rc -ne 0 ] && echo "$out" > /tmp/benign-$ID-$(basename $d).log
  cd $WT && git checkout -q -- .
done
echo BENIGN_DONE $ID
