#!/bin/bash
# usage: prepare.sh <prefix: s4|sb> <ID> ...   creates /tmp/<prefix>-<ID> (scratch worktree of /repo HEAD) with PROPERTY.json,
# ALREADY_USED.txt and the instruction file copied to /tmp (sub-agents are given nothing from /verif).
pre=$1; shift
cp /verif/tools/seed/instructions-breaking.md /tmp/s5-instructions.md
cp /verif/tools/seed/instructions-benign.md /tmp/sb-instructions.md
cp /verif/tools/seed/instructions-open.md /tmp/so-instructions.md
for id in "$@"; do
  wt=/tmp/$pre-$id
  [ -d $wt ] || git -C /repo worktree add -q --detach $wt HEAD
  python3 - "$id" "$wt" <<'PY'
import json, sys, glob, os
pid, wt = sys.argv[1], sys.argv[2]
for l in open('/verif/properties.jsonl'):
    d = json.loads(l)
    if d['id'] == pid:
        json.dump(d, open(wt + '/PROPERTY.json', 'w'), indent=1)
with open(wt + '/ALREADY_USED.txt', 'w') as f:
    for m in sorted(glob.glob('/verif/seeded/%s-change*/meta.json' % pid)):
        try:
            j = json.load(open(m))
        except Exception:
            continue
        f.write('- %s [%s]\n' % (str(j.get('summary', ''))[:600], ', '.join(j.get('files_touched', []))))
PY
done
