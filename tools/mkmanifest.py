#!/usr/bin/env python3
"""Regenerates /verif/MANIFEST.json from tools/manifest_entries/*.json (one file per claimed property)
so that the manifest stays valid while checks are being added.  Properties without an entry file are
listed under not_applicable with the reason given in tools/manifest_entries/NOT_CLAIMED.json (or a
generic 'not built yet')."""
import glob
import json
import os

V = os.path.dirname(os.path.dirname(os.path.abspath(__file__)))
props = [json.loads(l) for l in open(os.path.join(V, "properties.jsonl"))]
entries = {}
for f in sorted(glob.glob(os.path.join(V, "tools/manifest_entries/C*.json"))):
    e = json.load(open(f))
    entries[e["property_id"]] = e
# only properties whose check I have integrated and seen pass are registered
en_path = os.path.join(V, "tools/manifest_entries/ENABLED.txt")
if os.path.exists(en_path):
    enabled = set(open(en_path).read().split())
    entries = {k: v for k, v in entries.items() if k in enabled}
nc_path = os.path.join(V, "tools/manifest_entries/NOT_CLAIMED.json")
not_claimed = json.load(open(nc_path)) if os.path.exists(nc_path) else {}

checks = []
for p in props:
    pid = p["id"]
    if pid not in entries:
        continue
    e = entries[pid]
    checks.append({
        "property_id": pid,
        "quick_cmd": "tools/check %s --tier quick" % pid,
        "thorough_cmd": "tools/check %s --tier thorough" % pid,
        "evidence_file": "/verif/evidence/%s.json" % pid,
        "replay_cmd_template": "tools/check %s --replay {path}" % pid,
        "engine": e.get("engine", "tlc"),
        "level_claimed": {"category": e["category"], "text": e["text"], "design_ref": e.get("design_ref", "DESIGN.md section 3, " + pid)},
        "level_note": e["level_note"],
        "technique": e["technique"],
    })

m = {
    "version": 1,
    "setup_cmd": "tools/check setup",
    "hooks": {
        "guard": "OTEL_VERIF_HOOKS",
        "enable": "no hook is needed: every check compiles /repo's current sources itself (tools/lib/build.py, ccache); the deterministic "
                  "scheduler is injected with `-include engine/stdshim.h` (token-renaming shim), /repo is not edited. "
                  "-DOTEL_VERIF_HOOKS=1 is passed to every verification build but no guarded code exists in /repo.",
        "baseline_off_cmd": "cmake --build /repo/_build && ctest --test-dir /repo/_build -j8 --timeout 900",
        "source_commits": [],
        "add_only": True,
    },
    "engines": [
        {"name": "tlc", "path": "tools/lib/tlc.py", "serves_properties": [c["property_id"] for c in checks],
         "kind_free_text": "TLC 1.8 model checker: exhaustive BFS of the TLA+ specs in spec/, behaviour generation (hist ghost + ToJson), trace validation (Json/IOUtils, TRACE env)"},
        {"name": "vsched", "path": "engine/", "serves_properties": [c["property_id"] for c in checks if entries[c["property_id"]].get("uses_vsched")],
         "kind_free_text": "deterministic controlled scheduler for the unmodified C++ (std::atomic/mutex/condition_variable/thread/steady_clock/promise/future renamed at compile time): replay of TLC schedules, delay-bounded DFS, PCT, random; virtual clock"},
    ],
    "checks": checks,
    "notes": "All checks: tools/check <ID> --tier quick|thorough. Exit 0 = held (KNOWN-FINDING lines possible), 1 = VIOLATION line printed, 2 = the check itself is broken. known findings: /verif/known_findings.txt (read-only at run time). See DESIGN.md.",
    "not_applicable": [{"property_id": p["id"], "reason": not_claimed.get(p["id"], "check not built yet (work in progress, see DESIGN.md section 8)")}
                       for p in props if p["id"] not in entries],
}
json.dump(m, open(os.path.join(V, "MANIFEST.json"), "w"), indent=1)
print("checks:", [c["property_id"] for c in checks])
