"""Trace validation with named deviations (code -> spec), used by the C14 / C15 checks.

Same protocol as lib.trace (REJECTED_AT / ACCEPTED, executions separated by a marker event, many
executions per TLC start, a rejected execution is cut out and the rest validated again) and in
addition the trace spec prints, at acceptance,

    PrintT(<<"DEVUSED", ToJson(devAt)>>)      devAt : deviation name -> number of the execution
                                               (1-based, in file order) that first needed it

which is returned as {dev: example execution}.  The trace spec receives `Dev` through the cfg the
caller generates (the names currently listed as known), so an execution that needs an unlisted
deviation is *rejected*.  `explain()` re-validates one rejected execution against the spec's whole
deviation catalogue to name the deviation in the report (diagnostics only; the verdict is already
"rejected")."""
import concurrent.futures as cf
import json
import os
import re

from . import tlc as T
from .common import Broken

_RE_REJ = re.compile(r'<<"REJECTED_AT", (\d+)>>')
_RE_ACC = re.compile(r'<<"ACCEPTED", (\d+)>>')


def split_executions(lines, marker='"e":"Cfg"'):
    execs, cur = [], None
    for ln in lines:
        if marker in ln:
            if cur:
                execs.append(cur)
            cur = [ln]
        else:
            if cur is None:
                cur = []
            cur.append(ln)
    if cur:
        execs.append(cur)
    return execs


def fast_printed(r, tag="BEH"):
    """TLCResult.printed() without the per-character python loop: the TLA+ string escapes that TLC
    prints (backslash-quote, double backslash) are JSON string escapes."""
    pre = '<<"%s", "' % tag
    res = []
    for line in r.out.splitlines():
        if line.startswith(pre) and line.endswith('">>'):
            try:
                res.append(json.loads(json.loads('"' + line[len(pre):-3] + '"')))
            except Exception as e:
                raise Broken("cannot parse TLC output line: %s (%s)" % (line[:200], e))
    return res


def _parse(ev):
    out = []
    for ln in ev:
        try:
            out.append(json.loads(ln))
        except Exception:
            out.append(ln)
    return out


def _chunk(module, cfg, execs, rundir, tag, env_extra, timeout_s, max_rejects):
    rejected, devused, states, unvalidated = [], {}, 0, 0
    execs = list(execs)
    path = os.path.join(rundir, "trace-%s.ndjson" % tag)
    while execs:
        with open(path, "w") as f:
            for e in execs:
                for ln in e:
                    f.write(ln.rstrip("\n") + "\n")
        env = {"TRACE": path}
        if env_extra:
            env.update(env_extra)
        r = T.tlc(module, cfg, rundir=rundir, workers=1, timeout_s=timeout_s, env=env, tag="tv-" + tag, deadlock=True)
        states += r.distinct
        if _RE_ACC.search(r.out) and r.status == "ok":
            for d in fast_printed(r, "DEVUSED"):
                if isinstance(d, dict):
                    for name, idx in d.items():
                        if name not in devused and 1 <= int(idx) <= len(execs):
                            devused[name] = execs[int(idx) - 1]
            break
        m = _RE_REJ.search(r.out)
        if not m:
            raise Broken("trace validation run failed (%s, rc=%s): %s" % (r.status, r.rc, r.out[-2500:]))
        pos = int(m.group(1))
        acc, hit = 0, None
        for i, e in enumerate(execs):
            if pos <= acc + len(e):
                hit = i
                break
            acc += len(e)
        if hit is None:
            raise Broken("REJECTED_AT %d beyond the log (%d lines)" % (pos, acc))
        rejected.append((execs[hit], pos - acc - 1))
        del execs[hit]
        if len(rejected) >= max_rejects:
            unvalidated = len(execs)     # give up on this chunk: enough evidence, do not count the rest
            execs = []
            break
    try:
        os.unlink(path)
    except OSError:
        pass
    return len(execs), rejected, devused, states, unvalidated


def validate(ctx, module, cfg, lines, *, marker='"e":"Cfg"', chunk=200, parallel=4, env=None,
             timeout_s=900, max_rejects=3, tag="t"):
    execs = split_executions(lines, marker)
    chunks = [execs[i:i + chunk] for i in range(0, len(execs), chunk)]
    res = {"executions": len(execs), "accepted": 0, "rejected": [], "events": len(lines), "devused": {},
           "unvalidated": 0}
    with cf.ThreadPoolExecutor(max_workers=max(1, parallel)) as ex:
        futs = [ex.submit(_chunk, module, cfg, c, ctx.rundir.path, "%s%d" % (tag, i), env, timeout_s, max_rejects)
                for i, c in enumerate(chunks)]
        for f in futs:
            n, rej, dev, states, unval = f.result()
            res["accepted"] += n
            res["unvalidated"] += unval
            ctx.states += states
            ctx.transitions += states
            for e, off in rej:
                res["rejected"].append({"events": _parse(e), "at": off})
            for d, e in dev.items():
                res["devused"].setdefault(d, _parse(e))
    ctx.traces += res["accepted"] + len(res["rejected"])
    return res


def explain(ctx, module, cfg_all, events, *, env=None, timeout_s=300, tag="x"):
    """Which deviations of the whole catalogue (cfg_all has Dev = all names) would explain this one
    rejected execution?  Returns a list of names, [] if none does."""
    lines = [e if isinstance(e, str) else json.dumps(e) for e in events]
    n, rej, dev, states, _ = _chunk(module, cfg_all, [lines], ctx.rundir.path, "explain-" + tag, env, timeout_s, 1)
    return sorted(dev.keys()) if n == 1 and not rej else []
