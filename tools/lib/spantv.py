"""Trace validation with deviation reporting (helper for C04/C05; same protocol as lib/trace.py).

Like lib.trace.validate, but additionally returns the union of the `<<"DEVUSED", {...}>>` sets the
trace spec printed at acceptance, so that a check can classify accepted-only-through-a-deviation
executions with ctx.deviation().  A rejected execution is cut out and the remainder re-validated."""
import concurrent.futures as cf
import json
import os
import re

from . import tlc as T
from .common import Broken
from .trace import split_executions

_RE_REJ = re.compile(r'<<"REJECTED_AT", (\d+)>>')
_RE_ACC = re.compile(r'<<"ACCEPTED", (\d+)>>')
_RE_DEV = re.compile(r'<<"DEVUSED", \{([^}]*)\}>>')


def _chunk(module, cfg, execs, rundir, tag, env_extra, timeout_s, max_rejects):
    rejected, states, devs = [], 0, set()
    execs = list(execs)
    while execs:
        path = os.path.join(rundir, "trace-%s.ndjson" % tag)
        with open(path, "w") as f:
            for e in execs:
                for ln in e:
                    f.write(ln.rstrip("\n") + "\n")
        env = {"TRACE": path}
        env.update(env_extra or {})
        r = T.tlc(module, cfg, rundir=rundir, workers=1, timeout_s=timeout_s, env=env, tag="tv-" + tag, deadlock=True)
        states += r.distinct
        m = _RE_REJ.search(r.out)
        if _RE_ACC.search(r.out) and r.status == "ok":
            for d in _RE_DEV.finditer(r.out):
                devs.update(x.strip().strip('"') for x in d.group(1).split(",") if x.strip())
            break
        if not m:
            raise Broken("trace validation run failed (%s, rc=%s): %s" % (r.status, r.rc, r.out[-2500:]))
        pos = int(m.group(1))
        acc, hit = 0, None
        for i, e in enumerate(execs):
            if pos <= acc + len(e):
                hit = i
                break
            acc += len(e)
        if hit is None:
            raise Broken("REJECTED_AT %d beyond the log (%d lines)" % (pos, acc))
        rejected.append((execs[hit], pos - acc - 1))
        del execs[hit]
        if len(rejected) >= max_rejects:
            break
    try:
        os.unlink(os.path.join(rundir, "trace-%s.ndjson" % tag))
    except OSError:
        pass
    return len(execs), rejected, states, devs


def validate(ctx, module, cfg, lines, *, marker='"e":"Cfg"', chunk=200, parallel=4, env=None, timeout_s=900,
             max_rejects=5, tag="t"):
    execs = split_executions(lines, marker)
    chunks = [execs[i:i + chunk] for i in range(0, len(execs), chunk)]
    res = {"executions": len(execs), "accepted": 0, "rejected": [], "events": len(lines), "devused": set()}
    with cf.ThreadPoolExecutor(max_workers=max(1, parallel)) as ex:
        futs = [ex.submit(_chunk, module, cfg, c, ctx.rundir.path, "%s%d" % (tag, i), env, timeout_s, max_rejects)
                for i, c in enumerate(chunks)]
        for f in futs:
            n, rej, states, devs = f.result()
            res["accepted"] += n
            res["devused"] |= devs
            ctx.states += states
            ctx.transitions += states
            for e, off in rej:
                ev = []
                for ln in e:
                    try:
                        ev.append(json.loads(ln))
                    except Exception:
                        ev.append(ln)
                res["rejected"].append({"events": ev, "at": off})
    ctx.traces += res["accepted"] + len(res["rejected"])
    return res
