"""Running harness binaries: JSON lines in, JSON lines out, crash classification."""
import json
import os
import subprocess

from .build import ASAN_ENV
from .common import Broken


class HarnessResult:
    def __init__(self, rc, out, err):
        self.rc = rc
        self.lines = out
        self.err = err

    @property
    def crashed(self):
        """Sanitizer report, signal, or abort in the code under test."""
        return self.rc < 0 or self.rc in (77, 78, 134, 139, 4) or "ERROR: AddressSanitizer" in self.err \
            or "runtime error:" in self.err

    @property
    def timed_out(self):
        return self.rc == -9

    def json(self):
        res = []
        for ln in self.lines:
            ln = ln.strip()
            if not ln or ln[0] not in "{[":
                continue
            try:
                res.append(json.loads(ln))
            except Exception:
                pass
        return res


def run_harness(exe, args=(), stdin_lines=None, timeout=900, env=None, asan=True):
    e = dict(os.environ)
    if asan:
        e.update(ASAN_ENV)
    if env:
        e.update(env)
    inp = None
    if stdin_lines is not None:
        inp = "\n".join(stdin_lines) + "\n"
    try:
        p = subprocess.run([exe] + [str(a) for a in args], input=inp, stdout=subprocess.PIPE,
                           stderr=subprocess.PIPE, text=True, errors="replace", timeout=timeout, env=e)
        return HarnessResult(p.returncode, p.stdout.splitlines(), p.stderr)
    except subprocess.TimeoutExpired as t:
        out = t.stdout.decode(errors="replace") if isinstance(t.stdout, bytes) else (t.stdout or "")
        err = t.stderr.decode(errors="replace") if isinstance(t.stderr, bytes) else (t.stderr or "")
        return HarnessResult(-9, out.splitlines(), err)
