"""Per-run context: collects TLC statistics, replay/validation counts, findings; writes evidence."""
import json
import os
import re
import sys

from .common import EVIDENCE, OUT, VERIF, Broken, RunDir, Timer, log, mkdirs, seed, write_json

KNOWN_FILE = os.path.join(VERIF, "known_findings.txt")
_RE_KNOWN = re.compile(r"^known:\s+property=(\S+)\s+dev=(\S+)\s+::\s*(.*)$")
_RE_FIXED = re.compile(r"^fixed:\s+property=(\S+)\s+(\S+)\s+dev=(\S+)\s+::\s*(.*)$")


def load_known():
    """Read-only at run time.  Returns {(property, dev): what} for `known:` lines only.
    `fixed:` lines suppress nothing."""
    known = {}
    files = [KNOWN_FILE]
    if os.environ.get("VERIF_KNOWN_EXTRA"):      # development aid only (see CONVENTIONS.md)
        files.append(os.environ["VERIF_KNOWN_EXTRA"])
    for fn in files:
        if os.path.exists(fn):
            for line in open(fn):
                m = _RE_KNOWN.match(line.strip())
                if m:
                    known[(m.group(1), m.group(2))] = m.group(3)
    return known


def load_fixed():
    """{(property, dev): (commit, what)} for `fixed:` lines (informational; suppress nothing)."""
    fixed = {}
    if os.path.exists(KNOWN_FILE):
        for line in open(KNOWN_FILE):
            m = _RE_FIXED.match(line.strip())
            if m:
                fixed[(m.group(1), m.group(3))] = (m.group(2), m.group(4))
    return fixed


class Ctx:
    def __init__(self, pid, tier, level="model_checking"):
        self.pid = pid
        self.tier = tier
        self.seed = seed()
        self.level = level
        self.timer = Timer()
        self.rundir = RunDir("%s-%d" % (pid, os.getpid()))
        self.known = {d: w for (p, d), w in load_known().items() if p == pid}
        self.states = 0
        self.transitions = 0
        self.tlc_runs = []
        self.exhaustive = True
        self.traces = 0            # real executions validated + spec behaviours replayed
        self.evaluations = 0
        self.distinct = set()
        self.samples = []
        self.violations = []
        self.known_hit = {}
        self.assumptions = []
        self.extra = {}
        self.action_cov = {}

    # ---- TLC bookkeeping -------------------------------------------------------------------
    def add_tlc(self, name, r, complete=True):
        self.states += r.distinct
        self.transitions += r.generated
        s = r.summary()
        s["name"] = name
        self.tlc_runs.append(s)
        for a, (t, g) in r.coverage.items():
            pa = self.action_cov.get(a, 0)
            self.action_cov[a] = pa + t
        if r.status == "timeout" or not complete:
            self.exhaustive = False

    def known_devs(self):
        return set(self.known.keys())

    def sample(self, obj, limit=4):
        if len(self.samples) < limit:
            self.samples.append(obj)

    # ---- verdicts ------------------------------------------------------------------------
    def violation(self, what, replay):
        """`replay`: JSON-serialisable description sufficient to reproduce (behaviour/trace/input)."""
        d = mkdirs(os.path.join(OUT, self.pid))
        path = os.path.join(d, "violation-%d-%d.json" % (os.getpid(), len(self.violations)))
        write_json(path, {"property": self.pid, "what": what, "seed": self.seed, "tier": self.tier,
                          "replay": replay})
        self.violations.append({"what": what, "replay": path})
        print("VIOLATION property=%s replay=%s" % (self.pid, path), flush=True)
        log("violation:", what)

    def deviation(self, dev, what, replay):
        """A real execution/behaviour was explainable only through named deviation `dev`.
        Listed as known -> KNOWN-FINDING (once); anything else -> VIOLATION."""
        if dev in self.known:
            if dev not in self.known_hit:
                self.known_hit[dev] = {"what": what, "count": 0, "example": replay}
                print("KNOWN-FINDING: property=%s %s: %s" % (self.pid, dev, self.known[dev]), flush=True)
            self.known_hit[dev]["count"] += 1
        else:
            if not any(v["what"].startswith("[" + dev + "]") for v in self.violations):
                self.violation("[%s] %s" % (dev, what), replay)

    # ---- finish --------------------------------------------------------------------------
    def finish(self):
        cov = {
            "states": int(self.states),
            "transitions": int(self.transitions),
            "traces_validated_against_impl": int(self.traces),
            "samples": self.samples[:6] if self.samples else ["(no sample recorded)"],
            "evaluations": int(max(self.evaluations, self.traces)),
            "distinct_nontrivial": int(len(self.distinct)),
            "rule": self.extra.pop("rule", "see DESIGN.md section for this property"),
            "exhaustive": bool(self.exhaustive),
            "tlc_runs": self.tlc_runs,
            "action_coverage": self.action_cov,
            "known_findings_seen": {k: {"count": v["count"], "what": v["what"]} for k, v in self.known_hit.items()},
        }
        cov.update(self.extra)
        ev = {
            "property_id": self.pid,
            "tier": self.tier,
            "seed": int(self.seed),
            "level": self.level,
            "coverage": cov,
            "assumptions": self.assumptions,
            "wall_s": self.timer.s(),
            "violations": len(self.violations),
        }
        write_json(os.path.join(EVIDENCE, self.pid + ".json"), ev)
        self.rundir.cleanup()
        return 1 if self.violations else 0
