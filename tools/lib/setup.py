"""MANIFEST.setup_cmd: build every flavour once (warms ccache) and parse every spec."""
import glob
import os

from . import build, tlc
from .common import SPEC, Broken, log


def setup():
    try:
        build.warm()
        for f in sorted(glob.glob(os.path.join(SPEC, "*.tla"))):
            tlc.sany(f)
        log("setup ok")
        return 0
    except Broken as b:
        log("setup failed:", b)
        return 2
