"""Rebuild what a harness needs from /repo's *current working tree*.

Every translation unit is always pushed through ccache (cache under /verif/build/ccache), so an
edited source or header is recompiled because its content changed, independent of mtimes, and an
unchanged one costs a few milliseconds.  Flavours:

  asan   g++ -O1 + AddressSanitizer + UBSan (sequential replayers)
  plain  g++ -O1                              (fast samplers, fork-heavy harnesses)
  shim   g++ -O1 -include engine/stdshim.h    (std::atomic/mutex/condition_variable/thread/
                                               steady_clock/promise/future renamed to the
                                               deterministic-scheduler classes; /repo unmodified)
"""
import concurrent.futures as cf
import fcntl
import glob
import hashlib
import os

from .common import BUILD, CCACHE_DIR, ENGINE, HARNESS, NCPU, REPO, VERIF, Broken, log, mkdirs, run

CXX = "g++"
BASE = ["-std=gnu++17", "-DOPENTELEMETRY_ABI_VERSION_NO=1", "-DNDEBUG", "-w",
        "-DOTEL_VERIF_HOOKS=1",
        "-I%s/api/include" % REPO, "-I%s/sdk/include" % REPO, "-I%s/sdk" % REPO,
        "-I%s/ext/include" % REPO, "-I%s/exporters/memory/include" % REPO,
        "-I%s/exporters/ostream/include" % REPO, "-I%s" % VERIF, "-I%s/harness" % VERIF]

FLAVOURS = {
    "asan": ["-O1", "-g1", "-fno-omit-frame-pointer", "-fsanitize=address,undefined",
             "-fno-sanitize-recover=undefined"],
    "plain": ["-O1", "-g1"],
    "shim": ["-O1", "-g1", "-include", os.path.join(ENGINE, "stdshim.h")],
}
LINK = {
    "asan": ["-fsanitize=address,undefined", "-pthread"],
    "plain": ["-pthread"],
    "shim": ["-pthread"],
}


def _env():
    e = {"CCACHE_DIR": CCACHE_DIR, "CCACHE_MAXSIZE": "8G",
         "CCACHE_BASEDIR": "/", "CCACHE_NOHASHDIR": "1",
         "CCACHE_SLOPPINESS": "time_macros,include_file_mtime,include_file_ctime"}
    return e


def _use_ccache():
    return os.path.exists("/usr/bin/ccache") and not os.environ.get("VERIF_NO_CCACHE")


def _compile(src, obj, flags):
    cmd = ([("ccache")] if _use_ccache() else []) + [CXX] + flags + ["-c", src, "-o", obj]
    rc, out, err = run(cmd, env=_env(), timeout=900)
    if rc != 0:
        raise Broken("compile failed: %s\n%s" % (src, (out + err)[-4000:]))
    return obj


class _Lock:
    def __init__(self, name):
        mkdirs(os.path.join(BUILD, "locks"))
        self.path = os.path.join(BUILD, "locks", name + ".lock")

    def __enter__(self):
        self.f = open(self.path, "w")
        fcntl.flock(self.f, fcntl.LOCK_EX)
        return self

    def __exit__(self, *a):
        fcntl.flock(self.f, fcntl.LOCK_UN)
        self.f.close()


def sdk_sources():
    srcs = sorted(glob.glob(os.path.join(REPO, "sdk/src/**/*.cc"), recursive=True))
    srcs += sorted(glob.glob(os.path.join(REPO, "exporters/memory/src/*.cc")))
    srcs += sorted(glob.glob(os.path.join(REPO, "exporters/ostream/src/*.cc")))
    return srcs


def _objname(src):
    rel = os.path.relpath(src, "/")
    return rel.replace("/", "__") + ".o"


def _parallel(jobs):
    with cf.ThreadPoolExecutor(max_workers=NCPU) as ex:
        futs = [ex.submit(*j) for j in jobs]
        res = []
        for f in futs:
            res.append(f.result())
        return res


def sdk_lib(flavour, extra=()):
    """Static library with every sdk/src TU (+ memory/ostream exporters) for the flavour."""
    tag = flavour + ("-" + hashlib.sha1(" ".join(extra).encode()).hexdigest()[:8] if extra else "")
    odir = mkdirs(os.path.join(BUILD, "obj", tag))
    lib = os.path.join(BUILD, "obj", tag, "libsdk.a")
    flags = BASE + FLAVOURS[flavour] + list(extra)
    with _Lock("sdk-" + tag):
        srcs = sdk_sources()
        objs = [os.path.join(odir, _objname(s)) for s in srcs]
        _parallel([(_compile, s, o, flags) for s, o in zip(srcs, objs)])
        if flavour == "shim":
            # the engine itself is compiled WITHOUT the renaming shim
            eo = os.path.join(odir, "vsched.o")
            _compile(os.path.join(ENGINE, "vsched.cc"), eo, BASE + ["-O1", "-g1"])
            objs.append(eo)
        # a fresh archive every time (stale objects of deleted sources must not linger), installed
        # atomically: another check may be linking against the library right now
        tmp = lib + ".tmp%d" % os.getpid()
        if os.path.exists(tmp):
            os.unlink(tmp)
        rc, out, err = run(["ar", "rcs", tmp] + objs)
        if rc != 0:
            raise Broken("ar failed: " + err)
        os.replace(tmp, lib)
    return lib


def harness(name, sources, flavour="asan", extra=(), need_sdk=True, libs=()):
    """Compile harness sources (paths relative to /verif/harness or absolute) and link."""
    tag = flavour + ("-" + hashlib.sha1(" ".join(extra).encode()).hexdigest()[:8] if extra else "")
    lib = sdk_lib(flavour, extra) if need_sdk else None
    bdir = mkdirs(os.path.join(BUILD, "bin", tag))
    odir = mkdirs(os.path.join(BUILD, "obj", tag, "h-" + name))
    flags = BASE + FLAVOURS[flavour] + list(extra)
    exe = os.path.join(bdir, name)
    with _Lock("h-%s-%s" % (tag, name)):
        srcs = [s if os.path.isabs(s) else os.path.join(HARNESS, s) for s in sources]
        objs = [os.path.join(odir, _objname(s)) for s in srcs]
        _parallel([(_compile, s, o, flags) for s, o in zip(srcs, objs)])
        if flavour == "shim" and not need_sdk:
            eo = os.path.join(odir, "vsched.o")
            _compile(os.path.join(ENGINE, "vsched.cc"), eo, BASE + ["-O1", "-g1"])
            objs.append(eo)
        tmp = exe + ".tmp%d" % os.getpid()
        cmd = [CXX] + objs + ([lib] if lib else []) + LINK[flavour] + list(libs) + ["-o", tmp]
        rc, out, err = run(cmd, timeout=600)
        if rc != 0:
            raise Broken("link failed: %s\n%s" % (name, (out + err)[-4000:]))
        os.replace(tmp, exe)
    return exe


ASAN_ENV = {"ASAN_OPTIONS": "detect_leaks=1:abort_on_error=0:exitcode=77:allocator_may_return_null=1",
            "UBSAN_OPTIONS": "print_stacktrace=1:halt_on_error=1:exitcode=78"}


def warm():
    """setup_cmd entry: populate ccache for every flavour."""
    for fl in ("asan", "plain", "shim"):
        log("warming", fl)
        sdk_lib(fl)
