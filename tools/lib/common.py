"""Shared paths and small helpers for the /verif checks."""
import json
import os
import shutil
import subprocess
import sys
import time

VERIF = os.path.dirname(os.path.dirname(os.path.dirname(os.path.abspath(__file__))))
REPO = os.environ.get("VERIF_REPO", "/repo")
_ALT = None
if os.path.realpath(REPO) != "/repo":
    import hashlib as _h
    _ALT = "alt-" + _h.sha1(os.path.realpath(REPO).encode()).hexdigest()[:10]
# a check run against another tree (VERIF_REPO=/tmp/wt-x, mutation testing) gets its own build,
# evidence and out directories so that it can never disturb the checks of /repo itself
BUILD = os.path.join(VERIF, "build") if _ALT is None else os.path.join(VERIF, "build", _ALT)
CCACHE_DIR = os.path.join(VERIF, "build", "ccache")
SPEC = os.path.join(VERIF, "spec")
HARNESS = os.path.join(VERIF, "harness")
ENGINE = os.path.join(VERIF, "engine")
EVIDENCE = os.path.join(VERIF, "evidence") if _ALT is None else os.path.join(BUILD, "evidence")
OUT = os.path.join(VERIF, "out") if _ALT is None else os.path.join(BUILD, "out")
NCPU = os.cpu_count() or 4


class Broken(Exception):
    """The check itself could not run (tool failure, vacuity, spec error). Never a violation."""


def seed():
    try:
        return int(os.environ.get("VERIF_SEED", "1"))
    except ValueError:
        return 1


def log(*a):
    print("[verif]", *a, file=sys.stderr, flush=True)


def mkdirs(p):
    os.makedirs(p, exist_ok=True)
    return p


def run(cmd, *, timeout=None, env=None, cwd=None, stdin=None, check=False, capture=True):
    """Run a command; returns (rc, stdout, stderr). rc = -9 on timeout."""
    e = dict(os.environ)
    if env:
        e.update(env)
    try:
        p = subprocess.run(cmd, cwd=cwd, env=e, input=stdin, timeout=timeout,
                           stdout=subprocess.PIPE if capture else None,
                           stderr=subprocess.PIPE if capture else None, text=True,
                           errors="replace")
        rc, out, err = p.returncode, p.stdout or "", p.stderr or ""
    except subprocess.TimeoutExpired as t:
        rc = -9
        out = t.stdout.decode(errors="replace") if isinstance(t.stdout, bytes) else (t.stdout or "")
        err = t.stderr.decode(errors="replace") if isinstance(t.stderr, bytes) else (t.stderr or "")
    if check and rc != 0:
        raise Broken("command failed rc=%s: %s\n%s\n%s" % (rc, " ".join(map(str, cmd)), out[-3000:], err[-3000:]))
    return rc, out, err


class RunDir:
    """Private scratch directory build/run/<ID>-<pid>, removed at the end of the run."""

    def __init__(self, pid_tag):
        self.path = mkdirs(os.path.join(BUILD, "run", pid_tag))

    def file(self, name):
        return os.path.join(self.path, name)

    def sub(self, name):
        return mkdirs(os.path.join(self.path, name))

    def cleanup(self):
        if os.environ.get("VERIF_KEEP"):
            return
        shutil.rmtree(self.path, ignore_errors=True)


def write_json(path, obj):
    mkdirs(os.path.dirname(path))
    tmp = path + ".tmp%d" % os.getpid()
    with open(tmp, "w") as f:
        json.dump(obj, f, indent=1, sort_keys=False, default=str)
        f.write("\n")
    os.replace(tmp, path)


class Timer:
    def __init__(self):
        self.t0 = time.time()

    def s(self):
        return round(time.time() - self.t0, 2)
