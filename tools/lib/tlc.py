"""TLC wrapper: always under a timeout, private metadir, parsed statistics, BEH/line extraction."""
import json
import os
import re
import shutil

from .common import NCPU, SPEC, Broken, log, mkdirs, run

JAR = "/opt/veriftools/tla/tla2tools.jar:/opt/veriftools/tla/CommunityModules-deps.jar"


class TLCResult:
    def __init__(self):
        self.status = "error"      # ok | invariant | temporal | deadlock | postcondition | error | timeout
        self.generated = 0
        self.distinct = 0
        self.depth = 0
        self.coverage = {}         # action name -> (taken/distinct, generated)
        self.out = ""
        self.violated = None       # name of violated invariant / property
        self.wall = 0.0
        self.rc = None
        self.trace_text = ""       # TLC's printed counterexample, if any

    def printed(self, tag):
        """All values printed with PrintT(<<tag, ToJson(x)>>) as python objects."""
        res = []
        pre = '<<"%s", "' % tag
        for line in self.out.splitlines():
            if line.startswith(pre) and line.endswith('">>'):
                body = line[len(pre):-3]
                body = _unescape(body)
                try:
                    res.append(json.loads(body))
                except Exception as e:  # pragma: no cover
                    raise Broken("cannot parse TLC output line: %s (%s)" % (line[:200], e))
        return res

    def printed_raw(self, tag):
        pre = '<<"%s", ' % tag
        return [l[len(pre):-2] for l in self.out.splitlines() if l.startswith(pre) and l.endswith(">>")]

    def summary(self):
        return {"status": self.status, "generated": self.generated, "distinct": self.distinct,
                "depth": self.depth, "wall_s": round(self.wall, 2), "violated": self.violated}


def _unescape(s):
    # TLC prints TLA+ strings with \" and \\ escapes
    out = []
    i = 0
    while i < len(s):
        c = s[i]
        if c == "\\" and i + 1 < len(s):
            n = s[i + 1]
            if n == '"':
                out.append('"')
            elif n == "\\":
                out.append("\\")
            elif n == "n":
                out.append("\n")
            elif n == "t":
                out.append("\t")
            else:
                out.append(c + n)
            i += 2
        else:
            out.append(c)
            i += 1
    return "".join(out)


_RE_STATES = re.compile(r"(\d+) states generated, (\d+) distinct states found")
_RE_DEPTH = re.compile(r"The depth of the complete state graph search is (\d+)")
_RE_INV = re.compile(r"Invariant (\S+) is violated")
_RE_COV = re.compile(r"^<(\w+) line \d+, col \d+ to line \d+, col \d+ of module (\w+)>: (\d+):(\d+)")


def tlc(module, cfg, *, rundir, workers=None, timeout_s=600, simulate=None, env=None,
        seed=None, coverage=False, deadlock=False, xmx="8g", dfs=False, spec_dir=None,
        extra=(), tag=None, postcondition_ok=True):
    """Run TLC on spec/<module>.tla with spec/<cfg>.  `simulate`: dict(num=, depth=)."""
    import time
    spec_dir = spec_dir or SPEC
    tag = tag or (os.path.splitext(os.path.basename(cfg))[0])
    meta = os.path.join(rundir, "tlc-" + tag)
    shutil.rmtree(meta, ignore_errors=True)
    mkdirs(meta)
    jopts = ["-XX:+UseParallelGC", "-Xmx" + xmx]
    if dfs:
        jopts.append("-Dtlc2.tool.queue.IStateQueue=StateDeque")
    cmd = ["java"] + jopts + ["-cp", JAR, "tlc2.TLC", "-metadir", meta, "-noGenerateSpecTE",
                              "-config", cfg if os.path.isabs(cfg) else os.path.join(spec_dir, cfg)]
    w = workers if workers else min(NCPU, 8)
    cmd += ["-workers", str(w)]
    if not deadlock:
        cmd += ["-deadlock"]          # -deadlock DISABLES deadlock checking
    if simulate:
        cmd += ["-simulate", "num=%d" % simulate["num"], "-depth", str(simulate["depth"])]
    if seed is not None:
        cmd += ["-seed", str(seed)]
    if coverage:
        cmd += ["-coverage", "1"]
    cmd += list(extra)
    cmd += [os.path.join(spec_dir, module + ".tla")]
    t0 = time.time()
    rc, out, err = run(cmd, timeout=timeout_s, env=env, cwd=spec_dir)
    r = TLCResult()
    r.rc = rc
    r.out = out
    r.wall = time.time() - t0
    for m in _RE_STATES.finditer(out):
        r.generated, r.distinct = int(m.group(1)), int(m.group(2))
    if simulate:
        # simulation mode prints "Progress: N states checked" style lines
        for m in re.finditer(r"(\d+) states checked", out):
            r.generated = max(r.generated, int(m.group(1)))
    m = _RE_DEPTH.search(out)
    if m:
        r.depth = int(m.group(1))
    for line in out.splitlines():
        m = _RE_COV.match(line)
        if m:
            name = m.group(1)
            a, b = int(m.group(3)), int(m.group(4))
            pa, pb = r.coverage.get(name, (0, 0))
            r.coverage[name] = (pa + a, pb + b)
    if rc == -9:
        r.status = "timeout"
    elif rc == 0:
        r.status = "ok"
    elif rc == 12:
        r.status = "invariant"
        m = _RE_INV.search(out)
        r.violated = m.group(1) if m else None
    elif rc == 13:
        r.status = "temporal"
    elif rc == 11:
        r.status = "deadlock"
    elif "Postcondition" in out or "postcondition" in out.lower() and rc != 0:
        r.status = "postcondition"
    else:
        r.status = "error"
    if r.status in ("invariant", "temporal", "deadlock"):
        i = out.find("Error:")
        r.trace_text = out[i:i + 20000] if i >= 0 else ""
    shutil.rmtree(meta, ignore_errors=True)
    if r.status == "error":
        log("TLC error rc=%s\n%s\n%s" % (rc, out[-3000:], err[-2000:]))
    return r


def must_ok(r, what):
    if r.status != "ok":
        raise Broken("%s: TLC status %s (rc=%s) violated=%s\n%s" % (what, r.status, r.rc, r.violated, r.out[-3000:]))
    return r


def sany(module_path):
    rc, out, err = run(["java", "-cp", JAR, "tla2sany.SANY", module_path], timeout=120,
                       cwd=os.path.dirname(module_path))
    if rc != 0 or "Semantic errors" in out or "Parse Error" in out or "***Parse Error***" in out:
        raise Broken("SANY failed on %s:\n%s" % (module_path, out[-3000:]))
    return True
