"""Trace validation (code -> spec): logs of real executions are checked by a TLA+ trace spec.

A log is a list of ndjson lines; executions are separated by a marker event (default "Cfg").
Many executions are concatenated per TLC start (JVM start-up dominates otherwise); on a rejection
the offending execution is cut out, reported, and the remainder is validated again, so that one
bad execution never hides the others."""
import concurrent.futures as cf
import json
import os
import re

from . import tlc as T
from .common import Broken, log

_RE_REJ = re.compile(r'<<"REJECTED_AT", (\d+)>>')
_RE_ACC = re.compile(r'<<"ACCEPTED", (\d+)>>')


def split_executions(lines, marker='"e":"Cfg"'):
    execs = []
    cur = None
    for ln in lines:
        if marker in ln:
            if cur:
                execs.append(cur)
            cur = [ln]
        else:
            if cur is None:
                cur = []
            cur.append(ln)
    if cur:
        execs.append(cur)
    return execs


_RE_SEED = re.compile(r',?"seed":\d+')


def distinct_keys(lines, marker='"e":"Cfg"'):
    """One key per DISTINCT execution: the md5 of its event log with the scheduler seed removed (two
    seeds that produced the same observable history count once)."""
    import hashlib
    keys = set()
    for ex in split_executions(lines, marker):
        h = hashlib.md5()
        for ln in ex:
            h.update(_RE_SEED.sub("", ln).encode())
            h.update(b"\n")
        keys.add(h.hexdigest())
    return keys


def _validate_chunk(module, cfg, execs, rundir, tag, env_extra, timeout_s, max_rejects, dfs):
    """Returns (n_accepted, [ (exec_lines, offset_in_exec, printed) ... ], states)"""
    rejected = []
    states = 0
    devused = set()
    devexecs = 0
    execs = list(execs)
    while execs:
        path = os.path.join(rundir, "trace-%s.ndjson" % tag)
        with open(path, "w") as f:
            for e in execs:
                for ln in e:
                    f.write(ln.rstrip("\n") + "\n")
        env = {"TRACE": path}
        if env_extra:
            env.update(env_extra)
        r = T.tlc(module, cfg, rundir=rundir, workers=1, timeout_s=timeout_s, env=env, tag="tv-" + tag,
                  deadlock=True, dfs=dfs)
        states += r.distinct
        m = _RE_REJ.search(r.out)
        if _RE_ACC.search(r.out) and r.status == "ok":
            for raw in r.printed_raw("DEVUSED"):
                devused.update(re.findall(r'"([^"]+)"', raw))
            for raw in r.printed_raw("DEVEXECS"):
                try:
                    devexecs += int(raw)
                except ValueError:
                    pass
            break
        if not m:
            raise Broken("trace validation run failed (%s, rc=%s): %s" % (r.status, r.rc, r.out[-2500:]))
        pos = int(m.group(1))  # 1-based index of first unconsumed line
        # locate execution
        acc = 0
        hit = None
        for i, e in enumerate(execs):
            if pos <= acc + len(e):
                hit = i
                break
            acc += len(e)
        if hit is None:
            raise Broken("REJECTED_AT %d beyond the log (%d lines)" % (pos, acc))
        rejected.append((execs[hit], pos - acc - 1, r.printed_raw("DEVUSED")))
        del execs[hit]
        if len(rejected) >= max_rejects:
            break
    try:
        os.unlink(os.path.join(rundir, "trace-%s.ndjson" % tag))
    except OSError:
        pass
    return len(execs), rejected, states, devused, devexecs


def validate(ctx, module, cfg, lines, *, marker='"e":"Cfg"', chunk=2500, parallel=8, env=None,
             timeout_s=900, max_rejects=5, tag="t", dfs=False):
    """Validate all executions.  Returns dict(executions=, accepted=, rejected=[...]).  Each rejected
    item: dict(events=[parsed lines], at=<index of first unexplainable event>)."""
    execs = split_executions(lines, marker)
    try:
        ctx.distinct.update(distinct_keys(lines, marker))
    except Exception:
        pass
    chunks = [execs[i:i + chunk] for i in range(0, len(execs), chunk)]
    res = {"executions": len(execs), "accepted": 0, "rejected": [], "events": len(lines),
           "devused": set(), "devexecs": 0}
    with cf.ThreadPoolExecutor(max_workers=max(1, parallel)) as ex:
        futs = [ex.submit(_validate_chunk, module, cfg, c, ctx.rundir.path, "%s%d" % (tag, i), env,
                          timeout_s, max_rejects, dfs) for i, c in enumerate(chunks)]
        for f in futs:
            n, rej, states, du, de = f.result()
            res["accepted"] += n
            res["devused"] |= du
            res["devexecs"] += de
            ctx.states += states
            ctx.transitions += states
            for e, off, _ in rej:
                ev = []
                for ln in e:
                    try:
                        ev.append(json.loads(ln))
                    except Exception:
                        ev.append(ln)
                res["rejected"].append({"events": ev, "at": off})
    ctx.traces += res["accepted"] + len(res["rejected"])
    return res
