"""C06, concurrent clause: recorder threads racing collector threads on the real metrics pipeline under
the deterministic scheduler (harness/c06_conc.cc, flavour "shim"); every execution's event log is
validated by the property-level monitor spec/MetricsSyncConcTrace.tla (TLC)."""
import concurrent.futures as cf
import hashlib
import json
import subprocess

from . import build, trace
from .common import Broken, log


def _run(exe, args, timeout=1500):
    p = subprocess.run([exe] + [str(a) for a in args], stdout=subprocess.PIPE, stderr=subprocess.PIPE, text=True,
                       timeout=timeout)
    return p.returncode, p.stdout.splitlines(), p.stderr


def run(ctx):
    thorough = ctx.tier == "thorough"
    exe = build.harness("c06_conc", ["c06_conc.cc"], "shim")
    n = 600 if thorough else 120
    s = ctx.seed
    runs = []
    shapes = [("d", 2, 3, 3), ("dc", 2, 3, 3), ("dc", 3, 2, 2), ("cc", 2, 2, 3), ("c", 3, 3, 2)]
    if thorough:
        shapes += [("ddc", 3, 3, 3), ("dd", 2, 4, 4), ("dc", 4, 3, 2)]
    for i, (temps, nrec, nadd, ncol) in enumerate(shapes):
        runs.append(["explore", "random", n, s * 13 + i, temps, nrec, nadd, ncol])
        runs.append(["explore", "pct", n, s * 17 + i, temps, nrec, nadd, ncol])
    # one more thread shuts ONE reader down on its own (MetricReader::Shutdown), racing recorders and collectors
    shut = [("dc", 2, 2, 3), ("cd", 2, 2, 3), ("dd", 2, 2, 3)] + ([("ddc", 2, 3, 3), ("dc", 3, 3, 3)] if thorough else [])
    for i, (temps, nrec, nadd, ncol) in enumerate(shut):
        runs.append(["explore", "random", n // 3, s * 19 + i, temps, nrec, nadd, ncol, 1])
        runs.append(["explore", "pct", n // 3, s * 23 + i, temps, nrec, nadd, ncol, 1])
    lines, bad = [], []
    with cf.ThreadPoolExecutor(max_workers=6) as ex:
        futs = [(a, ex.submit(_run, exe, a)) for a in runs]
        for a, f in futs:
            rc, out, err = f.result()
            if rc in (3, 4) or rc < 0:
                last = max([i for i, ln in enumerate(out) if '"e":"Cfg"' in ln] or [0])
                bad.append((a, rc, out[last:]))
                out = out[:last]
            elif rc != 0:
                raise Broken("c06_conc failed rc=%s args=%s: %s" % (rc, a, err[-2000:]))
            lines += [ln for ln in out if '"e":"Summary"' not in ln]
    res = trace.validate(ctx, "MetricsSyncConcTrace", "MetricsSyncConcTrace.cfg", lines, parallel=4, chunk=400, tag="conc")
    ctx.extra["concurrent_executions_validated"] = res["executions"]
    ctx.extra["concurrent_events_validated"] = res["events"]
    ctx.extra["concurrent_executions_with_reader_shutdown"] = sum(1 for ln in lines if '"e":"DownCall"' in ln)
    if not ctx.extra["concurrent_executions_with_reader_shutdown"]:
        raise Broken("vacuity: no concurrent execution shut a reader down")
    ctx.evaluations += res["executions"]
    nd = len(ctx.distinct)
    for e in trace.split_executions(lines):
        ctx.distinct.add("conc:" + hashlib.sha1("\n".join(e).encode()).hexdigest())
    ctx.extra["concurrent_distinct_interleavings"] = len(ctx.distinct) - nd
    for rj in res["rejected"]:
        ev, at = rj["events"], rj["at"]
        ctx.violation("C06 concurrent: MetricsSyncConcTrace rejects a real execution (recorders racing collectors) at event %d: %s" % (
            at, json.dumps(ev[at])[:500] if at < len(ev) else "?"), {"program": {"conc": True}, "events": ev, "at": at})
    for a, rc, out in bad:
        tail = []
        for x in out[-80:]:
            try:
                tail.append(json.loads(x))
            except Exception:
                tail.append(x)
        ctx.violation("C06 concurrent: real execution %s, harness args=%s" % (
            "got stuck (deadlock / livelock under the fair schedule)" if rc == 3 else "crashed (rc=%s)" % rc, a),
            {"program": {"conc": True, "args": a}, "events": tail})
    if lines:
        ex0 = trace.split_executions(lines)[0]
        ctx.sample({"kind": "concurrent execution validated by MetricsSyncConcTrace", "events": [json.loads(x) for x in ex0[:14]]})
    ctx.assumptions.append("concurrent clause: sequentially consistent executions only (scheduler shim), schedules sampled (random + PCT), "
                           "<= 4 recorder threads x <= 4 Adds, <= 3 collector threads; intervals are not examined concurrently")


def replay(ctx, rep):
    if "events" not in rep or not isinstance(rep["events"], list):
        raise Broken("replay file has no event log")
    lines = [json.dumps(e) for e in rep["events"] if isinstance(e, dict)]
    res = trace.validate(ctx, "MetricsSyncConcTrace", "MetricsSyncConcTrace.cfg", lines, parallel=1, tag="replay")
    for rj in res["rejected"]:
        ctx.violation("replayed concurrent log rejected at event %d" % rj["at"],
                      {"program": {"conc": True}, "events": rj["events"], "at": rj["at"]})
    ctx.sample({"kind": "replayed concurrent log", "events": rep["events"][:10]})
