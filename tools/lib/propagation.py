"""Trace validation of logs whose events are INDEPENDENT executions (pure-function properties: C09, C16).

Same protocol as lib.trace (log = ndJsonDeserialize(IOEnv.TRACE), Progress/Accepted/Report idiom,
POSTCONDITION = whole log consumed), but the trace spec itself skips an event that no rule explains
and reports, at acceptance,
    <<"BAD", ToJson(<<line numbers>>)>>       events no rule of the spec explains   (-> violations)
    <<"DEVUSED", ToJson([dev |-> line])>>     first event that needed each named deviation
    <<"KINDS", ToJson([kind |-> count])>>     what the spec said about the inputs (vacuity guard)
so one TLC run per chunk is enough however many events are rejected."""
import concurrent.futures as cf
import json
import os
import re

from . import tlc as T
from .common import Broken

_RE_ACC = re.compile(r'<<\s*"ACCEPTED",\s*(\d+)\s*>>')


def _printed(out, tag):
    m = re.search(r'<<\s*"%s",\s*"(.*?)"\s*>>' % tag, out, re.S)
    if not m:
        return None
    return json.loads(T._unescape(m.group(1)))


def _chunk(module, cfg, lines, rundir, tag, timeout_s):
    path = os.path.join(rundir, "trace-%s.ndjson" % tag)
    with open(path, "w") as f:
        for ln in lines:
            f.write(ln.rstrip("\n") + "\n")
    r = T.tlc(module, cfg, rundir=rundir, workers=1, timeout_s=timeout_s, env={"TRACE": path},
              tag="tv-" + tag, deadlock=True)
    try:
        os.unlink(path)
    except OSError:
        pass
    m = _RE_ACC.search(r.out)
    if r.status != "ok" or not m or int(m.group(1)) != len(lines):
        raise Broken("trace validation run failed (%s, rc=%s): %s" % (r.status, r.rc, r.out[-2500:]))
    bad = _printed(r.out, "BAD")
    dev = _printed(r.out, "DEVUSED")
    kinds = _printed(r.out, "KINDS")
    if bad is None or dev is None:
        raise Broken("trace spec %s did not report BAD/DEVUSED: %s" % (module, r.out[-1500:]))
    if isinstance(dev, list):      # ToJson of the empty function
        dev = {}
    return bad, dev, kinds or {}, r.distinct


def validate_events(ctx, module, cfg, lines, *, chunk=3000, parallel=4, timeout_s=900, tag="t"):
    """Returns dict(events=n, bad=[global 0-based indices], devs={dev: global index}, kinds={...})."""
    chunks = [(i, lines[i:i + chunk]) for i in range(0, len(lines), chunk)]
    res = {"events": len(lines), "bad": [], "devs": {}, "kinds": {}}
    with cf.ThreadPoolExecutor(max_workers=max(1, parallel)) as ex:
        futs = [(off, ex.submit(_chunk, module, cfg, c, ctx.rundir.path, "%s%d" % (tag, k), timeout_s))
                for k, (off, c) in enumerate(chunks)]
        for off, f in futs:
            bad, dev, kinds, states = f.result()
            ctx.states += states
            ctx.transitions += states
            res["bad"] += [off + b - 1 for b in bad]
            for d, at in dev.items():
                res["devs"].setdefault(d, off + at - 1)
            for k, n in kinds.items():
                res["kinds"][k] = res["kinds"].get(k, 0) + n
    ctx.traces += len(lines)
    return res


# ---- spec -> code helpers shared by C09 / C16 -----------------------------------------------------------
def printed_any(out, tag):
    """Value of the (single) PrintT(<<tag, ToJson(x)>>) of a run; tolerates TLC's line wrapping."""
    return _printed(out, tag)


def beh_cases(r, what):
    """All BEH lines of a generation run, canonically ordered (TLC's worker interleaving must not
    influence the concretisation seeds) and numbered."""
    b = r.printed("BEH")
    if len(b) != r.out.count('<<"BEH", '):
        raise Broken("%s: %d BEH lines printed, %d parsed" % (what, r.out.count('<<"BEH", '), len(b)))
    keyed = sorted(set(json.dumps(x, sort_keys=True) for x in b))
    cases = []
    for i, k in enumerate(keyed):
        c = json.loads(k)
        c["id"] = i
        cases.append(c)
    return cases


# every sanitizer report ends in SIGABRT so that the harness' handler can name the running case
SAN_ENV = {"ASAN_OPTIONS": "detect_leaks=1:abort_on_error=1:allocator_may_return_null=1",
           "UBSAN_OPTIONS": "print_stacktrace=1:halt_on_error=1:abort_on_error=1"}


def run_cases(ctx, exe, cases, n, procs=4, timeout=1500, tag="c"):
    """Replays `cases` (dicts with "id") n concretisations each; returns {id: result line}.
    A harness crash comes back as a result with v == "crash" (the input that was running)."""
    from . import hrun
    parts = [cases[i::procs] for i in range(procs)]
    parts = [p for p in parts if p]
    files = []
    for k, p in enumerate(parts):
        path = ctx.rundir.file("cases-%s-%d.ndjson" % (tag, k))
        with open(path, "w") as f:
            for c in p:
                f.write(json.dumps(c) + "\n")
        files.append(path)
    results = {}
    with cf.ThreadPoolExecutor(max_workers=len(files) or 1) as ex:
        futs = [(p, ex.submit(hrun.run_harness, exe, ["replay", path, ctx.seed, n], None, timeout, SAN_ENV))
                for p, path in zip(parts, files)]
        for p, f in futs:
            h = f.result()
            if h.rc == 9 or h.timed_out:
                raise Broken("harness failed (rc=%s): %s" % (h.rc, h.err[-1500:]))
            done = False
            for o in h.json():
                if "done" in o:
                    done = True
                elif "id" in o:
                    if o.get("v") == "crash":
                        o["stderr"] = h.err[-3000:]
                    results[o["id"]] = o
            if not done:
                if not h.crashed and h.rc == 0:
                    raise Broken("harness stopped early: %s" % h.err[-1500:])
                # crashed: the death callback printed the running case; if it could not, blame the
                # first case without a result
                if not any(o.get("v") == "crash" for o in results.values() if o["id"] in {c["id"] for c in p}):
                    miss = [c for c in p if c["id"] not in results]
                    if miss:
                        results[miss[0]["id"]] = {"id": miss[0]["id"], "v": "crash", "stderr": h.err[-3000:],
                                                  "rc": h.rc}
            elif h.rc != 0:
                # finished all cases but the process still failed: leak report or the like
                raise_or = h.err[-3000:]
                results[-1] = {"id": -1, "v": "crash", "stderr": raise_or, "rc": h.rc}
    for path in files:
        try:
            os.unlink(path)
        except OSError:
            pass
    return results
