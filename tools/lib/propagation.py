"""Trace validation of logs whose events are INDEPENDENT executions (pure-function properties: C09, C16).

Same protocol as lib.trace (log = ndJsonDeserialize(IOEnv.TRACE), Progress/Accepted/Report idiom,
POSTCONDITION = whole log consumed), but the trace spec itself skips an event that no rule explains
and reports, at acceptance,
    <<"BAD", ToJson(<<line numbers>>)>>       events no rule of the spec explains   (-> violations)
    <<"DEVUSED", ToJson([dev |-> line])>>     first event that needed each named deviation
    <<"KINDS", ToJson([kind |-> count])>>     what the spec said about the inputs (vacuity guard)
so one TLC run per chunk is enough however many events are rejected."""
import concurrent.futures as cf
import json
import os
import re

from . import tlc as T
from .common import Broken

_RE_ACC = re.compile(r'<<\s*"ACCEPTED",\s*(\d+)\s*>>')


def _printed(out, tag):
    m = re.search(r'<<\s*"%s",\s*"(.*?)"\s*>>' % tag, out, re.S)
    if not m:
        return None
    return json.loads(T._unescape(m.group(1)))


def _chunk(module, cfg, lines, rundir, tag, timeout_s):
    path = os.path.join(rundir, "trace-%s.ndjson" % tag)
    with open(path, "w") as f:
        for ln in lines:
            f.write(ln.rstrip("\n") + "\n")
    r = T.tlc(module, cfg, rundir=rundir, workers=1, timeout_s=timeout_s, env={"TRACE": path},
              tag="tv-" + tag, deadlock=True)
    try:
        os.unlink(path)
    except OSError:
        pass
    m = _RE_ACC.search(r.out)
    if r.status != "ok" or not m or int(m.group(1)) != len(lines):
        raise Broken("trace validation run failed (%s, rc=%s): %s" % (r.status, r.rc, r.out[-2500:]))
    bad = _printed(r.out, "BAD")
    dev = _printed(r.out, "DEVUSED")
    kinds = _printed(r.out, "KINDS")
    if bad is None or dev is None:
        raise Broken("trace spec %s did not report BAD/DEVUSED: %s" % (module, r.out[-1500:]))
    if isinstance(dev, list):      # ToJson of the empty function
        dev = {}
    return bad, dev, kinds or {}, r.distinct


def validate_events(ctx, module, cfg, lines, *, chunk=3000, parallel=4, timeout_s=900, tag="t"):
    """Returns dict(events=n, bad=[global 0-based indices], devs={dev: global index}, kinds={...})."""
    chunks = [(i, lines[i:i + chunk]) for i in range(0, len(lines), chunk)]
    res = {"events": len(lines), "bad": [], "devs": {}, "kinds": {}}
    with cf.ThreadPoolExecutor(max_workers=max(1, parallel)) as ex:
        futs = [(off, ex.submit(_chunk, module, cfg, c, ctx.rundir.path, "%s%d" % (tag, k), timeout_s))
                for k, (off, c) in enumerate(chunks)]
        for off, f in futs:
            bad, dev, kinds, states = f.result()
            ctx.states += states
            ctx.transitions += states
            res["bad"] += [off + b - 1 for b in bad]
            for d, at in dev.items():
                res["devs"].setdefault(d, off + at - 1)
            for k, n in kinds.items():
                res["kinds"][k] = res["kinds"].get(k, 0) + n
    ctx.traces += len(lines)
    return res


# ---- spec -> code helpers shared by C09 / C16 -----------------------------------------------------------
def printed_any(out, tag):
    """Value of the (single) PrintT(<<tag, ToJson(x)>>) of a run; tolerates TLC's line wrapping."""
    return _printed(out, tag)


def beh_cases(r, what):
    """All BEH lines of a generation run, canonically ordered (TLC's worker interleaving must not
    influence the concretisation seeds) and numbered."""
    pre = '<<"BEH", "'
    raw = set()
    n = 0
    for line in r.out.splitlines():
        if line.startswith(pre) and line.endswith('">>'):
            n += 1
            raw.add(T._unescape(line[len(pre):-3]))
    if n != r.out.count('"BEH"'):      # e.g. a line wrapped by TLC's pretty printer
        raise Broken("%s: %d BEH prints, %d parsed" % (what, r.out.count('"BEH"'), n))
    cases = []
    # TLC prints the fields of equal records in the same order: sorting the texts is canonical
    for i, k in enumerate(sorted(raw)):
        try:
            c = json.loads(k)
        except ValueError as e:
            raise Broken("%s: cannot parse BEH line %s (%s)" % (what, k[:200], e))
        c["id"] = i
        cases.append(c)
    if not cases:
        raise Broken("%s: no BEH line printed" % what)
    return cases


# every sanitizer report ends in SIGABRT so that the harness' handler can name the running case
SAN_ENV = {"ASAN_OPTIONS": "detect_leaks=1:abort_on_error=1:allocator_may_return_null=1",
           "UBSAN_OPTIONS": "print_stacktrace=1:halt_on_error=1:abort_on_error=1"}


def run_cases(ctx, exe, cases, n, procs=4, timeout=1500, tag="c"):
    """Replays `cases` (dicts with "id") n concretisations each; returns {id: result line}.
    The harness runs the cases in forked children: a crash of the code under test comes back as a result
    with v == "crash" (and the concrete input that was running) and the remaining cases still run; after a
    cap of crashes per process the rest is skipped (counted in ctx.extra)."""
    from . import hrun
    parts = [cases[i::procs] for i in range(procs)]
    parts = [p for p in parts if p]
    files = []
    for k, p in enumerate(parts):
        path = ctx.rundir.file("cases-%s-%d.ndjson" % (tag, k))
        with open(path, "w") as f:
            for c in p:
                f.write(json.dumps(c) + "\n")
        files.append(path)
    results = {}
    skipped = 0
    with cf.ThreadPoolExecutor(max_workers=len(files) or 1) as ex:
        futs = [(p, ex.submit(hrun.run_harness, exe, ["replay", path, ctx.seed, n], None, timeout, SAN_ENV))
                for p, path in zip(parts, files)]
        for p, f in futs:
            h = f.result()
            if h.timed_out:
                raise Broken("harness timed out: %s" % h.err[-1500:])
            done, first = False, True
            for o in h.json():
                if "done" in o:
                    done = True
                elif "skipped" in o:
                    skipped += o["skipped"]
                elif "id" in o:
                    if o.get("v") == "crash" and first:
                        o["stderr"] = h.err[:6000]      # the first sanitizer report of this process
                        first = False
                    results[o["id"]] = o
            # the harness parent never runs the code under test (forked children do), so anything but a
            # clean finish is a harness problem
            if h.rc != 0 or not done:
                raise Broken("harness failed (rc=%s): %s" % (h.rc, h.err[-1500:]))
    if skipped:
        ctx.extra["cases_skipped_after_crash_cap"] = ctx.extra.get("cases_skipped_after_crash_cap", 0) + skipped
    for path in files:
        try:
            os.unlink(path)
        except OSError:
            pass
    return results


# ---- code -> spec driver shared by C09 / C16 -------------------------------------------------------------
def record_validate(ctx, exe, *, harness, module, cfg_template, alldevs, n, need_kinds, describe, max_reports=12):
    """Records n real executions (harness `record <seed> <n>`), validates them with trace spec `module`
    (Dev = the deviations currently listed as known) and classifies: explained -> fine; explained only
    through a named deviation -> ctx.deviation; not explained -> ctx.violation."""
    from . import hrun

    def cfg(name, devs):
        p = ctx.rundir.file(name)
        with open(p, "w") as f:
            f.write(cfg_template % {"dev": ", ".join('"%s"' % d for d in sorted(devs))})
        return p
    h = hrun.run_harness(exe, ["record", ctx.seed, n], timeout=1500, env=SAN_ENV)
    lines, crashes, skipped = [], [], 0
    for ln in h.lines:
        try:
            o = json.loads(ln)
        except ValueError:
            continue                      # a line cut short by a crash
        if o.get("v") == "crash":
            crashes.append(o)
        elif "skipped" in o:
            skipped += o["skipped"]
        elif "e" in o:
            lines.append(ln)
    if h.rc != 0 or h.timed_out:          # the recorder's parent process never runs the code under test
        raise Broken("recorder failed (rc=%s): %s" % (h.rc, h.err[-1500:]))
    if len(lines) + len(crashes) + skipped != n:
        raise Broken("recorder: %d events + %d crashes + %d skipped != %d" % (len(lines), len(crashes), skipped, n))
    for k, c in enumerate(crashes[:max_reports]):
        ctx.violation("the real propagator crashed / sanitizer report while recording, input %s\n%s" % (
            json.dumps(c.get("concrete")), h.err[:3000] if k == 0 else ""),
            {"harness": harness, "mode": "record", "seed": ctx.seed, "n": n, "event_index": c.get("id"),
             "concrete": c.get("concrete")})
    crash = crashes[0] if crashes else None
    known = sorted(set(alldevs) & ctx.known_devs())
    res = validate_events(ctx, module, cfg("trace.cfg", known), lines, chunk=3000, parallel=4, tag="tv")
    kinds = res["kinds"]
    if crash is None and any(kinds.get(k, 0) == 0 for k in need_kinds):
        raise Broken("vacuity: recorded inputs do not cover every kind: %s" % kinds)
    for d, at in res["devs"].items():
        ev = json.loads(lines[at])
        ctx.deviation(d, describe(ev), {"monitor": module, "events": [ev], "dev": known})
    bad = res["bad"]
    if bad:
        # not explained with the known deviations: is it one of the other named ones?
        sub = [lines[i] for i in bad]
        res2 = validate_events(ctx, module, cfg("trace-all.cfg", alldevs), sub, chunk=3000, parallel=1, tag="tv2")
        still = set(res2["bad"])
        named = sorted(res2["devs"])
        for k, i in enumerate(bad[:max_reports]):
            ev = json.loads(lines[i])
            rep = {"monitor": module, "events": [ev], "dev": known}
            what = "recorded execution not explained by the spec: " + describe(ev)
            if k in still or len(named) != 1:
                ctx.violation(what, rep)
            else:
                ctx.deviation(named[0], what, rep)
    ctx.evaluations += len(lines)
    for i in range(len(lines)):
        ctx.distinct.add(("ev", i))
    ctx.extra["trace_validation"] = {"events": len(lines), "crashes": len(crashes), "skipped_after_crash_cap": skipped,
                                     "unexplained": len(bad), "kinds": kinds,
                                     "deviations_used": sorted(res["devs"])}
    if lines:
        ctx.sample({"kind": "recorded real execution validated by %s" % module, "event": json.loads(lines[0])})


def replay_events(ctx, module, cfg_template, alldevs, events):
    p = ctx.rundir.file("trace.cfg")
    with open(p, "w") as f:
        f.write(cfg_template % {"dev": ", ".join('"%s"' % d for d in sorted(set(alldevs) & ctx.known_devs()))})
    lines = [json.dumps(e) for e in events]
    res = validate_events(ctx, module, p, lines, chunk=3000, parallel=1, tag="rp")
    for i in res["bad"]:
        ctx.violation("replayed event not explained by the spec", {"monitor": module, "events": [events[i]]})
    ctx.sample({"kind": "replayed event", "event": events[0]})
