"""Trace validation of logs whose events are INDEPENDENT executions (pure-function properties: C09, C16).

Same protocol as lib.trace (log = ndJsonDeserialize(IOEnv.TRACE), Progress/Accepted/Report idiom,
POSTCONDITION = whole log consumed), but the trace spec itself skips an event that no rule explains
and reports, at acceptance,
    <<"BAD", ToJson(<<line numbers>>)>>       events no rule of the spec explains   (-> violations)
    <<"DEVUSED", ToJson([dev |-> line])>>     first event that needed each named deviation
    <<"KINDS", ToJson([kind |-> count])>>     what the spec said about the inputs (vacuity guard)
so one TLC run per chunk is enough however many events are rejected."""
import concurrent.futures as cf
import json
import os
import re

from . import tlc as T
from .common import Broken

_RE_ACC = re.compile(r'<<\s*"ACCEPTED",\s*(\d+)\s*>>')


def _printed(out, tag):
    m = re.search(r'<<\s*"%s",\s*"(.*?)"\s*>>' % tag, out, re.S)
    if not m:
        return None
    return json.loads(T._unescape(m.group(1)))


def _chunk(module, cfg, lines, rundir, tag, timeout_s):
    path = os.path.join(rundir, "trace-%s.ndjson" % tag)
    with open(path, "w") as f:
        for ln in lines:
            f.write(ln.rstrip("\n") + "\n")
    r = T.tlc(module, cfg, rundir=rundir, workers=1, timeout_s=timeout_s, env={"TRACE": path},
              tag="tv-" + tag, deadlock=True)
    try:
        os.unlink(path)
    except OSError:
        pass
    m = _RE_ACC.search(r.out)
    if r.status != "ok" or not m or int(m.group(1)) != len(lines):
        raise Broken("trace validation run failed (%s, rc=%s): %s" % (r.status, r.rc, r.out[-2500:]))
    bad = _printed(r.out, "BAD")
    dev = _printed(r.out, "DEVUSED")
    kinds = _printed(r.out, "KINDS")
    if bad is None or dev is None:
        raise Broken("trace spec %s did not report BAD/DEVUSED: %s" % (module, r.out[-1500:]))
    if isinstance(dev, list):      # ToJson of the empty function
        dev = {}
    return bad, dev, kinds or {}, r.distinct


def validate_events(ctx, module, cfg, lines, *, chunk=3000, parallel=4, timeout_s=900, tag="t"):
    """Returns dict(events=n, bad=[global 0-based indices], devs={dev: global index}, kinds={...})."""
    chunks = [(i, lines[i:i + chunk]) for i in range(0, len(lines), chunk)]
    res = {"events": len(lines), "bad": [], "devs": {}, "kinds": {}}
    with cf.ThreadPoolExecutor(max_workers=max(1, parallel)) as ex:
        futs = [(off, ex.submit(_chunk, module, cfg, c, ctx.rundir.path, "%s%d" % (tag, k), timeout_s))
                for k, (off, c) in enumerate(chunks)]
        for off, f in futs:
            bad, dev, kinds, states = f.result()
            ctx.states += states
            ctx.transitions += states
            res["bad"] += [off + b - 1 for b in bad]
            for d, at in dev.items():
                res["devs"].setdefault(d, off + at - 1)
            for k, n in kinds.items():
                res["kinds"][k] = res["kinds"].get(k, 0) + n
    ctx.traces += len(lines)
    return res
