"""Shared machinery of the C06 / C08 checks (synchronous metrics pipeline).

Python only shuttles JSON:  TLC (spec/MetricsSync.tla) -> behaviours -> harness/c06_sync.cc (real SDK)
-> event log -> TLC (spec/MetricsSyncTrace.tla, the deciding oracle).  Random histories are drawn here
(inputs only); no semantics of the pipeline is implemented in this file.
"""
import concurrent.futures as cf
import json
import os
import random
import re

from . import hrun
from . import tlc as T
from .common import Broken, log

D1 = "delta-fastpath-start-at-sdk-start"
D2 = "dup-handle-orphans-storage"
D3 = "multi-view-last-wins"
D4 = "explicit-limit-lost-after-first-interval"
D6 = "merge-overwrites-overflow-at-default-limit"
ALL_DEVS = [D1, D2, D3, D4, D6]

REAL_DEFLIMIT = 2000

# named values of spec/MC_MetricsSync.tla -> python values (used to build Cfg events / programs)
TEMPS = {"T_d": ["delta"], "T_c": ["cum"], "T_dc": ["delta", "cum"], "T_cd": ["cum", "delta"], "T_dd": ["delta", "delta"],
         "T_cc": ["cum", "cum"], "T_ddc": ["delta", "delta", "cum"]}
FILTERS = {"F_all": [[0]], "F_k1": [[1]], "F_none": [[]], "F_k12": [[1, 2]], "F_all_k1": [[0], [1]],
           "F_k1_all": [[1], [0]], "F_k2_k1": [[2], [1]]}
AMOUNTS = {"AM_1": (1,), "AM_12": (1, 2), "AM_pm": (1, -1), "AM_pm2": (2, -1)}


def tla_set(names):
    return "{" + ", ".join('"%s"' % n for n in sorted(names)) + "}"


class ModelCfg:
    """One TLC configuration of MetricsSync.tla."""

    def __init__(self, temps, filters, attrseqs, *, limit=100, deflimit=100, handles=1, amounts="AM_12",
                 maxadd=3, maxcol=3, allorders=False, dev=(), init=None, shutdown=0):
        self.temps, self.filters, self.attrseqs = temps, filters, attrseqs
        self.init = len(TEMPS[temps]) if init is None else init     # readers registered up front; the rest arrive late
        self.limit, self.deflimit, self.handles = limit, deflimit, handles
        self.amounts, self.maxadd, self.maxcol = amounts, maxadd, maxcol
        self.allorders, self.dev = allorders, tuple(dev)
        self.shutdown = shutdown      # readers that may be shut down individually in the middle of the history

    def name(self):
        return "%s%s%s %s %s %s L=%d/%d h=%d add<=%d col<=%d%s%s" % (
            self.temps, "" if self.init == len(TEMPS[self.temps]) else "(%d up front)" % self.init, "(<=%d shut down)" % self.shutdown if self.shutdown else "", self.filters, self.attrseqs, self.amounts, self.limit, self.deflimit, self.handles, self.maxadd,
            self.maxcol, " allorders" if self.allorders else "", " Dev=" + ",".join(self.dev) if self.dev else "")

    def text(self, hist, invariants, dev=None):
        dev = self.dev if dev is None else dev
        return ("CONSTANTS\n  Temps <- %s\n  InitReaders = %d\n  Filters <- %s\n  AttrSeqs <- %s\n  Limit = %d\n  DefLimit = %d\n"
                "  MaxHandles = %d\n  Amounts <- %s\n  MaxAdd = %d\n  MaxCollect = %d\n  MaxShutdown = %d\n  AllOrders = %s\n"
                "  Dev = %s\n  Hist = %s\nINIT Init\nNEXT Next\nVIEW View\nINVARIANTS %s\n" % (
                    self.temps, self.init, self.filters, self.attrseqs, self.limit, self.deflimit, self.handles,
                    self.amounts, self.maxadd, self.maxcol, self.shutdown,
                    "TRUE" if self.allorders else "FALSE", tla_set(dev), "TRUE" if hist else "FALSE",
                    " ".join(invariants)))

    def write(self, ctx, fname, hist, invariants, dev=None):
        p = ctx.rundir.file(fname)
        with open(p, "w") as f:
            f.write(self.text(hist, invariants, dev))
        return p

    def cfg_event(self, x):
        """The monitor's Cfg event for a behaviour of this model configuration (model vocabulary)."""
        return {"e": "Cfg", "x": x, "mode": "api" if self.limit == self.deflimit else "storage",
                "temps": TEMPS[self.temps][:self.init], "filters": FILTERS[self.filters], "limit": self.limit,
                "mono": all(a >= 0 for a in AMOUNTS[self.amounts])}


IDEAL_INVS = ["TypeOK", "DeltaConservation", "WindowIsPending", "NothingBroken", "TableWithinLimit",
              "OnlyListedDeviations"]
ASIMPL_INVS = ["TypeOK", "OnlyListedDeviations"]


def _mc_run(rundir, mc, workers, timeout_s, coverage, tag):
    invs = ASIMPL_INVS if mc.dev else IDEAL_INVS
    c = os.path.join(rundir, tag + ".cfg")
    with open(c, "w") as f:
        f.write(mc.text(False, invs))
    return T.tlc("MC_MetricsSync", c, rundir=rundir, workers=workers, timeout_s=timeout_s, coverage=coverage, tag=tag)


def model_check(ctx, mcs, *, workers=3, parallel=2, timeout_s=600, coverage_first=True):
    """Exhaustive runs; Dev = {} checks the property's invariants, Dev # {} checks that every way of
    breaking the property goes through a listed deviation.  `mcs`: list of ModelCfg."""
    with cf.ThreadPoolExecutor(max_workers=parallel) as ex:
        futs = [ex.submit(_mc_run, ctx.rundir.path, mc, workers, timeout_s, coverage_first and i == 0, "mc%d" % i)
                for i, mc in enumerate(mcs)]
        results = [f.result() for f in futs]
    for i, (mc, r) in enumerate(zip(mcs, results)):
        ctx.add_tlc("MetricsSync " + mc.name(), r)
        if r.status == "timeout":
            log("MetricsSync config timed out (bounded):", mc.name())
            continue
        if r.status == "invariant":
            raise Broken("the reference model violates %s in config %s\n%s" % (r.violated, mc.name(), r.trace_text[:3000]))
        T.must_ok(r, "MetricsSync model checking " + mc.name())
        if coverage_first and i == 0:
            for a in ("Create", "Add", "Collect") + (("AddReader",) if mc.init < len(TEMPS[mc.temps]) else ()) + (
                    ("ShutdownReader",) if mc.shutdown else ()):
                if r.coverage.get(a, (0, 0))[0] == 0:
                    raise Broken("vacuity: action %s never taken in %s" % (a, mc.name()))
    return results


def _cfgfile(rundir, mc, fname, hist, invariants):
    p = os.path.join(rundir, fname)
    with open(p, "w") as f:
        f.write(mc.text(hist, invariants))
    return p


# Generation jobs: pure functions of (rundir) returning (behaviours, [(name, TLCResult, complete)]); they are
# run a few at a time (each TLC start costs ~2 s of JVM) by run_jobs(), which does the ctx bookkeeping.
def witness_job(mc, w, *, must=True, timeout_s=900):
    """A shortest behaviour ending in a Collect in which the rare step `w` happened (workers=1: the
    choice among equally short behaviours is deterministic)."""
    def job(rundir, i):
        c = _cfgfile(rundir, mc, "wit%d.cfg" % i, True, [w])
        r = T.tlc("MC_MetricsSync", c, rundir=rundir, workers=1, timeout_s=timeout_s, tag="wit%d-%s" % (i, w))
        b = r.printed("BEH")
        if r.status != "invariant" or not b:
            if must:
                raise Broken("witness %s not reachable in %s (vacuity): %s" % (w, mc.name(), r.status))
            return [], [("witness %s (%s)" % (w, mc.name()), r)]
        return [{"mc": mc, "events": b[0], "src": w}], [("witness %s (%s)" % (w, mc.name()), r)]
    return job


def bfs_job(mc, *, emit="EmitEvery", workers=1, timeout_s=900, limit=None, seed=1):
    """One behaviour for every distinct state of the bounded model that is reached by a Collect (hist is
    outside the VIEW, so TLC keeps the first path to a state; workers=1 makes that choice deterministic);
    a seeded sample beyond `limit`."""
    def job(rundir, i):
        c = _cfgfile(rundir, mc, "bfs%d.cfg" % i, True, [emit])
        r = T.tlc("MC_MetricsSync", c, rundir=rundir, workers=workers, timeout_s=timeout_s, tag="bfs%d" % i)
        if r.status not in ("ok", "timeout"):
            raise Broken("behaviour generation failed: %s %s" % (r.status, r.out[-2000:]))
        behs = _dedupe([{"mc": mc, "events": b, "src": "bfs"} for b in r.printed("BEH")], limit, seed)
        return behs, [("behaviours %s (%s)" % (emit, mc.name()), r)]
    return job


def sim_job(mc, *, num, depth, seed, timeout_s=1200, limit=None):
    """Random walks (-simulate, workers=1 so that the walks are a function of the seed)."""
    def job(rundir, i):
        c = _cfgfile(rundir, mc, "sim%d.cfg" % i, True, ["EmitAll"])
        r = T.tlc("MC_MetricsSync", c, rundir=rundir, workers=1, timeout_s=timeout_s,
                  simulate={"num": num, "depth": depth}, seed=seed, tag="sim%d" % i)
        if r.status != "ok":
            raise Broken("simulate failed: %s %s" % (r.status, r.out[-2000:]))
        return _dedupe([{"mc": mc, "events": b, "src": "simulate"} for b in r.printed("BEH")], limit, seed), []
    return job


def run_jobs(ctx, jobs, parallel=4):
    with cf.ThreadPoolExecutor(max_workers=parallel) as ex:
        futs = [ex.submit(j, ctx.rundir.path, i) for i, j in enumerate(jobs)]
        results = [f.result() for f in futs]
    behs = []
    for b, runs in results:
        behs += b
        for name, r in runs:
            ctx.add_tlc(name, r)
    return behs


def _dedupe(behs, limit=None, seed=1):
    """Distinct behaviours in a deterministic order (TLC prints them in worker order); a seeded sample
    when there are more than `limit`."""
    byk = {}
    for b in behs:
        byk.setdefault(json.dumps(b["events"], sort_keys=True), b)
    out = [byk[k] for k in sorted(byk)]
    if limit and len(out) > limit:
        out = random.Random(seed).sample(out, limit)
    return out


# ---- programs for the harness -----------------------------------------------------------------
KINDS = [("counter", "long"), ("counter", "double"), ("updown", "long"), ("updown", "double")]


def concretisation(rng, mono):
    kinds = KINDS[:2] if mono else KINDS[2:]
    kind, vt = rng.choice(kinds)
    return {"kind": kind, "vt": vt, "kt": rng.randrange(4), "vf": rng.randrange(13), "scale": rng.randrange(3),
            "seed": rng.randrange(1, 1 << 30), "defview": rng.random() < 0.5}


def program_from_behaviour(beh, x, rng):
    """Operations of a TLC behaviour (the model's own results are dropped) + a seeded concretisation."""
    mc = beh["mc"]
    cfg = mc.cfg_event(x)
    p = {"x": x, "mode": cfg["mode"], "temps": cfg["temps"], "filters": cfg["filters"],
         "limit": cfg["limit"] if cfg["mode"] == "storage" else REAL_DEFLIMIT}
    p.update(concretisation(rng, cfg["mono"]))
    ops = []
    for e in beh["events"]:
        if e["e"] == "Create":
            ops.append({"e": "Create"})
        elif e["e"] == "AddReader":
            ops.append({"e": "AddReader", "t": e["t"]})
        elif e["e"] == "ShutdownReader":
            ops.append({"e": "ShutdownReader", "r": e["r"]})
        elif e["e"] == "Add":
            ops.append({"e": "Add", "h": e["h"], "attrs": e["attrs"], "v": e["v"]})
        elif e["e"] == "Collect":
            ops.append({"e": "Collect", "r": e["r"]})
    p["ops"] = ops
    p["src"] = beh.get("src")
    return p


def attr_pool(rng, nsets, nkeys, nvals, maxlen=3):
    """Attribute sequences: `nsets` base sets plus permuted / duplicate-key spellings of them."""
    pool = []
    for _ in range(nsets):
        n = rng.randrange(0, maxlen + 1)
        keys = rng.sample(range(1, nkeys + 1), min(n, nkeys))
        base = [[k, rng.randrange(1, nvals + 1)] for k in keys]
        pool.append(base)
        if len(base) >= 2 and rng.random() < 0.7:
            q = base[:]
            rng.shuffle(q)
            pool.append(q)
        if base and rng.random() < 0.5:            # duplicate key, last wins
            k, v = rng.choice(base)
            pool.append([[k, rng.randrange(1, nvals + 1)]] + base)
            pool.append(base + [[k, v]])
    return pool


def random_program(rng, x, *, mode="api", temps=None, filters=None, limit=REAL_DEFLIMIT, handles=1, nops=120,
                   nsets=12, nkeys=3, nvals=3, p_collect=0.2, mono=None, amounts=(1, 9), late_create=True,
                   late=(), collect_first=False, shutdown=0, p_down_collect=0.0):
    """`temps`: readers registered up front; `late`: temporalities of readers registered at random points in
    the middle of the history; `collect_first`: some collections happen before the instrument is created;
    `shutdown`: so many readers are shut down individually (MetricReader::Shutdown) at random points while the
    others keep collecting - half of them right after a collection of their own; a reader that was shut down
    collects again only with probability `p_down_collect` per draw."""
    temps = temps or rng.choice(list(TEMPS.values()))
    filters = filters or [[0]]
    mono = (rng.random() < 0.6) if mono is None else mono
    p = {"x": x, "mode": mode, "temps": temps, "filters": filters, "limit": limit}
    p.update(concretisation(rng, mono))
    pool = attr_pool(rng, nsets, nkeys, nvals)
    ops = []
    nr = len(temps)
    if collect_first:
        for _ in range(rng.randrange(1, 3)):
            ops.append({"e": "Collect", "r": rng.randrange(1, nr + 1)})
    ops.append({"e": "Create"})
    nh = 1
    late = list(late)
    when = sorted(rng.randrange(nops // 5, nops) for _ in late)
    down, shut_at = set(), sorted(rng.randrange(nops // 10, nops) for _ in range(shutdown))

    def pick_reader():
        r = rng.randrange(1, nr + 1)
        while r in down and len(down) < nr and rng.random() >= p_down_collect:
            r = rng.randrange(1, nr + 1)
        return r

    for i in range(nops):
        while shut_at and shut_at[0] == i:
            shut_at.pop(0)
            live = [r for r in range(1, nr + 1) if r not in down]
            if live:
                q = rng.choice(live)
                if rng.random() < 0.5:         # it has just swapped the live interval out for everybody else
                    ops.append({"e": "Collect", "r": q})
                ops.append({"e": "ShutdownReader", "r": q})
                down.add(q)
        while when and when[0] == i:
            when.pop(0)
            ops.append({"e": "AddReader", "t": late.pop(0)})
            nr += 1
        u = rng.random()
        if nh < handles and late_create and u < 0.03:
            ops.append({"e": "Create"})
            nh += 1
        elif u < p_collect:
            ops.append({"e": "Collect", "r": pick_reader() if down else rng.randrange(1, nr + 1)})
        else:
            v = rng.randint(amounts[0], amounts[1])
            if not mono and rng.random() < 0.4:
                v = -v
            ops.append({"e": "Add", "h": rng.randrange(1, nh + 1), "attrs": rng.choice(pool), "v": v})
    for t in late:
        ops.append({"e": "AddReader", "t": t})
        nr += 1
    for r in range(1, nr + 1):            # final quiescent collection by every reader
        ops.append({"e": "Collect", "r": r})
    p["ops"] = ops
    p["src"] = "random"
    return p


def run_programs(ctx, exe, programs, tag, timeout=1500):
    """Execute on the real SDK; returns {x: [event lines]}.  A crash of the real code is a VIOLATION."""
    path = ctx.rundir.file("prog-%s.ndjson" % tag)
    with open(path, "w") as f:
        for p in programs:
            f.write(json.dumps(p) + "\n")
    res = hrun.run_harness(exe, ["run", path], timeout=timeout)
    byx, cur = {}, None
    for ln in res.lines:
        if ln.startswith('{"e":"Cfg"'):
            cur = json.loads(ln)["x"]
            byx[cur] = []
        if cur is not None:
            byx[cur].append(ln)
    if res.timed_out:
        raise Broken("harness timed out (%s)" % tag)
    if res.crashed or res.rc != 0:
        bad = next((p for p in programs if p["x"] == cur), None)
        if res.crashed and bad is not None:
            ctx.violation("the real SDK crashed (rc=%s) while executing history x=%s: %s" % (
                res.rc, cur, res.err[-1500:]), {"program": bad, "stderr": res.err[-3000:]})
            byx.pop(cur, None)
        else:
            raise Broken("harness failed rc=%s: %s" % (res.rc, res.err[-2000:]))
    os.unlink(path)
    return byx


# ---- validation by the monitor ------------------------------------------------------------------
MON_CFG = """CONSTANTS Dev = %s  DefLimit = %d  CheckTime = %s
INIT Init
NEXT Next
CONSTRAINT Progress
INVARIANT Report
POSTCONDITION Accepted
CHECK_DEADLOCK FALSE
"""
_RE_REJ = re.compile(r'<<"REJECTED_AT", (\d+)>>')
_RE_ACC = re.compile(r'<<"ACCEPTED", (\d+)>>')


def _validate_chunk(rundir, cfgpath, execs, tag, timeout_s, max_rejects):
    """execs: list of (x, lines).  The monitor is deterministic and consumes the log in order, so on a
    rejection everything before the offending execution is accepted; validation continues with what comes
    after it.  After `max_rejects` rejections the rest of the chunk is left unvalidated (the check has
    failed anyway).  Returns (accepted_x, rejected [(x, lines, at)], devs {x: set}, states, skipped)."""
    execs = list(execs)
    accepted, rejected, devs, states = [], [], {}, 0
    while execs:
        path = os.path.join(rundir, "trace-%s.ndjson" % tag)
        with open(path, "w") as f:
            for _, lines in execs:
                for ln in lines:
                    f.write(ln.rstrip("\n") + "\n")
        r = T.tlc("MetricsSyncTrace", cfgpath, rundir=rundir, workers=1, timeout_s=timeout_s, env={"TRACE": path},
                  tag="tv-" + tag, deadlock=True, xmx="6g")
        states += r.distinct
        os.unlink(path)
        used = {}
        for d in r.printed("DEV"):
            used.setdefault(d["x"], set()).update(d["used"])
        if _RE_ACC.search(r.out) and r.status == "ok":
            accepted += [x for x, _ in execs]
            devs.update(used)
            execs = []
            break
        m = _RE_REJ.search(r.out)
        if not m:
            raise Broken("trace validation run failed (%s, rc=%s): %s" % (r.status, r.rc, r.out[-2500:]))
        pos, acc, hit = int(m.group(1)), 0, None
        for i, (_, lines) in enumerate(execs):
            if pos <= acc + len(lines):
                hit = i
                break
            acc += len(lines)
        if hit is None:
            raise Broken("REJECTED_AT %d beyond the log" % pos)
        for x, _ in execs[:hit]:
            accepted.append(x)
            if x in used:
                devs[x] = used[x]
        rejected.append((execs[hit][0], execs[hit][1], pos - acc - 1))
        execs = execs[hit + 1:]
        if len(rejected) >= max_rejects:
            break
    return accepted, rejected, devs, states, len(execs)


def validate(ctx, byx, dev, *, deflimit=REAL_DEFLIMIT, checktime=True, parallel=4, chunk_events=30000,
             timeout_s=900, tag="t", max_rejects=4):
    """Validate every execution log with spec/MetricsSyncTrace.tla.  `byx`: {x: [lines]}.
    `dev`: the deviation names the monitor may use (all names defined for the property being checked:
    whether a used deviation is a KNOWN-FINDING or a VIOLATION is decided by ctx.deviation from
    known_findings.txt, so an unlisted defect is reported by name instead of as a bare rejection)."""
    cfgpath = ctx.rundir.file("mon-%s.cfg" % tag)
    with open(cfgpath, "w") as f:
        f.write(MON_CFG % (tla_set([d for d in dev if d in ALL_DEVS]), deflimit, "TRUE" if checktime else "FALSE"))
    chunks, cur, n = [], [], 0
    for x in sorted(byx):
        cur.append((x, byx[x]))
        n += len(byx[x])
        if n >= chunk_events:
            chunks.append(cur)
            cur, n = [], 0
    if cur:
        chunks.append(cur)
    res = {"executions": len(byx), "events": sum(len(v) for v in byx.values()), "accepted": [], "rejected": [], "devs": {}}
    with cf.ThreadPoolExecutor(max_workers=max(1, parallel)) as ex:
        futs = [ex.submit(_validate_chunk, ctx.rundir.path, cfgpath, c, "%s%d" % (tag, i), timeout_s, max_rejects)
                for i, c in enumerate(chunks)]
        for f in futs:
            acc, rej, devs, states, skipped = f.result()
            res["skipped"] = res.get("skipped", 0) + skipped
            res["accepted"] += acc
            res["devs"].update(devs)
            ctx.states += states
            ctx.transitions += states
            for x, lines, at in rej:
                res["rejected"].append({"x": x, "events": [json.loads(l) for l in lines], "at": at})
    ctx.traces += len(res["accepted"]) + len(res["rejected"])
    if res.get("skipped"):
        log("%d executions left unvalidated after %d rejections (%s)" % (res["skipped"], len(res["rejected"]), tag))
        ctx.extra["executions_not_validated_after_rejections"] = ctx.extra.get("executions_not_validated_after_rejections", 0) + res["skipped"]
    return res


WHAT = {
    D1: "single delta reader (fast path): a later delta point starts at SDK start instead of where the reader's previous point ended",
    D2: "a second handle for the same instrument replaces the first handle's storage: measurements through the first handle are never reported",
    D3: "an instrument with two views: only the last view's stream is ever collected",
    D4: "explicit cardinality limit: after the first interval more series than the limit are reported",
    D6: "a merge table at the default limit replaces the overflow point instead of merging into it: the reported total shrinks",
}


def classify(ctx, res, programs, what_prefix):
    """Turn the monitor's verdicts into VIOLATION / KNOWN-FINDING lines."""
    byx = {p["x"]: p for p in programs}
    for rj in res["rejected"]:
        at, ev = rj["at"], rj["events"]
        ctx.violation("%s: the monitor MetricsSyncTrace rejects a real execution at event %d: %s" % (
            what_prefix, at, json.dumps(ev[at])[:600] if at < len(ev) else "?"),
            {"program": byx.get(rj["x"]), "events": ev if len(ev) < 400 else ev[:at + 1][-400:], "at": at})
    for x, used in sorted(res["devs"].items()):
        for d in sorted(used):
            ctx.deviation(d, "%s: %s (history x=%s, src=%s)" % (what_prefix, WHAT.get(d, d), x, byx.get(x, {}).get("src")),
                          {"program": byx.get(x), "dev": d})


def check_model_against_monitor(ctx, behs, dev, tag):
    """Guard against an over-strict (or vacuous) monitor: every behaviour of the reference model, with
    the model's own results, must be accepted by the monitor -- Dev = {} without using any deviation."""
    groups = {}
    for i, b in enumerate(behs):
        groups.setdefault(b["mc"].deflimit, []).append((i, b))
    for deflimit, items in groups.items():
        byx = {}
        for i, b in items:
            byx[i] = [json.dumps(b["mc"].cfg_event(i))] + [json.dumps(e) for e in b["events"]]
        t0 = ctx.traces
        res = validate(ctx, byx, dev, deflimit=deflimit, tag="%s-ba%d" % (tag, deflimit))
        ctx.traces = t0           # model behaviours are not real executions
        if res["rejected"]:
            rj = res["rejected"][0]
            raise Broken("monitor rejects a behaviour of the reference model (Dev=%s) at event %d: %s" % (
                sorted(dev), rj["at"], json.dumps(rj["events"])[:3000]))
        if not dev and res["devs"]:
            raise Broken("monitor needs a deviation for an ideal-model behaviour: %s" % res["devs"])
        ctx.extra["model_behaviours_accepted_by_monitor"] = ctx.extra.get("model_behaviours_accepted_by_monitor", 0) + len(byx)
