"""Trace validation like lib.trace.validate (same REJECTED_AT / ACCEPTED protocol, same chunking and
isolation of rejected executions) that additionally returns what the ACCEPTING TLC runs printed
under given tags, e.g. <<"STATS", ToJson(..)>> / <<"DEVUSED", ToJson(..)>> lines of a trace spec's
Report (coverage measured by TLC itself, deviation use).  Used by C10 / C13."""
import concurrent.futures as cf
import json
import os

from . import tlc as T
from .common import Broken
from .trace import _RE_ACC, _RE_REJ, split_executions  # noqa: F401  (split_executions re-exported)


def _chunk(module, cfg, execs, rundir, tag, env_extra, timeout_s, max_rejects, tags):
    rejected, states, printed = [], 0, {t: [] for t in tags}
    execs = list(execs)
    while execs:
        path = os.path.join(rundir, "trace-%s.ndjson" % tag)
        with open(path, "w") as f:
            for e in execs:
                for ln in e:
                    f.write(ln.rstrip("\n") + "\n")
        env = {"TRACE": path}
        env.update(env_extra or {})
        r = T.tlc(module, cfg, rundir=rundir, workers=1, timeout_s=timeout_s, env=env, tag="tvs-" + tag, deadlock=True)
        states += r.distinct
        m = _RE_REJ.search(r.out)
        if _RE_ACC.search(r.out) and r.status == "ok":
            for t in tags:
                printed[t] += r.printed(t)
            break
        if not m:
            raise Broken("trace validation run failed (%s, rc=%s): %s" % (r.status, r.rc, r.out[-2500:]))
        pos, acc, hit = int(m.group(1)), 0, None
        for i, e in enumerate(execs):
            if pos <= acc + len(e):
                hit = i
                break
            acc += len(e)
        if hit is None:
            raise Broken("REJECTED_AT %d beyond the log (%d lines)" % (pos, acc))
        rejected.append((execs[hit], pos - acc - 1))
        del execs[hit]
        if len(rejected) >= max_rejects:
            break
    try:
        os.unlink(os.path.join(rundir, "trace-%s.ndjson" % tag))
    except OSError:
        pass
    return len(execs), rejected, states, printed


def validate(ctx, module, cfg, lines, *, marker='"e":"Cfg"', chunk=50, parallel=4, env=None, timeout_s=900,
             max_rejects=3, tag="t", tags=("STATS",)):
    """-> dict(executions, accepted, events, rejected=[{events, at}], printed={tag: [parsed json, ...]})"""
    execs = split_executions(lines, marker)
    chunks = [execs[i:i + chunk] for i in range(0, len(execs), chunk)]
    res = {"executions": len(execs), "accepted": 0, "rejected": [], "events": len(lines),
           "printed": {t: [] for t in tags}}
    with cf.ThreadPoolExecutor(max_workers=max(1, parallel)) as ex:
        futs = [ex.submit(_chunk, module, cfg, c, ctx.rundir.path, "%s%d" % (tag, i), env, timeout_s, max_rejects, tags)
                for i, c in enumerate(chunks)]
        for f in futs:
            n, rej, states, printed = f.result()
            res["accepted"] += n
            ctx.states += states
            ctx.transitions += states
            for t in tags:
                res["printed"][t] += printed[t]
            for e, off in rej:
                ev = []
                for ln in e:
                    try:
                        ev.append(json.loads(ln))
                    except Exception:
                        ev.append(ln)
                res["rejected"].append({"events": ev, "at": off})
    ctx.traces += res["accepted"] + len(res["rejected"])
    return res
