#!/usr/bin/env python3
"""Parses the confirmation logs of the seeded changes (/tmp/seedlog*.txt, written by /tmp/confirm_seed.sh) and
prints one line per change: property, change, build, existing tests, demo with/without, check verdict."""
import glob
import re
import sys

rows = {}
for f in sorted(glob.glob("/tmp/seedlog*.txt")):
    cur = None
    section = None
    for ln in open(f, errors="replace"):
        m = re.match(r"^##### /tmp/seed(2|3|)-(C\d+)/out/change(\d) \((C\d+)\)", ln)
        if m:
            n = int(m.group(3)) + {"": 0, "2": 2, "3": 4}[m.group(1)]      # wave 2 -> change3/4, wave 3 -> change5
            cur = rows.setdefault("%s-change%d" % (m.group(2), n), {"build": "?", "tests": "?", "with": "?", "without": "?", "check": "?"})
            section = None
            continue
        if cur is None:
            continue
        if ln.startswith("BUILD"):
            cur["build"] = ln.strip()
        m = re.search(r"(\d+)% tests passed, (\d+) tests failed out of (\d+)", ln)
        if m:
            cur["tests"] = "%s/%s passed" % (int(m.group(3)) - int(m.group(2)), m.group(3))
        if ln.startswith("--- demo WITH change"):
            section = "with"
        elif ln.startswith("--- check WITH change"):
            section = "check"
        elif ln.startswith("--- demo WITHOUT change"):
            section = "without"
        m = re.match(r"^exit=(\d+)", ln)
        if m and section in ("with", "without"):
            cur[section] = "exit %s" % m.group(1)
        if section == "check":
            if "VIOLATION property=" in ln:
                cur["check"] = "VIOLATION"
            elif "BROKEN" in ln and cur["check"] != "VIOLATION":
                cur["check"] = "BROKEN"
            elif "done in" in ln and cur["check"] == "?":
                cur["check"] = "missed (exit 0)" if " 0 violation" in ln else "VIOLATION"
for k in sorted(rows):
    r = rows[k]
    print("%-12s build=%-9s tests=%-14s demo_with=%-7s demo_without=%-7s check=%s" % (k, r["build"], r["tests"], r["with"], r["without"], r["check"]))
