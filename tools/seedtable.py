#!/usr/bin/env python3
"""Builds seeded/RESULTS.md (and updates seeded/*/meta.json) from
  seeded/FIRST_RUN.txt   first run of each seeded change against the check as it was when the change arrived
  seeded/FINAL.txt       re-run of every change against the final checks ("<name> :: <grep of the check output>")
"""
import glob
import json
import os
import re

V = os.path.dirname(os.path.dirname(os.path.abspath(__file__)))
first = {}
for ln in open(os.path.join(V, "seeded/FIRST_RUN.txt")):
    f = ln.split()
    if not f:
        continue
    name = f[0]
    m = re.search(r"tests=(\S+ passed|\S+)", ln)
    first[name] = {"tests": m.group(1) if m else "?", "demo_with": re.search(r"demo_with=(exit \d|\?)", ln).group(1),
                   "demo_without": re.search(r"demo_without=(exit \d|\?)", ln).group(1),
                   "check": ln.split("check=")[1].strip()}
final = {}
fp = os.path.join(V, "seeded/FINAL.txt")
if os.path.exists(fp):
    for ln in open(fp):
        if " :: " not in ln:
            continue
        name, res = ln.split(" :: ", 1)
        if "VIOLATION property" in res:
            v = "VIOLATION"
        elif "BROKEN" in res:
            v = "BROKEN"
        elif "APPLY-FAILED" in res:
            v = "patch no longer applies"
        elif " 0 violation" in res:
            v = "missed (exit 0)"
        else:
            v = "?"
        final[name.strip()] = v
notes = {}
np_ = os.path.join(V, "seeded/NOTES.json")
if os.path.exists(np_):
    notes = json.load(open(np_))

rows = []
for d in sorted(glob.glob(os.path.join(V, "seeded/C*-change*"))):
    name = os.path.basename(d)
    mp = os.path.join(d, "meta.json")
    meta = json.load(open(mp)) if os.path.exists(mp) else {}
    fr = first.get(name, {})
    fin = final.get(name, "not re-run")
    meta["verification"] = {
        "confirmed_in": "scratch worktree /tmp/wt-confirm with its own cmake/ninja build (same options as /repo/_build): git apply patch.diff -> ninja -> ctest -R <related> -> demo build.sh; git checkout -- . -> demo again",
        "existing_tests_with_change": fr.get("tests", "?"),
        "demo_with_change": fr.get("demo_with", "?"), "demo_without_change": fr.get("demo_without", "?"),
        "check_first_run": fr.get("check", "?"),
        "check_final": fin,
        "check_command": "VERIF_REPO=<worktree with patch applied> tools/check %s --tier quick" % name.split("-")[0],
        "note": notes.get(name, ""),
    }
    json.dump(meta, open(mp, "w"), indent=1)
    rows.append((name, meta.get("summary", "")[:150].replace("|", "/").replace("\n", " "), fr.get("tests", "?"), fr.get("check", "?"), fin, notes.get(name, "")))

with open(os.path.join(V, "seeded/RESULTS.md"), "w") as f:
    f.write("| change | what it does (from the seeding agent) | existing tests with change | check, first run | check, final | note |\n|---|---|---|---|---|---|\n")
    for r in rows:
        f.write("| %s | %s | %s | %s | %s | %s |\n" % r)
n = len(rows)
c1 = sum(1 for r in rows if r[3] == "VIOLATION")
c2 = sum(1 for r in rows if r[4] == "VIOLATION")
print("changes: %d, caught at first run: %d, caught by the final checks: %d" % (n, c1, c2))
print("not caught finally:", [r[0] for r in rows if r[4] != "VIOLATION"])
