"""C09 - W3C trace-context propagation round-trips and only accepts well-formed headers.

1. TLC, exhaustive over the abstract input partition of spec/TraceContextHeader.tla: all 256 flag
   bytes x id classes x simple trace states on the inject side; the mutation graph of abstract
   carriers (<= MaxFaults mutated dimensions) on the extract side.  Invariants = the clauses of the
   property, for Dev = {} (ideal) and for Dev = every named deviation ("every breach goes through a
   named deviation"); Agree = the class-level contract and the token-level grammar coincide.
2. spec -> code: TLC prints one (abstract input, expected outcome) line per member (BEH); the
   ASan+UBSan harness concretises each n times (seeded), runs the real HttpTraceContext and compares:
   injected header byte for byte, extraction result = exactly the encoded context / unchanged.
3. code -> spec: random byte-level mutations of valid headers and random contexts run through the
   real propagator; each byte abstracted to a token; TraceContextHeaderTrace.tla (TLC) decides.
4. (round 4) the tail family of the same spec: header VALUES given as tokens (one per byte, every byte value has
   exactly one token): every prefix (length 0..full+2) of a well-formed traceparent (version 00, a higher version
   without / with trailing fields) with one of its last positions replaced by every token, every token string of
   length <= ShortLen, and the same for tracestate values next to a well-formed traceparent.  TLC computes the
   expected outcome of exactly that value from the token-level grammar and checks the clauses that apply
   (TailAcceptDocumented, TailTruncatedRejected, TailEmptyIsAbsent, TailAnchored, TailTsNeverBlocks,
   TailTsExactOnlySimple); the harness expands the replaced position to ALL byte values of the token's class and
   hands each value over as an exactly-sized heap view (ASan) and once more followed in-buffer by continuation
   bytes (the observation must not depend on them).
The oracle is always TLC (BEH expectation or acceptance by the trace spec)."""
import concurrent.futures as cf
import json

from lib import build, propagation, tlc
from lib.common import Broken, log

LEVEL = "model_checking"
MODULE = "TraceContextHeader"
ALLDEVS = ["traceflags-upper-hex-inject"]

FULL = {"tid": '"rand", "hi64zero", "lo64zero", "one", "max", "zero"', "sid": '"rand", "one", "max", "zero"',
        "tsc": '"none", "one", "three", "full32"'}
# quick tier: all 256 flag bytes, a subset of the id classes
QUICK = {"tid": '"rand", "hi64zero", "max", "zero"', "sid": '"rand", "one", "zero"', "tsc": '"none", "one", "three", "full32"'}
# as-implemented run: the deviation depends on the flags byte only - all 256 of them, fewer id classes
SMALL = {"tid": '"rand", "zero"', "sid": '"rand", "zero"', "tsc": '"none", "one"'}
CFG = """CONSTANTS
  Dev = {%(dev)s}
  TidC = {%(tid)s}
  SidC = {%(sid)s}
  TsC = {%(tsc)s}
  NFlag = 256
  RepFlags = {1, 171}
  MaxFaults = %(k)d
  SweepFaults = %(sw)d
  TailBases = {}
  TailPos = 0
  ShortKinds = {}
  ShortLen = 0
INIT Init
NEXT Next
CONSTRAINT Budget
INVARIANTS %(inv)s
"""
INVS = ("TypeOK InjectLevel1 InjTokensLevel1 InvalidNeverInjected RoundTrip InvalidNeverInstalled OnlyShape "
        "WellFormedAccepted Version00Exact Agree")
TRACE_CFG = """CONSTANTS
  Dev = {%(dev)s}
  TidC = {"rand"}
  SidC = {"rand"}
  TsC = {"none"}
  NFlag = 256
  RepFlags = {1}
  MaxFaults = 0
  SweepFaults = 0
  TailBases = {}
  TailPos = 0
  ShortKinds = {}
  ShortLen = 0
INIT TInit
NEXT TNext
CONSTRAINT Progress
INVARIANT Report
POSTCONDITION Accepted
CHECK_DEADLOCK FALSE
"""
TAIL_CFG = """CONSTANTS
  Dev = {}
  TidC = {"rand"}
  SidC = {"rand"}
  TsC = {"none"}
  NFlag = 256
  RepFlags = {1}
  MaxFaults = 0
  SweepFaults = 0
  TailBases = {%(bases)s}
  TailPos = %(pos)d
  ShortKinds = {"tp", "ts"}
  ShortLen = %(shortlen)d
INIT InitTail
NEXT Next
INVARIANTS TypeOK TailTypeOK TailAcceptDocumented TailTruncatedRejected TailEmptyIsAbsent TailAnchored TailTsNeverBlocks TailTsExactOnlySimple EmitAll
"""
TAIL_TIERS = {"quick": {"bases": ["v00", "hi", "hiext", "ts3"], "pos": 2, "shortlen": 2},
              "thorough": {"bases": ["v00", "hi", "hiext", "ts3", "tsws"], "pos": 3, "shortlen": 3}}
TAIL_ID0 = 3 * 10 ** 9
NTOK = 30
MAX_REPORTS = 12


def _cfg(ctx, name, text):
    p = ctx.rundir.file(name)
    with open(p, "w") as f:
        f.write(text)
    return p


def _devset(names):
    return ", ".join('"%s"' % d for d in sorted(names))


def _bounds(ctx):
    return (4, 2) if ctx.tier == "thorough" else (3, 1)


def model_check(ctx):
    """Three TLC runs: ideal (property invariants + coverage + EmitAll = the BEH lines), as-implemented, and the
    tail family."""
    k, sw = _bounds(ctx)
    tt = TAIL_TIERS[ctx.tier]
    ct = _cfg(ctx, "mc-tail.cfg", TAIL_CFG % {"bases": _devset(tt["bases"]), "pos": tt["pos"], "shortlen": tt["shortlen"]})
    ex = cf.ThreadPoolExecutor(max_workers=1)
    # the tail family has its own initial states: its run goes on beside the other two
    ftail = ex.submit(tlc.tlc, MODULE, ct, rundir=ctx.rundir.path, workers=3, timeout_s=900, tag="mc-tail")
    # the named deviations concern Inject only; the carrier mutation graph does not depend on Dev and is
    # explored in the ideal run, so the as-implemented run keeps to the unmutated carriers
    c = _cfg(ctx, "mc-dev.cfg", CFG % dict(SMALL, dev=_devset(ALLDEVS), k=0, sw=0, inv=INVS))
    r = tlc.tlc(MODULE, c, rundir=ctx.rundir.path, workers=4, timeout_s=900, tag="mc-dev")
    ctx.add_tlc("%s inject side + round trip, Dev=as-implemented" % MODULE, r)
    tlc.must_ok(r, "%s model checking (as implemented)" % MODULE)
    c = _cfg(ctx, "mc-ideal.cfg", CFG % dict(FULL if ctx.tier == "thorough" else QUICK, dev="", k=k, sw=sw, inv=INVS + " EmitAll"))
    r = tlc.tlc(MODULE, c, rundir=ctx.rundir.path, workers=4, timeout_s=900, coverage=True, tag="mc-ideal")
    ctx.add_tlc("%s partition, Dev=ideal, <=%d mutated dimensions (+ behaviour export)" % (MODULE, k), r)
    tlc.must_ok(r, "%s model checking (ideal)" % MODULE)
    for a in ("Init", "Inject", "ExtractRT", "Extract", "Mut", "MutTs"):
        if r.coverage.get(a, (0, 0))[0] == 0:
            raise Broken("vacuity: action %s never taken" % a)
    rt = ftail.result()
    ex.shutdown()
    ctx.add_tlc("%s tail family: prefixes of %s, last %d positions x every token, token strings of length <= %d "
                "(+ behaviour export)" % (MODULE, "/".join(tt["bases"]), tt["pos"], tt["shortlen"]), rt)
    tlc.must_ok(rt, "%s model checking (tail family)" % MODULE)
    # (no -coverage here: every TailExtract step prints its BEH line; generate_tail counts them against the states)
    return r, rt


def generate_tail(ctx, rt):
    """The tail family's BEH lines + the vacuity guards on what TLC enumerated."""
    tt = TAIL_TIERS[ctx.tier]
    cases = propagation.beh_cases(rt, "C09 tail generation")
    if 2 * len(cases) != rt.distinct:
        raise Broken("vacuity (tail family): %d states but %d TailExtract lines" % (rt.distinct, len(cases)))
    toks = propagation.printed_any(rt.out, "TAILTOK")
    if not toks or len(toks) != NTOK:
        raise Broken("tail run did not print the token vocabulary: %s" % toks)
    groups, outs, short, tsk = {}, {}, {}, {}
    for c in cases:
        if c["k"] != "t":
            raise Broken("tail run printed a line of kind %s" % c["k"])
        c["id"] += TAIL_ID0
        t = c["tl"]
        outs[(t["h"], c["exp"]["o"])] = outs.get((t["h"], c["exp"]["o"]), 0) + 1
        if t["h"] == "ts":
            kk = c["exp"]["ts"]["k"] + ("+" if c["exp"]["ts"]["e"] else "")
            tsk[kk] = tsk.get(kk, 0) + 1
        if t["b"] == "short":
            short[t["h"]] = short.get(t["h"], 0) + 1
        else:
            groups.setdefault((t["b"], t["cut"], t["pos"]), set()).add(t["tok"])
    need = [("tp", "accept"), ("tp", "either"), ("tp", "reject"), ("ts", "accept")]
    if any(outs.get(x, 0) == 0 for x in need) or any(k[0] == "ts" and k[1] != "accept" for k in outs):
        raise Broken("vacuity (tail family): outcomes %s" % outs)
    if any(tsk.get(x, 0) == 0 for x in ("exact", "exact+", "any")):
        raise Broken("vacuity (tail family): trace-state expectations %s" % tsk)
    nshort = sum(NTOK ** i for i in range(tt["shortlen"] + 1))
    if sorted(short) != ["tp", "ts"] or any(v != nshort for v in short.values()):
        raise Broken("vacuity (tail family): short values %s, expected %d per header" % (short, nshort))
    cuts = {}
    for (b, cut, pos), tk in groups.items():
        cuts.setdefault(b, {}).setdefault(cut, set()).add(pos)
        if pos > 0 and tk != set(toks):
            raise Broken("vacuity (tail family): %s cut %d pos %d only has tokens %s" % (b, cut, pos, sorted(tk)))
    if sorted(cuts) != sorted(tt["bases"]):
        raise Broken("vacuity (tail family): bases %s" % sorted(cuts))
    lengths = {}
    for b, cs in cuts.items():
        top = max(cs)
        if sorted(cs) != list(range(top + 1)) or any(cs[n] != set(range(min(n, tt["pos"]) + 1)) for n in cs):
            raise Broken("vacuity (tail family): prefixes of %s incomplete" % b)
        lengths[b] = top
    if any(lengths.get(b, 0) < 57 for b in ("v00", "hi")) or lengths.get("hiext", 0) < 62:
        raise Broken("vacuity (tail family): prefix lengths %s" % lengths)
    ctx.extra["tail_family"] = {"cases": len(cases), "token_classes": len(toks),
                                "prefix_lengths_0_to": lengths, "positions_replaced": tt["pos"],
                                "short_values_per_header": nshort,
                                "expected": {"%s/%s" % k: v for k, v in sorted(outs.items())},
                                "tracestate_expectation": tsk}
    return cases


def generate(ctx, r):
    cases = propagation.beh_cases(r, "C09 generation")
    dims = propagation.printed_any(r.out, "DIMS")
    if not dims:
        raise Broken("generation run did not print the partition vocabulary")
    # vacuity: every value of every dimension, every outcome, all 256 flag bytes
    seen = {d: set() for d in dims}
    outs = {"accept": 0, "either": 0, "reject": 0}
    xflags, rtflags, devcases, notinj = set(), set(), 0, 0
    for cs in cases:
        if cs["k"] == "x":
            for d in dims:
                seen[d].add(cs["car"]["tp"][d])
            outs[cs["exp"]["o"]] += 1
            if cs["exp"]["o"] == "accept":
                xflags.add(cs["exp"]["flags"])
        else:
            if cs["ext"]["o"] == "accept":
                rtflags.add(cs["sc"]["fl"])
            else:
                notinj += 1
            devcases += 1 if cs["dev"] else 0
    for d in dims:
        if set(dims[d]) - seen[d]:
            raise Broken("vacuity: values %s of dimension %s never generated" % (sorted(set(dims[d]) - seen[d]), d))
    if min(outs.values()) == 0 or len(xflags) != 256 or len(rtflags) != 256 or devcases == 0 or notinj == 0:
        raise Broken("vacuity: outcomes %s, flag bytes x=%d rt=%d, deviation cases %d, invalid contexts %d" % (
            outs, len(xflags), len(rtflags), devcases, notinj))
    ctx.extra["cases_generated"] = {"round_trip": sum(1 for c in cases if c["k"] == "rt"),
                                    "extract": sum(1 for c in cases if c["k"] == "x"),
                                    "extract_expected": outs,
                                    "flag_bytes_round_trip": len(rtflags), "flag_bytes_extract_accept": len(xflags)}
    return cases


# ---- the byte-value sweep -----------------------------------------------------------------------------------
# "bad byte" dimensions of the partition: (dimension, value) -> (number of byte values of the class, positions)
BAD_SITES = {("tid", "nonhex"): (233, 32), ("sid", "nonhex"): (233, 16), ("ver", "vx"): (233, 2), ("fl", "fx"): (233, 2),
             ("st", "sepbad"): (255, 3), ("lead", "junk"): (227, 1), ("tail", "junk"): (227, 1),
             ("tail", "nodash"): (71, 1), ("tail", "dashweird"): (239, 4)}
DEFAULT_TP = {"p": "present", "lead": "none", "trail": "none", "ver": "00", "tid": "ok", "sid": "ok", "fl": "hex2",
              "tail": "none", "st": "ok", "cs": "lower"}
BENIGN = {("ver", "hi"), ("cs", "upper"), ("cs", "mixed"), ("cs", "flupper"), ("lead", "ows"), ("lead", "otherws"),
          ("trail", "ows"), ("trail", "otherws"), ("tail", "dash"), ("tail", "dashext"), ("ts", "one"), ("ts", "three")}


def sweep_cases(ctx, cases):
    """For every TLC line whose only malformation is ONE bad-byte class (alone, or with one benign
    mutation such as a higher version / upper-case digits / surrounding white space), a copy marked
    "sweep": the harness then enumerates every byte value of the class at every position of the field
    ("rot": one position per byte value, rotating with the seed) instead of n random draws.  The
    expectation stays the one TLC printed for the class."""
    out = []
    seen = {}
    for cs in cases:
        if cs["k"] != "x":
            continue
        tp = cs["car"]["tp"]
        faults = [(d, tp[d]) for d in DEFAULT_TP if tp[d] != DEFAULT_TP[d]]
        if cs["car"]["ts"] != "none":
            faults.append(("ts", cs["car"]["ts"]))
        bad = [f for f in faults if f in BAD_SITES]
        rest = [f for f in faults if f not in BAD_SITES]
        if len(bad) != 1 or len(rest) > 1 or any(f not in BENIGN for f in rest) or cs["exp"]["flags"] not in (0, 1):
            continue
        if tp["fb"] != 1:
            continue
        mode = "full" if (not rest or ctx.tier == "thorough") else "rot"
        c = json.loads(json.dumps(cs))
        c["orig"] = cs["id"]
        c["id"] = 2 * 10 ** 9 + cs["id"]
        c["sweep"] = mode
        out.append(c)
        if not rest:
            seen[bad[0]] = c["id"]
    missing = set(BAD_SITES) - set(seen)
    if missing:
        raise Broken("vacuity: no single-fault case to sweep for %s" % sorted(missing))
    return out, seen


def check_sweeps(ctx, sweeps, seen, results):
    """Every bad-byte class must have been swept completely (all byte values x all positions)."""
    cov = {}
    runs = 0
    for c in sweeps:
        r = results.get(c["id"], {})
        sw = r.get("sweep")
        if sw:
            runs += r.get("n", 0) if r.get("v") == "ok" else 0
    for site, cid in sorted(seen.items()):
        r = results.get(cid, {})
        sw = r.get("sweep") or {}
        nbytes, npos = BAD_SITES[site]
        if r.get("v") == "ok" and (sw.get("bytes") != nbytes or sw.get("positions") != npos or sw.get("runs") != nbytes * npos
                                   or r.get("n") != nbytes * npos):
            raise Broken("byte sweep of %s incomplete: %s" % (site, sw))
        cov["%s=%s" % site] = {"byte_values": nbytes, "positions": npos, "verdict": r.get("v")}
    ctx.extra["byte_sweep"] = {"classes_swept_completely": cov, "sweep_cases": len(sweeps), "executions": runs}


def canaries(cases):
    """Corrupted expectations: the harness MUST flag every one of them (binding is not vacuous)."""
    out = []

    def first(pred):
        for c in cases:
            if pred(c):
                return json.loads(json.dumps(c))
        raise Broken("no case for a canary")
    c = first(lambda c: c["k"] == "x" and c["exp"]["o"] == "accept" and c["car"]["ts"] == "none")
    c["exp"]["flags"] = (c["exp"]["flags"] + 1) % 256
    out.append(("expected flags byte off by one", c))
    c = first(lambda c: c["k"] == "x" and c["exp"]["o"] == "accept" and c["car"]["ts"] == "one")
    c["exp"]["o"] = "reject"
    out.append(("well-formed header expected to be rejected", c))
    c = first(lambda c: c["k"] == "x" and c["exp"]["o"] == "reject" and c["car"]["tp"]["st"] == "cut")
    c["exp"]["o"] = "accept"
    out.append(("cut header expected to be accepted", c))
    c = first(lambda c: c["k"] == "rt" and c["ext"]["o"] == "accept" and not c["dev"])
    c["inj"]["tp"][-1] = (c["inj"]["tp"][-1] + 1) % 10
    out.append(("expected traceparent differs in its last digit", c))
    c = first(lambda c: c["k"] == "rt" and c["ext"]["o"] == "accept" and not c["dev"] and c["sc"]["ts"] == "one")
    c["ext"]["flags"] = (c["ext"]["flags"] + 1) % 256
    out.append(("round trip expected to change the flags byte", c))
    c = first(lambda c: c["k"] == "rt" and not c["sc"]["has"])
    c["inj"] = {"tp": [0, 0, 40, 50, 40, 51, 40, 0, 0], "ts": "none"}
    out.append(("context without span expected to be injected", c))
    for i, (_, c) in enumerate(out):
        c["orig"] = c["id"]
        c["seed_id"] = c["id"]
        c["id"] = 10 ** 9 + i
    return out


def _what(cs, res):
    r = res.get("res", {})
    conc = r.get("concrete", res.get("concrete", {}))
    if cs["k"] == "t":
        dep = " - the result DEPENDS ON BYTES BEHIND THE VIEW (with an exactly-sized buffer: %s)" % json.dumps(
            r.get("observed_with_exact_buffer")) if r.get("depends_on_bytes_behind_the_view") else ""
        return "Extract(traceparent=%s, tracestate=%s; %s view: %s, behind it %s): expected %s, observed %s%s" % (
            json.dumps(conc.get("traceparent")), json.dumps(conc.get("tracestate")), conc.get("swept"), conc.get("buffer"),
            json.dumps(conc.get("behind")), json.dumps(cs["exp"]), json.dumps(r.get("observed")), dep)
    if cs["k"] == "x":
        return "Extract(traceparent=%s, tracestate=%s): expected %s, observed %s" % (
            json.dumps(conc.get("traceparent")), json.dumps(conc.get("tracestate")), json.dumps(cs["exp"]),
            json.dumps(r.get("observed")))
    if res.get("v") == "dev":
        return "Inject(trace_id=%s span_id=%s flags=0x%02x) wrote traceparent=%s; expected the lower-case form %s" % (
            conc.get("tid"), conc.get("sid"), conc.get("flags", 0), json.dumps(conc.get("injected_traceparent")),
            json.dumps((conc.get("injected_traceparent") or "").lower()))
    if r.get("step") == "inject":
        return "Inject(trace_id=%s span_id=%s flags=%s tracestate=%s) wrote traceparent=%s tracestate=%s, expected %s" % (
            conc.get("tid"), conc.get("sid"), conc.get("flags"), json.dumps(conc.get("tracestate")),
            json.dumps(conc.get("injected_traceparent")), json.dumps(conc.get("injected_tracestate")),
            json.dumps(r.get("expected")))
    return "round trip of trace_id=%s span_id=%s flags=%s tracestate=%s via traceparent=%s: expected %s, observed %s" % (
        conc.get("tid"), conc.get("sid"), conc.get("flags"), json.dumps(conc.get("tracestate")),
        json.dumps(conc.get("injected_traceparent")), json.dumps(cs["ext"]), json.dumps(r.get("observed")))


def classify(ctx, cases, results, n):
    """Turns harness result lines into violations / deviations; returns counters."""
    byid = {c["id"]: c for c in cases}
    cnt = {"ok": 0, "dev": 0, "bad": 0, "crash": 0, "valid": 0, "unchanged": 0}
    reported = 0
    for cid in sorted(results):
        res = results[cid]
        v = res.get("v")
        cs = byid.get(cid)
        cnt[v] = cnt.get(v, 0) + 1
        cnt["valid"] += res.get("valid", 0)
        cnt["unchanged"] += res.get("unchanged", 0)
        rep = {"harness": "c09_w3c", "case": cs, "n": n, "seed": ctx.seed, "result": res}
        if v == "ok":
            continue
        if v == "dev":
            ctx.deviation(cs["dev"], _what(cs, res), rep)
        elif v == "bad":
            if reported < MAX_REPORTS:
                ctx.violation(_what(cs, res), rep)
            reported += 1
        elif v == "crash":
            if reported < MAX_REPORTS:
                ctx.violation("the real propagator crashed / sanitizer report on %s\n%s" % (
                    json.dumps(res.get("concrete")), res.get("stderr", "")[-1200:]), rep)
            reported += 1
        else:
            raise Broken("unknown verdict %r" % v)
    missing = [c["id"] for c in cases if c["id"] not in results]
    if len(missing) != ctx.extra.get("cases_skipped_after_crash_cap", 0) and len(cases) > 1:
        raise Broken("%d cases without a result (%s skipped after crashes)" % (
            len(missing), ctx.extra.get("cases_skipped_after_crash_cap", 0)))
    if reported > MAX_REPORTS:
        ctx.extra["violations_not_written"] = reported - MAX_REPORTS
    return cnt


def replay_cases(ctx, exe, cases):
    n = 12 if ctx.tier == "thorough" else 3
    can = canaries(cases)
    cres = propagation.run_cases(ctx, exe, [c for _, c in can], n, procs=1, tag="canary")
    sweeps, seen = sweep_cases(ctx, cases)
    nbeh = len(cases)
    cases = cases + sweeps
    results = propagation.run_cases(ctx, exe, cases, n, procs=4)
    check_sweeps(ctx, sweeps, seen, results)
    for why, c in can:
        # a canary is concretised exactly like the case it was copied from (seed_id), so: either the
        # corrupted expectation is flagged, or the code under test already fails the genuine case
        r = cres.get(c["id"], {}).get("v")
        orig = results.get(c["orig"], {}).get("v")
        if r in ("bad", "crash") or orig in ("bad", "crash"):
            continue
        if ctx.extra.get("cases_skipped_after_crash_cap") and (r is None or orig is None):
            continue        # not run: too many crashes of the code under test (all reported)
        raise Broken("binding canary not detected (%s): canary %s, genuine case %s" % (why, r, orig))
    ctx.extra["canaries_detected"] = len(can)
    cnt = classify(ctx, cases, results, n)
    if not ctx.violations and (cnt["valid"] == 0 or cnt["unchanged"] == 0):
        raise Broken("vacuity: the real propagator never accepted / never rejected: %s" % cnt)
    ctx.extra["replay"] = {"cases": nbeh, "sweep_cases": len(sweeps), "concretisations_per_case": n, "verdicts": {k: cnt[k] for k in ("ok", "dev", "bad", "crash")},
                           "observed_valid": cnt["valid"], "observed_unchanged": cnt["unchanged"]}
    ctx.traces += nbeh
    ctx.evaluations += sum(r.get("n", 0) for r in results.values())
    for c in cases:
        ctx.distinct.add(("beh", c["id"]))
    for cs in (cases[0], cases[nbeh // 2], cases[nbeh - 1]):
        ctx.sample({"kind": "TLC (abstract input, expected outcome) line, replayed %d times" % n,
                    "case": cs, "result": results.get(cs["id"])})


def replay_tail(ctx, exe, tcases):
    """The tail family: every case is expanded by the harness to all byte values of its replaced / class positions."""
    skipped0 = ctx.extra.pop("cases_skipped_after_crash_cap", 0)      # (of the class-level replay)
    results = propagation.run_cases(ctx, exe, tcases, 1, procs=4, tag="tail")
    byid = {c["id"]: c for c in tcases}
    # binding canaries: a corrupted expectation must be flagged (chosen among cases the real code passed)
    can = []
    for c in tcases:
        r = results.get(c["id"], {})
        if r.get("v") != "ok":
            continue
        kinds = set(x[0] for x in can)
        t, e = c["tl"], c["exp"]
        if "flags" not in kinds and t["h"] == "tp" and e["o"] == "accept":
            k = json.loads(json.dumps(c))
            k["exp"]["flags"] = (k["exp"]["flags"] + 16) % 256
            can.append(("flags", "well-formed traceparent expected with another flags byte", k))
        if "either" not in kinds and t["h"] == "tp" and e["o"] == "either" and r.get("valid", 0) == r.get("n", -1):
            k = json.loads(json.dumps(c))
            k["exp"]["o"] = "reject"
            can.append(("either", "a value of the don't-care band that the code accepts expected to be rejected", k))
        if "trunc" not in kinds and t["h"] == "tp" and e["o"] == "reject" and t["b"] == "v00" and t["cut"] == 54 and t["pos"] == 0:
            k = json.loads(json.dumps(c))
            full = k["tp"] + k["rest"][:1]
            k["exp"] = {"o": "accept", "tid": full[3:35], "sid": full[36:52], "flags": full[53] * 16 + full[54],
                        "ts": {"k": "exact", "e": []}}
            can.append(("trunc", "traceparent cut to 54 bytes expected to be accepted as if the 55th were there", k))
        if "entries" not in kinds and t["h"] == "ts" and e["ts"]["k"] == "exact" and len(e["ts"]["e"]) >= 2:
            k = json.loads(json.dumps(c))
            k["exp"]["ts"]["e"] = k["exp"]["ts"]["e"][:-1]
            can.append(("entries", "tracestate expected without its last member", k))
        if "ids" not in kinds and t["h"] == "ts" and e["ts"]["k"] == "any":
            k = json.loads(json.dumps(c))
            k["exp"]["sid"][-1] = (k["exp"]["sid"][-1] + 1) % 16
            can.append(("ids", "traceparent next to an odd tracestate expected with another span id", k))
    crashed = any(r.get("v") == "crash" for r in results.values())
    if len(can) != 5 and not crashed:
        raise Broken("tail family: no case for a canary (%s)" % [x[0] for x in can])
    for i, (_, _, k) in enumerate(can):
        k["orig"], k["seed_id"], k["id"] = k["id"], k["id"], TAIL_ID0 + 10 ** 8 + i
    cres = propagation.run_cases(ctx, exe, [k for _, _, k in can], 1, procs=1, tag="tailcanary") if can else {}
    for _, why, k in can:
        if cres.get(k["id"], {}).get("v") not in ("bad", "crash"):
            raise Broken("binding canary not detected (tail family: %s): %s" % (why, cres.get(k["id"])))
    ctx.extra["canaries_detected"] = ctx.extra.get("canaries_detected", 0) + len(can)
    # completeness: at every (form, prefix length, replaced position) the classes of the tokens are all 256 byte values
    clean = all(r.get("v") == "ok" for r in results.values()) and len(results) == len(tcases)
    groups, execs = {}, 0
    for cid, r in results.items():
        execs += r.get("n", 0)
        t = byid[cid]["tl"] if cid in byid else None
        if t and t["b"] != "short" and t["pos"] > 0:
            g = (t["b"], t["cut"], t["pos"])
            groups[g] = groups.get(g, 0) + r.get("bytes", 0)
    if clean and (not groups or any(v != 256 for v in groups.values())):
        raise Broken("tail family: byte values per (form, prefix, position) are not 256: %s" % sorted(
            (g, v) for g, v in groups.items() if v != 256)[:5])
    cnt = classify(ctx, tcases, results, 1)
    if skipped0 or ctx.extra.get("cases_skipped_after_crash_cap"):
        ctx.extra["cases_skipped_after_crash_cap"] = skipped0 + ctx.extra.get("cases_skipped_after_crash_cap", 0)
    ctx.extra["tail_family"].update({"executions": execs, "positions_swept_over_all_256_byte_values": len(groups),
                                     "verdicts": {k: cnt[k] for k in ("ok", "bad", "crash")},
                                     "observed_valid": cnt["valid"], "observed_unchanged": cnt["unchanged"]})
    if clean and (cnt["valid"] == 0 or cnt["unchanged"] == 0):
        raise Broken("vacuity (tail family): the real propagator never accepted / never rejected: %s" % cnt)
    ctx.traces += len(tcases)
    ctx.evaluations += execs
    for c in tcases:
        ctx.distinct.add(("beh", c["id"]))
    for c in tcases:
        r = results.get(c["id"], {})
        if "res" in r and r.get("v") == "ok":
            ctx.sample({"kind": "TLC tail-family line (token-level value, expected outcome), expanded to %d executions" % r.get("n", 0),
                        "case": c, "result": r})
            break


def _describe(ev):
    if ev.get("e") == "I":
        return "Inject(flags=%s, %s trace-state members) wrote traceparent=%s, extracting it gave %s" % (
            ev.get("fl"), ev.get("nts"), json.dumps(ev.get("raw")), json.dumps({k: v for k, v in ev["x"].items() if k in ("out", "remote", "flags", "tsok")}))
    return "Extract(traceparent=%s) gave %s" % (json.dumps(ev.get("raw")),
                                              json.dumps({k: ev[k] for k in ("out", "remote", "flags", "tsok") if k in ev}))


def record_validate(ctx, exe):
    propagation.record_validate(
        ctx, exe, harness="c09_w3c", module=MODULE + "Trace", cfg_template=TRACE_CFG, alldevs=ALLDEVS,
        n=60000 if ctx.tier == "thorough" else 9000,
        need_kinds=("accept", "either", "reject", "inject", "noinject"), describe=_describe, max_reports=MAX_REPORTS)


def run(ctx):
    ctx.assumptions += [
        "memory safety (never crashes / reads out of bounds) is not decided by the specification: it is covered only by running the "
        "model-generated and mutated inputs under AddressSanitizer+UBSan with exactly-sized, non-NUL-terminated carrier buffers (tail "
        "family: every prefix / short value x all 256 byte values at its last positions, plus in-buffer continuation bytes)",
        "tail family: a tracestate that is not a list of simple members (key [a-z][a-z0-9]*, value [0-9A-Za-z]+) leaves the extracted "
        "trace state open (its grammar belongs to C14); the traceparent alone decides whether a context is extracted",
        "concretisation table of harness/c09_w3c.cc (abstract class -> bytes) and the byte -> token table are trusted",
        "ids are symbolic in the spec (classes); their 2^128 x 2^64 values are sampled by the seeded concretiser, the 256 flag bytes are enumerated",
        "trace states: simple valid lists only (1, 3, 32 members); the TraceState grammar itself belongs to C14",
        "white space = SP HT (optional white space) and CR LF VT FF; any other byte next to the header is not 'surrounding whitespace'",
    ]
    ctx.extra["rule"] = ("states/transitions: TLC over the abstract partition (ideal + as-implemented + generation + trace validation); "
                         "a case = one BEH line (abstract input, expected outcome), distinct by construction (distinct TLC states), "
                         "each concretised n times; plus one case per recorded execution (distinct seeds; byte-level duplicates possible and not removed)")
    exe = build.harness("c09_w3c", ["c09_w3c.cc"], "asan", need_sdk=False)
    phases = {}
    t0 = ctx.timer.s()
    r, rt = model_check(ctx)
    cases = generate(ctx, r)
    tcases = generate_tail(ctx, rt)
    phases["tlc_model_check_and_export_s"] = round(ctx.timer.s() - t0, 1)
    t0 = ctx.timer.s()
    replay_cases(ctx, exe, cases)
    phases["replay_s"] = round(ctx.timer.s() - t0, 1)
    t0 = ctx.timer.s()
    replay_tail(ctx, exe, tcases)
    phases["replay_tail_s"] = round(ctx.timer.s() - t0, 1)
    t0 = ctx.timer.s()
    record_validate(ctx, exe)
    phases["record_validate_s"] = round(ctx.timer.s() - t0, 1)
    ctx.extra["phase_wall"] = phases


def replay(ctx, path):
    rep = json.load(open(path))["replay"]
    exe = build.harness("c09_w3c", ["c09_w3c.cc"], "asan", need_sdk=False)
    if "case" in rep and rep.get("mode") != "record" and rep.get("case"):
        ctx.seed = rep.get("seed", ctx.seed)
        cs = rep["case"]
        results = propagation.run_cases(ctx, exe, [cs], rep["n"], procs=1)
        classify(ctx, [cs], results, rep["n"])
        ctx.traces += 1
        ctx.sample({"kind": "replayed case", "case": cs, "result": results.get(cs["id"])})
    elif "events" in rep:
        propagation.replay_events(ctx, MODULE + "Trace", TRACE_CFG, ALLDEVS, rep["events"])
    else:
        raise Broken("replay file has neither a case nor events; re-run the check with the recorded seed")
    # a pure replay explores no state graph of its own beyond the trace run: keep the evidence valid
    ctx.states = max(ctx.states, 1)
    ctx.transitions = max(ctx.transitions, 1)
