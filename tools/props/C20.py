"""C20 - the nostd vocabulary types behave like the std types they stand in for.

Five small TLA+ machines (spec/Nostd{StringView,Span,Ownership,Variant,FunctionRef}.tla) state what the
std types promise for the operations the nostd types offer.  For each machine:

1. TLC, exhaustive: the machine's invariants (the property's clauses: ordering laws, find/substr
   soundness, index-checked windows and aliasing, destroyed-at-most-once / alive-iff-owned / unique
   exclusivity, exactly-one-alternative, ...) on the whole bounded state graph with Dev = {};
   for the ownership machine also the AsImplemented run (Dev = modelled deviations) with
   Property \\/ devUsed # {}.  Coverage guard: every action generated.
2. spec -> code: TLC prints EVERY behaviour of the machine up to a small depth (hist in the
   fingerprint: full path enumeration), random walks beyond (-simulate) and a witness-directed
   behaviour for every rare condition; each step carries the expected observable projection computed
   by TLC.  harness/c20_*.cc performs every step on the real nostd type (ASan+UBSan, several seeded
   concretisations per behaviour, in a forked child so that a crash is attributed to its step and
   never hides other behaviours) and compares the projection; it also performs it on the std type:
   a disagreement between the spec and std is a broken check, never a violation.
"""
import concurrent.futures as cf
import hashlib
import json
import os
import threading
import time

from lib import build, hrun, tlc
from lib.common import Broken, log

LEVEL = "model_checking"

ALL_DEVS = ["shared-self-copy-assign-sole-owner", "shared-assign-from-member-of-own-pointee"]
MAX_REPORTED = 25
_LOCK = threading.Lock()


def _add_tlc(ctx, name, r):
    with _LOCK:
        ctx.add_tlc(name, r)
    log("tlc %-70s %-9s %8d distinct %6.1fs" % (name[:70], r.status, r.distinct, r.wall))


def _cfg(ctx, name, consts, invs, extra=""):
    p = ctx.rundir.file(name + ".cfg")
    with open(p, "w") as f:
        f.write("CONSTANTS " + "  ".join("%s = %s" % kv for kv in consts.items()) + "\n")
        f.write("INIT Init\nNEXT Next\n")
        if invs:
            f.write("INVARIANTS " + " ".join(invs) + "\n")
        f.write(extra)
    return p


def _set(xs):
    return "{" + ", ".join('"%s"' % x for x in xs) + "}"


def _b(x):
    return "TRUE" if x else "FALSE"


# ------------------------------------------------------------------------------------------------
# machine descriptions
# ------------------------------------------------------------------------------------------------
class Machine:
    module = None
    key = None          # "m" field understood by the harness
    binary = "main"     # which harness binary replays it
    actions = []        # every action must be generated in the main model-checking run
    witnesses = []

    def mc(self, ctx):  # -> list of (name, consts, invariants, coverage?)
        raise NotImplementedError

    def gens(self, ctx):  # -> list of dict(name, consts, cfgrec, depth, sim=None|dict(num, depth))
        raise NotImplementedError


def _own_consts(u, b, hist, depth, dev, nobj=2, nvar=3, mk="none"):
    return {"NVar": nvar, "UVars": _set(u), "BVars": _set(b), "NObj": nobj, "MKind": '"%s"' % mk, "Hist": _b(hist),
            "Depth": depth, "Dev": _set(dev)}


OWN_NODE_SHAPES = {
    # objects are nodes owning a member pointer variable m<o> (struct Node { P<Node> next; }): two root variables
    # a, b of the same kind; sources/destinations of every operation may live inside a managed object
    "list-unique": (["a", "b"], "unique"),
    "list-shared": ([], "shared"),
}


OWN_SHAPES2 = {
    # two-variable shapes, enumerated one operation deeper (thorough tier)
    "shared2": ([], []),                   # a,b shared_ptr<Derived>
    "mixed-us2": (["a"], ["b"]),           # a unique_ptr<Derived>, b shared_ptr<Base>
}
OWN_SHAPES = {
    # name: (unique_ptr variables, Base-typed variables)
    "shared": ([], ["c"]),                 # a,b shared_ptr<Derived>, c shared_ptr<Base>
    "unique": (["a", "b", "c"], ["c"]),    # a,b unique_ptr<Derived>, c unique_ptr<Base>
    "mixed": (["a"], ["c"]),               # a unique_ptr<Derived>, b shared_ptr<Derived>, c shared_ptr<Base>
    "mixed2": (["a", "b"], ["b", "c"]),    # a unique_ptr<Derived>, b unique_ptr<Base>, c shared_ptr<Base>
}


class Ownership(Machine):
    module = "NostdOwnership"
    key = "own"
    actions = ["CtorDefault", "CtorNew", "CtorAdopt", "CtorCopy", "CtorMove", "AssignCopy", "AssignMove",
               "AssignMoveSelf", "AssignNull", "Reset", "ResetNew", "ResetAdopt", "Release", "RawDelete", "Swap",
               "ScopeExit", "AssignCopySelfDev", "AssignFromPointeeDev"]
    witnesses = {
        "shared": ["SelfCopySole", "SelfCopyNullCB", "SelfCopyShared", "SelfMove", "SelfSwap", "LastOwnerExit",
                   "NotLastExit", "AssignKills", "ConvDerivedBase"],
        "unique": ["Adopt", "RawDelete", "SelfMove", "ConvDerivedBase"],
        "mixed": ["ConvUniqueShared", "SelfCopySole", "SelfCopyNullCB", "Adopt"],
        "mixed2": ["ConvUniqueShared", "ConvDerivedBase", "SelfCopyNullCB"],
        "list-unique": ["AssignFromOwnPointee", "ResetFromOwnPointee", "CascadeDeath", "MemberTakesOver", "SelfMove",
                        "LastOwnerExit", "Adopt", "RawDelete"],
        "list-shared": ["AssignFromOwnPointee", "CascadeDeath", "MemberTakesOver", "SelfCopySole"],
    }

    def mc(self, ctx):
        runs = []
        nobj = 3 if ctx.tier == "thorough" else 2
        for name, (u, b) in OWN_SHAPES.items():
            # as-implemented (Dev = every modelled deviation): every state either satisfies the property or was
            # reached through a named deviation (which is terminal), so the states with devUsed = {} are exactly
            # the ideal machine's and IdealHolds is the Dev = {} result; thorough also runs Dev = {} literally
            runs.append(("as-implemented " + name, _own_consts(u, b, False, 0, ALL_DEVS, nobj),
                         ["TypeOK", "PropertyOrDev", "IdealHolds"], True))
            if ctx.tier == "thorough":
                runs.append(("ideal " + name, _own_consts(u, b, False, 0, [], nobj), ["TypeOK", "Property"], False))
        for name, (u, mk) in OWN_NODE_SHAPES.items():
            runs.append(("as-implemented " + name, _own_consts(u, [], False, 0, ALL_DEVS, 3, nvar=2, mk=mk),
                         ["TypeOK", "PropertyOrDev", "IdealHolds"], True))
        return runs

    def gens(self, ctx):
        out = []
        thorough = ctx.tier == "thorough"
        for name, (u, b) in OWN_SHAPES.items():
            cfgrec = {"nvar": 3, "nobj": 2, "u": u, "b": b, "shape": name}
            # quick: the all-unique 3-root shape goes one operation less deep; list-unique (2 roots + members,
            # depth 4) enumerates the unique_ptr operations at least as deeply
            depth = 4 if (thorough or name not in ("mixed2", "unique")) else 3
            out.append(dict(name=name, consts=_own_consts(u, b, True, depth, ALL_DEVS), cfgrec=cfgrec, depth=depth,
                            sim=dict(num=1500 if thorough else 250, depth=9,
                                     consts=_own_consts(u, b, True, 9, ALL_DEVS, nobj=3),
                                     cfgrec=dict(cfgrec, nobj=3)),
                            wit=self.witnesses.get(name, [])))
        for name, (u, mk) in OWN_NODE_SHAPES.items():
            cfgrec = {"nvar": 2, "nobj": 2, "u": u, "b": [], "mk": mk, "shape": name}
            out.append(dict(name=name, consts=_own_consts(u, [], True, 4, ALL_DEVS, 2, nvar=2, mk=mk), cfgrec=cfgrec,
                            depth=4,
                            sim=dict(num=2500 if thorough else 400, depth=10,
                                     consts=_own_consts(u, [], True, 10, ALL_DEVS, 3, nvar=2, mk=mk),
                                     cfgrec=dict(cfgrec, nobj=3)),
                            wit=self.witnesses.get(name, [])))
        if thorough:
            for name, (u, b) in OWN_SHAPES2.items():
                cfgrec = {"nvar": 2, "nobj": 2, "u": u, "b": b, "shape": name}
                out.append(dict(name=name, consts=_own_consts(u, b, True, 5, ALL_DEVS, nvar=2), cfgrec=cfgrec, depth=5,
                                sim=None, wit=["SelfCopySole", "SelfMove", "LastOwnerExit"], ninst=3))
        return out

    def beh(self, b, cfgrec):
        return {"m": "own", "cfg": cfgrec, "steps": b["steps"], "born": b["born"]}


class StringView(Machine):
    module = "NostdStringView"
    key = "sv"
    actions = ["SubstrA", "SwapAB"]

    def _c(self, maxlen, hist, depth, laws, blen):
        return {"MaxLen": maxlen, "Hist": _b(hist), "Depth": depth, "Dev": "{}", "Laws": _b(laws), "BLen": blen}

    def mc(self, ctx):
        runs = [("pairs len<=3", self._c(3, False, 0, False, 3), ["TypeOK", "Property"], True)]
        if ctx.tier == "thorough":
            runs.append(("triples len<=3 (transitivity)", self._c(3, False, 0, True, 3), ["TypeOK", "Property"], False))
        else:
            runs.append(("triples len<=2 (transitivity)", self._c(2, False, 0, True, 2), ["TypeOK", "Property"], False))
        return runs

    def gens(self, ctx):
        thorough = ctx.tier == "thorough"
        rec = {"maxlen": 3}
        out = [
            # every pair of strings of length <= 3 with the complete observer suite
            dict(name="pairs", consts=self._c(3, True, 0, False, 3), cfgrec=rec, depth=0, sim=None, wit=[]),
            # every substr(pos, n) of every string (the result is a view into the middle of a buffer)
            dict(name="substr1", consts=self._c(3, True, 1, False, 1 if thorough else 0), cfgrec=rec, depth=1,
                 sim=dict(num=3000 if thorough else 400, depth=5, consts=self._c(3, True, 4, False, 1), cfgrec=rec),
                 wit=["ThrowAtEndPlus1", "SubstrAtEnd", "NulFirstInWindow", "WholeOfEmpty", "BigPosThrows"]),
        ]
        if thorough:
            out.append(dict(name="substr2", consts=self._c(3, True, 2, False, 0), cfgrec=rec, depth=2, sim=None, wit=[],
                            ninst=2))
        return out

    def beh(self, b, cfgrec):
        return {"m": "sv", "cfg": cfgrec, "steps": b["steps"]}


class Span(Machine):
    module = "NostdSpan"
    key = "span"
    binary = "span"
    actions = ["Default", "PtrCount", "Range", "Whole", "ConstWhole", "StaticWhole", "StaticFrom", "CopyCtor",
               "Assign", "DynFromStatic", "ConstFrom", "Write"]

    def _c(self, maxlen, hist, depth):
        return {"MaxLen": maxlen, "Hist": _b(hist), "Depth": depth, "Dev": "{}"}

    def mc(self, ctx):
        return [("arrays len<=%d" % n, self._c(n, False, 0), ["TypeOK", "Property"], True)
                for n in ([3] if ctx.tier == "thorough" else [2])]

    def gens(self, ctx):
        thorough = ctx.tier == "thorough"
        rec = {"maxlen": 3}
        out = [dict(name="all2", consts=self._c(3, True, 2), cfgrec=rec, depth=2,
                    sim=dict(num=4000 if thorough else 600, depth=9, consts=self._c(3, True, 8), cfgrec=rec),
                    wit=["WriteSeenByOther", "EmptyAtEnd", "StaticTail", "ConstStatic", "SelfAssign"])]
        if thorough:
            out.append(dict(name="all3-len2", consts=self._c(2, True, 3), cfgrec={"maxlen": 2}, depth=3, sim=None, wit=[],
                            ninst=2))
        return out

    def beh(self, b, cfgrec):
        return {"m": "span", "cfg": cfgrec, "steps": b["steps"]}


class Variant(Machine):
    module = "NostdVariant"
    key = "var"
    keys = ("var", "varx")      # "varx": the throwing shape, replayed by harness/c20_varx.cc
    actions = ["AssignVal", "Emplace", "Copy", "Move", "SelfCopy", "Swap", "AliasSelf", "AliasMember"]
    WIT_BASIC = ["MoveTracked", "MoveString", "ReplaceTracked", "SwapDifferent", "CopyAny", "SameIndexAssign",
                 "AliasSelfClass"]
    # exceptions out of constructions / assignments of the alternatives, valueless variants, self-aliasing sources
    WIT_THROWING = ["ConvThrowKeepsOld", "CopyInThrowKeepsOld", "ConvThrowValueless", "AssignSameThrows",
                    "EmplaceThrowValueless", "CopyAssignThrowKeepsOld", "CopyAssignThrowValueless",
                    "MoveAssignThrowValueless", "AliasMemberConverting", "AliasMemberConvertingThrows",
                    "AliasMemberSame", "AliasSelfClass", "FromValueless", "ValuelessRefilled"]

    def _c(self, hist, depth, slim, shape="basic"):
        return {"Hist": _b(hist), "Depth": depth, "Dev": "{}", "Slim": _b(slim), "Shape": '"%s"' % shape}

    def mc(self, ctx):
        return [("two variants", self._c(False, 0, False), ["TypeOK", "Property"], True),
                ("two variants, throwing alternatives", self._c(False, 0, False, "throwing"), ["TypeOK", "Property"], True)]

    def gens(self, ctx):
        thorough = ctx.tier == "thorough"
        tdepth = 3 if thorough else 2
        return [dict(name="all3", consts=self._c(True, 3, True), cfgrec={"shape": "basic"}, depth=3,
                     sim=dict(num=5000 if thorough else 500, depth=9, consts=self._c(True, 8, False),
                              cfgrec={"shape": "basic"}),
                     wit=self.WIT_BASIC),
                # throwing alternatives: every path of 2 (thorough: 3) operations with the faults where they fire,
                # random walks (all source forms, faults also where they must NOT fire) beyond
                dict(name="throwing%d" % tdepth, consts=self._c(True, tdepth, True, "throwing"),
                     cfgrec={"shape": "throwing"}, depth=tdepth,
                     sim=dict(num=6000 if thorough else 1200, depth=9, consts=self._c(True, 8, False, "throwing"),
                              cfgrec={"shape": "throwing"}),
                     wit=self.WIT_THROWING, ninst=3 if thorough else None)]

    def beh(self, b, cfgrec):
        return {"m": "varx" if cfgrec.get("shape") == "throwing" else "var", "cfg": cfgrec, "steps": b["steps"]}


class FunctionRef(Machine):
    module = "NostdFunctionRef"
    key = "fref"
    actions = ["Bind", "CopyRef", "Invoke", "Direct"]

    def _c(self, hist, depth):
        return {"Hist": _b(hist), "Depth": depth, "Dev": "{}", "M": 4}

    def mc(self, ctx):
        return [("two references", self._c(False, 0), ["TypeOK", "Property"], True)]

    def gens(self, ctx):
        thorough = ctx.tier == "thorough"
        return [dict(name="all%d" % (5 if thorough else 4), consts=self._c(True, 5 if thorough else 4), cfgrec={"m": 4},
                     depth=5 if thorough else 4,
                     sim=dict(num=3000 if thorough else 400, depth=13, consts=self._c(True, 12), cfgrec={"m": 4}),
                     wit=["SharedState", "CopyThenCall", "Rebind", "NullAfterBound"], ninst=2 if thorough else None)]

    def beh(self, b, cfgrec):
        return {"m": "fref", "cfg": cfgrec, "steps": b["steps"]}


MACHINES = [Ownership(), StringView(), Span(), Variant(), FunctionRef()]


# ------------------------------------------------------------------------------------------------
# TLC side (every run is a job for a small pool: the machine is shared, JVM start-up dominates)
# ------------------------------------------------------------------------------------------------
def mc_job(ctx, m, name, consts, invs, cover):
    tag = "mc-%s-%s" % (m.key, "".join(ch for ch in name if ch.isalnum()))
    c = _cfg(ctx, tag, consts, invs)
    r = tlc.tlc(m.module, c, rundir=ctx.rundir.path, workers=4 if m.key == "span" else 2, timeout_s=1100,
                coverage=cover, tag=tag)
    _add_tlc(ctx, "%s: %s" % (m.module, name), r)
    if r.status == "invariant":
        # the SPEC contradicts the property it is supposed to state: the check is broken
        raise Broken("%s (%s): invariant %s violated by the specification itself\n%s" % (
            m.module, name, r.violated, r.trace_text[:3000]))
    tlc.must_ok(r, "%s model checking (%s)" % (m.module, name))
    if cover:
        with _LOCK:
            seen = ctx.extra.setdefault("actions_generated", {}).setdefault(m.key, {})
            for a in m.actions:
                seen[a] = seen.get(a, 0) + r.coverage.get(a, (0, 0))[1]
    if "as-implemented" in name and r.coverage is not None:
        pass
    return []


def gen_job(ctx, m, g):
    """All behaviours to the configured depth; the same run reports the rare conditions (WIT lines)."""
    tag = "gen-%s-%s" % (m.key, g["name"])
    c = _cfg(ctx, tag, g["consts"], ["EmitAll", "WitAll"])
    r = tlc.tlc(m.module, c, rundir=ctx.rundir.path, workers=4, timeout_s=1100, tag=tag, xmx="6g")
    _add_tlc(ctx, "%s: all behaviours of depth %d (%s)" % (m.module, g["depth"], g["name"]), r)
    tlc.must_ok(r, "%s generation %s" % (m.module, g["name"]))
    out = r.printed("BEH")
    if not out:
        raise Broken("generation %s/%s printed no behaviour" % (m.module, g["name"]))
    found = set(x.strip('"') for x in r.printed_raw("WIT"))
    for w in g.get("wit", []):
        if w not in found:
            raise Broken("vacuity: rare condition %s of %s (%s) is not in the enumerated behaviours" % (w, m.module, g["name"]))
    with _LOCK:
        ctx.extra.setdefault("rare_conditions_in_replay_set", {})["%s.%s" % (m.key, g["name"])] = sorted(found)
    res = []
    for b in out:
        rec = m.beh(b, g["cfgrec"])
        if g.get("ninst"):
            rec["ninst"] = g["ninst"]
        res.append(_pack(rec, "%s:all-depth-%d" % (g["name"], g["depth"])))
    return res


def sim_job(ctx, m, g):
    s = g["sim"]
    tag = "sim-%s-%s" % (m.key, g["name"])
    c = _cfg(ctx, tag, s["consts"], ["EmitAll"])
    r = tlc.tlc(m.module, c, rundir=ctx.rundir.path, workers=1, timeout_s=600, tag=tag,
                simulate={"num": s["num"], "depth": s["depth"] + 3}, seed=ctx.seed * 7919 + 13)
    if r.status != "ok":
        raise Broken("simulate %s/%s failed: %s\n%s" % (m.module, g["name"], r.status, r.out[-2000:]))
    out = r.printed("BEH")
    if not out:
        raise Broken("simulate %s/%s printed no behaviour" % (m.module, g["name"]))
    log("tlc %-70s %-9s %8d walks    %6.1fs" % ("%s: random walks (%s)" % (m.module, g["name"]), r.status, len(out), r.wall))
    return [_pack(m.beh(b, s["cfgrec"]), "%s:random-walk" % g["name"]) for b in out]


def _pack(rec, src):
    """Behaviours are kept as compact JSON text (hundreds of thousands of them in the thorough tier):
    (digest for de-duplication and a deterministic order, text, per-behaviour statistics)."""
    body = json.dumps(rec, sort_keys=True, separators=(",", ":"))
    ops = {}
    for st in rec["steps"]:
        ops[st["op"]] = ops.get(st["op"], 0) + 1
    stats = {"ops": ops, "steps": len(rec["steps"]),
             "dev_steps": sum(1 for st in rec["steps"] if st.get("dev")),
             "plain": not any(st.get("dev") or st.get("alts") or st.get("might") for st in rec["steps"]),
             "threw": sum(1 for st in rec["steps"] if isinstance(st.get("exp"), dict) and st["exp"].get("threw") == "T"),
             "valueless": sum(1 for st in rec["steps"] if isinstance(st.get("exp"), dict) and rec["m"] == "varx"
                              and "T" in (st["exp"]["v1"]["vless"], st["exp"]["v2"]["vless"]))}
    return (hashlib.sha1(body.encode()).digest(), '{"src":%s,' % json.dumps(src) + body[1:], src, stats)


def tlc_phase(ctx):
    """Runs every TLC job; returns {machine key: [behaviour dicts]} (deduplicated, sorted: deterministic ids)."""
    jobs = []
    for m in MACHINES:
        for (name, consts, invs, cover) in m.mc(ctx):
            jobs.append((m, mc_job, (ctx, m, name, consts, invs, cover)))
        for g in m.gens(ctx):
            jobs.append((m, gen_job, (ctx, m, g)))
            if g.get("sim"):
                jobs.append((m, sim_job, (ctx, m, g)))
    behs = {m.key: {} for m in MACHINES}
    counts = {m.key: {} for m in MACHINES}
    with cf.ThreadPoolExecutor(max_workers=4) as ex:
        futs = [(m, ex.submit(fn, *args)) for (m, fn, args) in jobs]
        for m, f in futs:
            for digest, text, src, stats in f.result():
                if digest not in behs[m.key]:
                    behs[m.key][digest] = (text, stats)
                    counts[m.key][src] = counts[m.key].get(src, 0) + 1
    for m in MACHINES:
        for a in m.actions:
            if ctx.extra["actions_generated"][m.key].get(a, 0) == 0:
                raise Broken("vacuity: action %s of %s was never generated in model checking" % (a, m.module))
    ctx.extra["behaviours_by_source"] = counts
    return {k: [v[x] for x in sorted(v)] for k, v in behs.items()}     # lists of (json text, statistics)


# ------------------------------------------------------------------------------------------------
# harness side
# ------------------------------------------------------------------------------------------------
def build_all():
    # vptr: nostd::shared_ptr's assignment operators call a virtual member of their own, already destroyed,
    # wrapper on EVERY self-assignment (undefined, but without an observable effect unless the pointer is the
    # only owner, which is what the deviation is about); UBSan's vptr check would abort on all of them
    main = build.harness("c20_replay", ["c20_main.cc", "c20_sv.cc", "c20_own.cc", "c20_var.cc", "c20_varx.cc", "c20_fref.cc"],
                         "asan", extra=["-fno-sanitize=vptr"], need_sdk=False)
    # std::span (the cross-check of the span spec) needs C++20; nostd/span.h does not depend on the level
    span = build.harness("c20_span", ["c20_main.cc", "c20_span.cc"], "asan", extra=["-std=gnu++20"], need_sdk=False)
    return {"main": main, "span": span}


def run_harness(ctx, exe, behs, ninst, tag, shards=4):
    """Replays behs (JSON texts carrying an 'id') and returns the parsed records."""
    if not behs:
        return [], {}
    path = ctx.rundir.file("beh-%s.ndjson" % tag)
    t0 = time.time()
    with open(path, "w") as f:
        for b in behs:
            f.write((b if isinstance(b, str) else json.dumps(b)) + "\n")
    shards = max(1, min(shards, len(behs) // 50 + 1))
    recs = []
    summ = {}
    with cf.ThreadPoolExecutor(max_workers=shards) as ex:
        futs = [ex.submit(hrun.run_harness, exe, ["replay", path, ctx.seed, ninst, s, shards], timeout=1500)
                for s in range(shards)]
        for s, f in enumerate(futs):
            r = f.result()
            if r.timed_out:
                raise Broken("replay harness timed out (%s shard %d)" % (tag, s))
            if r.rc != 0:
                raise Broken("replay harness failed rc=%s (%s shard %d): %s" % (r.rc, tag, s, r.err[-3000:]))
            got = r.json()
            fin = [x for x in got if x.get("r") == "summary"]
            if len(fin) != 1:
                raise Broken("replay harness printed no summary (%s shard %d): %s" % (tag, s, r.err[-2000:]))
            for k, v in fin[0].items():
                if isinstance(v, int):
                    summ[k] = summ.get(k, 0) + v
            recs += [x for x in got if x.get("r") != "summary"]
    if not os.environ.get("VERIF_KEEP"):
        os.unlink(path)
    log("replayed %-8s %6d behaviours x %d concretisations, %8d steps compared, %5d forks, %.1fs" % (
        tag, len(behs), ninst, summ.get("steps", 0), summ.get("forks", 0), time.time() - t0))
    if summ.get("aborted"):
        # a shard stops after 150 unexplained mismatches/crashes: the run has failed, the rest would only cost time
        if not any(x.get("r") in ("mismatch", "crash", "stdspec", "harness") for x in recs):
            raise Broken("replay harness stopped early without reporting a failure (%s)" % tag)
        ctx.extra["replay_stopped_early_after_failures"] = True
        ctx.exhaustive = False
    elif summ.get("behaviours") != len(behs):
        raise Broken("replay harness replayed %s of %d behaviours (%s)" % (summ.get("behaviours"), len(behs), tag))
    return recs, summ


def classify(ctx, recs, by_id, ninst):
    """Turns harness records into verdicts.  Broken conditions are collected and raised at the end."""
    broken = []
    for x in sorted(recs, key=lambda x: (x.get("m", ""), x.get("id", -1), x.get("inst", 0))):
        kind = x["r"]
        if kind in ("mismatch", "crash"):
            ctx.extra["failing_replays"] = ctx.extra.get("failing_replays", 0) + 1
            if len(ctx.violations) >= MAX_REPORTED:
                continue            # all are counted; only the first MAX_REPORTED get a replay file
        b = by_id.get((x.get("m"), x.get("id")))
        if isinstance(b, str):
            b = json.loads(b)
        replay = {"behaviour": b, "record": x, "instances": ninst}
        where = "%s behaviour #%s (%s) step %s %s" % (x.get("m"), x.get("id"), (b or {}).get("src"), x.get("step"), x.get("op", ""))
        if kind == "mismatch":
            ctx.violation("%s: %s; expected %s observed %s" % (where, x.get("what"), json.dumps(x.get("exp"))[:300],
                                                             json.dumps(x.get("obs"))[:300]), replay)
        elif kind == "crash":
            ctx.violation("%s: %s" % (where, x.get("what")), replay)
        elif kind == "dev":
            ctx.deviation(x["dev"], "%s: %s" % (where, x.get("what")), replay)
        elif kind in ("stdspec", "harness"):
            broken.append("%s: %s: %s" % (kind, where, json.dumps(x)[:1500]))
        else:
            broken.append("unknown record " + json.dumps(x)[:500])
    return broken


def binding_selftest(ctx, exes, behs_by_machine, ninst):
    """Vacuity guard of the comparison itself: one expected field of one behaviour per machine is
    corrupted; the replayer must reject it (and must accept the uncorrupted one, which the main run shows)."""
    done = {}
    for m in MACHINES:
        cand = None
        for text, stats in behs_by_machine[m.key]:
            if stats["steps"] >= 2 and stats["plain"]:
                cand = json.loads(text)
                break
        if cand is None:
            raise Broken("binding self-test: no behaviour to corrupt for " + m.key)
        bad = json.loads(json.dumps(cand))
        st = bad["steps"][-1]["exp"]
        if m.key == "own":
            st["live"] = [not v for v in st["live"]]
        elif m.key == "sv":
            st["size"] = st["size"] + 1
        elif m.key == "span":
            st["base"] = [(v + 1) % 3 for v in st["base"]] if st["base"] else st["base"]
            st["d1"]["size"] = st["d1"]["size"] + 1
        elif m.key == "var":
            st["v1"]["idx"] = (st["v1"]["idx"] + 1) % 3
        elif m.key == "fref":
            st["acc"] = (st["acc"] + 1) % 4
        bad["id"] = 0
        recs, _ = run_harness(ctx, exes[m.binary], [bad], 1, "selftest-" + m.key, shards=1)
        kinds = sorted(set(x["r"] for x in recs))
        if "mismatch" not in kinds:
            raise Broken("binding self-test: a corrupted expectation was NOT rejected for machine %s (%s)" % (m.key, kinds))
        done[m.key] = kinds
    # the exception dimension of the variant machine: "the operation threw and the old value is still there" -> "did not throw"
    cand = None
    for text, stats in behs_by_machine["var"]:
        if '"m":"varx"' in text and stats["plain"]:
            b = json.loads(text)
            if b["steps"][-1]["exp"]["threw"] == "T":
                cand = b
                break
    if cand is None:
        raise Broken("binding self-test: no throwing variant behaviour to corrupt")
    cand["steps"][-1]["exp"]["threw"] = "F"
    cand["id"] = 0
    recs, _ = run_harness(ctx, exes["main"], [cand], 1, "selftest-varx", shards=1)
    kinds = sorted(set(x["r"] for x in recs))
    if "mismatch" not in kinds:
        raise Broken("binding self-test: a corrupted 'threw' expectation was NOT rejected (%s)" % kinds)
    done["varx"] = kinds
    ctx.extra["binding_selftest"] = done


def run(ctx):
    thorough = ctx.tier == "thorough"
    ninst = 6 if thorough else 3
    ctx.assumptions += [
        "exhaustive only for the stated bounds: strings <= 3 bytes over a 3-letter alphabet (NUL included), arrays <= 3, "
        "3 pointer variables over 2-3 objects, 2 variants of 3 alternatives, 2 function references; larger instances are not covered",
        "concretisation tables in harness/c20_*.cc (abstract byte/value/position classes -> concrete ones, several seeded instances per behaviour) are trusted",
        "self move-assignment of a smart pointer is a don't-care band (valid but unspecified: unchanged or emptied); "
        "out-of-range operator[] / static-extent mismatch of span and invoking a null function_ref are undefined in std and not exercised",
        "operations nostd does not offer (string_view <=,>=,rfind..., span::subspan/first/last, shared_ptr::reset/use_count, "
        "function_ref assignment) are outside the shared interface and not checked; exceptions are injected only into the "
        "alternatives' own constructors/assignment operators (first potentially-throwing call of an operation), never into swap "
        "or variant construction; where the standard says the variant MIGHT become valueless both outcomes are accepted",
        "memory safety is not decided by the specifications: it is covered only as a by-product (ASan/UBSan on every replay, exact-size heap buffers)",
    ]
    ctx.extra["rule"] = ("states/transitions: TLC (exhaustive state graphs of the five machines + path-enumeration runs, where every "
                         "distinct path is a state); traces_validated: TLC behaviours replayed on the real nostd types (each in "
                         "several seeded concretisations); distinct_nontrivial: distinct behaviours (operation sequences with their "
                         "expected projections) with at least one operation, duplicates removed")
    exes = build_all()
    all_behs = tlc_phase(ctx)
    nid = 0
    by_id = {}
    texts = {}
    for m in MACHINES:
        lst = []
        for text, stats in all_behs[m.key]:
            nid += 1
            t = '{"id":%d,' % nid + text[1:]
            for k in getattr(m, "keys", (m.key,)):     # the harness reports the behaviour's own "m" field
                by_id[(k, nid)] = t
            lst.append(t)
            if stats["steps"] >= 2 or m.key == "sv":
                ctx.distinct.add(nid)
        texts[m.key] = lst
    broken = []
    totals = {}
    for binary in ("main", "span"):
        behs = [t for m in MACHINES if m.binary == binary for t in texts[m.key]]
        recs, summ = run_harness(ctx, exes[binary], behs, ninst, binary, shards=8)
        for k, v in summ.items():
            totals[k] = totals.get(k, 0) + v
        broken += classify(ctx, recs, by_id, ninst)
    if broken:
        raise Broken("%d broken-check record(s); first: %s" % (len(broken), broken[0]))
    binding_selftest(ctx, exes, all_behs, ninst)
    # ---- evidence --------------------------------------------------------------------------------
    n = sum(len(v) for v in all_behs.values())
    ctx.traces += n
    ctx.evaluations = totals.get("instances", 0)
    ctx.extra["behaviours_replayed"] = {m.key: len(all_behs[m.key]) for m in MACHINES}
    ctx.extra["replay_totals"] = totals
    # which side of the self-move-assignment don't-care band the real types take (recorded, never judged)
    ctx.extra["self_move_assign_outcomes_observed"] = {"unchanged": totals.get("alt_took_unchanged", 0),
                                                       "released_what_it_owned": totals.get("alt_took_released", 0)}
    # which side of "the variant might not hold a value" nostd::variant takes after an exception out of a direct emplace
    ctx.extra["var_emplace_exception_outcomes_observed"] = {"valueless": totals.get("emplace_threw_valueless", 0),
                                                            "value_kept": totals.get("emplace_threw_kept", 0)}
    ctx.extra["concretisations_per_behaviour"] = ninst
    ops = {}
    for m in MACHINES:
        o = ops.setdefault(m.key, {})
        for _, stats in all_behs[m.key]:
            for k, v in stats["ops"].items():
                o[k] = o.get(k, 0) + v
    ctx.extra["replayed_operation_counts"] = ops
    # the exception dimension of the variant machine really is in the replay set (measured)
    ctx.extra["var_steps_with_injected_exception"] = sum(st["threw"] for _, st in all_behs["var"])
    ctx.extra["var_steps_observing_a_valueless_variant"] = sum(st["valueless"] for _, st in all_behs["var"])
    if ctx.extra["var_steps_with_injected_exception"] == 0 or ctx.extra["var_steps_observing_a_valueless_variant"] == 0:
        raise Broken("vacuity: the replay set contains no throwing variant operation / no valueless variant")
    # rare conditions really present in the replay set (measured, not assumed)
    ctx.extra["own_self_copy_sole_owner_steps"] = sum(st["dev_steps"] for _, st in all_behs["own"])
    ctx.extra["own_self_move_steps"] = ops["own"].get("AssignMoveSelf", 0)
    if ctx.extra["own_self_copy_sole_owner_steps"] == 0 or ctx.extra["own_self_move_steps"] == 0:
        raise Broken("vacuity: the replay set contains no self-assignment step")
    for m in MACHINES:
        bs = all_behs[m.key]
        pick = [json.loads(bs[i][0]) for i in (0, len(bs) // 2)][:2 if m.key == "own" else 1]
        for b in pick:
            ctx.sample({"machine": m.module, "source": b.get("src"), "cfg": b.get("cfg"),
                        "steps": [{k: v for k, v in s.items() if k in ("op", "v", "w", "d", "t", "x", "y", "i", "how", "pos", "n", "dev")}
                                  for s in b["steps"]][:10],
                        "expected_after_last_step": _short(b["steps"][-1]["exp"])}, limit=6)


def _short(exp):
    s = json.dumps(exp)
    return exp if len(s) < 700 else s[:700] + "..."


def replay(ctx, path):
    """Re-run the behaviour stored in a violation file on the current tree."""
    rep = json.load(open(path))["replay"]
    b = rep.get("behaviour")
    if not b:
        raise Broken("replay file has no behaviour")
    exes = build_all()
    m = [x for x in MACHINES if b["m"] in getattr(x, "keys", (x.key,))][0]
    ctx.seed = int(json.load(open(path)).get("seed", ctx.seed))     # same concretisations as the failing run
    for (name, consts, invs, cover) in m.mc(ctx):                  # the machine still states the property
        mc_job(ctx, m, name, consts, invs, False)
    recs, summ = run_harness(ctx, exes[m.binary], [b], rep.get("instances", 3), "replay", shards=1)
    broken = classify(ctx, recs, {(b["m"], b["id"]): b}, rep.get("instances", 3))
    if broken:
        raise Broken(broken[0])
    ctx.traces += 1
    ctx.sample({"kind": "replayed behaviour", "machine": m.module, "ops": [s["op"] for s in b["steps"]]})
