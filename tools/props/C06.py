"""C06 -- counter measurements are conserved across readers, temporalities and threads.

1. TLC, exhaustive: the reference model spec/MetricsSync.tla (Meter registry -> SyncMetricStorage interval
   table -> TemporalMetricStorage stash / last-reported, single-reader fast path and general path) with the
   property's ghosts; Dev = {} (repaired design) must satisfy DeltaConservation, WindowIsPending,
   NothingBroken (exact delta values, cumulative = running total, abutting intervals) in every reachable
   state; with the deviations of the unchanged tree every broken clause must go through a listed deviation.
2. spec -> code: behaviours printed by TLC (one per distinct state reached by a Collect within small bounds, a witness
   for every rare step, random walks, shortest counterexamples of the as-implemented model) are executed on the REAL MeterProvider /
   Counter / UpDownCounter / MetricReader through the public API (harness/c06_sync.cc, ASan+UBSan, seeded
   concretisations) ...
3. code -> spec: ... and so are long random histories (100-400 operations, 10-20 attribute sets, 1-4
   readers of mixed temporality, 1-2 handles, 1-2 view streams); every execution's event log is validated
   by the property-level monitor spec/MetricsSyncTrace.tla (TLC).  Only a monitor rejection (or a crash of
   the real code) is a VIOLATION; an execution the monitor accepts only through a named deviation is
   classified through known_findings.
4. The model's own behaviours (with the model's results) are fed to the monitor too: a rejection there is
   a broken check (over-strict monitor), never a violation.
5. concurrent clause: recorder threads racing collector threads on the real classes under the
   deterministic scheduler (harness/c06_conc.cc, flavour shim); logs validated by the same monitor.
"""
import hashlib
import json
import random

from lib import build
from lib import metrics_sync as M
from lib.common import Broken, log

LEVEL = "model_checking"


def _t(ctx, what):
    ctx.extra.setdefault("phase_wall_s", {})[what] = ctx.timer.s()
    log("phase done:", what, ctx.timer.s())
MY_DEVS = [M.D1, M.D2, M.D3]

WITNESSES = {
    # config key -> witness invariants that must be reachable there
    "d": ["WitFast", "WitLater", "WitDup"],
    "dc": ["WitGeneral", "WitStash2", "WitNoNew", "WitEmptyMd", "WitDup", "WitLater", "WitDupKey"],
    "dc2v": ["WitMultiView", "WitFiltered"],
    "dcpm": ["WitZero"],
    # the reader set grows in the middle of the history / the instrument is created after a collection
    "d+c": ["WitOldAfterGrowth", "WitLateReader", "WitBeforeCreate"],
    "d+d": ["WitOldAfterGrowth"],
    # ONE reader is shut down in the middle (the others go on): the reader that stays is handed what the reader
    # that left had swapped out - B collects, B is shut down, [more Adds,] A collects - for A delta / cumulative,
    # A first / second in the provider's list; a reader collecting after its own shutdown
    "dc!": ["WitSurvDeltaParked", "WitSurvDeltaParkedNew", "WitSurvDeltaLater", "WitSurvCumParkedNew", "WitDownCollect"],
    "cd!": ["WitSurvDeltaParked", "WitSurvDeltaParkedNew", "WitSurvCumParked"],
}


def _configs(thorough, dev=()):
    a, c = (4, 4) if thorough else (3, 3)
    return {
        "d": M.ModelCfg("T_d", "F_all", "AS_perm", handles=2, maxadd=a, maxcol=c, dev=dev),
        "dc": M.ModelCfg("T_dc", "F_all", "AS_perm", handles=2 if thorough else 1, maxadd=3, maxcol=3, dev=dev),
        "dc2v": M.ModelCfg("T_dc", "F_all_k1", "AS_perm", handles=1, maxadd=2 if not thorough else 3, maxcol=3, dev=dev),
        "dcpm": M.ModelCfg("T_dc", "F_all", "AS_two", handles=1, amounts="AM_pm", maxadd=3, maxcol=2, dev=dev),
        "ddc": M.ModelCfg("T_ddc", "F_all", "AS_two", handles=1, maxadd=3 if thorough else 2, maxcol=4 if thorough else 3, dev=dev),
        # the reader set grows: one delta reader (fast path) first, a second reader is registered later
        "d+c": M.ModelCfg("T_dc", "F_all", "AS_two", init=1, handles=1, maxadd=3 if thorough else 2, maxcol=4 if thorough else 3, dev=dev),
        "d+d": M.ModelCfg("T_dd", "F_all", "AS_two", init=1, handles=1, maxadd=2, maxcol=4 if thorough else 3, dev=dev),
        # readers are shut down individually in the middle of the history ("d+c!" also contains every history of "d+c")
        "d+c!": M.ModelCfg("T_dc", "F_all", "AS_two", init=1, handles=1, maxadd=3 if thorough else 2, maxcol=4 if thorough else 3, shutdown=1, dev=dev),
        "dc!": M.ModelCfg("T_dc", "F_all", "AS_two", handles=1, maxadd=3 if thorough else 2, maxcol=3, shutdown=1, dev=dev),
        "ddc!": M.ModelCfg("T_ddc", "F_all", "AS_two", handles=1, maxadd=2, maxcol=3, shutdown=2, dev=dev),       # thorough only
    }


def _asimpl(thorough):
    return {
        "d": M.ModelCfg("T_d", "F_all", "AS_perm", handles=2, maxadd=3, maxcol=3, dev=MY_DEVS),
        "dc": M.ModelCfg("T_dc", "F_all", "AS_two", handles=2, maxadd=3 if thorough else 2, maxcol=3, dev=MY_DEVS),
        "dc2v": M.ModelCfg("T_dc", "F_all_k1", "AS_two", handles=2 if thorough else 1, maxadd=2, maxcol=3, dev=MY_DEVS),
        "d+c": M.ModelCfg("T_dc", "F_all", "AS_two", init=1, handles=1, maxadd=2, maxcol=3, dev=MY_DEVS),
        "dc!": M.ModelCfg("T_dc", "F_all", "AS_two", handles=1, maxadd=2, maxcol=3, shutdown=1, dev=MY_DEVS),
    }


def _key(p):
    return hashlib.sha1(json.dumps([p["temps"], p["filters"], p["ops"]], sort_keys=True).encode()).hexdigest()


def _nontrivial(p):
    seen_add = False
    for o in p["ops"]:
        if o["e"] == "Add":
            seen_add = True
        elif o["e"] == "Collect" and seen_add:
            return True
    return False


def generate(ctx):
    thorough = ctx.tier == "thorough"
    asimpl = _asimpl(thorough)
    jobs = []
    # a witness for every rare step (vacuity guard: each must be reachable)
    wcfg = {"d": M.ModelCfg("T_d", "F_all", "AS_perm", handles=2, maxadd=4, maxcol=4),
            "dc": M.ModelCfg("T_dc", "F_all", "AS_dup", handles=2, maxadd=4, maxcol=4),
            "dc2v": M.ModelCfg("T_dc", "F_all_k1", "AS_perm", handles=1, maxadd=3, maxcol=3),
            "dcpm": M.ModelCfg("T_dc", "F_all", "AS_two", handles=1, amounts="AM_pm", maxadd=3, maxcol=3),
            "d+c": M.ModelCfg("T_dc", "F_all", "AS_two", init=1, handles=1, maxadd=4, maxcol=4),
            "d+d": M.ModelCfg("T_dd", "F_all", "AS_two", init=1, handles=1, maxadd=4, maxcol=4),
            "dc!": M.ModelCfg("T_dc", "F_all", "AS_two", handles=1, maxadd=4, maxcol=4, shutdown=1),
            "cd!": M.ModelCfg("T_cd", "F_all", "AS_two", handles=1, maxadd=4, maxcol=4, shutdown=1)}
    for k, names in WITNESSES.items():
        jobs += [M.witness_job(wcfg[k], w) for w in names]
    # shortest histories on which the as-implemented model breaks a clause (directed at the defects)
    jobs += [M.witness_job(asimpl[k], "WitBad") for k in ("d", "dc", "dc2v")]
    jobs += [M.witness_job(M.ModelCfg("T_dc", "F_all", "AS_two", init=1, handles=1, maxadd=3, maxcol=4, dev=[M.D1]), "WitOldAfterGrowth")]
    nwit = len(jobs)
    # one behaviour per distinct state reached by a Collect, small bounds
    small = [
        M.ModelCfg("T_d", "F_all", "AS_perm", handles=2, maxadd=2, maxcol=2),
        M.ModelCfg("T_dc", "F_all", "AS_perm", handles=2, maxadd=2, maxcol=2),
        M.ModelCfg("T_ddc", "F_all", "AS_two", handles=1, maxadd=2, maxcol=3 if thorough else 2),
        M.ModelCfg("T_dc", "F_all_k1", "AS_two", handles=2, maxadd=2, maxcol=2),
        M.ModelCfg("T_dc", "F_all", "AS_two", init=1, handles=1, maxadd=2, maxcol=3),      # second reader arrives late
        M.ModelCfg("T_cd", "F_all", "AS_two", init=1, handles=1, maxadd=2, maxcol=3),
    ]
    jobs += [M.bfs_job(mc, limit=4000 if thorough else 400, seed=ctx.seed) for mc in small]
    # one reader is shut down in the middle of the history, the other goes on
    small_shut = [
        M.ModelCfg("T_dc", "F_all", "AS_two", handles=1, maxadd=2, maxcol=3, shutdown=1),
        M.ModelCfg("T_dd", "F_all", "AS_two", handles=1, maxadd=2, maxcol=3, shutdown=1),
    ]
    jobs += [M.bfs_job(mc, limit=2000 if thorough else 200, seed=ctx.seed) for mc in small_shut]
    # random walks, deeper
    deep = [
        M.ModelCfg("T_d", "F_all", "AS_perm", handles=2, maxadd=8, maxcol=6),
        M.ModelCfg("T_ddc", "F_all", "AS_perm", handles=2, maxadd=10, maxcol=8),
        M.ModelCfg("T_dc", "F_all_k1", "AS_dup", handles=2, maxadd=8, maxcol=6),
        M.ModelCfg("T_dc", "F_all", "AS_perm", handles=1, amounts="AM_pm2", maxadd=8, maxcol=6),
        M.ModelCfg("T_ddc", "F_all", "AS_perm", init=1, handles=2, maxadd=8, maxcol=8),    # readers arrive late
    ]
    jobs += [M.sim_job(mc, num=300 if thorough else 80, depth=24, seed=ctx.seed * 101 + i) for i, mc in enumerate(deep)]
    deep_shut = [
        M.ModelCfg("T_ddc", "F_all", "AS_perm", handles=1, maxadd=8, maxcol=8, shutdown=2),        # readers are shut down one by one
        M.ModelCfg("T_cd", "F_all", "AS_dup", init=1, handles=2, maxadd=8, maxcol=7, shutdown=1),  # ... and arrive late
    ]
    jobs += [M.sim_job(mc, num=300 if thorough else 50, depth=24, seed=ctx.seed * 103 + i) for i, mc in enumerate(deep_shut)]
    behs = M.run_jobs(ctx, jobs, parallel=4)
    ctx.extra["witness_behaviours"] = sum(1 for b in behs if b["src"].startswith("Wit"))
    if ctx.extra["witness_behaviours"] != nwit:
        raise Broken("a witness run printed no behaviour")
    ctx.extra["bfs_behaviours"] = sum(1 for b in behs if b["src"] == "bfs")
    ctx.extra["simulated_behaviours"] = sum(1 for b in behs if b["src"] == "simulate")
    return behs, [b for b in behs if b["mc"].dev]


def random_programs(ctx, n, x0):
    rng = random.Random(ctx.seed * 7919 + 17)
    progs = []
    for i in range(n):
        nr = rng.choice([1, 1, 2, 2, 3, 4])
        temps = [rng.choice(["delta", "cum"]) for _ in range(nr)]
        two_views = rng.random() < 0.25
        filters = [[0], rng.choice([[1], [1, 2], []])] if two_views else [[0]]
        late = [rng.choice(["delta", "cum"]) for _ in range(rng.choice([1, 1, 2]))] if rng.random() < 0.3 else []
        # 40 % of the histories with >= 2 readers: 1 .. all-but-one readers are shut down individually in the middle
        shut = rng.randrange(1, nr + len(late)) if nr + len(late) >= 2 and rng.random() < 0.4 else 0
        progs.append(M.random_program(rng, x0 + i, mode="api", temps=temps, filters=filters,
                                      handles=2 if rng.random() < 0.25 else 1, nops=rng.randrange(100, 401),
                                      nsets=rng.randrange(10, 21), nkeys=4, nvals=3, p_collect=rng.choice([0.05, 0.15, 0.3]),
                                      late=late, collect_first=rng.random() < 0.2, shutdown=shut,
                                      p_down_collect=rng.choice([0.0, 0.0, 0.1])))
    return progs


def execute_and_validate(ctx, exe, programs, tag):
    byx = M.run_programs(ctx, exe, programs, tag)
    res = M.validate(ctx, byx, MY_DEVS, checktime=True, tag=tag, parallel=4)
    M.classify(ctx, res, programs, "C06 " + tag)
    for p in programs:
        ctx.evaluations += 1
        if _nontrivial(p):
            ctx.distinct.add(_key(p))
    return res


def run(ctx):
    thorough = ctx.tier == "thorough"
    ctx.assumptions += [
        "sum aggregation only (counters / up-down counters), one instrument, one meter; readers registered in the middle of a history are exercised, but what such a late reader itself is handed (values, start of its first delta interval) is left open; "
        "readers shut down individually in the middle of a history (MetricReader::Shutdown, provider alive) are exercised: every other reader keeps every clause, what the shut-down reader itself is handed afterwards is not examined",
        "timestamps are compared as ranks (SDK start, k-th collection); the clock is read strictly increasing between operations",
        "exhaustive TLC results are for the stated small constants (<= 3 readers, <= 2 handles, <= 2 view streams, <= 4 Adds, <= 4 Collects); longer histories are sampled",
        "abstract amounts are small integers, concretised as n*M: doubles M in {1, 0.25, 1024} (exactly representable sums; floating-point rounding is not examined), integers M in {1, 3, a huge odd multiplier such as 2^53+1} with every sum exact in int64 but not in double",
        "attribute keys are NUL-terminated (the filter's use of key.data() is C19's finding F12)",
    ]
    ctx.extra["rule"] = ("states/transitions: TLC on MetricsSync.tla (exhaustive configs, witness and generation runs) + monitor runs; "
                         "traces_validated: real executions (TLC-generated histories x seeded concretisations + random histories) whose event "
                         "log was validated by MetricsSyncTrace.tla; distinct_nontrivial: distinct (readers, views, operation sequence) "
                         "histories with at least one Add before a Collect")
    exe = build.harness("c06_sync", ["c06_sync.cc"], "asan")
    # 1. exhaustive model checking --------------------------------------------------------------------
    ideal = _configs(thorough)
    asimpl = _asimpl(thorough)
    order = ["d+c!", "d", "dc", "dc2v", "dcpm", "ddc", "d+d", "dc!"] + (["ddc!"] if thorough else [])
    M.model_check(ctx, [ideal[k] for k in order] + [asimpl[k] for k in ("d", "dc", "dc2v", "d+c", "dc!")],
                  workers=4 if thorough else 3, parallel=3 if thorough else 2, timeout_s=2400 if thorough else 900)
    _t(ctx, "model checking")
    # 2. behaviours of the model ------------------------------------------------------------------------
    behs, wit_asimpl = generate(ctx)
    _t(ctx, "behaviour generation")
    # 4. the monitor accepts the model (guard against an over-strict monitor)
    M.check_model_against_monitor(ctx, [b for b in behs if not b["mc"].dev], [], "ideal")
    M.check_model_against_monitor(ctx, wit_asimpl, MY_DEVS, "asimpl")
    _t(ctx, "model behaviours accepted by the monitor")
    # 2./3. execute on the real SDK, validate with the monitor ----------------------------------------
    rng = random.Random(ctx.seed * 31 + 5)
    nconc = 5 if thorough else 2
    programs, x = [], 0
    for b in behs:
        for _ in range(nconc if b["src"] != "bfs" else 1):
            x += 1
            programs.append(M.program_from_behaviour(b, x, rng))
    res = execute_and_validate(ctx, exe, programs, "beh")
    ctx.extra["behaviours_executed"] = len(programs)
    _t(ctx, "behaviours executed + validated")
    for p in programs[:1]:
        ctx.sample({"kind": "TLC behaviour executed on the real SDK (program)", "src": p["src"], "temps": p["temps"],
                    "filters": p["filters"], "kind_vt": [p["kind"], p["vt"]], "ops": p["ops"][:12]})
    rp = random_programs(ctx, 1500 if thorough else 150, x + 1)
    res2 = execute_and_validate(ctx, exe, rp, "rnd")
    ctx.extra["random_histories_executed"] = len(rp)
    _t(ctx, "random histories executed + validated")
    ctx.extra["random_history_events"] = res2["events"]
    ctx.sample({"kind": "random history (first operations)", "temps": rp[0]["temps"], "filters": rp[0]["filters"],
                "ops": rp[0]["ops"][:10]})
    ctx.extra["executions_using_a_deviation"] = len(res["devs"]) + len(res2["devs"])
    # 5. concurrent clause ---------------------------------------------------------------------------
    try:
        from lib import metrics_conc
    except ImportError:
        metrics_conc = None
    if metrics_conc is not None:
        metrics_conc.run(ctx)
    else:
        ctx.assumptions.append("the concurrent clause (recorders racing collectors) is not covered by this run")


def replay(ctx, path):
    """Re-execute the stored history on the current tree and validate it again."""
    rep = json.load(open(path))["replay"]
    prog = rep.get("program")
    if not prog:
        raise Broken("replay file has no program")
    if prog.get("conc"):
        from lib import metrics_conc
        return metrics_conc.replay(ctx, rep)
    exe = build.harness("c06_sync", ["c06_sync.cc"], "asan")
    byx = M.run_programs(ctx, exe, [prog], "replay")
    res = M.validate(ctx, byx, MY_DEVS, checktime=True, tag="replay", parallel=1)
    M.classify(ctx, res, [prog], "C06 replay")
    ctx.sample({"kind": "replayed history", "ops": prog["ops"][:12]})
