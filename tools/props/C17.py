"""C17 — gauges report the latest value; observable callbacks are read exactly once per collection;
cumulative/delta conversion of observed totals per reader.

spec/MetricsAsync.tla has two layers: P (the abstract state the property talks about: registered
callbacks, latest reported totals, what each delta reader was last given, `Want`/`Conforms` = what a
reader may be handed) and M (a reference state machine of the SDK's design: ObservableRegistry,
AsyncMetricStorage Diff conversion, TemporalMetricStorage with the single-delta-reader fast path,
LastValue merge by sample time).

1. TLC, exhaustive: on the whole bounded state graph what M hands out is allowed by P (invariants
   EachCallbackOncePerCollection, RemovedNeverInvoked, OutAllowed, CumulativeGetsReportedTotal,
   DeltaIsDifferenceFromOwnLast, GaugeIsLatest), with vacuity probes for every antecedent.
2. spec -> code: behaviours printed by TLC (all behaviours to a small depth, random walks, one
   witness-directed behaviour per rare condition) carry per collection the expected invocation
   count of every callback and, per instrument and attribute set, the value a reader must/may be
   given.  harness/c17_async.cc steps them through the real MeterProvider / ObservableInstrument /
   (ABI v2) Gauge / pull MetricReader API; the comparison is with the P-level expectation only.
3. code -> spec: seeded random histories (10-20 attribute sets, 1-4 readers, up to 6 callbacks on
   up to 4 instruments) are logged call by call and validated by MetricsAsyncTrace.tla (P actions).
4. concurrent clause: collector threads race threads that add / remove callbacks and destroy instruments
   on the real SDK under the deterministic scheduler (harness/c17_conc.cc, flavour shim; random, PCT and
   delay-bounded DFS schedules); every execution's event log is validated by MetricsAsyncConcTrace.tla:
   no callback is entered after its RemoveCallback (or its instrument's destruction) has returned, and a
   callback stably registered during a whole collection is entered exactly once in it.
Only 2, 3 and 4 can raise an alarm.
"""
import concurrent.futures as cf
import hashlib
import json
import os
import subprocess

from lib import build, hrun, tlc, trace
from lib.common import Broken, log

LEVEL = "model_checking"
ABI2 = ["-UOPENTELEMETRY_ABI_VERSION_NO", "-DOPENTELEMETRY_ABI_VERSION_NO=2"]
INVS = ("TypeOK EachCallbackOncePerCollection RemovedNeverInvoked OutAllowed CumulativeGetsReportedTotal "
        "DeltaIsDifferenceFromOwnLast GaugeIsLatest")
OBS3 = ["ocounter", "oupdown", "ogauge"]
ACTIONS = ["DoAdd", "DoRem", "DoDestroy", "DoRec", "DoBegin", "Invoke", "DoEnd"]


def _set(xs):
    return "{" + ", ".join(('"%s"' % e if isinstance(e, str) else str(e)) for e in xs) + "}"


def cfg_text(NI, NR, NC, NA, RichA, kinds, temps, VC, VSP, VSN, MaxCol, MaxRec, MaxLen=0, hist=False,
             ties=False, inv=INVS, view="View", extra="", wit=()):
    return ("CONSTANTS NI = %d NR = %d NC = %d NA = %d RichA = %d\n"
            " KindSet = %s TempSet = %s VC = %s VSP = %s VSN = %s\n"
            " MaxCol = %d MaxRec = %d MaxLen = %d Hist = %s Ties = %s Dev = {} WitSet = %s\n"
            "INIT Init\nNEXT Next\nVIEW %s\nINVARIANTS %s\n%s\n" % (
                NI, NR, NC, NA, RichA, _set(kinds), _set(temps), _set(VC), _set(VSP), _set(VSN),
                MaxCol, MaxRec, MaxLen, "TRUE" if hist else "FALSE", "TRUE" if ties else "FALSE", _set(wit), view, inv, extra))


def _cfg(ctx, name, **kw):
    p = ctx.rundir.file(name + ".cfg")
    with open(p, "w") as f:
        f.write(cfg_text(**kw))
    return p


DC = ["d", "c"]
V = dict(VC=[0, 1, 3], VSP=[0, 2], VSN=[1])
V2 = dict(VC=[1, 3], VSP=[2], VSN=[1])
MC_QUICK = {
    "conv-2readers": dict(NI=1, NR=2, NC=1, NA=2, RichA=1, kinds=OBS3, temps=DC, MaxCol=3, MaxRec=0, **V2),
    "conv-1reader-fastpath": dict(NI=1, NR=1, NC=1, NA=2, RichA=1, kinds=OBS3, temps=DC, MaxCol=4, MaxRec=0, **V),
    "conv-3readers": dict(NI=1, NR=3, NC=1, NA=1, RichA=1, kinds=["ocounter", "ogauge"], temps=DC, MaxCol=3, MaxRec=0, **V2),
    "registry-3cb-2instr": dict(NI=2, NR=1, NC=3, NA=1, RichA=0, kinds=["ocounter"], temps=DC, VC=[1], VSP=[1], VSN=[],
                                MaxCol=2, MaxRec=0),
    "sync-gauge": dict(NI=1, NR=2, NC=0, NA=2, RichA=1, kinds=["sgauge"], temps=DC, VC=[], VSP=[2], VSN=[1],
                       MaxCol=3, MaxRec=3),
}
MC_THOROUGH = {
    "conv-2readers": dict(NI=1, NR=2, NC=1, NA=2, RichA=1, kinds=OBS3, temps=DC, MaxCol=4, MaxRec=0, **V),
    "conv-1reader-fastpath": dict(NI=1, NR=1, NC=1, NA=2, RichA=2, kinds=OBS3, temps=DC, MaxCol=4, MaxRec=0, **V),
    "conv-3readers": dict(NI=1, NR=3, NC=1, NA=1, RichA=1, kinds=OBS3, temps=DC, MaxCol=4, MaxRec=0, **V),
    "registry-3cb-2instr": dict(NI=2, NR=2, NC=3, NA=2, RichA=0, kinds=["ocounter"], temps=DC, VC=[1], VSP=[1],
                                VSN=[], MaxCol=2, MaxRec=0),
    "registry-2cb-gauge": dict(NI=2, NR=1, NC=2, NA=2, RichA=0, kinds=["ocounter", "ogauge"], temps=DC, VC=[1], VSP=[1],
                               VSN=[], MaxCol=3, MaxRec=0),
    "sync-gauge": dict(NI=1, NR=3, NC=0, NA=2, RichA=1, kinds=["sgauge"], temps=DC, VC=[], VSP=[0, 2], VSN=[1],
                       MaxCol=3, MaxRec=4),
    "mixed-obs-sync": dict(NI=2, NR=2, NC=1, NA=1, RichA=1, kinds=["ocounter", "sgauge"], temps=DC, VC=[1, 3], VSP=[0, 2],
                           VSN=[], MaxCol=3, MaxRec=2),
}
VAC = {
    "vac-values": dict(NI=1, NR=2, NC=1, NA=1, RichA=1, kinds=["ocounter", "ogauge"], temps=DC, VC=[1, 3], VSP=[0, 2], VSN=[],
                       MaxCol=3, MaxRec=0),
    "vac-registry": dict(NI=2, NR=1, NC=2, NA=1, RichA=0, kinds=["ocounter", "sgauge"], temps=DC, VC=[1], VSP=[2], VSN=[],
                         MaxCol=2, MaxRec=1),
}
VAC_NAMES = ["cumulative reader, later delivery of a total reported now", "delta reader, non-zero difference from own last",
             "delta reader with another reader's delivery in between", "observable gauge value changes",
             "synchronous gauge recorded since last collection", "collection while a live callback is unregistered",
             "collection while a destroyed instrument's callback exists", "attribute set not reported in this collection"]

# witness-directed behaviours: one TLC run per entry (spec: WitProbe / WitDone), (name, config, conditions)
_W_SUM = dict(NI=1, NR=2, NC=1, NA=1, RichA=1, kinds=["oupdown", "ogauge"], temps=DC, VC=[], VSP=[0, 2], VSN=[1], MaxCol=4, MaxRec=0)
_W_REG = dict(NI=2, NR=1, NC=2, NA=2, RichA=0, kinds=["ocounter"], temps=["d"], VC=[1], VSP=[1], VSN=[], MaxCol=3, MaxRec=0)
_W_GAU = dict(NI=1, NR=2, NC=1, NA=1, RichA=1, kinds=["ogauge"], temps=DC, VC=[], VSP=[0, 2], VSN=[1], MaxCol=3, MaxRec=0)
_W_SG = dict(NI=1, NR=2, NC=0, NA=1, RichA=1, kinds=["sgauge"], temps=DC, VC=[], VSP=[0, 2], VSN=[1], MaxCol=3, MaxRec=3)
WITNESSES = [
    ("sums+gauge", _W_SUM, ["neg_delta", "zero_delta", "reappear", "interleaved", "first_after_other", "delta_flush_unreported",
                            "readd_invoked", "gauge_stale_cum"]),
    ("registry", _W_REG, ["collect_after_rem", "two_cb_one_instr", "fastpath", "rem_noop", "collect_after_destroy"]),
    ("sync-gauge", _W_SG, ["sgauge_stale", "sg_overwrite"]),
]


# --------------------------------------------------------------------------------------------------
def model_check(ctx):
    thorough = ctx.tier == "thorough"
    cfgs = MC_THOROUGH if thorough else MC_QUICK
    jobs = []
    for name, kw in cfgs.items():
        jobs.append(("mc", name, _cfg(ctx, "mc-" + name, **kw), dict(workers=4, timeout_s=1500 if thorough else 150, xmx="6g")))
    for name, kw in VAC.items():
        # vacuity: every action taken, every antecedent reachable (one worker: TLCSet registers)
        jobs.append(("vac", name, _cfg(ctx, name, inv=INVS + " VacProbe", extra="POSTCONDITION VacReport", **kw),
                     dict(workers=1, timeout_s=300, coverage=True)))
    if thorough:
        kw = dict(_W_GAU)
        kw["temps"] = ["c"]
        jobs.append(("ties", "ties", _cfg(ctx, "ties", ties=True, inv="GaugeIsLatest", **kw), dict(workers=1, timeout_s=120)))

    def one(job):
        kind, name, c, opts = job
        return kind, name, tlc.tlc("MetricsAsync", c, rundir=ctx.rundir.path, tag=kind + "-" + name, **opts)

    seen = [0] * len(VAC_NAMES)
    cov = {}
    with cf.ThreadPoolExecutor(max_workers=3) as ex:
        for kind, name, r in ex.map(one, jobs):
            if kind == "mc":
                ctx.add_tlc("MetricsAsync " + name, r)
                if r.status == "timeout":
                    log("MC config %s timed out (bounded, not exhaustive)" % name)
                elif r.status == "invariant":
                    # the MODEL of the SDK's design breaks the property.  An alarm still has to come from the
                    # real code (replay / trace validation below); record it.
                    ctx.extra.setdefault("model_violations", []).append({"cfg": name, "invariant": r.violated})
                else:
                    tlc.must_ok(r, "MetricsAsync model checking (%s)" % name)
            elif kind == "vac":
                ctx.add_tlc("MetricsAsync " + name + " (coverage + vacuity probes)", r)
                tlc.must_ok(r, "vacuity run " + name)
                v = r.printed("VAC")
                if not v:
                    raise Broken("vacuity run %s printed no VAC line" % name)
                seen = [max(a, b) for a, b in zip(seen, v[-1])]
                for a, (t, g) in r.coverage.items():
                    cov[a] = cov.get(a, 0) + t
            else:
                # the strict-clock assumption is necessary: with ties the DESIGN breaks GaugeIsLatest (model only)
                ctx.extra["model_with_clock_ties"] = (
                    "violates %s after %d steps (model only; not reproducible on the real code without a clock hook)"
                    % (r.violated, r.depth) if r.status == "invariant" else "status " + r.status)
    for a in ACTIONS:
        if cov.get(a, 0) == 0:
            raise Broken("vacuity: action %s never taken in the coverage runs (%s)" % (a, cov))
    for k, sn in enumerate(seen):
        if not sn:
            raise Broken("vacuity: antecedent never true in the model: " + VAC_NAMES[k])
    ctx.extra["vacuity_antecedents_seen"] = dict(zip(VAC_NAMES, seen))


# --------------------------------------------------------------------------------------------------
MAX_REPORTS = 12


def _viol(ctx, what, rep):
    """Report at most MAX_REPORTS violations in full (a broken tree fails thousands of behaviours)."""
    if len(ctx.violations) < MAX_REPORTS:
        ctx.violation(what, rep)
    else:
        ctx.extra["violations_not_reported_individually"] = ctx.extra.get("violations_not_reported_individually", 0) + 1


def _key(steps):
    return hashlib.sha1(json.dumps(steps, sort_keys=True).encode()).hexdigest()


def generate(ctx, have_sg):
    """Behaviours printed by TLC: (a) one shortest behaviour per rare condition, (b) ALL behaviours of a tiny
    configuration up to a small length, (c) random walks over larger domains.  All TLC runs share one pool."""
    thorough = ctx.tier == "thorough"
    jobs = []
    for name, kw, names in WITNESSES:
        c = _cfg(ctx, "w-" + name, hist=True, inv="WitProbe WitDone", wit=names, **kw)
        # one worker: BFS order is deterministic, i.e. always the same shortest behaviours
        jobs.append(("wit", name, names, c, dict(workers=1, timeout_s=200)))
    c = _cfg(ctx, "bfs", hist=True, inv="EmitLast", view="ViewH", extra="CONSTRAINT HistBound\nACTION_CONSTRAINT GenShape",
             NI=1, NR=2, NC=1, NA=1, RichA=1, kinds=["ocounter", "ogauge"], temps=DC, VC=[1, 3], VSP=[0, 2], VSN=[],
             MaxCol=3, MaxRec=0, MaxLen=7 if thorough else 6)
    jobs.append(("bfs", "bfs", None, c, dict(workers=4, timeout_s=900)))
    sims = [("sim-obs", dict(NI=3, NR=3, NC=3, NA=3, RichA=3, kinds=OBS3, temps=DC, MaxCol=8, MaxRec=0, **V), 11),
            ("sim-obs-1reader", dict(NI=2, NR=1, NC=3, NA=3, RichA=3, kinds=OBS3, temps=DC, MaxCol=8, MaxRec=0, **V), 12),
            ("sim-obs-4cb", dict(NI=2, NR=2, NC=4, NA=4, RichA=2, kinds=OBS3, temps=DC, MaxCol=10, MaxRec=0, **V), 13)]
    if have_sg:
        sims.append(("sim-sgauge", dict(NI=3, NR=3, NC=2, NA=3, RichA=3, kinds=OBS3 + ["sgauge"], temps=DC, MaxCol=8, MaxRec=12,
                                        **V), 14))
    num = 250 if thorough else 40
    for name, kw, off in sims:
        c = _cfg(ctx, name, hist=True, inv="EmitAll", extra="ACTION_CONSTRAINT GenShape", **kw)
        jobs.append(("sim", name, None, c, dict(workers=4, timeout_s=900, simulate={"num": num, "depth": 600},
                                                seed=ctx.seed * 101 + off)))

    def one(job):
        kind, name, names, c, opts = job
        return kind, name, names, tlc.tlc("MetricsAsync", c, rundir=ctx.rundir.path, tag=kind + "-" + name, **opts)

    behs = []
    seen = set()

    def add(steps, src):
        k = _key(steps)
        if k in seen:
            return
        seen.add(k)
        behs.append({"id": len(behs), "src": src, "steps": steps})

    wl = {}
    with cf.ThreadPoolExecutor(max_workers=4) as ex:
        for kind, name, names, r in ex.map(one, jobs):        # results in submission order: ids are deterministic
            if kind == "wit":
                ctx.add_tlc("witnesses " + name, r)
                found = {b["wit"]: b["hist"] for b in r.printed("BEH")}
                if r.status != "invariant" or r.violated != "WitDone" or set(found) != set(names):
                    raise Broken("witnesses %s not all reachable in the model (vacuity): status %s, found %s" % (
                        names, r.status, sorted(found)))
                for w in names:
                    wl[w] = len(found[w]) - 1
                    if _has_sg(found[w]) and not have_sg:
                        continue
                    add(found[w], "witness:" + w)
                continue
            if kind == "bfs":
                tlc.must_ok(r, "all-behaviours export")
                ctx.add_tlc("all behaviours, tiny configuration (export)", r)
            elif r.status != "ok":
                raise Broken("simulate %s failed: %s\n%s" % (name, r.status, r.out[-1500:]))
            n0 = len(behs)
            for b in sorted(r.printed("BEH"), key=_key):      # TLC's print order depends on worker scheduling
                add(b, name)
            ctx.extra["behaviours_" + name] = len(behs) - n0
            if len(behs) == n0:
                raise Broken("%s printed no behaviour" % name)
    ctx.extra["witness_lengths"] = wl
    return behs


def _has_sg(steps):
    return "sgauge" in steps[0]["kinds"]


def check_behaviour(ctx, b, res, stats):
    """Compare the harness' projection of one replayed behaviour with the P-level expectation printed
    by TLC.  Returns None or (what, step index)."""
    steps = b["steps"]
    kinds = steps[0]["kinds"]
    temps = steps[0]["temps"]
    out = res["steps"]
    for k, (s, o) in enumerate(zip(steps, out)):
        if s["op"] != "Collect":
            stats["ops"][s["op"]] = stats["ops"].get(s["op"], 0) + 1
            continue
        stats["ops"]["Collect"] = stats["ops"].get("Collect", 0) + 1
        r = s["r"]
        if o.get("stray"):
            return ("a callback was invoked that is not registered / outside its collection (%d time(s)), reader %d" % (o["stray"], r), k)
        if o.get("notes"):
            return ("reader %d was handed something outside the vocabulary: %s" % (r, o["notes"]), k)
        for c, (want, got) in enumerate(zip(s["inv"], o["inv"])):
            stats["invocations"] += got
            if want != got:
                return ("callback %d invoked %d time(s) in one collection by reader %d, expected %d" % (c + 1, got, r, want), k)
        truncate = False
        for i, (wl, pl) in enumerate(zip(s["want"], o["pts"])):
            got = {}
            for p in pl:
                if p["a"] in got:
                    return ("instrument %d (%s): two points for attribute set %s in one collection" % (i + 1, kinds[i], p["a"]), k)
                got[p["a"]] = p
            want = {w["a"]: w for w in wl}
            for a, p in got.items():
                if a not in want:
                    return ("instrument %d (%s), reader %d (%s): a point for attribute set %s that was never reported: %s"
                            % (i + 1, kinds[i], r, temps[r - 1], a, p), k)
                stats["points"] += 1
                kt = "%s/%s" % (kinds[i], temps[r - 1])
                stats["points_by_kind_and_temporality"][kt] = stats["points_by_kind_and_temporality"].get(kt, 0) + 1
                if p["v"] != want[a]["v"]:
                    return ("instrument %d (%s), reader %d (%s), attribute set %d: given %s, the spec demands %d"
                            % (i + 1, kinds[i], r, temps[r - 1], a, p.get("raw", p["v"]), want[a]["v"]), k)
            for a, w in want.items():
                if w["must"] and a not in got:
                    return ("instrument %d (%s), reader %d (%s): no point for attribute set %d which was %s (expected %d)"
                            % (i + 1, kinds[i], r, temps[r - 1], a,
                               "recorded since the reader's last collection" if kinds[i] == "sgauge" else "reported in this collection",
                               w["v"]), k)
                if not w["must"]:
                    stats["optional_present" if a in got else "optional_absent"] += 1
                    if (a in got) != w["asm"] and kinds[i] in ("ocounter", "oupdown") and temps[r - 1] == "d" and w["v"] != 0:
                        truncate = True     # allowed, but the rest of the behaviour assumed the other choice
        if truncate:
            stats["truncated"] += 1
            return None
    stats["complete"] += 1
    return None


def replay_behaviours(ctx, exes, behs):
    stats = {"ops": {}, "invocations": 0, "points": 0, "optional_present": 0, "optional_absent": 0, "truncated": 0,
             "complete": 0, "clock_discarded": 0, "points_by_kind_and_temporality": {}}
    groups = {1: [b for b in behs if not _has_sg(b["steps"])], 2: [b for b in behs if _has_sg(b["steps"])]}
    # a share of the observable-only behaviours also goes through the ABI v2 build
    if exes.get(2):
        groups[2] += [b for b in groups[1] if b["id"] % 4 == 0]
    for abi, bs in groups.items():
        if not bs:
            continue
        exe = exes.get(abi)
        if not exe:
            continue
        nchunk = 8
        chunks = [bs[i::nchunk] for i in range(nchunk)]

        def run(ch, abi=abi, exe=exe):
            if not ch:
                return ch, None
            p = ctx.rundir.file("beh-abi%d-%d.ndjson" % (abi, ch[0]["id"]))
            with open(p, "w") as f:
                for b in ch:
                    f.write(json.dumps({"id": b["id"], "steps": b["steps"]}) + "\n")
            return ch, hrun.run_harness(exe, ["replay", p, ctx.seed], timeout=900)

        with cf.ThreadPoolExecutor(max_workers=nchunk) as ex:
            for ch, hr in ex.map(run, chunks):
                if hr is None:
                    continue
                results = hr.json()
                if hr.crashed or hr.timed_out or hr.rc != 0:
                    k = len(results)
                    if hr.rc == 5:
                        raise Broken("replay harness usage error: " + hr.err[-500:])
                    bad = ch[k] if k < len(ch) else None
                    _viol(ctx, "the real code %s while replaying TLC behaviour %s (src=%s, abi v%d): %s" % (
                        "timed out" if hr.timed_out else "crashed (rc=%s)" % hr.rc, bad and bad["id"], bad and bad["src"], abi,
                        hr.err[-1500:]), {"kind": "behaviour", "abi": abi, "seed": ctx.seed, "behaviour": bad})
                for b, res in zip(ch, results):
                    if res["id"] != b["id"]:
                        raise Broken("replay harness answered out of order")
                    if not res["clock_ok"]:
                        stats["clock_discarded"] += 1
                        continue
                    ctx.traces += 1
                    ctx.evaluations += 1
                    if any(s["op"] == "Collect" and any(s["want"]) for s in b["steps"]):
                        ctx.distinct.add(("beh", abi, _key(b["steps"])))
                    bad = check_behaviour(ctx, b, res, stats)
                    if bad:
                        what, k = bad
                        _viol(ctx, "replay of TLC behaviour (src=%s, abi v%d), step %d %s: %s" % (
                            b["src"], abi, k, json.dumps({x: b["steps"][k][x] for x in b["steps"][k] if x != "want"}), what),
                            {"kind": "behaviour", "abi": abi, "seed": ctx.seed, "behaviour": b, "failing_step": k,
                             "observed": res["steps"][k]})
    if behs and stats["clock_discarded"] * 10 > len(behs):
        raise Broken("system_clock went backwards in %d of %d replays" % (stats["clock_discarded"], len(behs)))
    return stats


# --------------------------------------------------------------------------------------------------
def record(ctx, exes):
    thorough = ctx.tier == "thorough"
    runs = []
    per = 250 if thorough else 40
    nproc = 8 if thorough else 4
    for abi, exe in exes.items():
        if not exe:
            continue
        for j in range(nproc):
            runs.append((abi, exe, ["record", ctx.seed * 1000 + abi * 100 + j, per, 40, 220 if thorough else 160, 1 if abi == 2 else 0]))
    lines = []
    discarded = 0

    def run(item):
        abi, exe, args = item
        return item, hrun.run_harness(exe, args, timeout=900)

    with cf.ThreadPoolExecutor(max_workers=8) as ex:
        for (abi, exe, args), hr in ex.map(run, runs):
            if hr.rc == 5:
                raise Broken("recorder usage error: " + hr.err[-500:])
            if hr.crashed or hr.timed_out or hr.rc != 0:
                _viol(ctx, "the real code %s during a recorded random history (abi v%d, harness args %s): %s" % (
                    "timed out" if hr.timed_out else "crashed (rc=%s)" % hr.rc, abi, args, hr.err[-1500:]),
                    {"kind": "record", "abi": abi, "args": [str(a) for a in args]})
                continue
            for ln in hr.lines:
                if '"e":"Summary"' in ln:
                    discarded += json.loads(ln)["discarded"]
                elif ln.startswith("{"):
                    lines.append(ln)
    ctx.extra["recorded_histories_discarded_clock"] = discarded
    return lines


def validate(ctx, lines):
    execs = trace.split_executions(lines)
    res = trace.validate(ctx, "MetricsAsyncTrace", "MetricsAsyncTrace.cfg", lines, parallel=8, chunk=80, tag="c17")
    ctx.extra["executions_validated"] = res["executions"]
    ctx.extra["events_validated"] = res["events"]
    for rj in res["rejected"]:
        ev, at = rj["events"], rj["at"]
        _viol(ctx, "MetricsAsyncTrace rejects a real execution at event %d: %s (config %s)" % (
            at, json.dumps(ev[at]) if at < len(ev) else "?", json.dumps(ev[0])),
            {"kind": "trace", "events": ev, "at": at})
    kinds = {}
    for e in execs:
        c = json.loads(e[0])
        nontrivial = any(('"e":"Cb"' in ln and '"rep":[]' not in ln) or '"e":"Rec"' in ln for ln in e)
        if nontrivial:
            ctx.distinct.add(("rec", c.get("h"), hashlib.sha1("".join(e).encode()).hexdigest()))
        for k in c["kinds"]:
            kinds[k] = kinds.get(k, 0) + 1
    ctx.evaluations += len(execs)
    ctx.extra["recorded_instrument_kinds"] = kinds
    if execs:
        ctx.sample({"kind": "real execution validated by MetricsAsyncTrace (first events)", "events": [json.loads(x) for x in execs[0][:12]]})


# --------------------------------------------------------------------------------------------------
def _run_plain(exe, args, timeout=600):
    p = subprocess.run([exe] + [str(a) for a in args], stdout=subprocess.PIPE, stderr=subprocess.PIPE, text=True,
                       timeout=timeout)
    return p.returncode, p.stdout.splitlines(), p.stderr


def concurrent(ctx, exe):
    """Collectors racing Add/RemoveCallback/instrument destruction under the deterministic scheduler."""
    thorough = ctx.tier == "thorough"
    n = 1500 if thorough else 250
    s = ctx.seed
    # explore <strategy> <n> <seed> <ncb> <nmut> <ncolth> <ncol> <nops> [bound]
    shapes = [(3, 1, 1, 2, 3), (4, 2, 1, 2, 3), (3, 1, 2, 2, 2), (5, 2, 2, 2, 4)]
    runs = []
    for i, sh in enumerate(shapes):
        runs.append(["explore", "random", n, s * 13 + i] + list(sh))
        runs.append(["explore", "pct", n, s * 17 + i] + list(sh))
    # delay-bounded DFS over the schedules of one small program (2 callbacks, 1 mutator, 1 collector)
    runs.append(["explore", "dfs", 20000 if thorough else 1500, s, 2, 1, 1, 1, 1, 2])
    runs.append(["explore", "dfs", 20000 if thorough else 1500, s + 1, 3, 1, 1, 1, 2, 2])
    lines, bad = [], []
    with cf.ThreadPoolExecutor(max_workers=6) as ex:
        futs = [(a, ex.submit(_run_plain, exe, a)) for a in runs]
        for a, f in futs:
            rc, out, err = f.result()
            if rc in (3, 4) or rc < 0 or rc in (134, 139):
                last = max([i for i, ln in enumerate(out) if '"e":"Cfg"' in ln] or [0])
                bad.append((a, rc, out[last:]))
                out = out[:last]
            elif rc != 0:
                raise Broken("c17_conc failed rc=%s args=%s: %s" % (rc, a, err[-2000:]))
            for ln in out:
                if '"e":"DfsComplete"' in ln:
                    ctx.extra.setdefault("concurrent_dfs_complete", []).append({"args": [str(x) for x in a],
                                                                               "executions": json.loads(ln)["executions"]})
                elif '"e":"Summary"' not in ln:
                    lines.append(ln)
    execs = trace.split_executions(lines)
    # coverage of the interesting windows (measured on the logs; not an oracle): a Remove/Destroy issued while
    # a collection is in progress, and one issued after that collection has already entered another callback
    ovl = dang = 0
    for e in execs:
        open_, entered, o, d = set(), {}, False, False
        for ln in e:
            v = json.loads(ln)
            if v["e"] == "ColCall":
                open_.add(v["k"])
                entered[v["k"]] = 0
            elif v["e"] == "ColRet":
                open_.discard(v["k"])
            elif v["e"] == "CbInvoked":
                entered[v["k"]] = entered.get(v["k"], 0) + 1
            elif v["e"] in ("RemoveCall", "DestroyCall") and open_:
                o = True
                d = d or any(entered.get(k, 0) > 0 for k in open_)
        ovl += o
        dang += d
    ctx.extra["concurrent_executions_remove_during_collection"] = ovl
    ctx.extra["concurrent_executions_remove_while_collection_inside_callbacks"] = dang
    if execs and dang == 0:
        raise Broken("concurrent clause: no execution removed a callback while a collection was inside user callbacks (vacuous)")
    res = trace.validate(ctx, "MetricsAsyncConcTrace", "MetricsAsyncConcTrace.cfg", lines, parallel=6, chunk=600, tag="conc")
    ctx.extra["concurrent_executions_validated"] = res["executions"]
    ctx.extra["concurrent_events_validated"] = res["events"]
    ctx.evaluations += res["executions"]
    nd = len(ctx.distinct)
    for e in execs:
        ctx.distinct.add(("conc", hashlib.sha1("\n".join(x for x in e[1:]).encode()).hexdigest()))
    ctx.extra["concurrent_distinct_interleavings"] = len(ctx.distinct) - nd
    for rj in res["rejected"]:
        ev, at = rj["events"], rj["at"]
        _viol(ctx, "concurrent clause: MetricsAsyncConcTrace rejects a real execution (collectors racing Add/RemoveCallback) at "
              "event %d: %s" % (at, json.dumps(ev[at]) if at < len(ev) else "?"),
              {"kind": "conc-trace", "events": ev, "at": at})
    for a, rc, out in bad:
        tail = []
        for x in out[-80:]:
            try:
                tail.append(json.loads(x))
            except Exception:
                tail.append(x)
        _viol(ctx, "concurrent clause: real execution %s, harness args=%s" % (
            "got stuck (deadlock / livelock under the fair schedule)" if rc == 3 else "crashed (rc=%s)" % rc, a),
            {"kind": "conc-run", "args": [str(x) for x in a], "events": tail})
    if execs:
        pick = next((e for e in execs if any("RemoveCall" in x for x in e[8:])), execs[0])
        ctx.sample({"kind": "concurrent execution validated by MetricsAsyncConcTrace", "events": [json.loads(x) for x in pick[:24]]})
    ctx.assumptions.append("concurrent clause: sequentially consistent executions only (scheduler shim); schedules sampled (random, PCT) "
                           "plus delay-bounded DFS (2 preemptions) of two small programs; 1-2 collector threads, 1-2 mutator threads, "
                           "each callback is added/removed by one thread only; values are not examined concurrently")


# --------------------------------------------------------------------------------------------------
def _build_v1():
    return build.harness("c17_async", ["c17_async.cc"], "asan")


def _build_v2():
    try:
        exe = build.harness("c17_async", ["c17_async.cc"], "asan", extra=ABI2)
        caps = hrun.run_harness(exe, ["caps"]).json()
        if not caps or not caps[0].get("sgauge"):
            raise Broken("ABI v2 harness has no synchronous gauge")
        return exe
    except Broken as b:
        # the synchronous Gauge exists only with ABI v2; if that flag set does not build, cover observable
        # gauges only and say so (never silently)
        log("ABI v2 flavour unavailable, synchronous gauge NOT covered:", str(b)[:300])
        return None


def _build_conc():
    return build.harness("c17_conc", ["c17_conc.cc"], "shim")


def _build(ctx):
    return {1: _build_v1(), 2: _build_v2()}


def run(ctx):
    ctx.assumptions += [
        "LastValue aggregation orders samples by system_clock: samples are assumed to carry distinct, increasing times "
        "(the harness busy-waits >= 2us between calls; histories during which the clock went backwards are discarded)",
        "callbacks of one instrument report disjoint attribute sets within a collection; a (callback,state) pair is not "
        "registered twice on one instrument; observable counters report non-negative totals; readers exist before the instruments",
        "sequential histories only (callbacks do not call back into the SDK; no concurrent collections)",
        "concretisation tables in harness/c17_async.cc (attribute sets, exact scales for int64/double, callback identities)",
        "exhaustive TLC results are for the stated small constants; larger instances are sampled by random walks / recorded histories",
        "the synchronous Gauge is covered in a separate ABI v2 build of the same sources (the baseline build is ABI v1)",
    ]
    ctx.extra["rule"] = ("states/transitions: TLC on MetricsAsync (exhaustive configs + export/witness runs) and on the trace spec; "
                         "traces_validated: TLC behaviours replayed on the real API + recorded real histories validated by "
                         "MetricsAsyncTrace; distinct_nontrivial: distinct behaviours (by content, per ABI build) with at least "
                         "one collection that delivers a point + distinct recorded histories with at least one callback invocation "
                         "or delivered point")
    # the two SDK builds (the ABI v2 flavour is rebuilt after every change of /repo) overlap with the TLC work
    bex = cf.ThreadPoolExecutor(max_workers=3)
    f1, f2, f3 = bex.submit(_build_v1), bex.submit(_build_v2), bex.submit(_build_conc)
    try:
        model_check(ctx)
        log("model checking done at %.0fs" % ctx.timer.s())
        behs = generate(ctx, True)
        log("%d behaviours generated at %.0fs" % (len(behs), ctx.timer.s()))
    finally:
        bex.shutdown(wait=True)
    exes = {1: f1.result(), 2: f2.result()}
    log("harnesses ready at %.0fs" % ctx.timer.s())
    ctx.extra["sync_gauge_covered"] = bool(exes.get(2))
    if not exes[2]:
        behs = [b for b in behs if not _has_sg(b["steps"])]
    stats = replay_behaviours(ctx, exes, behs)
    log("replayed at %.0fs" % ctx.timer.s())
    ctx.extra["replay"] = stats
    ctx.extra["behaviours_generated"] = len(behs)
    for b in behs[:2]:
        ctx.sample({"kind": "TLC behaviour replayed on the real API (src=%s)" % b["src"], "steps": b["steps"][:8]})
    if stats["complete"] == 0:
        raise Broken("no behaviour was replayed to its end")
    if stats["points"] == 0 or stats["invocations"] == 0:
        raise Broken("replay compared no point / saw no callback invocation (vacuous)")
    lines = record(ctx, exes)
    log("recorded %d events at %.0fs" % (len(lines), ctx.timer.s()))
    validate(ctx, lines)
    log("validated at %.0fs" % ctx.timer.s())
    concurrent(ctx, f3.result())
    if ctx.extra.get("model_violations") and not ctx.violations:
        log("model-level violations without a real-execution witness:", ctx.extra["model_violations"])


def _to_log(b, res):
    """The replay of a behaviour on the real API, written as the event log the trace spec reads."""
    D = lambda o: json.dumps(o, separators=(",", ":"))
    steps = b["steps"]
    c0 = steps[0]
    lines = [D({"e": "Cfg", "kinds": c0["kinds"], "temps": c0["temps"], "cbi": c0["cbi"], "na": c0["na"]})]
    for s, o in zip(steps[1:], res["steps"][1:]):
        op = s["op"]
        if op == "Add" or op == "Rem":
            lines.append(D({"e": op, "c": s["c"]}))
        elif op == "Destroy":
            lines.append(D({"e": "Destroy", "i": s["i"]}))
        elif op == "Rec":
            lines.append(D({"e": "Rec", "i": s["i"], "a": s["a"], "v": s["v"]}))
        else:
            lines.append(D({"e": "Begin", "r": s["r"]}))
            for c, n in enumerate(o["inv"]):
                for j in range(n):
                    lines.append(D({"e": "Cb", "c": c + 1, "rep": [[p["a"], p["v"]] for p in s["reps"][c]] if j == 0 else []}))
            e = {"e": "End", "r": s["r"], "pts": [[[p["a"], p["v"]] for p in pl] for pl in o["pts"]]}
            if o.get("notes") or o.get("stray"):
                e["notes"] = o.get("notes") or ["stray callback invocation"]
            lines.append(D(e))
    return lines


def replay(ctx, path):
    """Re-run the stored case.  A behaviour is stepped through the real API again; the decision is taken
    twice: against the expectation TLC printed with the behaviour, and by TLC itself on the event log of
    the re-run (MetricsAsyncTrace).  A stored event log is re-validated as it is."""
    rep = json.load(open(path))["replay"]
    if rep.get("kind") == "behaviour" and rep.get("behaviour"):
        exes = _build(ctx)
        b = rep["behaviour"]
        exe = exes.get(rep["abi"])
        if not exe:
            raise Broken("the ABI v%s harness is not available" % rep["abi"])
        stats = {"ops": {}, "invocations": 0, "points": 0, "optional_present": 0, "optional_absent": 0, "truncated": 0,
                 "complete": 0, "clock_discarded": 0, "points_by_kind_and_temporality": {}}
        p = ctx.rundir.file("replay.ndjson")
        with open(p, "w") as f:
            f.write(json.dumps({"id": b["id"], "steps": b["steps"]}) + "\n")
        hr = hrun.run_harness(exe, ["replay", p, rep.get("seed", ctx.seed)], timeout=300)
        ctx.sample({"kind": "replayed violation behaviour", "steps": b["steps"][:8]})
        if hr.crashed or hr.rc != 0 or not hr.json():
            ctx.violation("the real code crashed again (rc=%s): %s" % (hr.rc, hr.err[-1500:]), rep)
            ctx.traces += 1
            return
        res = hr.json()[0]
        if not res["clock_ok"]:
            raise Broken("system_clock went backwards during the replay; run it again")
        bad = check_behaviour(ctx, b, res, stats)
        tv = trace.validate(ctx, "MetricsAsyncTrace", "MetricsAsyncTrace.cfg", _to_log(b, res), parallel=1, tag="replay")
        ctx.traces = 1
        if bad and not tv["rejected"] and stats["truncated"] == 0:
            # the stored expectation and the spec disagree: the file was edited, or the check is broken
            log("note: the expectation stored with the behaviour fails but the trace spec accepts the re-run")
        if bad:
            ctx.violation("replayed behaviour fails again at step %d: %s" % (bad[1], bad[0]), rep)
        elif tv["rejected"]:
            ctx.violation("MetricsAsyncTrace rejects the re-run of the behaviour at event %d" % tv["rejected"][0]["at"], rep)
    elif rep.get("kind") in ("trace", "conc-trace"):
        mod = "MetricsAsyncTrace" if rep["kind"] == "trace" else "MetricsAsyncConcTrace"
        lines = [json.dumps(e, separators=(",", ":")) for e in rep["events"]]
        res = trace.validate(ctx, mod, mod + ".cfg", lines, parallel=1, tag="replay")
        for rj in res["rejected"]:
            ctx.violation("replayed log rejected by %s at event %d" % (mod, rj["at"]), rep)
        ctx.sample({"kind": "replayed violation log", "events": rep["events"][:10]})
    else:
        raise Broken("replay file has neither a behaviour nor an event log; re-run the check with the recorded seed")
