"""Periodic metric reader part of C02 / C03: real PeriodicExportingMetricReader + MeterProvider under the
deterministic scheduler (Level-A monitor spec/ReaderMonitor.tla), Level-B model spec/PeriodicReader.tla."""
import json

from lib import build, tlc, trace
from lib.common import Broken
from props import _batch as B

READER_DEVS = ["ticket-published-after-cancelled-export"]
PR_CFG = "CONSTANTS NAdd = %d NFlush = %d NShut = %d Budget = %d Dev = {%s}\nSPECIFICATION Spec\n%s\n"


def model_check_reader(ctx, prop):
    thorough = ctx.tier == "thorough"
    invs = {"C02": "NoExportAfterShutdown ShutdownOnce FlushTrueImpliesExported", "C03": "NoOverlap"}[prop]
    shapes = [(1, 1, 1, 99)] + ([(1, 2, 1, 99), (2, 1, 2, 1), (1, 1, 1, 2)] if thorough else [])
    for (na, nf, ns, bud) in shapes:
        for devs in ([], READER_DEVS):
            if devs and not thorough:
                continue      # Dev = {} is the code as it is now (F3 was repaired by a fix: commit)
            c = B.write_cfg(ctx, "pr.cfg", PR_CFG % (na, nf, ns, bud, B._q(devs), "INVARIANTS " + invs))
            r = tlc.tlc("PeriodicReader", c, rundir=ctx.rundir.path, workers=8, timeout_s=1800 if thorough else 300, xmx="16g", tag="pr")
            name = "PeriodicReader add%d F%d S%d budget%d Dev=%s" % (na, nf, ns, bud, "asimpl" if devs else "{}")
            ctx.add_tlc(name, r)
            if r.status == "timeout":
                continue
            if r.status == "invariant":
                if devs and r.violated == "FlushTrueImpliesExported":
                    ctx.extra.setdefault("model_confirms_deviation", []).append({"cfg": name, "invariant": r.violated})
                else:
                    ctx.extra.setdefault("model_violations", []).append({"cfg": name, "invariant": r.violated})
                continue
            tlc.must_ok(r, name)
    if prop == "C02":
        c = B.write_cfg(ctx, "prl.cfg", PR_CFG % (1 if thorough else 0, 1, 1, 99, "", "PROPERTY Termination2\nCHECK_DEADLOCK FALSE"))
        r = tlc.tlc("PeriodicReader", c, rundir=ctx.rundir.path, workers=8, timeout_s=900, xmx="16g", tag="prlive", deadlock=True)
        ctx.add_tlc("PeriodicReader liveness: every ForceFlush/Shutdown returns (weak fairness; the export-timeout timer may always fire)", r)
        if r.status == "temporal":
            ctx.extra.setdefault("model_violations", []).append({"cfg": "PeriodicReader liveness", "invariant": "Termination2"})
        elif r.status not in ("ok", "timeout"):
            tlc.must_ok(r, "PeriodicReader liveness")


def run_reader(ctx, prop):
    thorough = ctx.tier == "thorough"
    model_check_reader(ctx, prop)
    exe = build.harness("reader", ["reader.cc"], "shim")
    s = ctx.seed
    n = 4000 if thorough else 350
    runs = []
    for i in range(4 if thorough else 2):
        runs.append(["explore", "random", n, s + 20 + i])
        runs.append(["explore", "pct", n, s + 30 + i])
    # scenario = nrec,nadd,nf,ns,lat,fto,expfail
    # (lat = 9: an exporter slower than the export timeout; expfail = 2: exporter ForceFlush always fails)
    for sc in ["1,2,2,1,1,0,0", "2,1,1,2,2,1,0", "1,1,2,0,0,3,1", "1,2,1,1,9,0,0", "1,1,2,1,9,3,0", "1,1,1,1,0,0,2"]:
        runs.append(["explore", "random", n // 2, s + 40, sc])
    runs.append(["explore", "dfs", 3000 if not thorough else 60000, s, "1,1,1,1,0,0,0", 1])
    lines, abnormal = B.explore(ctx, exe, runs)
    allowed = [d for d in READER_DEVS if d in ctx.known_devs()]
    cfg = B.write_cfg(ctx, "rmon.cfg", B.MON_CFG % (B._q(allowed), prop))
    res = trace.validate(ctx, "ReaderMonitor", cfg, lines, parallel=12, chunk=1500, tag="reader")
    ctx.extra["executions_validated_reader"] = res["executions"]
    ctx.extra["events_validated_reader"] = res["events"]
    for d in sorted(res["devused"]):
        ctx.deviation(d, "periodic reader: %d execution(s) explainable only through deviation %s" % (res["devexecs"], d), {"deviation": d})
    for rj in res["rejected"]:
        ev, at = rj["events"], rj["at"]
        ctx.violation("periodic reader: ReaderMonitor (clauses of %s) rejects a real execution at event %d: %s" % (
            prop, at, json.dumps(ev[at]) if at < len(ev) else "?"),
            {"monitor": "ReaderMonitor", "check": prop, "dev": allowed, "events": ev, "at": at})
    if prop == "C02":
        B.report_abnormal(ctx, abnormal, "periodic reader")
    else:
        B.report_abnormal(ctx, abnormal, "periodic reader",
                          only_if=lambda ev: bool(ev) and isinstance(ev[-1], dict) and ev[-1].get("e") == "Crash")
    if lines:
        ex0 = trace.split_executions(lines)[0]
        ctx.sample({"kind": "real periodic-reader execution validated by ReaderMonitor", "events": [json.loads(x) for x in ex0[:14]]})
