"""C10 - contexts are immutable values; the runtime context is a per-thread stack with out-of-order
detach semantics.

1. TLC, exhaustive (spec/Context.tla, Dev = {}): MostRecentBinding, Shadowing, StackFrames in every
   reachable state and the action properties Immutable, AttachMakesCurrent, DetachRestores,
   ForeignTokenNoOp, ScopeActivates, ThreadsIsolated on every transition, for small constants
   (family of contexts; every attach/detach order to depth 7 on one thread; two threads interleaved).
2. spec -> code: behaviours exported by TLC (all to depth 4 on a tiny domain, a witness for every
   rare condition, random walks that first build a deep stack) are stepped through the real
   Context / RuntimeContext / Token / Scope / Tracer::GetCurrentSpan by harness/c10_context.cc on
   lock-stepped OS threads; after EVERY step every thread's GetCurrent() identity and active span
   and GetValue/HasKey of every key on EVERY context created so far are compared with what the spec
   computed.  Token objects and context handles are really destroyed when the spec says so, and every
   behaviour is replayed in TWO build flavours: ASan+UBSan (a freed address is never handed out again)
   and plain (freed memory is reused at once: LIFO free lists inside the API calls, and plain glibc).
3. code -> spec: several OS threads run independent seeded random programs concurrently (up to 200
   operations each, stacks far beyond the reallocation steps; tokens kept after Detach, destroyed at
   any time, contexts dropped under them and new ones created right away), half of the executions in
   each flavour; spec/ContextTrace.tla decides whether the merged log is a behaviour of the spec.
Every expectation comes out of TLC; Python only shuttles JSON and picks concretisations.
"""
import concurrent.futures as cf
import copy
import hashlib
import json
import random
import re

from lib import build, hrun, tlc, tracestats as tracex
from lib.common import Broken, log

LEVEL = "model_checking"

CFG = """CONSTANTS NT = %(NT)d  NK = %(NK)d  NV = %(NV)d  NS = %(NS)d  MaxCtx = %(MaxCtx)d  MaxSet = %(MaxSet)d
          MaxDepth = %(MaxDepth)d  MaxMap = %(MaxMap)d  MaxDrop = %(MaxDrop)d  MaxTok = %(MaxTok)d  SampleToks = %(SampleToks)d  WithEmpty = %(WithEmpty)s  GenDepth = %(GenDepth)d  DeepTarget = %(DeepTarget)d
          Hist = %(Hist)s  KeepFlags = FALSE  Dev = {}
INIT Init
NEXT Next
%(extra)s
"""
MC_TAIL = ("VIEW View\nINVARIANTS TypeOK MostRecentBinding Shadowing StackFrames\n"
           "PROPERTIES Immutable AttachMakesCurrent DetachRestores ForeignTokenNoOp TokenLifetime ScopeActivates ThreadsIsolated")
ACTIONS = ["DoSetValue", "DoSetValues", "DoAttach", "DoDetach", "DoTokenDtor", "DoScopeEnter", "DoScopeExit", "DoDrop"]


def K(NT, NK, NV, NS, MaxCtx, MaxSet, MaxDepth, MaxMap, GenDepth=0, DeepTarget=99, Hist=False, MaxDrop=0, Empty=False, MaxTok=None, SampleToks=0):
    # MaxTok: token objects alive at the same time (default: every attached frame can keep its token + 1 stale one)
    return dict(NT=NT, NK=NK, NV=NV, NS=NS, MaxCtx=MaxCtx, MaxSet=MaxSet, MaxDepth=MaxDepth, MaxMap=MaxMap, MaxDrop=MaxDrop,
                MaxTok=(NT * MaxDepth + 1) if MaxTok is None else MaxTok, SampleToks=SampleToks,
                WithEmpty="TRUE" if Empty else "FALSE",
                GenDepth=GenDepth, DeepTarget=DeepTarget, Hist="TRUE" if Hist else "FALSE")


def _cfg(ctx, name, consts, extra):
    p = ctx.rundir.file(name + ".cfg")
    d = dict(consts)
    d["extra"] = extra
    with open(p, "w") as f:
        f.write(CFG % d)
    return p


_RE_COV = re.compile(r"^<(\w+) line \d+, col \d+ to line \d+, col \d+ of module Context[^>]*>: (\d+):(\d+)", re.M)


def _coverage(out):
    """action -> successor states generated through it (the first number TLC prints counts only NEW distinct states: a
    token destructor always leads to a state that is also reachable without that token)"""
    cov = {}
    for m in _RE_COV.finditer(out):
        cov[m.group(1)] = cov.get(m.group(1), 0) + int(m.group(3))
    return cov


def _par(jobs, n):
    with cf.ThreadPoolExecutor(max_workers=n) as ex:
        futs = [ex.submit(*j) for j in jobs]
        return [f.result() for f in futs]


# ------------------------------------------------------------------------------------------ 1. TLC
def mc_jobs(ctx):
    thorough = ctx.tier == "thorough"
    # (NT, NK, NV, NS, MaxCtx, MaxSet, MaxDepth, MaxMap); measured distinct states in design_notes/C10.md.  Token objects
    # (kept after Detach, destroyed at any time) multiply every configuration by the bag of live tokens: MaxTok is explicit.
    cfgs = [("values", K(1, 2, 1, 1, 3, 2, 1, 2, MaxDrop=3, MaxTok=1)),   # family of contexts, shadowing, immutability, every drop order
            ("clear", K(1, 2, 1, 0, 3, 3, 0, 2, Empty=True)),    # keys re-bound to the empty ContextValue: consistent shadowing
            ("deep", K(1, 1, 1, 1, 1, 1, 7, 1, MaxTok=8)),       # every detach / token-destruction order, depth <= 7, one thread
            ("deep3", K(1, 1, 1, 1, 2, 1, 4, 1, MaxTok=5)),      # ... three contexts (scope contexts too), depth <= 4
            # token lifetime against context lifetime: stale tokens, contexts dropped under them, contexts created afterwards
            ("tokens", K(1, 1, 1, 1, 2, 2, 2, 1, MaxDrop=2, MaxTok=3)),
            ("threads", K(2, 1, 1, 1, 1, 1, 3, 1, MaxTok=4))]    # two threads interleaved (tokens destroyed by the other thread)
    if thorough:
        cfgs += [("values2", K(1, 2, 1, 1, 3, 3, 1, 2, MaxDrop=2, MaxTok=1)), ("deep2", K(1, 1, 1, 1, 2, 2, 5, 1, MaxDrop=1, MaxTok=5)),
                 ("tokens2", K(1, 1, 1, 1, 3, 2, 2, 1, MaxDrop=2, MaxTok=2)),
                 ("threads2", K(2, 1, 1, 1, 2, 1, 2, 1, MaxTok=3)), ("threads3", K(3, 1, 1, 1, 1, 1, 2, 1, MaxDrop=1, MaxTok=3))]

    def one(name, k):
        c = _cfg(ctx, "mc-" + name, k, MC_TAIL)
        return name, tlc.tlc("Context", c, rundir=ctx.rundir.path, workers=4, timeout_s=1100 if thorough else 150,
                             coverage=(name in ("values", "tokens")), xmx="6g", tag="mc-" + name)
    return [(one, n, k) for n, k in cfgs]


def mc_collect(ctx, results):
    for name, r in results:
        ctx.add_tlc("Context exhaustive (%s)" % name, r)
        if r.status == "timeout":
            log("C10 model checking config %s timed out (bounded; not exhaustive)" % name)
            continue
        tlc.must_ok(r, "Context.tla model checking (%s): the ideal spec must satisfy the property" % name)
        cov = _coverage(r.out)
        if name in ("values", "tokens"):
            for a in ACTIONS:
                # (TLC names a singleton \E-instantiation after the inner action: DoDrop / DropContext / Drop..)
                if cov.get(a, 0) + cov.get(a[2:], 0) + cov.get(a[2:] + "Context", 0) + cov.get("Destroy" + a[2:-4], 0) == 0:
                    raise Broken("vacuity: action %s never taken in MC config %s" % (a, name))


# --------------------------------------------------------------------------------- 2. spec -> code
# witness name -> (flag invariant, constants small enough for a 1-2 s breadth-first search)
WITNESSES = {
    "WitShadow": K(1, 1, 2, 1, 2, 2, 1, 1), "WitSibling": K(1, 2, 1, 1, 3, 3, 1, 1),
    "WitEmptyMap": K(1, 2, 1, 1, 2, 2, 1, 2), "WitShadowMap": K(1, 2, 1, 1, 2, 2, 1, 2),
    "WitReattach": K(1, 1, 1, 1, 2, 2, 4, 1), "WitForeign": K(1, 1, 1, 1, 2, 2, 4, 1),
    "WitEmptyTok": K(1, 1, 1, 1, 2, 2, 4, 1), "WitOoo": K(1, 1, 1, 1, 2, 2, 4, 1),
    "WitDup": K(1, 1, 1, 1, 2, 2, 4, 1), "WitDupOoo": K(1, 1, 1, 1, 2, 2, 4, 1),
    "WitForeignX": K(2, 1, 1, 1, 1, 1, 2, 1),
    "WitNestedScope": K(1, 1, 1, 2, 3, 1, 3, 1), "WitScopeOoo": K(1, 1, 1, 2, 3, 1, 3, 1),
    "WitScopeRestore": K(1, 1, 1, 2, 3, 1, 3, 1),
    # destruction of context handles in every order relative to parents / children
    "WitScopeDestroy": K(1, 1, 1, 1, 2, 0, 2, 1, MaxDrop=1), "WitDropChild": K(1, 2, 1, 1, 3, 3, 1, 1, MaxDrop=1),
    "WitDropLeaf": K(1, 2, 1, 1, 3, 3, 1, 1, MaxDrop=1), "WitDropParent": K(1, 2, 1, 1, 3, 3, 1, 1, MaxDrop=1),
    "WitDropMiddle": K(1, 2, 1, 1, 3, 3, 1, 1, MaxDrop=1), "WitDropAttached": K(1, 1, 1, 1, 2, 2, 2, 1, MaxDrop=1),
    # a key re-bound to the EMPTY ContextValue hides the older binding for GetValue AND HasKey (also the active-span key)
    "WitClearKey": K(1, 2, 1, 1, 3, 3, 1, 1, Empty=True), "WitClearKeyMap": K(1, 2, 1, 1, 3, 3, 1, 2, Empty=True),
    "WitClearSpanKey": K(1, 1, 1, 1, 3, 2, 2, 1, Empty=True),
    # a token object destroyed by ANOTHER thread than the one that attached it (its destructor detaches on the destroying
    # thread: a foreign token there).  Token objects that outlive their context (stale token + context freed + new context
    # created and attached + stale token detached / destroyed) come from the `stale` generation run: EVERY such abstract state
    # of a small domain (WitStaleDetach / WitStaleDtor / WitStalePop / WitStaleScope exist in the spec for single runs);
    # a token destroyed while attached / a context dropped under a live token are in the all-behaviours-to-depth-4 run.
    "WitDtorX": K(2, 1, 1, 1, 1, 1, 2, 1),
}
# witnesses found by random walks under an action constraint: name -> (constraint, DeepTarget, GenDepth)
DEEP_WITNESSES = {"WitOooDeep": ("DeepFirst", 16, 90), "WitOooDeep2": ("DeepFirst", 33, 90),
                  "WitUnwindSmall": ("DeepFirst", 16, 90), "WitRegrow": ("DeepCycle", 16, 110),
                  "WitOooRegrow": ("DeepCycle", 16, 130)}


def gen_jobs(ctx):
    thorough = ctx.tier == "thorough"

    def wit(name, k):
        k = dict(k, GenDepth=30, Hist="TRUE")
        c = _cfg(ctx, "w-" + name, k, "VIEW View\nCONSTRAINT Bound\nINVARIANTS " + name)
        return name, k, tlc.tlc("Context", c, rundir=ctx.rundir.path, workers=1, timeout_s=120, tag="w-" + name, xmx="2g")

    def deepwit(name):
        cons, target, depth = DEEP_WITNESSES[name]
        k = K(1, 2, 1, 1, 8, 4, 40, 1, GenDepth=depth, DeepTarget=target, Hist=True, MaxDrop=2, SampleToks=4)
        c = _cfg(ctx, "w-" + name, k, "VIEW View\nCONSTRAINT Bound\nACTION_CONSTRAINT %s\nINVARIANTS %s" % (cons, name))
        return name, k, tlc.tlc("Context", c, rundir=ctx.rundir.path, workers=2, timeout_s=150, tag="w-" + name,
                                simulate={"num": 100000, "depth": depth + 10}, seed=ctx.seed + 3, xmx="2g")

    def allshort():
        k = K(1, 2, 1, 1, 3, 2, 3, 1, GenDepth=5 if thorough else 4, Hist=True, MaxDrop=2, Empty=thorough)
        c = _cfg(ctx, "g-all", k, "CONSTRAINT Bound\nACTION_CONSTRAINT Closing\nINVARIANTS EmitAll")
        return "all", k, tlc.tlc("Context", c, rundir=ctx.rundir.path, workers=4, timeout_s=150, tag="g-all", xmx="6g")

    def allstale():
        # every abstract state of a small domain in which a STALE token / scope is detached or destroyed (its context is
        # unreferenced, a context created afterwards is current), each with a shortest behaviour leading to it
        k = (K(1, 1, 1, 1, 2, 2, 3, 1, GenDepth=40, Hist=True, MaxDrop=2, MaxTok=3) if thorough else
             K(1, 1, 1, 1, 2, 2, 2, 1, GenDepth=40, Hist=True, MaxDrop=1, MaxTok=2))
        c = _cfg(ctx, "g-stale", k, "VIEW StaleView\nCONSTRAINT Bound\nACTION_CONSTRAINT StopAtStale\nINVARIANTS EmitStale")
        return "stale", k, tlc.tlc("Context", c, rundir=ctx.rundir.path, workers=1, timeout_s=300, tag="g-stale", xmx="4g")

    def sim(i, k, num, cons):
        c = _cfg(ctx, "g-sim%d" % i, k, "VIEW View\nCONSTRAINT Bound\nACTION_CONSTRAINT Closing%s\nINVARIANTS EmitAll" % (
            " " + cons if cons else ""))
        return "sim%d" % i, k, tlc.tlc("Context", c, rundir=ctx.rundir.path, workers=4, timeout_s=300, tag="g-sim%d" % i,
                                       simulate={"num": num, "depth": k["GenDepth"] + 20}, seed=ctx.seed * 31 + i, xmx="6g")

    n = 60 if thorough else 10          # per worker (4 workers)
    sims = [(0, K(2, 3, 2, 2, 14, 8, 40, 2, GenDepth=80, DeepTarget=16, Hist=True, MaxDrop=4, Empty=True, SampleToks=4), n, "DeepFirst"),
            (1, K(3, 4, 3, 2, 12, 8, 40, 2, GenDepth=60, DeepTarget=16, Hist=True, MaxDrop=6, Empty=True, SampleToks=4), n, ""),
            (2, K(1, 3, 2, 2, 16, 8, 70, 2, GenDepth=120, DeepTarget=34, Hist=True, MaxDrop=4, SampleToks=4), n // 2, "DeepFirst"),
            # grow beyond 16 / 32, unwind to <= 3, grow again, then anything (shrink-after-growth)
            (3, K(1, 2, 2, 2, 12, 6, 40, 2, GenDepth=130, DeepTarget=17, Hist=True, MaxDrop=3, Empty=True, SampleToks=4), n, "DeepCycle"),
            (4, K(2, 2, 1, 2, 10, 4, 70, 2, GenDepth=200, DeepTarget=33, Hist=True, MaxDrop=2, SampleToks=4), n // 2, "DeepCycle")]
    if thorough:
        sims.append((5, K(3, 2, 2, 3, 20, 6, 70, 2, GenDepth=150, DeepTarget=20, Hist=True, MaxDrop=6, SampleToks=4), n // 2, "DeepFirst"))
    jobs = [(sim,) + s for s in sims] + [(allshort,), (allstale,)] + [(deepwit, nme) for nme in DEEP_WITNESSES]
    jobs += [(wit, nme, k) for nme, k in WITNESSES.items()]
    return jobs


def gen_collect(ctx, results):
    behs = []          # (source, constants, steps)
    wit_len = {}
    for name, k, r in results:
        ctx.add_tlc("generation " + name, r, complete=True)
        b = r.printed("BEH")
        if name.startswith("Wit"):
            if r.status != "invariant" or not b:
                raise Broken("witness %s not reachable in the model (vacuity): %s" % (name, r.status))
            b = b[:1]
            wit_len[name] = len(b[0])
        else:
            if r.status != "ok":
                raise Broken("behaviour generation %s failed: %s\n%s" % (name, r.status, r.out[-1500:]))
            if not b:
                raise Broken("behaviour generation %s printed nothing (vacuity)" % name)
        if name == "stale":
            # vacuity: the family must end in a stale Detach, a stale ~Token and a stale ~Scope (the flag is set by the spec)
            ends = {}
            for steps in b:
                if not steps[-1].get("stale"):
                    raise Broken("stale-token generation printed a behaviour that does not end in a stale operation")
                ends[steps[-1]["op"]] = ends.get(steps[-1]["op"], 0) + 1
            if set(ends) != {"Detach", "TokenDtor", "ScopeExit"}:
                raise Broken("vacuity: stale-token behaviours end only in %s" % ends)
            ctx.extra["stale_token_behaviours"] = ends
        for steps in b:
            behs.append((name, k, steps))
    ctx.extra["witness_lengths"] = wit_len
    return behs


def concretise(ctx, behs):
    """One or more concrete instances per TLC behaviour: key-table variant, value-table variant, seed
    (API alternative / container type / token choice are drawn from the seed inside the harness)."""
    rnd = random.Random(ctx.seed)
    out = []
    seen = set()
    for src, k, steps in behs:
        h = hashlib.sha1(json.dumps(steps, sort_keys=True).encode()).hexdigest()
        if h in seen:
            continue
        seen.add(h)
        ctx.distinct.add(h)
        inst = 1 if src in ("all", "stale") else (4 if ctx.tier == "thorough" else 2)
        for _ in range(inst):
            out.append({"id": len(out), "src": src, "nt": k["NT"], "nk": k["NK"], "kv": rnd.randrange(4),
                        "vv": rnd.randrange(4), "seed": rnd.randrange(1 << 30), "steps": steps})
    return out


# replay modes: (build flavour, allocator inside the API calls).  ASan's quarantine never hands a freed address out again;
# the plain flavour does at once - "lifo": the harness's LIFO free lists (deterministic, shared by all threads), "libc": glibc.
MODES = [("asan", None), ("plain", "lifo"), ("plain", "libc")]


def _mode(m):
    return m[0] + ("/" + m[1] if m[1] else "")


def run_replay(ctx, exe, insts, tag, watchdog_s=None, alloc=None):
    """-> ({id: result line}, [crash/hang records]).  The replayer prints one line per finished
    behaviour, so a process that dies (sanitizer report, signal) or whose watchdog fires (the real code
    hangs: line {"hang":true,"step":i}, exit 3) names the behaviour it happened in; the rest is resumed
    in a new process (at most 3 such restarts per partition).  Thread-safe: touches no verdicts."""
    res = {}
    crashes = []
    todo = list(insts)
    rounds = 0
    env = {"C10_WATCHDOG_S": str(watchdog_s)} if watchdog_s else {}
    if alloc:
        env["C10_ALLOC"] = alloc
    while todo:
        rounds += 1
        path = ctx.rundir.file("beh-%s-%d.ndjson" % (tag, rounds))
        with open(path, "w") as f:
            for b in todo:
                f.write(json.dumps(b) + "\n")
        r = hrun.run_harness(exe, ["replay", path], timeout=600, env=env or None)
        out = r.json()
        got = [g for g in out if "ok" in g]
        for g in got:
            res[g["beh"]] = g
        if r.rc == 0 and len(got) == len(todo):
            break
        if len(got) >= len(todo):
            raise Broken("replay harness failed after the last behaviour rc=%s: %s" % (r.rc, r.err[-1500:]))
        bad = todo[len(got)]
        hang = [g for g in out if g.get("hang") and g.get("beh") == bad["id"]]
        if hang or r.timed_out:
            crashes.append({"behaviour": bad, "rc": "hang", "stderr": r.err[-2000:], "step": hang[0]["step"] if hang else None,
                            "first": "the call does not return (watchdog)"})
        elif r.crashed or r.rc != 0:
            crashes.append({"behaviour": bad, "rc": r.rc, "stderr": r.err[-4000:], "first": _first_error(r.err), "step": None})
        else:
            raise Broken("replay harness: %d results for %d behaviours" % (len(got), len(todo)))
        res[bad["id"]] = {"beh": bad["id"], "ok": False, "crash": True}
        todo = todo[len(got) + 1:]
        if len(crashes) >= 3:
            for b in todo:
                res[b["id"]] = {"beh": b["id"], "ok": True, "skipped": True}
            break
    return res, crashes


def confirm_hang(ctx, exe, c, alloc=None):
    """A watchdog that fired on a loaded machine is not yet a hang: run that behaviour alone with a long
    watchdog.  -> True if it hangs again."""
    b = dict(c["behaviour"], id=0)
    res, crashes = run_replay(ctx, exe, [b], "confirm%d" % c["behaviour"]["id"], watchdog_s=45, alloc=alloc)
    if any(x["rc"] == "hang" for x in crashes):
        c["step"] = crashes[0]["step"] if crashes[0]["step"] is not None else c["step"]
        return True
    c["retry"] = res.get(0)
    return False


def _first_error(err):
    for ln in err.splitlines():
        if "ERROR" in ln or "runtime error" in ln:
            return ln.strip()[:300]
    return err.strip()[:300]


def replay_all(ctx, exes, insts):
    """Every behaviour in every mode (flavour x allocator); the plain modes cost a fraction of the ASan one."""
    jobs = []
    for m in MODES:
        n = 4 if m[0] == "asan" else 2
        jobs += [(m, i, insts[i::n]) for i in range(n) if insts[i::n]]
    by_mode = {m: ({}, []) for m in MODES}
    for m, (r, c) in zip([j[0] for j in jobs],
                         _par([(run_replay, ctx, exes[m[0]], p, "%s%s-p%d" % (m[0], m[1] or "", i), None, m[1]) for m, i, p in jobs], 6)):
        by_mode[m][0].update(r)
        by_mode[m][1].extend(c)
    by_id = {b["id"]: b for b in insts}
    nrep = 0
    nbad = 0
    confirmed = False
    ops = {}
    checks = 0
    results = {}
    for m in MODES:
        results, crashes = by_mode[m]
        for c in crashes:
            bad = c["behaviour"]
            # (one confirmed hang is enough: the others are then reported as the watchdog saw them)
            if c["rc"] == "hang" and not confirmed:
                if not confirm_hang(ctx, exes[m[0]], c, alloc=m[1]):
                    results[bad["id"]] = dict(c["retry"] or {"ok": True, "skipped": True}, beh=bad["id"])   # slow machine, not a hang
                    continue
                confirmed = True
            nrep += 1
            if nrep > 3:
                continue
            if c["rc"] == "hang":
                st = bad["steps"][c["step"]] if c["step"] is not None and 0 <= c["step"] < len(bad["steps"]) else {}
                ctx.violation("real code HANGS while replaying a TLC behaviour (src=%s, %s build): step %s (%s t=%s c=%s) never returns" % (
                    bad["src"], _mode(m), c["step"], st.get("op"), st.get("t"), st.get("c")),
                    {"kind": "replay", "mode": list(m), "behaviour": dict(bad, steps=bad["steps"][:(c["step"] or len(bad["steps"]) - 1) + 1]),
                     "hang_at": c["step"]})
            else:
                ctx.violation("real code crashed (rc=%s) while replaying a TLC behaviour (src=%s, %s build): %s" % (
                    c["rc"], bad["src"], _mode(m), c["first"]),
                    {"kind": "replay", "mode": list(m), "behaviour": bad, "stderr": c["stderr"]})
        for i, g in sorted(results.items()):
            b = by_id[i]
            checks += g.get("checks", 0)
            if m == MODES[0]:
                for s in b["steps"]:
                    ops[s["op"]] = ops.get(s["op"], 0) + 1
            if not g["ok"] and not g.get("crash"):
                if str(g.get("what", "")).startswith("harness:"):
                    raise Broken("replay harness cannot follow a behaviour: %s" % g)
                nbad += 1
                if nbad <= 5:
                    st = b["steps"][g["step"]]
                    ctx.violation("replay of a TLC behaviour (src=%s, %s build) diverges at step %d (%s t=%s c=%s tk=%s): %s: spec expects %s, real code gives %s" % (
                        b["src"], _mode(m), g["step"], st["op"], st["t"], st["c"], st.get("tk"), g["what"], json.dumps(g["exp"]), json.dumps(g["got"])),
                        {"kind": "replay", "mode": list(m), "behaviour": dict(b, steps=b["steps"][:g["step"] + 1]), "mismatch": g})
        if len(results) != len(insts):
            raise Broken("replay (%s): %d results for %d behaviours" % (_mode(m), len(results), len(insts)))
        ctx.extra["behaviours_replayed_" + _mode(m).replace("/", "_")] = len([g for g in results.values() if not g.get("skipped")])
    results = by_mode[MODES[0]][0]
    if len(results) != len(insts):
        raise Broken("replay: %d results for %d behaviours" % (len(results), len(insts)))
    done = len([g for g in results.values() if not g.get("skipped")])
    total = sum(len([g for g in by_mode[m][0].values() if not g.get("skipped")]) for m in MODES)
    ctx.traces += total
    ctx.evaluations += total
    ctx.extra["behaviours_replayed"] = done
    ctx.extra["replays_all_modes"] = total
    ctx.extra["replay_comparisons"] = checks
    ctx.extra["replay_op_counts"] = ops
    ctx.extra["replay_max_steps"] = max(len(b["steps"]) for b in insts)
    for src in ("WitOooDeep", "WitStaleDtor", "sim0"):
        for b in insts:
            if b["src"] == src:
                ctx.sample({"kind": "TLC behaviour replayed on the real API (src=%s, key table %d, value table %d)" % (
                    src, b["kv"], b["vv"]), "steps": [{k: s[k] for k in ("op", "t", "c", "tk", "k", "v", "ok", "n", "cur", "span")}
                                                      for s in b["steps"][-6:]]})
                break


def selftest(ctx, exe, insts):
    """The binding must be live: corrupt ONE expected field of a behaviour and see it rejected."""
    rnd = random.Random(ctx.seed + 99)
    cands = [b for b in insts if b["src"].startswith("sim") or b["src"] == "WitDupOoo"]
    b = copy.deepcopy(rnd.choice(cands))
    b["id"] = 0
    muts = []
    for what in ("cur", "span", "tab", "ok"):
        m = copy.deepcopy(b)
        idx = [i for i, s in enumerate(m["steps"]) if (what != "ok" or (s["op"] == "Detach" and s["ok"] != 2))
               and (what not in ("tab", "cur") or any(s["live"]))]
        if not idx:
            continue
        s = m["steps"][rnd.choice(idx)]
        if what == "cur":
            # another identity the replayer can tell apart: the empty context or a LIVE handle
            s["cur"][0] = rnd.choice([c for c in [0] + [i + 1 for i, lv in enumerate(s["live"]) if lv] if c != s["cur"][0]])
        elif what == "span":
            s["span"][-1] = 1 if s["span"][-1] != 1 else 2
        elif what == "tab":
            row = rnd.choice([r for r, lv in zip(s["tab"], s["live"]) if lv])     # (rows of dropped handles are not re-read)
            j = rnd.randrange(len(row))
            row[j] = 1 if row[j] != 1 else 0
        else:
            s["ok"] = 1 - s["ok"]
        m["id"] = len(muts)
        m["what"] = what
        muts.append(m)
    res = run_replay_quiet(ctx, exe, muts)
    missed = [m["what"] for m in muts if res.get(m["id"], {}).get("ok", True)]
    if missed or len(muts) < 3:
        raise Broken("binding self-test: a corrupted expectation (%s) was NOT rejected by the replayer" % missed)
    ctx.extra["selftest_corrupted_expectations_rejected"] = len(muts)


def run_replay_quiet(ctx, exe, insts):
    path = ctx.rundir.file("beh-selftest.ndjson")
    with open(path, "w") as f:
        for b in insts:
            f.write(json.dumps(b) + "\n")
    r = hrun.run_harness(exe, ["replay", path], timeout=300, env={"C10_WATCHDOG_S": "120"})
    if r.rc != 0:
        raise Broken("self-test replay failed rc=%s %s" % (r.rc, r.err[-1500:]))
    return {g["beh"]: g for g in r.json() if "ok" in g}


# --------------------------------------------------------------------------------- 3. code -> spec
def record_validate(ctx, exes):
    thorough = ctx.tier == "thorough"
    # (nexec, nthreads, maxops, nk) per recorder process
    shapes = [(16, 3, 200, 12), (16, 2, 200, 16), (16, 3, 120, 10), (10, 4, 200, 14)]
    if thorough:
        shapes = [(n * 5, t, m, k) for (n, t, m, k) in shapes] * 2 + [(40, 5, 200, 16), (60, 1, 200, 12)]

    # every shape in both flavours (half of the executions each, different seeds)
    runs = []
    for i, (n, t, m, k) in enumerate(shapes):
        runs.append((2 * i, "asan", (n - n // 2, t, m, k)))
        runs.append((2 * i + 1, "plain", (n // 2, t, m, k)))

    def rec(i, fl, shape, wd="40"):
        r = hrun.run_harness(exes[fl], ["record", ctx.seed * 101 + i] + list(shape), timeout=900, env={"C10_WATCHDOG_S": wd})
        return i, fl, shape, r
    lines = []
    nex = {"asan": 0, "plain": 0}
    for i, fl, shape, r in _par([(rec, i, fl, s) for i, fl, s in runs], 4):
        exe = exes[fl]
        if r.rc != 0 or r.crashed:
            if r.rc == 5 or r.rc == 2:
                raise Broken("recorder (%s) failed: " % fl + r.err[-1500:])
            last = max([j for j, ln in enumerate(r.lines) if '"e":"Cfg"' in ln] or [0])
            if r.rc == 3 or r.timed_out:
                # watchdog: a thread never came back from a call.  Unless a hang / violation was already established,
                # confirm with a longer watchdog before alarming (a loaded machine is not a hang).
                if not ctx.violations:
                    r2 = hrun.run_harness(exe, ["record", ctx.seed * 101 + i] + list(shape), timeout=900, env={"C10_WATCHDOG_S": "120"})
                    if r2.rc == 0:
                        lines += r2.lines
                        nex[fl] += shape[0]
                        continue
                ev = []
                for x in r.lines[last:][-60:]:
                    try:
                        ev.append(json.loads(x))
                    except Exception:
                        pass
                ctx.violation("real code HANGS in a concurrent random program (recorder args %s, %s build): a call never returns; last logged events attached" % (
                    [ctx.seed * 101 + i] + list(shape), fl), {"kind": "record-hang", "flavour": fl, "args": [ctx.seed * 101 + i] + list(shape), "events_tail": ev})
                lines += r.lines[:last]
                continue
            ev = []
            for x in r.lines[last:][-80:]:
                try:
                    ev.append(json.loads(x))
                except Exception:
                    pass
            ctx.violation("real code crashed (rc=%s) in a concurrent random program (recorder args %s, %s build): %s" % (
                r.rc, [ctx.seed * 101 + i] + list(shape), fl, _first_error(r.err)),
                {"kind": "record-crash", "flavour": fl, "args": [ctx.seed * 101 + i] + list(shape), "events_tail": ev, "stderr": r.err[-4000:]})
            lines += r.lines[:last]
        else:
            lines += r.lines
            nex[fl] += shape[0]
    ctx.extra["executions_recorded_by_flavour"] = nex
    res = tracex.validate(ctx, "ContextTrace", "ContextTrace.cfg", lines, chunk=12 if not thorough else 40, parallel=4,
                          timeout_s=900, tag="c10")
    ctx.extra["executions_validated"] = res["executions"]
    ctx.extra["events_validated"] = res["events"]
    ctx.evaluations += res["executions"]
    agg = {}
    for st in res["printed"]["STATS"]:
        for k, v in st.items():
            agg[k] = agg.get(k, 0) + v
    ctx.extra["executions_showing_condition"] = agg
    ctx.extra["executions_rejected"] = len(res["rejected"])
    for rj in res["rejected"][:3]:
        ev, at = rj["events"], rj["at"]
        ctx.violation("ContextTrace.tla rejects a real concurrent execution at event %d: %s" % (
            at, json.dumps(ev[at]) if at < len(ev) else "?"),
            {"kind": "trace", "events": ev[:at + 1], "at": at})
    if not ctx.violations:      # (a violation already explains missing coverage)
        for need in ("deep", "ooo_deep", "dup_ooo", "foreign", "foreign_xthread", "scope_ooo", "shadow", "regrow", "unwind_to_small",
                     "drop_child_first", "drop_parent_first", "drop_middle", "drop_leaf_of_chain", "scope_exit_destroys",
                     "clear_key", "clear_key_map",
                     # token objects with their own lifetime: destroyed while attached / on another thread, contexts dropped under a
                     # live token, and stale tokens detached / destroyed after a NEW context was created and attached
                     "dtor_detaches", "drop_with_token_alive", "stale_detach", "stale_dtor", "stale_token_freed_by_pop"):
            if agg.get(need, 0) == 0:
                raise Broken("vacuity: no recorded execution shows condition %r" % need)
    for e in tracex.split_executions(lines)[:1]:
        ctx.sample({"kind": "real concurrent execution validated by ContextTrace.tla (first 8 of %d events)" % len(e),
                    "events": [json.loads(x) for x in e[:8]]})
    for x in lines:
        if '"e":"Cfg"' in x:
            ctx.distinct.add(x)


def run(ctx):
    ctx.assumptions += [
        "exhaustive TLC results are for the stated small constants (<= 3 contexts / 2 keys / depth <= 7 / <= 3 threads); larger instances are sampled by replay and trace validation",
        "token objects have their own lifetime (kept after Detach, detached again, destroyed at any time on any thread); a token stands for the context it was created for (all the API allows to compare) and contexts created later are different contexts; Detach's boolean for an empty-context token on an empty stack is left open",
        "address reuse: behaviours are replayed / recorded in an ASan+UBSan build (no reuse) and a plain build where allocations made inside API calls come from LIFO free lists per 16-byte size class shared by all threads (immediate reuse), plus plain glibc for the replay",
        "SetValues maps have no duplicate keys; the empty string is not used as a key; a key bound to the empty ContextValue answers like an unbound key (HasKey is documented as 'GetValue is not empty') and hides older bindings",
        "concretisation tables of harness/c10_context.cc (4 key tables incl. prefix relatives of \"active_span\", 300-byte keys, embedded NULs; 4 value tables over int64/uint64/double/shared_ptr<SpanContext>/shared_ptr<Span>)",
        "trace validation: the merged log is ordered by a ticket taken when each call returned; the GetValue/HasKey table is re-read in full after every step and logged delta-encoded",
    ]
    ctx.extra["rule"] = ("states/transitions: TLC (exhaustive configs + generation + trace-validation runs); traces_validated = TLC behaviours "
                         "replayed step by step on the real API (once per mode: asan, plain/lifo, plain/libc) + real concurrent executions accepted by ContextTrace.tla; distinct_nontrivial = "
                         "distinct TLC behaviours (sha1 of the step list) + recorded executions (distinct seeds)")
    exes = dict(_par([(lambda fl=fl: (fl, build.harness("c10_context", ["c10_context.cc"], fl, need_sdk=False)),) for fl in ("asan", "plain")], 2))
    exe = exes["asan"]
    log("C10 harness built (asan + plain) %.0fs" % ctx.timer.s())
    jobs = [(lambda j=j: ("mc", j[0](*j[1:]))) for j in mc_jobs(ctx)] + [(lambda j=j: ("gen", j[0](*j[1:]))) for j in gen_jobs(ctx)]
    results = _par([(j,) for j in jobs], 6)      # model checking and generation are independent TLC runs: one pool
    mc_collect(ctx, [r for kind, r in results if kind == "mc"])
    behs = gen_collect(ctx, [r for kind, r in results if kind == "gen"])
    log("C10 model checking + generation done %.0fs (%d behaviours)" % (ctx.timer.s(), len(behs)))
    insts = concretise(ctx, behs)
    replay_all(ctx, exes, insts)
    if not ctx.violations:       # (on a tree that already violates, the self-test behaviour itself may hang / crash)
        selftest(ctx, exe, insts)
    log("C10 replay done %.0fs" % ctx.timer.s())
    record_validate(ctx, exes)


def replay(ctx, path):
    rep = json.load(open(path))["replay"]
    mode = rep.get("mode") or ["asan", None]
    exe = build.harness("c10_context", ["c10_context.cc"], mode[0], need_sdk=False)
    if rep.get("kind") == "replay":
        b = dict(rep["behaviour"], id=0)
        res, crashes = run_replay(ctx, exe, [b], "re", alloc=mode[1])
        g = res.get(0, {})
        ctx.traces += 1
        for c in crashes:
            ctx.violation("real code crashed (rc=%s) while replaying the behaviour: %s" % (c["rc"], c["first"]),
                          {"kind": "replay", "behaviour": b, "stderr": c["stderr"]})
        if not g.get("ok") and not g.get("crash"):
            ctx.violation("replayed behaviour diverges at step %s: %s: expected %s, got %s" % (
                g.get("step"), g.get("what"), json.dumps(g.get("exp")), json.dumps(g.get("got"))),
                {"kind": "replay", "behaviour": b, "mismatch": g})
        ctx.sample({"kind": "replayed violation behaviour", "steps": b["steps"][-4:]})
    elif rep.get("kind") == "trace":
        lines = [json.dumps(e) for e in rep["events"]]
        res = tracex.validate(ctx, "ContextTrace", "ContextTrace.cfg", lines, parallel=1, tag="re")
        for rj in res["rejected"]:
            ctx.violation("replayed log rejected by ContextTrace.tla at event %d" % rj["at"],
                          {"kind": "trace", "events": rj["events"], "at": rj["at"]})
        ctx.sample({"kind": "replayed violation log", "events": rep["events"][-4:]})
    else:
        raise Broken("this violation file can only be reproduced by re-running the check with seed recorded in it")
