"""Provider level for C01/C02/C03: real TracerProvider / LoggerProvider -> multi processor -> batch and/or
simple processors -> capturing exporters, under the deterministic scheduler; Level-A monitor
spec/ProviderMonitor.tla; Level-B model spec/SimpleProcessor.tla (threads -> spin lock -> Export)."""
import json

from lib import build, tlc, trace
from lib.common import Broken
from props import _batch as B

PROVIDER_DEVS = ["multi-span-forceflush-ignores-children"]


def run_simple(ctx, prop):
    thorough = ctx.tier == "thorough"
    # Level B: simple processor
    c = B.write_cfg(ctx, "sp.cfg", "CONSTANTS NThr = %d NRec = 2 NShut = 2\nINIT Init\nNEXT Next\nINVARIANTS NoOverlap ShutdownOnce AllExported\n"
                    % (4 if thorough else 3))
    r = tlc.tlc("SimpleProcessor", c, rundir=ctx.rundir.path, workers=4, timeout_s=600, coverage=True, tag="simple")
    ctx.add_tlc("SimpleProcessor (threads -> spin lock -> Export; shutdown latch)", r)
    if r.status == "invariant":
        ctx.extra.setdefault("model_violations", []).append({"cfg": "SimpleProcessor", "invariant": r.violated})
    else:
        tlc.must_ok(r, "SimpleProcessor")
        for a in ("Lock", "ExpBegin", "ExpEnd", "Unlock", "TestAndSet", "ExporterShutdown"):
            if r.coverage.get(a, (0, 0))[0] == 0:
                raise Broken("vacuity: SimpleProcessor action %s never taken" % a)
    exe = build.harness("provider", ["provider.cc"], "shim")
    s = ctx.seed
    n = 6000 if thorough else 500
    runs = []
    for side in ("trace", "logs"):
        runs.append(["explore", side, "random", n, s + 3])
        runs.append(["explore", side, "pct", n, s + 4])
        # simple processors hammered from 3-4 threads with exporter latency (C03), batch + simple with
        # finite flush timeouts (C02)
        for sc in ["S,3,2,0,1,2,0,0,0,1", "SS,4,1,1,1,1,3,0,0,1", "BS,2,2,2,1,1,1,0,0,1", "BB,1,2,1,2,1,2,1,0,2", "B,2,1,1,1,0,1,0,1,1", "BS,1,2,1,1,1,0,2,0,1",
                   # really slow Exports (5 ms virtual) racing Shutdown with finite timeouts (1 ms / 12 ms) on simple processors
                   "S,3,2,0,1,9,0,0,0,1", "SS,3,2,0,2,9,1,0,0,1", "BS,2,2,1,1,9,0,0,0,1",
                   # the first exporter's Shutdown reports failure (expfail = 3): every later processor must still be shut down
                   "BB,2,2,0,1,1,0,3,0,1", "BBS,1,2,1,2,0,3,3,0,2", "SB,2,1,0,1,0,0,3,0,1"]:
            runs.append(["explore", side, "random", n // 2, s + 5, sc])
        for sc in ["S,2,1,0,1,1,0,0,0,1", "BS,1,1,1,1,0,1,0,0,1"]:
            runs.append(["explore", side, "dfs", 10 ** 7, s, sc, 2 if thorough else 1])
    lines, abnormal = B.explore(ctx, exe, runs)
    allowed = [d for d in PROVIDER_DEVS if d in ctx.known_devs()]
    cfg = B.write_cfg(ctx, "pmon.cfg", B.MON_CFG % (B._q(allowed), prop))
    res = trace.validate(ctx, "ProviderMonitor", cfg, lines, parallel=12, chunk=1500, tag="prov")
    ctx.extra["executions_validated_provider"] = res["executions"]
    ctx.extra["events_validated_provider"] = res["events"]
    for d in sorted(res["devused"]):
        ctx.deviation(d, "provider: %d execution(s) explainable only through deviation %s" % (res["devexecs"], d), {"deviation": d})
    for rj in res["rejected"]:
        ev, at = rj["events"], rj["at"]
        ctx.violation("provider: ProviderMonitor (clauses of %s) rejects a real execution at event %d: %s" % (
            prop, at, json.dumps(ev[at]) if at < len(ev) else "?"),
            {"monitor": "ProviderMonitor", "check": prop, "dev": allowed, "events": ev, "at": at})
    if prop == "C02":
        B.report_abnormal(ctx, abnormal, "provider")
    else:
        B.report_abnormal(ctx, abnormal, "provider",
                          only_if=lambda ev: bool(ev) and isinstance(ev[-1], dict) and ev[-1].get("e") == "Crash")
    if lines:
        ex0 = trace.split_executions(lines)[0]
        ctx.sample({"kind": "real provider-level execution validated by ProviderMonitor", "events": [json.loads(x) for x in ex0[:14]]})
