"""C13 - an exported log record carries what was emitted, correlated with the active span; owned
copies; null record ignored; disabled logger emits nothing.

1. TLC, exhaustive (spec/LogRecord.tla).  Ideal (Dev = {}): ExportedEqualsEmitted (the incremental
   left-to-right fold of typed setters against the declarative "last argument that speaks about the
   field wins"), ExactlyOncePerProcessor, CorrelationRule, DisabledEmitsNothing, NullIgnored,
   FlushExportsAll, OnlyEmitExports for one record with every <= 3-argument sequence over the whole
   argument alphabet, for two threads / two records / multi-processor pipelines, and for the null /
   disabled gates.  AsImplemented (Dev = the two named deviations): every violation goes through a
   deviation; and the deviations are really modelled (TLC must produce the counterexamples
   Emit -> caller overwrites -> Flush, and EmitLogRecord(EventId{id}) -> crash).
2. spec -> code: TLC behaviours (a witness for every rare condition, random walks over larger
   domains; every entry carries the records the spec expects at each processor's exporter, ideal and
   as-deviating) are replayed by harness/c13_logrecord.cc on the real SDK: lock-stepped OS threads
   with nested active spans, simple / batch(+ForceFlush) / multi processors, every EmitLogRecord
   argument tuple through the real templates, every string/array argument in a caller buffer that is
   overwritten right after the call returned.
3. code -> spec: seeded random programs over larger domains (12 attribute keys, 20 values, 1-3
   threads, 250-400 operations) are run on the real SDK by the same harness (`record`), every call is
   logged with its abstract arguments and with the records read at each exporter, and
   spec/LogRecordTrace.tla decides whether the log is a behaviour of the spec (Dev = the modelled
   deviations; the executions that needed one are reported and classified through ctx.deviation).
Python only shuttles JSON, picks concretisation seeds and classifies what the harness compared.
"""
import concurrent.futures as cf
import copy
import hashlib
import json
import random
import re

from lib import build, hrun, tlc, tracestats
from lib.common import Broken, log

LEVEL = "model_checking"
ALIAS = "log-record-aliases-caller-buffers"
CRASH = "eventid-without-name-crashes"
SOURCES = ["c13_logrecord.cc", "c13_dispatch_full.cc", "c13_dispatch_prim_a.cc", "c13_dispatch_prim_b.cc",
           "c13_dispatch_prim_c.cc", "c13_dispatch_prim_d.cc"]

CFG = """CONSTANTS NT = %(NT)d  NS = %(NS)d  PipeNames = %(PipeNames)s  NRes = %(NRes)d
          MaxRecs = %(MaxRecs)d  MaxSets = %(MaxSets)d  MaxArgs = %(MaxArgs)d  MaxFlush = %(MaxFlush)d  MaxNull = %(MaxNull)d  MaxAdd = %(MaxAdd)d
          LgSet = %(LgSet)s  MaxScope = %(MaxScope)d  MaxNest = %(MaxNest)d
          NSev = %(NSev)d  NBody = %(NBody)d  NTs = %(NTs)d  NId = %(NId)d  NFl = %(NFl)d  NAK = %(NAK)d  NAV = %(NAV)d
          MaxMap = %(MaxMap)d  NEv = %(NEv)d  NName = %(NName)d
          GenDepth = %(GenDepth)d  Hist = %(Hist)s  Dev = %(Dev)s
INIT Init
NEXT Next
%(extra)s
"""
IDEAL_TAIL = ("VIEW View\nINVARIANTS TypeOK ExportedEqualsEmitted ExactlyOncePerProcessor CorrelationRule DisabledEmitsNothing\n"
              "PROPERTIES NullIgnored FlushExportsAll OnlyEmitExports")
ASIMPL_TAIL = "VIEW View\nINVARIANTS TypeOK AsImplemented CorrelationRule DisabledEmitsNothing\nPROPERTIES NullIgnored OnlyEmitExports"
BOTH = '{"%s", "%s"}' % (ALIAS, CRASH)


def K(**kw):
    d = dict(NT=1, NS=1, PipeNames='{"sb"}', NRes=1, MaxRecs=1, MaxSets=0, MaxArgs=1, MaxFlush=1, MaxNull=0, MaxAdd=0, LgSet="{1}",
             MaxScope=1, MaxNest=1, NSev=0, NBody=0, NTs=0, NId=0, NFl=0, NAK=0, NAV=0, MaxMap=0, NEv=0, NName=0,
             GenDepth=0, Hist="FALSE", Dev="{}")
    d.update(kw)
    return d


FULL_ALPHABET = dict(NSev=1, NBody=2, NTs=1, NId=1, NFl=1, NAK=1, NAV=2, MaxMap=1, NEv=1, NName=1)
ACTIONS = ["DoScopeEnter", "DoScopeExit", "DoCreate", "DoSet", "DoBeginEmitRec", "DoBeginEmitNew", "DoBeginEmitNull",
           "DoArg", "DoEndEmit", "Flush", "DoAddProc"]


def _cfg(ctx, name, consts, extra):
    p = ctx.rundir.file(name + ".cfg")
    d = dict(consts)
    d["extra"] = extra
    with open(p, "w") as f:
        f.write(CFG % d)
    return p


_RE_COV = re.compile(r"^<(\w+) line \d+, col \d+ to line \d+, col \d+ of module LogRecord[^>]*>: (\d+):(\d+)", re.M)


def _coverage(out):
    """action -> distinct states found through it (lib.tlc's parser misses the `(l c l c)` form TLC
    prints for \\E-quantified disjuncts)."""
    cov = {}
    for m in _RE_COV.finditer(out):
        cov[m.group(1)] = cov.get(m.group(1), 0) + int(m.group(2))
    return cov


def _par(jobs, n):
    with cf.ThreadPoolExecutor(max_workers=n) as ex:
        futs = [ex.submit(*j) for j in jobs]
        return [f.result() for f in futs]


# ------------------------------------------------------------------------------------------ 1. TLC
def mc_jobs(ctx):
    thorough = ctx.tier == "thorough"
    pairs = K(PipeNames='{"sbh"}', MaxSets=1, MaxArgs=1, **FULL_ALPHABET)     # direct setter, then one argument
    args2 = K(PipeNames='{"sbh"}', MaxSets=0, MaxArgs=2, **FULL_ALPHABET)     # every ordered pair of arguments
    fold = K(PipeNames='{"sbh"}', MaxSets=1, MaxArgs=2, **FULL_ALPHABET)      # every sequence of <= 3
    cfgs = [
        ("fold-setter+arg", pairs, IDEAL_TAIL, "ok"),
        ("fold-2args", args2, IDEAL_TAIL, "ok"),
        ("pipeline", K(NT=2, PipeNames='{"sb", "bhs"}', MaxRecs=2, NBody=1, NId=1), IDEAL_TAIL, "ok"),
        ("gates", K(MaxRecs=2, MaxNull=1, LgSet="{1, 3}", NBody=1), IDEAL_TAIL, "ok"),
        # AddProcessor between CreateLogRecord and Emit and between records: 0->1, 1->2, 2->3 processors
        ("addproc", K(PipeNames='{"e", "s", "b"}', MaxRecs=2, MaxAdd=2, NBody=1, MaxArgs=0 if not thorough else 1), IDEAL_TAIL, "ok"),
        ("as-implemented", dict(fold if thorough else pairs, Dev=BOTH), ASIMPL_TAIL, "ok"),
        # the deviations must really be in the model: TLC has to find the counterexamples
        ("cex-alias", dict(pairs, PipeNames='{"b"}', Dev='{"%s"}' % ALIAS), "VIEW View\nINVARIANTS ExportedEqualsEmitted", "invariant"),
        ("cex-crash", dict(pairs, PipeNames='{"s"}', Dev='{"%s"}' % CRASH), "VIEW View\nINVARIANTS ExactlyOncePerProcessor", "invariant"),
    ]
    if thorough:
        cfgs += [
            ("fold-3", fold, IDEAL_TAIL, "ok"),
            ("fold-setter+3args", K(PipeNames='{"sb"}', MaxSets=1, MaxArgs=3, NSev=1, NBody=2, NTs=0, NId=1, NFl=1, NAK=1, NAV=1,
                                    MaxMap=1, NEv=1, NName=1), IDEAL_TAIL, "ok"),
            ("pipeline2", K(NT=2, NS=1, PipeNames='{"sb", "bhs", "bb", "h"}', MaxRecs=2, MaxScope=2, MaxNest=2, NBody=1, NId=1),
             IDEAL_TAIL, "ok"),
            ("gates2", K(PipeNames='{"sb", "bhs"}', MaxRecs=2, MaxNull=1, LgSet="{1, 3}", MaxScope=2, MaxNest=2, NBody=1, NId=1),
             IDEAL_TAIL, "ok"),
            ("as-implemented-gates", K(MaxRecs=2, MaxNull=1, LgSet="{1, 3}", NBody=1, NEv=1, NName=1, Dev=BOTH), ASIMPL_TAIL, "ok"),
        ]

    def one(name, k, tail, want):
        c = _cfg(ctx, "mc-" + name, k, tail)
        return "mc", name, want, tlc.tlc("LogRecord", c, rundir=ctx.rundir.path, workers=4 if thorough else 2,
                                         timeout_s=1000 if thorough else 150, coverage=(want == "ok"), xmx="6g", tag="mc-" + name)
    return [(one,) + c for c in cfgs]


def mc_collect(ctx, results):
    cov = {}
    for _, name, want, r in results:
        ctx.add_tlc("LogRecord exhaustive (%s)" % name, r, complete=True)
        if r.status == "timeout":
            ctx.exhaustive = False
            log("C13 model checking config %s timed out (bounded; not exhaustive)" % name)
            continue
        if want == "ok":
            tlc.must_ok(r, "LogRecord.tla model checking (%s)" % name)
        elif r.status != "invariant":
            raise Broken("vacuity: the spec with deviation (%s) does not break the property (status %s)" % (name, r.status))
        for a, t in _coverage(r.out).items():
            cov[a] = cov.get(a, 0) + t
    for a in ACTIONS:
        if cov.get(a, 0) + cov.get(a[2:], 0) == 0:
            raise Broken("vacuity: action %s never taken in the exhaustive configs" % a)


# --------------------------------------------------------------------------------- 2. spec -> code
WBASE = dict(MaxRecs=1, MaxArgs=1, MaxFlush=1, NBody=1, GenDepth=30, Hist="TRUE")
WITNESSES = {
    "WitAliasSync": K(**dict(WBASE, PipeNames='{"s"}', MaxSets=1)),
    "WitAliasDeferred": K(**dict(WBASE, PipeNames='{"b"}')),
    "WitNull": K(**dict(WBASE, MaxNull=1)),
    "WitDisabled": K(**dict(WBASE, LgSet="{1, 3}")),
    "WitNoNameArg": K(**dict(WBASE, NBody=0, NEv=1)),
    "WitNoNameSetter": K(**dict(WBASE, NBody=0, NEv=1, MaxSets=1, MaxArgs=0)),
    "WitMulti3": K(**dict(WBASE, PipeNames='{"bhs"}')),
    "WitSettersArgs": K(**dict(WBASE, MaxSets=1, MaxArgs=2, NBody=1, NSev=1)),
    "WitNested": K(**dict(WBASE, NS=2, MaxScope=2, MaxNest=2, MaxArgs=0)),
    "WitInvalidSpan": K(**dict(WBASE, MaxArgs=0)),
    "WitTwoThreads": K(**dict(WBASE, NT=2, NS=2, MaxScope=2, MaxRecs=2, MaxArgs=0)),
    "WitScopeChanged": K(**dict(WBASE, MaxScope=1, MaxArgs=0)),
    "WitAttrOverwrite": K(**dict(WBASE, NBody=0, NAK=1, NAV=2, MaxMap=1, MaxArgs=2)),
    "WitBodyTwice": K(**dict(WBASE, NBody=2, MaxArgs=2)),
    "WitExplicit": K(**dict(WBASE, NBody=0, NId=1)),
    "WitPartial": K(**dict(WBASE, NBody=0, NId=1)),
    "WitEmptyAttrs": K(**dict(WBASE, NBody=0, NAK=1, NAV=1, MaxMap=1)),
    "WitFlushMany": K(**dict(WBASE, PipeNames='{"b"}', MaxRecs=2, MaxArgs=0)),
    # explicit all-zero identity / default flags over an active span: explicit still wins
    "WitZeroId": K(**dict(WBASE, NBody=0, NId=1)), "WitZeroFlags": K(**dict(WBASE, NBody=0, NFl=1)),
    # LoggerProvider::AddProcessor between CreateLogRecord and Emit (0->1, 1->2) and between records
    "WitAddProc": K(**dict(WBASE, PipeNames='{"s"}', MaxAdd=1)), "WitAdd01": K(**dict(WBASE, PipeNames='{"e"}', MaxAdd=1)),
    "WitAdd12": K(**dict(WBASE, PipeNames='{"s", "b"}', MaxAdd=1)),
    "WitLateLater": K(**dict(WBASE, PipeNames='{"e", "s"}', MaxAdd=1, MaxRecs=2)),
}
SIM_SHAPES = [
    # (constants, walks per worker (x4 workers))
    (K(NT=2, NS=7, PipeNames='{"e", "s", "b", "sb", "bs", "sbh", "bhs", "bb", "h"}', NRes=2, MaxRecs=12, MaxSets=3, MaxArgs=3,
       MaxFlush=4, MaxNull=2, MaxAdd=2, LgSet="{1, 2, 3}", MaxScope=8, MaxNest=3, NSev=3, NBody=4, NTs=2, NId=3, NFl=3, NAK=3, NAV=4,
       MaxMap=2, NEv=2, NName=2, GenDepth=60, Hist="TRUE"), 1.0),
    (K(NT=3, NS=5, PipeNames='{"s", "b", "sb", "bs", "bhs", "bb"}', NRes=2, MaxRecs=20, MaxSets=2, MaxArgs=2, MaxFlush=6, MaxNull=2, MaxAdd=2,
       LgSet="{1, 2, 3}", MaxScope=12, MaxNest=3, NSev=2, NBody=4, NTs=2, NId=3, NFl=3, NAK=4, NAV=4, MaxMap=3, NEv=2, NName=2,
       GenDepth=90, Hist="TRUE"), 0.5),
    (K(NT=1, NS=3, PipeNames='{"e", "b", "sbh"}', NRes=1, MaxRecs=10, MaxSets=4, MaxArgs=3, MaxFlush=3, MaxNull=1, MaxAdd=1, LgSet="{1, 3}",
       MaxScope=4, MaxNest=2, NSev=6, NBody=6, NTs=3, NId=3, NFl=3, NAK=2, NAV=6, MaxMap=2, NEv=3, NName=3, GenDepth=50,
       Hist="TRUE"), 0.5),
]


def gen_jobs(ctx):
    thorough = ctx.tier == "thorough"

    def wit(name, k):
        c = _cfg(ctx, "w-" + name, k, "VIEW View\nCONSTRAINT Bound\nINVARIANTS " + name)
        return "gen", name, k, tlc.tlc("LogRecord", c, rundir=ctx.rundir.path, workers=1, timeout_s=150, tag="w-" + name, xmx="2g")

    def sim(i, k, num):
        c = _cfg(ctx, "g-sim%d" % i, k, "VIEW View\nCONSTRAINT Bound\nACTION_CONSTRAINT Closing%s\nINVARIANTS EmitAll" % (
            " NoNamelessArg" if i < 2 else ""))
        return "gen", "sim%d" % i, k, tlc.tlc("LogRecord", c, rundir=ctx.rundir.path, workers=4, timeout_s=400, tag="g-sim%d" % i,
                                              simulate={"num": num, "depth": k["GenDepth"] + 20}, seed=ctx.seed * 37 + i, xmx="4g")
    base = 150 if thorough else 20
    jobs = [(sim, i, k, max(4, int(base * w))) for i, (k, w) in enumerate(SIM_SHAPES)]
    jobs += [(wit, n, k) for n, k in WITNESSES.items()]
    return jobs


def gen_collect(ctx, results):
    behs = []
    wit_len = {}
    for _, name, k, r in results:
        ctx.add_tlc("generation " + name, r, complete=True)
        b = r.printed("BEH")
        if name.startswith("Wit"):
            if r.status != "invariant" or not b:
                raise Broken("witness %s not reachable in the model (vacuity): %s\n%s" % (name, r.status, r.out[-800:]))
            b = b[:1]
            wit_len[name] = len(b[0]) - 1
        else:
            if r.status != "ok":
                raise Broken("behaviour generation %s failed: %s\n%s" % (name, r.status, r.out[-1500:]))
            if not b:
                raise Broken("behaviour generation %s printed nothing (vacuity)" % name)
        for steps in b:
            behs.append((name, k, steps))
    ctx.extra["witness_lengths"] = wit_len
    return behs


def concretise(ctx, behs):
    rnd = random.Random(ctx.seed)
    out, seen = [], set()
    for src, k, steps in behs:
        h = hashlib.sha1(json.dumps(steps, sort_keys=True).encode()).hexdigest()
        if h in seen:
            continue
        seen.add(h)
        ctx.distinct.add(h)
        inst = (6 if ctx.tier == "thorough" else 3) if src.startswith("Wit") else (3 if ctx.tier == "thorough" else 2)
        for _ in range(inst):
            out.append({"id": len(out), "src": src, "nt": k["NT"], "nak": k["NAK"], "seed": rnd.randrange(1 << 30),
                        "mode": "arena", "steps": steps})
    return out


def _first_error(err):
    for ln in err.splitlines():
        if "ERROR" in ln or "runtime error" in ln:
            return ln.strip()[:300]
    return err.strip()[-300:]


def run_replay(ctx, exe, insts, tag, watchdog_s=None):
    """-> ({id: result}, [crash records]).  Thread-safe (touches no verdicts).  A process that dies is
    restarted after the behaviour it died in; a crash at a step the spec marks `mayCrash` (named
    deviation) is expected as long as the defect exists, any other crash is limited to 3 restarts."""
    res, crashes = {}, []
    todo = list(insts)
    rounds = unexpected = 0
    while todo:
        rounds += 1
        path = ctx.rundir.file("beh-%s-%d.ndjson" % (tag, rounds))
        with open(path, "w") as f:
            for b in todo:
                f.write(json.dumps(b) + "\n")
        r = hrun.run_harness(exe, ["replay", path], timeout=600, env={"C13_WATCHDOG_S": str(watchdog_s)} if watchdog_s else None)
        out = r.json()
        done = [g for g in out if g.get("done")]
        for g in done:
            res[g["beh"]] = g
        if r.rc == 0 and len(done) == len(todo):
            break
        hang = [g for g in out if g.get("hang")]
        if r.timed_out or (r.rc == 3 and hang):
            # the harness watchdog fired (a call of the real code does not return): names behaviour and step
            cur = todo[len(done)] if len(done) < len(todo) else None
            crashes.append({"behaviour": cur, "rc": "hang", "stderr": r.err[-3000:], "first": "a call does not return (watchdog)",
                            "at": hang[-1]["step"] if hang else None, "expected": False})
            if cur is not None:
                res[cur["id"]] = {"beh": cur["id"], "ok": False, "crash": True}
            todo = todo[len(done) + 1:]
            unexpected += 1
        elif r.rc == 5 or r.rc == 2:
            raise Broken("replay harness error rc=%s: %s" % (r.rc, r.err[-1500:]))
        elif r.crashed or r.rc != 0:
            if len(done) >= len(todo):
                raise Broken("replay harness failed after the last behaviour rc=%s: %s" % (r.rc, r.err[-1500:]))
            cur = todo[len(done)]
            marks = [g for g in out if g.get("beh") == cur["id"] and g.get("mayCrash")]
            at = marks[-1]["at"] if marks else None
            # the named deviation: the process dies inside the EventId setter trait of that very call
            first = _first_error(r.err)
            expected = at is not None and (("nostd/string_view.h" in first and "null pointer passed as argument 1" in first)
                                           or (r.rc in (-11, 139) and "ERROR" not in r.err))
            crashes.append({"behaviour": cur, "rc": r.rc, "stderr": r.err[-4000:], "first": _first_error(r.err), "at": at,
                            "expected": expected})
            res[cur["id"]] = {"beh": cur["id"], "ok": False, "crash": True, "at": at}
            todo = todo[len(done) + 1:]
            if not expected:
                unexpected += 1
        else:
            raise Broken("replay harness: %d results for %d behaviours" % (len(done), len(todo)))
        if unexpected >= 3:
            for b in todo:
                res[b["id"]] = {"beh": b["id"], "ok": True, "skipped": True}
            break
    return res, crashes


def replay_all(ctx, exe, insts, tag, nproc=4):
    parts = [insts[i::nproc] for i in range(nproc)]
    results, crashes = {}, []
    for r, c in _par([(run_replay, ctx, exe, p, "%s%d" % (tag, i)) for i, p in enumerate(parts) if p], nproc):
        results.update(r)
        crashes += c
    if len(results) != len(insts):
        raise Broken("replay: %d results for %d behaviours" % (len(results), len(insts)))
    return results, crashes


def classify(ctx, insts, results, crashes, what_run, exe=None):
    by_id = {b["id"]: b for b in insts}
    nunexp = nbad = 0
    confirmed = False
    for c in crashes:
        b = c["behaviour"]
        if c["rc"] == "hang" and not confirmed and exe is not None and b is not None:
            # a watchdog on a loaded machine is not yet a hang: that behaviour alone, long watchdog
            r2, c2 = run_replay(ctx, exe, [dict(b, id=0)], "confirm%d" % b["id"], watchdog_s=90)
            if not any(x["rc"] == "hang" for x in c2):
                if r2.get(0) is not None:
                    results[b["id"]] = dict(r2[0], beh=b["id"])
                crashes = [x for x in crashes if x is not c] + [dict(x, behaviour=b) for x in c2]
                continue
            confirmed = True
        if c["expected"]:
            st = b["steps"][c["at"]]
            ctx.deviation(CRASH, "%s: the process dies in EmitLogRecord(%s) at step %d of a TLC behaviour (src=%s): %s" % (
                what_run, json.dumps([a for a in st["args"]]), c["at"], b["src"], c["first"]),
                {"kind": "replay", "behaviour": dict(b, steps=b["steps"][:c["at"] + 1]), "stderr": c["stderr"][-1500:]})
        else:
            nunexp += 1
            if nunexp <= 3:
                at = c.get("at")
                ctx.violation("%s: real code %s while replaying a TLC behaviour (src=%s)%s: %s" % (
                    what_run, "HANGS" if c["rc"] == "hang" else "crashed (rc=%s)" % c["rc"], b["src"] if b else "?",
                    " at step %s (%s)" % (at, b["steps"][at]["op"]) if b and at is not None and 0 <= at < len(b["steps"]) else "", c["first"]),
                    {"kind": "replay", "behaviour": dict(b, steps=b["steps"][:at + 1]) if b and at is not None and at >= 0 else b,
                     "stderr": c["stderr"]})
    stats = {"behaviours": 0, "exports": 0, "compared": 0, "alias_dev_fields": 0, "behaviours_with_alias": 0,
             "behaviours_cut_by_crash_dev": 0, "ops": {}}
    clean = []
    for i, g in sorted(results.items()):
        b = by_id[i]
        if g.get("skipped"):
            continue
        stats["behaviours"] += 1
        if g.get("crash"):
            if g.get("at") is not None:
                stats["behaviours_cut_by_crash_dev"] += 1
            continue
        stats["exports"] += g["exports"]
        stats["compared"] += g["compared"]
        for s in b["steps"][1:]:
            stats["ops"][s["op"]] = stats["ops"].get(s["op"], 0) + 1
        if g["devs"]:
            stats["behaviours_with_alias"] += 1
            stats["alias_dev_fields"] += len(g["devs"])
            d = g["devs"][0]
            if d["dev"] != ALIAS:
                raise Broken("harness reported an unknown deviation %r" % d["dev"])
            ctx.deviation(ALIAS, "%s: %s exported as the overwrite pattern (abstract value %s instead of %s) at step %d of a TLC behaviour (src=%s)" % (
                what_run, d["what"], d["got"], d["exp"], d["step"], b["src"]),
                {"kind": "replay", "behaviour": dict(b, steps=b["steps"][:d["step"] + 1]), "deviation": d})
            if ALIAS in ctx.known_hit:
                ctx.known_hit[ALIAS]["count"] += len(g["devs"]) - 1
        elif g["ok"]:
            clean.append(b)
        if not g["ok"]:
            nbad += 1
            m = g["mismatch"]
            if nbad <= 5:
                st = b["steps"][m["step"]] if m["step"] < len(b["steps"]) else {"op": "end"}
                ctx.violation("%s: replay of a TLC behaviour (src=%s) diverges at step %d (%s): %s: spec expects %s (deviation would give %s), real code gives %s" % (
                    what_run, b["src"], m["step"], st["op"], m["what"], json.dumps(m["exp"]), json.dumps(m["expDev"]), json.dumps(m["got"])),
                    {"kind": "replay", "behaviour": dict(b, steps=b["steps"][:m["step"] + 1]), "mismatch": m})
    return stats, clean


def selftest(ctx, exe, insts):
    """The binding must be live: corrupt ONE expected field of a behaviour and see it rejected."""
    rnd = random.Random(ctx.seed + 77)
    cands = [b for b in insts if b["src"].startswith("sim") and not any(s.get("mayCrash") for s in b["steps"][1:])
             and sum(len(p) for s in b["steps"] for p in s["exp"]) >= 3]
    if not cands:
        raise Broken("binding self-test: no suitable behaviour")
    muts = []
    for field in ("tid", "fl", "lg", "attrs", "drop", "dup"):
        m = copy.deepcopy(rnd.choice(cands))
        spots = [(si, pi, ri) for si, s in enumerate(m["steps"]) for pi, p in enumerate(s["exp"]) for ri, _ in enumerate(p)]
        si, pi, ri = rnd.choice(spots)
        for key in ("exp", "expDev"):
            e = m["steps"][si][key][pi]
            if field == "drop":
                del e[ri]
            elif field == "dup":
                e.append(copy.deepcopy(e[ri]))
            elif field == "attrs":
                if not e[ri]["attrs"]:
                    e[ri]["tid"] += 1
                else:
                    e[ri]["attrs"][0] = 2 if e[ri]["attrs"][0] != 2 else 4
            else:
                e[ri][field] = e[ri][field] + 1
        m["id"] = len(muts)
        m["what"] = field
        muts.append(m)
    res, crashes = run_replay(ctx, exe, muts, "self")
    missed = [m["what"] for m in muts if res.get(m["id"], {}).get("ok", True)]
    if missed or crashes:
        raise Broken("binding self-test: corrupted expectations %s were NOT rejected by the replayer (crashes=%d)" % (missed, len(crashes)))
    ctx.extra["selftest_corrupted_expectations_rejected"] = len(muts)


# --------------------------------------------------------------------------------- 3. code -> spec
def record_validate(ctx, exe):
    """Seeded random programs over larger domains (12 attribute keys, 20 values, 300-step histories)
    run on the real SDK; spec/LogRecordTrace.tla (Dev = every deviation the spec models) decides, and
    reports which executions needed which deviation (DEVUSED) - classified through ctx.deviation."""
    thorough = ctx.tier == "thorough"
    shapes = [(6, 2, 300), (6, 3, 300), (6, 1, 250), (5, 3, 400)]      # (executions, threads, operations)
    if thorough:
        shapes = [(n * 6, t, o) for (n, t, o) in shapes] * 2

    def rec(i, shape):
        return i, shape, hrun.run_harness(exe, ["record", (ctx.seed % 2000) * 100 + i] + list(shape) + [i], timeout=900,
                                          env={"C13_WATCHDOG_S": "60"})
    lines = []
    for i, shape, r in _par([(rec, i, s) for i, s in enumerate(shapes)], 4):
        if r.rc != 0 or r.crashed:
            if r.rc in (2, 5):
                raise Broken("recorder failed rc=%s: %s" % (r.rc, r.err[-1500:]))
            last = max([j for j, ln in enumerate(r.lines) if '"e":"Cfg"' in ln] or [0])
            if r.rc == 3 or r.timed_out:
                if not ctx.violations:      # confirm with a long watchdog unless something is already established
                    r2 = hrun.run_harness(exe, ["record", (ctx.seed % 2000) * 100 + i] + list(shape) + [i], timeout=900,
                                          env={"C13_WATCHDOG_S": "180"})
                    if r2.rc == 0:
                        lines += r2.lines
                        continue
                ev = []
                for x in r.lines[last:][-40:]:
                    try:
                        ev.append(json.loads(x))
                    except Exception:
                        pass
                ctx.violation("real code HANGS in a random program (recorder args %s): a call never returns; last logged events attached" % (
                    list(shape),), {"kind": "record-hang", "args": [(ctx.seed % 2000) * 100 + i] + list(shape) + [i], "events_tail": ev})
                lines += r.lines[:last]
                continue
            ctx.violation("real code crashed (rc=%s) in a random program (recorder args %s): %s" % (r.rc, list(shape), _first_error(r.err)),
                          {"kind": "record-crash", "args": [(ctx.seed % 2000) * 100 + i] + list(shape) + [i], "stderr": r.err[-4000:]})
            lines += r.lines[:last]
        else:
            lines += r.lines
    res = tracestats.validate(ctx, "LogRecordTrace", "LogRecordTrace.cfg", lines, chunk=6 if not thorough else 24, parallel=4,
                              timeout_s=900, tag="c13", tags=("STATS", "DEVUSED"))
    execs = tracestats.split_executions(lines)
    by_xid = {}
    for e in execs:
        c = json.loads(e[0])
        by_xid[(c["b"], c["x"])] = e
    st = {"executions": res["executions"], "events": res["events"], "exported_records_checked": sum(x["exported"] for x in res["printed"]["STATS"]),
          "executions_needing_alias_deviation": 0, "rejected": len(res["rejected"])}
    for used in res["printed"]["DEVUSED"]:
        for dev, b, x in used:
            st["executions_needing_alias_deviation"] += 1
            e = by_xid.get((b, x), [])
            ctx.deviation(dev, "trace validation: a recorded execution (recorder %s, execution %s) is accepted by LogRecordTrace.tla only through this deviation" % (b, x),
                          {"kind": "trace", "events": [json.loads(ln) for ln in e]})
    for rj in res["rejected"][:3]:
        ev, at = rj["events"], rj["at"]
        ctx.violation("LogRecordTrace.tla rejects a real execution at event %d: %s" % (at, json.dumps(ev[at])[:600] if at < len(ev) else "?"),
                      {"kind": "trace", "events": ev[:at + 1], "at": at})
    ctx.evaluations += res["executions"]
    ctx.extra["trace_validation"] = st
    for e in execs:
        ctx.distinct.add(e[0])
    if not ctx.violations and (st["exported_records_checked"] == 0 or res["executions"] == 0):
        raise Broken("vacuity: trace validation checked no exported record")
    # the binding must be live: one corrupted observation must be rejected
    if execs and not res["rejected"]:
        e = [json.loads(x) for x in execs[0]]
        spots = [i for i, x in enumerate(e) if x["e"] in ("EndEmit", "Flush") and any(x["got"])]
        if spots:
            i = spots[len(spots) // 2]
            p = [k for k, g in enumerate(e[i]["got"]) if g][0]
            e[i]["got"][p][0]["sid"] += 1
            class _Quiet:            # validate without touching the run's counters
                rundir = ctx.rundir
                states = transitions = traces = 0
            r2 = tracestats.validate(_Quiet, "LogRecordTrace", "LogRecordTrace.cfg", [json.dumps(x) for x in e], parallel=1, tag="c13self")
            if not r2["rejected"] or r2["rejected"][0]["at"] != i:
                raise Broken("binding self-test: a corrupted observation was NOT rejected by LogRecordTrace.tla")
            ctx.extra["selftest_corrupted_trace_rejected"] = True
    if execs:
        ctx.sample({"kind": "real execution validated by LogRecordTrace.tla (first 10 of %d events)" % len(execs[0]),
                    "events": [json.loads(x) for x in execs[0][:10]]})


def run(ctx):
    ctx.assumptions += [
        "exhaustive TLC results are for the stated small constants (1 record x every <=3-argument sequence over a 13-letter argument alphabet; 2 threads x 2 records; <=3 processors); larger instances are sampled by replay",
        "the exporter's recordable is the SDK's ReadWriteLogRecord (what the in-tree exporters use); 'hold'/'batch' exporters keep the unique_ptr they are given and are read when the step / ForceFlush completed",
        "a record is emitted through the logger that created it; fields never supplied (severity, body, timestamp, event) are not compared, attributes must be exactly the supplied map, identity is always compared",
        "trace validation: the recorder never passes an EventId without a name to EmitLogRecord (the unchanged tree dies there); that case is covered by replay only",
        "threads are OS threads in lock step (one API call at a time); the batch worker thread runs freely (its timing does not matter: deferred reads happen after the caller overwrote its buffers)",
        "memory safety is only a by-product: ASan/UBSan on every replay; behaviours that showed no aliasing are replayed a second time with caller buffers really freed",
        "concretisation tables of harness/c13_logrecord.cc (19 static argument types; 9+5 AttributeValue alternatives; 4 attribute-key tables; 3 event-id tables)",
    ]
    ctx.extra["rule"] = ("states/transitions: TLC (exhaustive configs + generation + trace-validation runs); traces_validated = TLC behaviours replayed step "
                         "by step on the real SDK with every exported record compared field by field + recorded random executions accepted by LogRecordTrace.tla; "
                         "distinct_nontrivial = distinct TLC behaviours (sha1 of the step list) + recorded executions (distinct seeds)")
    exe = build.harness("c13_logrecord", SOURCES, "asan")
    log("C13 harness built %.0fs" % ctx.timer.s())
    # model checking and behaviour generation are independent TLC runs: one pool
    results = _par(gen_jobs(ctx) + mc_jobs(ctx), 6)
    mc_collect(ctx, [r for r in results if r[0] == "mc"])
    behs = gen_collect(ctx, [r for r in results if r[0] == "gen"])
    insts = concretise(ctx, behs)
    log("C13 generation done %.0fs (%d distinct behaviours, %d instances)" % (ctx.timer.s(), len(ctx.distinct), len(insts)))
    results, crashes = replay_all(ctx, exe, insts, "a")
    stats, clean = classify(ctx, insts, results, crashes, "arena run", exe)
    ctx.traces += stats["behaviours"]
    ctx.evaluations += stats["behaviours"]
    ctx.extra["replay"] = stats
    # vacuity: every witness behaviour must have been replayed, records must have been exported
    if stats["exports"] == 0 or stats["compared"] == 0:
        raise Broken("vacuity: no exported record was compared")
    log("C13 arena replay done %.0fs" % ctx.timer.s())
    if not ctx.violations:       # (on a tree that already violates, the self-test behaviour itself may crash)
        selftest(ctx, exe, insts)
    # by-product: behaviours on which the code behaved ideally, again with really freed caller buffers
    if clean and not ctx.violations:
        again = [dict(b, mode="realfree") for b in clean]
        r2, c2 = replay_all(ctx, exe, again, "f")
        s2, _ = classify(ctx, again, r2, c2, "real-free run")
        ctx.extra["replay_realfree"] = {k: s2[k] for k in ("behaviours", "exports", "compared")}
        ctx.traces += s2["behaviours"]
        ctx.evaluations += s2["behaviours"]
    log("C13 replay done %.0fs" % ctx.timer.s())
    record_validate(ctx, exe)
    for src in ("WitAliasDeferred", "WitTwoThreads", "sim0"):
        for b in insts:
            if b["src"] == src:
                ctx.sample({"kind": "TLC behaviour replayed on the real SDK (src=%s)" % src, "cfg": {k: b["steps"][0][k] for k in ("pipe", "res")},
                            "steps": [{k: s[k] for k in ("op", "t", "r", "lg", "via", "s", "a", "args", "exp", "expDev") if s.get(k) not in ("", [], 0) or k == "op"}
                                      for s in b["steps"][1:9]]})
                break


def replay(ctx, path):
    rep = json.load(open(path))["replay"]
    if rep.get("kind") == "trace":
        lines = [json.dumps(e) for e in rep["events"]]
        res = tracestats.validate(ctx, "LogRecordTrace", "LogRecordTrace.cfg", lines, parallel=1, tag="re", tags=("STATS", "DEVUSED"))
        for used in res["printed"]["DEVUSED"]:
            for dev, b, x in used:
                ctx.deviation(dev, "replayed log is accepted only through this deviation", {"kind": "trace", "events": rep["events"]})
        for rj in res["rejected"]:
            ctx.violation("replayed log rejected by LogRecordTrace.tla at event %d" % rj["at"], {"kind": "trace", "events": rj["events"], "at": rj["at"]})
        ctx.sample({"kind": "replayed log", "events": rep["events"][-3:]})
        return
    if rep.get("kind") != "replay" or not rep.get("behaviour"):
        raise Broken("this violation file can only be reproduced by re-running the check with the seed recorded in it")
    exe = build.harness("c13_logrecord", SOURCES, "asan")
    b = dict(rep["behaviour"], id=0)
    res, crashes = run_replay(ctx, exe, [b], "re")
    classify(ctx, [b], res, crashes, "replay")
    ctx.traces += 1
    ctx.sample({"kind": "replayed violation behaviour", "steps": b["steps"][-3:]})
