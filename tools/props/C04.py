"""C04 - an exported span carries exactly what the application recorded before End.

1. TLC, exhaustive on bounded state graphs of spec/SpanLifecycle.tla (one span, processors simple|batch):
   ExportedOncePerProcessor, SnapshotEqualsState, AllProcessorsIdentical, RecordingIffNotEnded,
   SimpleIsSynchronous, FlushedAtTheEnd, the action property AfterEndNothingChanges, and - with the
   ghost call log - the declarative clauses LastWriteWins / NameIsLastUpdate / EventsInCallOrder /
   StatusIsLastSet.
2. spec -> code: behaviours printed by TLC (BFS covers of small domains, random walks of ~20 operations
   over large domains for 1..3 mixed processors, one witness per rare condition: every mutator after End,
   double End, destructor-End, duplicate keys, ...) are stepped through a real TracerProvider
   (harness/c04_span.cc, ASan+UBSan).  Value ids are concretised over every AttributeValue alternative;
   every caller buffer is overwritten and freed right after the call.  After every step IsRecording()
   and what every exporter holds are compared with the expectation computed by TLC.
3. code -> spec: random histories of 20-60 operations over 16 keys x 40 values on the real span are
   logged (exports projected back to ids) and validated by spec/SpanLifecycleTrace.tla; the same trace
   spec linearises logs of several threads operating on one span (harness/c04_conc.cc under the
   deterministic scheduler).
"""
import concurrent.futures as cf
import json
import os
import re

from lib import build, hrun, spantv, tlc, trace
from lib.common import Broken, log

LEVEL = "model_checking"
MODULE = "SpanLifecycle"
ALL_DEVS = set()
INVS = ("TypeOK ExportedOncePerProcessor SnapshotEqualsState AllProcessorsIdentical RecordingIffNotEnded "
        "SimpleIsSynchronous FlushedAtTheEnd LastWriteWins NameIsLastUpdate EventsInCallOrder StatusIsLastSet")
PROPS = "PROPERTY AfterEndNothingChanges"
ACTIONS = ["Start", "SetAttribute", "AddEvent", "SetStatus", "UpdateName", "End", "Release", "Flush", "Finish"]
WITNESSES = ["SetAfterEnd", "EventAfterEnd", "StatusAfterEnd", "NameAfterEnd", "DoubleEnd", "ReleaseWhileRecording",
             "DupKeyAtStart", "DupKeyInEvent", "OverwriteAttr", "StatusOkThenError", "EndThenFlushThenSet",
             "LinkWithAttrs", "BothSteadyTimes", "FlushBeforeEnd"]
VT_NAMES = ["bool", "int32", "int64", "uint32", "uint64", "double", "const char*", "string_view", "span<bool>",
            "span<int32>", "span<int64>", "span<uint32>", "span<uint64>", "span<double>", "span<string_view>",
            "span<uint8>"]
CFG = """CONSTANTS Keys = {%s}  Vals = {%s}  Names = {%s}  Kinds = {%s}  Ctxs = {%s}  Times = {%s}
          Resources = {%s}  Scopes = {%s}  Procs <- P_%s
          MaxStartAttrs = %d  MaxLinks = %d  MaxLinkAttrs = %d  MaxEvents = %d  MaxEvAttrs = %d  MaxOps = %d
          Ghost = %s  Dev = {}  Hist = %s
INIT %s
NEXT %s
VIEW %s
INVARIANTS %s
%s
"""
_RE_COV = re.compile(r"^<(\w+) line \d+, col \d+ to line \d+, col \d+ of module \w+[^>]*>: (\d+):(\d+)", re.M)
JENV = {"JAVA_TOOL_OPTIONS": "-Xss64m"}     # the trace spec's Matches() nests deeply


def _rng(n):
    return ", ".join(str(i) for i in range(1, n + 1))


def _cfg(ctx, name, dom, procs, bounds, ghost=False, hist=False, init="Init", nxt="Next", view="ViewState",
         invs=INVS, props=PROPS):
    """dom = (keys, vals, names, kinds, ctxs, times, resources, scopes); bounds = (MaxStartAttrs, MaxLinks,
    MaxLinkAttrs, MaxEvents, MaxEvAttrs, MaxOps)"""
    p = ctx.rundir.file(name)
    with open(p, "w") as f:
        f.write(CFG % (tuple(_rng(x) for x in dom) + (procs,) + tuple(bounds) +
                       ("TRUE" if ghost else "FALSE", "TRUE" if hist else "FALSE", init, nxt, view, invs, props)))
    return p


def model_check(ctx):
    thorough = ctx.tier == "thorough"
    # MaxOps = 60 is never reached where the call log is off: those graphs are the COMPLETE finite state
    # spaces for the domain constants (and their sizes do not depend on TLC's multi-worker BFS order)
    runs = [  # name, dom, procs, bounds, ghost, coverage
        ("attrs", (2, 2, 1, 1, 1, 1, 1, 1), "s", (2, 0, 0, 0, 0, 60), False, False),
        ("events-links", (1, 2, 1, 1, 1, 1, 1, 1), "b", (0, 1, 1, 1, 1, 60), False, True),
        ("three-processors", (1, 1, 2, 1, 1, 1, 1, 1), "sbs", (0, 0, 0, 0, 0, 60), False, False),
        ("ghost-log", (1, 2, 2, 1, 1, 1, 1, 1), "s", (2, 0, 0, 1, 0, 2), True, False),
    ]
    if thorough:
        runs += [
            ("reference", (2, 3, 2, 1, 1, 1, 1, 1), "sb", (2, 0, 0, 1, 1, 60), False, False),
            ("events-links-4", (1, 2, 1, 1, 1, 1, 1, 1), "b", (1, 1, 1, 1, 2, 60), False, False),
            ("ghost-log-3", (1, 2, 2, 1, 1, 1, 1, 1), "s", (2, 0, 0, 1, 0, 3), True, False),
            ("bsb", (1, 2, 2, 2, 1, 1, 2, 2), "bsb", (1, 0, 0, 1, 0, 60), False, False),
        ]

    def one(j):
        name, dom, procs, bounds, ghost, cov = j
        c = _cfg(ctx, "mc-%s.cfg" % name, dom, procs, bounds, ghost=ghost)
        return j, tlc.tlc(MODULE, c, rundir=ctx.rundir.path, workers=4, timeout_s=1500 if thorough else 170,
                          coverage=cov, xmx="6g", tag="mc-" + name)
    with cf.ThreadPoolExecutor(max_workers=3) as ex:
        for (name, dom, procs, bounds, ghost, cov), r in ex.map(one, runs):
            ctx.add_tlc("ideal %s (Procs=%s%s)" % (name, procs, ", ghost log" if ghost else ""), r)
            if r.status == "timeout":
                log("C04: MC config %s timed out (bounded, not exhaustive)" % name)
                continue
            if r.status in ("invariant", "temporal"):
                raise Broken("the SPEC violates its own property (%s, violated=%s):\n%s" % (name, r.violated, r.trace_text[:3000]))
            tlc.must_ok(r, "SpanLifecycle model checking " + name)
            if cov:
                seen = {m.group(1): int(m.group(3)) for m in _RE_COV.finditer(r.out)}
                for a in ACTIONS:
                    if seen.get(a, 0) == 0:
                        raise Broken("vacuity: action %s never taken in SpanLifecycle (%s)" % (a, seen))
                ctx.extra["mc_action_transitions"] = {a: seen.get(a, 0) for a in ACTIONS}


def generate(ctx):
    thorough = ctx.tier == "thorough"
    behs, stats = [], {}
    jobs = [  # src, dom, procs, bounds, view, nxt, invs, init, simulate
        ("cover-attrs", (2, 2, 1, 1, 1, 1, 1, 1), "s", (2 if thorough else 1, 0, 0, 0, 0, 3 if thorough else 2), "View", "Next", "EmitDone", "Init", None),
        ("cover-events", (1, 2, 1, 1, 1, 1, 1, 1), "b", (0, 0, 0, 2, 2, 3 if thorough else 2), "View", "Next", "EmitDone", "Init", None),
        ("cover-procs", (1, 1, 1, 1, 1, 1, 1, 1), "sbs", (0, 0, 0, 0, 0, 4 if thorough else 3), "View", "Next", "EmitDone", "Init", None),
        ("witness", (1, 2, 1, 1, 1, 1, 1, 1), "sb", (2, 1, 1, 1, 2, 4), "View", "Next", "WitAll WitStop", "InitW", None),
    ]
    big = (6, 12, 5, 4, 3, 3, 2, 2)
    pcs = ["s", "b", "sb", "bs", "sbs", "bsb"] + (["ss", "bb", "ssb", "bbs", "sss", "bbb"] if thorough else [])
    for i, pc in enumerate(pcs):
        jobs.append(("walk-" + pc, big, pc, (3, 2, 2, 1000, 3, 60), "View", "NextSim", "EmitSim", "Init",
                     {"num": 150 if thorough else 35, "depth": 80}))

    def gen(j):
        src, dom, procs, bounds, view, nxt, invs, init, sim = j
        c = _cfg(ctx, "g-%s.cfg" % src, dom, procs, bounds, hist=True, init=init, nxt=nxt, view=view, invs=invs, props="")
        return j, tlc.tlc(MODULE, c, rundir=ctx.rundir.path, workers=4 if sim else 1, timeout_s=1200,   # BFS generation: 1 worker = deterministic
                          simulate=sim, seed=(ctx.seed * 31 + 7 + len(procs)) if sim else None, tag="gen-" + src)
    wl = {}
    with cf.ThreadPoolExecutor(max_workers=3) as ex:
        for (src, dom, procs, bounds, view, nxt, invs, init, sim), r in ex.map(gen, jobs):
            if src == "witness":
                if r.status not in ("invariant", "ok"):
                    raise Broken("witness generation failed: %s\n%s" % (r.status, r.out[-1500:]))
                ctx.add_tlc("witness run", r)
                for o in r.printed("BEH"):
                    if o["w"] not in wl:
                        wl[o["w"]] = len(o["steps"])
                        behs.append({"id": len(behs), "src": "Wit" + o["w"], "steps": o["steps"]})
                continue
            tlc.must_ok(r, "generation " + src)
            if not sim:
                ctx.add_tlc("generate " + src, r)
            seen = set()
            n = 0
            for b in r.printed("BEH"):
                k = json.dumps(b, sort_keys=True)
                if k in seen:
                    continue
                seen.add(k)
                n += 1
                behs.append({"id": len(behs), "src": src, "steps": b})
            stats[src] = n
    missing = [w for w in WITNESSES if w not in wl]
    if missing:
        raise Broken("witness conditions not reachable in the model (vacuity): %s" % missing)
    ctx.extra["witness_lengths"] = wl
    ctx.extra["behaviours_generated"] = stats
    return behs


def replay_behs(ctx, exe, behs, tag):
    path = ctx.rundir.file("beh-%s.ndjson" % tag)
    with open(path, "w") as f:
        for b in behs:
            f.write(json.dumps({"id": b["id"], "steps": b["steps"]}) + "\n")
    args = ["replay", path, ctx.seed]
    h = hrun.run_harness(exe, args, timeout=1500)
    out = h.json()
    summ = [o for o in out if o.get("summary")]
    if h.crashed or h.timed_out or not summ:
        if h.rc == 2 and not h.crashed:
            raise Broken("c04 harness failed rc=%s: %s" % (h.rc, h.err[-2000:]))
        hv = hrun.run_harness(exe, args + ["verbose"], timeout=1500)
        ids = [o["at"] for o in hv.json() if "at" in o]
        bad = ids[-1] if ids else None
        b = next((x for x in behs if x["id"] == bad), None)
        ctx.violation("real code crashed / hung (rc=%s) while replaying a TLC behaviour (src=%s): %s" % (
            h.rc, b and b["src"], h.err[-800:]), {"behaviour": b, "seed": ctx.seed, "stderr": h.err[-3000:]})
        return [o for o in out if "beh" in o], {"behaviours": len(ids), "steps": 0}
    return [o for o in out if "beh" in o], summ[0]


def classify(ctx, behs, problems):
    byid = {b["id"]: b for b in behs}
    shown = 0
    for o in problems:
        b = byid[o["beh"]]
        rep = {"behaviour": b, "seed": ctx.seed, "problem": o}
        step = o.get("got", {}).get("step")
        if o["kind"] == "alt" and o.get("dev"):
            ctx.deviation(o["dev"], "step %s (%s): %s" % (step, b["src"], o["what"]), rep)
            continue
        if shown < 8:
            st = b["steps"][step] if isinstance(step, int) and step < len(b["steps"]) else {}
            ctx.violation("step %s of a TLC behaviour (%s; exporters %s), op %s: %s" % (
                step, b["src"], o.get("got", {}).get("exporters"), json.dumps({k: v for k, v in st.items()
                                                                                if k not in ("snap", "cnt")}), o["what"]), rep)
        shown += 1
    if shown > 8:
        ctx.extra["violations_not_listed"] = shown - 8


def canary(ctx, exe, behs):
    """Binding check: corrupt one expected field of a behaviour -> the replayer must reject it."""
    pick = next((b for b in behs if b["src"] == "WitDupKeyInEvent"), None)
    if pick is None:
        raise Broken("canary: witness behaviour missing")
    n = 0
    for what in ("attr-value", "event-name", "status", "count", "recording", "link"):
        steps = json.loads(json.dumps(pick["steps"]))
        if what == "link":
            steps = json.loads(json.dumps(next(b for b in behs if b["src"] == "WitLinkWithAttrs")["steps"]))
        for st in steps:
            sn = st["snap"]
            if what == "attr-value" and sn:
                for e in sn["events"]:
                    e["attrs"] = [7 if v else 0 for v in e["attrs"]]     # a value id nobody wrote
            elif what == "event-name" and sn and sn["events"]:
                sn["events"][0]["name"] = 2
            elif what == "status" and sn:
                sn["status"] = [{"code": "Error", "desc": 1}]
            elif what == "link" and sn:
                sn["links"][0]["attrs"] = [0 for _ in sn["links"][0]["attrs"]]
        if what == "count":
            steps[-1]["cnt"][0] = {"lo": 2, "hi": 2}
        if what == "recording":
            steps[0]["rec"] = False
        probs, _ = replay_behs(ctx, exe, [{"id": 0, "src": "canary", "steps": steps}], "canary")
        if not any(p["kind"] == "mismatch" for p in probs):
            raise Broken("canary: a behaviour with corrupted expectation `%s` was NOT rejected by the replayer" % what)
        n += 1
    ctx.extra["canary_corruptions_rejected"] = n


TV_CFG = """CONSTANTS Keys = {%s} Vals = {%s} Names = {1,2,3,4,5,6} Kinds = {1,2,3,4,5} Ctxs = {1,2,3,4} Times = {1,2,3}
 Resources = {1,2} Scopes = {1,2,3} Procs <- P_%s
 MaxStartAttrs = 100 MaxLinks = 100 MaxLinkAttrs = 100 MaxEvents = 100000 MaxEvAttrs = 100 MaxOps = 100000
 Ghost = FALSE Dev = {%s} Hist = FALSE
INIT TInit
NEXT TNext
CONSTRAINT Progress
INVARIANT Report
POSTCONDITION Accepted
CHECK_DEADLOCK FALSE
"""
NKEYS, NVALS = 16, 40


def _tv_cfg(ctx, procs, known, name="tv"):
    p = ctx.rundir.file("%s-%s.cfg" % (name, procs))
    with open(p, "w") as f:
        f.write(TV_CFG % (_rng(NKEYS), _rng(NVALS), procs, ", ".join('"%s"' % d for d in sorted(known))))
    return p


def _report_rejections(ctx, res, procs, what):
    for rj in res["rejected"][:3]:
        ev, at = rj["events"], rj["at"]
        e = dict(ev[at]) if at < len(ev) and isinstance(ev[at], dict) else {}
        e.pop("got", None)
        ctx.violation("%s (Procs=%s): SpanLifecycleTrace rejects a real execution at event %d: %s" % (
            what, procs, at, json.dumps(e)), {"monitor": "SpanLifecycleTrace", "procs": procs, "events": ev, "at": at})
    for d in sorted(res["devused"]):
        ctx.deviation(d, "%s: accepted only with deviation %s" % (what, d), {"procs": procs, "seed": ctx.seed})


def trace_canary(ctx, lines, procs, known):
    """Binding check, code -> spec direction: one corrupted logged field must make the trace spec reject."""
    ex0 = [json.loads(x) for x in trace.split_executions(lines)[0]]
    fin = ex0[-1]
    done = False
    for g in fin["got"]:
        for i, v in enumerate(g[0]["attrs"]):
            if v and not done:
                g[0]["attrs"][i] = v % NVALS + 1
                done = True
    if not done:
        fin["got"][0][0]["name"] = fin["got"][0][0]["name"] % 6 + 1
    res = spantv.validate(ctx, "SpanLifecycleTrace", _tv_cfg(ctx, procs, known, "tvcan"), [json.dumps(e) for e in ex0],
                          parallel=1, tag="c04can", env=JENV)
    ctx.traces -= 1
    if not res["rejected"]:
        raise Broken("canary: a log with a corrupted exported attribute was ACCEPTED by SpanLifecycleTrace")
    ctx.extra["trace_canary_rejected_at_event"] = res["rejected"][0]["at"]


def record_and_validate(ctx, exe, known):
    thorough = ctx.tier == "thorough"
    total = {"executions": 0, "events": 0}
    plan = [("sbs", 80), ("b", 40)] if not thorough else [("sbs", 600), ("bsb", 400), ("b", 300), ("s", 300), ("sb", 300)]
    for i, (procs, n) in enumerate(plan):
        h = hrun.run_harness(exe, ["record", n, ctx.seed * 13 + i, procs, 20, 60, NKEYS, NVALS], timeout=1200)
        if h.crashed or h.timed_out:
            ctx.violation("real code crashed / hung in a random history (record mode, Procs=%s, seed %d): %s" % (
                procs, ctx.seed, h.err[-800:]), {"mode": "record", "procs": procs, "seed": ctx.seed, "stderr": h.err[-3000:],
                                                 "args": ["record", n, ctx.seed * 13 + i, procs, 20, 60, NKEYS, NVALS]})
            continue
        if h.rc != 0:
            raise Broken("c04 record failed rc=%s: %s" % (h.rc, h.err[-2000:]))
        lines = [ln for ln in h.lines if ln.startswith("{")]
        res = spantv.validate(ctx, "SpanLifecycleTrace", _tv_cfg(ctx, procs, known), lines, chunk=60, parallel=4,
                              tag="c04tv" + procs, timeout_s=900, env=JENV)
        total["executions"] += res["executions"]
        total["events"] += res["events"]
        _report_rejections(ctx, res, procs, "random history")
        if i == 0 and lines and not ctx.violations:
            trace_canary(ctx, lines, procs, known)
            ex0 = [json.loads(x) for x in trace.split_executions(lines)[0][:6]]
            for e in ex0:
                e.pop("got", None)
            ctx.sample({"kind": "random history on the real span, validated by SpanLifecycleTrace (exports omitted)", "events": ex0})
    ctx.extra["histories_validated"] = total["executions"]
    ctx.extra["history_events_validated"] = total["events"]


def concurrent_and_validate(ctx, known):
    """Several threads on one span, deterministic scheduler; TLC searches for a linearisation."""
    src = os.path.join(os.path.dirname(os.path.dirname(os.path.dirname(os.path.abspath(__file__)))), "harness", "c04_conc.cc")
    if not os.path.exists(src):
        ctx.extra["concurrent_clause"] = "not built"
        return
    thorough = ctx.tier == "thorough"
    exe = build.harness("c04_conc", ["c04_conc.cc"], "shim")
    total = 0
    for i, (procs, n) in enumerate([("sb", 400 if thorough else 60), ("s", 400 if thorough else 60)]):
        h = hrun.run_harness(exe, ["run", n, ctx.seed * 17 + i, procs, NKEYS, NVALS], timeout=1200, asan=False)
        if h.rc in (3, 4) or h.rc < 0 or h.timed_out:
            ctx.violation("several threads on one span: real execution %s (Procs=%s, seed %d): %s" % (
                "got stuck" if h.rc == 3 else "crashed (rc=%s)" % h.rc, procs, ctx.seed, (h.err or "")[-600:]),
                {"mode": "conc", "procs": procs, "seed": ctx.seed, "tail": h.lines[-30:],
                 "args": ["run", n, ctx.seed * 17 + i, procs, NKEYS, NVALS]})
            continue
        if h.rc != 0:
            raise Broken("c04_conc failed rc=%s: %s" % (h.rc, h.err[-2000:]))
        lines = [ln for ln in h.lines if ln.startswith("{")]
        res = spantv.validate(ctx, "SpanLifecycleTrace", _tv_cfg(ctx, procs, known, "tvc"), lines, chunk=40, parallel=4,
                              tag="c04conc" + procs, timeout_s=900, env=JENV)
        total += res["executions"]
        _report_rejections(ctx, res, procs, "several threads on one span")
        if i == 0 and lines:
            ex0 = [json.loads(x) for x in trace.split_executions(lines)[0][:10]]
            for e in ex0:
                e.pop("got", None)
            ctx.sample({"kind": "two/three threads on one span under the deterministic scheduler (call/ret log)", "events": ex0})
    ctx.extra["concurrent_executions_validated"] = total


def run(ctx):
    known = ctx.known_devs() & ALL_DEVS
    ctx.assumptions += [
        "values, keys, names are abstract ids in the spec; concretisation table in harness/c04_values.h (every AttributeValue alternative, edge instances) - a behaviour maps its value ids injectively to pool entries",
        "ownership is made observable by overwriting and freeing every caller buffer right after the call (plus ASan); memory safety itself is not decided by the spec",
        "timestamps the caller did not supply, attribute order, duration unless both steady times are explicit, and status when last-set and the OpenTelemetry rule differ are don't-cares",
        "TLC results are exhaustive for the stated small constants only; larger instances are sampled by random walks / random histories",
        "the several-threads clause is explored under sequentially consistent schedules of the deterministic scheduler only",
    ]
    ctx.extra["rule"] = ("states/transitions: TLC (model checking + generation + trace validation). traces_validated: TLC behaviours replayed on "
                         "the real SDK + random histories / concurrent executions validated by the trace spec. distinct_nontrivial: distinct "
                         "behaviours that end the span and export it")
    exe = build.harness("c04_span", ["c04_span.cc"], "asan")
    log("C04: harness built at %.0fs" % ctx.timer.s())
    model_check(ctx)
    log("C04: model checking done at %.0fs" % ctx.timer.s())
    behs = generate(ctx)
    log("C04: %d behaviours generated at %.0fs" % (len(behs), ctx.timer.s()))
    probs, summ = replay_behs(ctx, exe, behs, "all")
    classify(ctx, behs, probs)
    if not ctx.violations:          # (on a tree that already violates the property a canary proves nothing)
        canary(ctx, exe, behs)
    ctx.traces += summ.get("behaviours", 0)
    ctx.extra["replayed"] = {k: v for k, v in summ.items() if k != "value_alternatives_used"}
    used = summ.get("value_alternatives_used")
    if used is not None:
        ctx.extra["value_alternatives_used"] = dict(zip(VT_NAMES, used))
        miss = [n for n, u in zip(VT_NAMES, used) if u == 0]
        if miss:
            raise Broken("vacuity: AttributeValue alternatives never handed to the SDK: %s" % miss)
    ops = {}
    for b in behs:
        post = False
        for s in b["steps"]:
            key = s["op"] + ("@ended" if post and s["op"] not in ("finish",) else "")
            ops[key] = ops.get(key, 0) + 1
            if not s["rec"]:
                post = True
        ctx.distinct.add(json.dumps(b["steps"], sort_keys=True))
    ctx.extra["replay_op_counts"] = ops
    for need in ("set@ended", "event@ended", "status@ended", "name@ended", "end@ended", "flush@ended"):
        if not ops.get(need):
            raise Broken("vacuity: no replayed behaviour contains %s" % need)
    for src in ("WitSetAfterEnd", "walk-sbs"):
        b = next((x for x in behs if x["src"] == src), None)
        if b:
            ctx.sample({"kind": "TLC behaviour replayed on the real SDK (%s); snapshots omitted" % src,
                        "steps": [{k: v for k, v in s.items() if k != "snap"} for s in b["steps"][:8]]})
    log("C04: replay done at %.0fs" % ctx.timer.s())
    record_and_validate(ctx, exe, known)
    log("C04: random histories validated at %.0fs" % ctx.timer.s())
    concurrent_and_validate(ctx, known)
    ctx.evaluations = ctx.traces


def replay(ctx, path):
    rep = json.load(open(path))["replay"]
    if rep.get("monitor"):
        lines = [json.dumps(e) for e in rep["events"]]
        res = spantv.validate(ctx, "SpanLifecycleTrace", _tv_cfg(ctx, rep["procs"], ctx.known_devs() & ALL_DEVS), lines,
                              parallel=1, tag="replay", env=JENV)
        for rj in res["rejected"]:
            ctx.violation("replayed log rejected at event %d" % rj["at"], rep)
        ctx.sample({"kind": "replayed log (first events)", "events": [{k: v for k, v in e.items() if k != "got"}
                                                                      for e in rep["events"][:6] if isinstance(e, dict)]})
        return
    if rep.get("mode") in ("conc", "record") and rep.get("args"):
        # a crash / hang of the real code: run the same seeded harness batch again, validate what it logs
        conc = rep["mode"] == "conc"
        exe = build.harness("c04_conc", ["c04_conc.cc"], "shim") if conc else build.harness("c04_span", ["c04_span.cc"], "asan")
        h = hrun.run_harness(exe, rep["args"], timeout=1200, asan=not conc)
        ctx.traces += 1
        ctx.sample({"kind": "re-run of the harness batch that crashed", "args": rep["args"]})
        if h.crashed or h.timed_out or h.rc in (3, 4):
            ctx.violation("re-run: real code crashed / got stuck again (rc=%s): %s" % (h.rc, (h.err or "")[-600:]), rep)
            return
        lines = [ln for ln in h.lines if ln.startswith("{")]
        res = spantv.validate(ctx, "SpanLifecycleTrace", _tv_cfg(ctx, rep["procs"], ctx.known_devs() & ALL_DEVS), lines,
                              chunk=60, parallel=4, tag="replay", env=JENV)
        _report_rejections(ctx, res, rep["procs"], "re-run")
        return
    b = rep.get("behaviour")
    if not b:
        raise Broken("replay file has no behaviour; re-run the check with the recorded seed")
    ctx.seed = rep.get("seed", ctx.seed)
    exe = build.harness("c04_span", ["c04_span.cc"], "asan")
    probs, summ = replay_behs(ctx, exe, [b], "replay")
    ctx.traces += 1
    ctx.sample({"kind": "replayed behaviour", "steps": [{k: v for k, v in s.items() if k != "snap"} for s in b["steps"][:8]]})
    classify(ctx, [b], probs)
