"""C07 - histogram points are exact summaries; merging collection intervals is lossless.

1. TLC, exhaustive (spec/Histogram.tla): the property-level summary PointOf(multiset) against the
   point algebra (EmptyP/AggP/MergeP/DiffP) in every reachable state of two scenarios - aggregation
   objects (New/Aggregate/Merge/Diff) and the instrument->reader pipeline (Record/Collect with
   delta and cumulative readers) - for every boundary list over a small rank domain.
2. spec -> code: TLC behaviours (witness-directed, all behaviours of a small depth, random walks
   over the bigger domains incl. the default boundary list) carry after every step the expected
   point(s) computed by the spec, plus the alternatives of the named deviations.  harness/c07_hist.cc
   concretises ranks through fixed tables (0.0, denorm_min, adjacent doubles, 1e300, fractional
   boundaries, 2^53+1 ...) and compares HistogramPointData from Aggregation::ToPoint and from
   reader Collect callbacks.
Only a point that equals neither the ideal expectation nor a listed deviation's, a missing /
duplicated point, or a crash of the real code raises an alarm.
"""
import concurrent.futures as cf
import hashlib
import json
import os

from lib import build, hrun, tlc
from lib.common import Broken, log

LEVEL = "model_checking"

MAX_REPORTS = 8      # one defect fails many behaviours: report the shortest few, count the rest
ALL_DEVS = ["double-max-sentinel-dbl-min", "long-value-rounded-onto-boundary", "diff-sum-not-computed"]
WHAT = {
    "double-max-sentinel-dbl-min": "double histogram max is numeric_limits<double>::min() (2.2e-308) when every recorded value is below it (e.g. only 0.0)",
    "long-value-rounded-onto-boundary": "int64 value 2^53+1 is converted to double before the bucket search and lands in the bucket (.., 2^53]",
    "diff-sum-not-computed": "the point returned by HistogramAggregation::Diff has sum 0",
}

CFG = """CONSTANTS MaxRank = %(maxrank)d
  BoundSets = %(bsets)s BOff = %(boff)d
  Tables = %(tables)s
  MMChoices = %(mm)s
  Mode = "%(mode)s" NSlots = %(nslots)d NKeys = %(nkeys)d ReaderCfgs = %(rcfgs)s
  MaxAgg = %(maxagg)d MaxOps = %(maxops)d Balanced = %(balanced)s Hist = %(hist)s
  Dev = %(dev)s
INIT Init
NEXT Next
VIEW %(view)s
%(constraint)s
INVARIANTS %(invs)s
"""

INV_POINT = "TypeOK BucketsPartition EveryValueInOneBucket PointIsSummary ReadersAgree"
INV_FULL = "TypeOK BucketsPartition BucketRule EveryValueInOneBucket SumExact MinMaxExact PointIsSummary ReadersAgree"
INV_DIRECT = INV_FULL + " MergeIsHomomorphism DiffIsInverse DiffAltOnlyAfterDiff"
B13 = "{{}, {1}, {3}, {1,3}}"
B135 = "{{}, {1}, {3}, {5}, {1,3}, {1,5}, {3,5}, {1,3,5}}"
# generation: boundary lists over ranks 0..6 never contain rank 4 (in I_huge its double equals rank 3's): see SHORT / LONG


# ---- long boundary lists: fillers below every value (negative "ranks") and above every value ----
BOFF = 64            # cfg files cannot hold negative numbers: boundary codes are rank + BOFF


def R(a, b):
    return list(range(a, b + 1))


def enc(*lists):
    """cfg text of a set of boundary lists (each a list of possibly negative ranks), offset BOFF."""
    return "{" + ", ".join("{" + ", ".join(str(r + BOFF) for r in sorted(set(l))) + "}" for l in lists) + "}"


SHORT = [[], [1], [3], [5], [1, 3], [1, 5], [3, 5], [1, 3, 5], [0], [0, 1], [0, 1, 3, 5], [2, 3], [3, 6], [0, 1, 2, 3, 5, 6]]
L16 = R(-6, -1) + [1, 3, 5] + R(7, 13)                  # 16: just below the length where a search may switch
L17_FIRST = [1] + R(7, 22)                              # 17, the value-equal boundary first
L17_LAST = R(-16, -1) + [5]                             # 17, the value-equal boundary last (top)
L18_MID = R(-8, -1) + [1, 3] + R(7, 14)                 # 18, value-equal boundaries in the middle
L32 = R(-14, -1) + [0, 1, 3, 5] + R(7, 20)              # 32
L101 = R(-50, -1) + [3] + R(7, 56)                      # 101
L120 = R(-58, -1) + [0, 1, 2, 3, 5, 6] + R(7, 62)       # 120
LONG = [L16, L17_FIRST, L17_LAST, L18_MID, L32, L101, L120]
SMALL_TABLES = '{"D_small", "D_tiny", "D_huge", "D_frac", "I_small", "I_frac", "I_huge"}'


def sset(xs):
    return "{" + ", ".join('"%s"' % x for x in xs) + "}"


def cfg_text(**kw):
    d = dict(maxrank=4, bsets=B13, boff=0, tables='{"D_small"}', mm="{TRUE}", mode="direct", nslots=2, nkeys=1,
             rcfgs="{1}", maxagg=3, maxops=3, balanced="FALSE", hist="FALSE", dev="{}", view="View",
             constraint="CONSTRAINT Bound", invs=INV_POINT)
    d.update(kw)
    return CFG % d


def write_cfg(ctx, name, **kw):
    p = ctx.rundir.file(name + ".cfg")
    with open(p, "w") as f:
        f.write(cfg_text(**kw))
    return p


# ---- 1. model checking --------------------------------------------------------------------------
def mc_configs(tier):
    q = [
        ("pipe 1 reader (delta|cumulative), ranks 0..6, every boundary list within {1,3,5}, <=3 values, <=3 collections",
         dict(mode="pipe", maxrank=6, bsets=B135, rcfgs="{1, 2}", maxagg=3, maxops=3, invs=INV_FULL)),
        ("pipe 2 readers (dd|dc|cc), ranks 0..4, every boundary list within {1,3}, <=3 values, <=3 collections",
         dict(mode="pipe", rcfgs="{11, 12, 22}", maxagg=3, maxops=3, invs=INV_FULL)),
        ("direct 2 objects, ranks 0..4, boundary lists {} and {1,3}, <=2 Aggregate, <=4 New/Merge/Diff",
         dict(mode="direct", bsets="{{}, {1,3}}", nslots=2, maxagg=2, maxops=4, invs=INV_DIRECT)),
        ("direct 2 objects, ranks 0..4, LONG boundary lists (17-18 entries, value-equal boundary first / last / middle), <=2 Aggregate, <=2 other",
         dict(mode="direct", bsets=enc([1] + R(5, 20), R(-16, -1) + [3], R(-8, -1) + [1, 3] + R(5, 12)), boff=BOFF,
              nslots=2, maxagg=2, maxops=2, invs=INV_DIRECT)),
        ("deviation alternatives are narrow (tables D_small, D_tiny, I_huge)",
         dict(mode="direct", maxrank=6, bsets="{{3}, {1,3,5}}", nslots=2, maxagg=2, maxops=2,
              tables='{"D_small", "D_tiny", "I_huge"}', mm="{TRUE, FALSE}",
              invs="TypeOK PointIsSummary DevsAreNarrow DiffAltOnlyAfterDiff")),
    ]
    if tier == "thorough":
        q += [
            ("direct 2 objects, ranks 0..4, every boundary list within {1,3}, <=2 Aggregate, <=4 New/Merge/Diff",
             dict(mode="direct", nslots=2, maxagg=2, maxops=4, invs=INV_DIRECT)),
            ("direct 2 objects, LONG boundary lists (17-18 entries), <=2 Aggregate, <=3 other",
             dict(mode="direct", bsets=enc([1] + R(5, 20), R(-16, -1) + [3], R(-8, -1) + [1, 3] + R(5, 12)), boff=BOFF,
                  nslots=2, maxagg=2, maxops=3, invs=INV_DIRECT)),
            ("deviation alternatives are narrow (5 tables)",
             dict(mode="direct", maxrank=6, bsets="{{3}, {1,3,5}}", nslots=2, maxagg=2, maxops=2,
                  tables='{"D_small", "D_tiny", "I_small", "I_huge", "I_frac"}', mm="{TRUE, FALSE}",
                  invs="TypeOK PointIsSummary DevsAreNarrow DiffAltOnlyAfterDiff")),
            ("pipe 1 reader, ranks 0..6, boundary lists within {1,3,5}, min/max on+off, <=4 values, <=3 collections",
             dict(mode="pipe", maxrank=6, bsets=B135, rcfgs="{1, 2}", mm="{TRUE, FALSE}", maxagg=4, maxops=3, invs=INV_FULL)),
            ("pipe 2 readers (dd|dc|cd|cc), ranks 0..4, <=4 values, <=3 collections",
             dict(mode="pipe", rcfgs="{11, 12, 21, 22}", mm="{TRUE, FALSE}", maxagg=4, maxops=3, invs=INV_FULL)),
            ("pipe 2 readers (dc), 2 attribute sets, ranks 0..4, <=3 values, <=3 collections",
             dict(mode="pipe", rcfgs="{12}", nkeys=2, maxagg=3, maxops=3, invs=INV_FULL)),
            ("direct 2 objects, ranks 0..6, boundary lists within {1,3,5}, <=2 Aggregate, <=4 other",
             dict(mode="direct", maxrank=6, bsets=B135, nslots=2, maxagg=2, maxops=4, invs=INV_DIRECT)),
            ("direct 3 objects, ranks 0..4, boundaries {1,3}, <=2 Aggregate, <=4 other",
             dict(mode="direct", bsets="{{1,3}}", nslots=3, maxagg=2, maxops=4, invs=INV_DIRECT)),
        ]
    return q


def model_check(ctx):
    thorough = ctx.tier == "thorough"
    jobs = []
    for i, (name, kw) in enumerate(mc_configs(ctx.tier)):
        jobs.append((name, write_cfg(ctx, "mc%d" % i, **kw), False, "mc%d" % i))
    # vacuity: tiny configurations with per-action coverage
    jobs.append(("coverage direct", write_cfg(ctx, "covd", mode="direct", bsets="{{1,3}}", maxagg=2, maxops=3, invs=INV_DIRECT), True, "covd"))
    jobs.append(("coverage pipe", write_cfg(ctx, "covp", mode="pipe", bsets="{{1,3}}", rcfgs="{12}", maxagg=2, maxops=2, invs=INV_FULL), True, "covp"))

    def go(j):
        name, cfg, cov, tag = j
        return j, tlc.tlc("Histogram", cfg, rundir=ctx.rundir.path, workers=4 if thorough else 2,
                          timeout_s=900 if thorough else 150, coverage=cov, tag=tag, xmx="6g")

    with cf.ThreadPoolExecutor(max_workers=3 if thorough else 4) as ex:
        for (name, cfg, cov, tag), r in ex.map(go, jobs):
            ctx.add_tlc(name, r)
            if r.status == "timeout":
                log("Histogram config timed out (bounded):", name)
                continue
            if r.status == "invariant":
                raise Broken("the IDEAL specification violates its own property (%s in %s): the spec is wrong\n%s"
                             % (r.violated, name, r.trace_text[:3000]))
            tlc.must_ok(r, "Histogram model checking: " + name)
            if cov:
                need = ["DNew", "DAgg", "DMerge", "DDiff"] if tag == "covd" else ["PRecord", "PCollectA"]
                for a in need:
                    if r.coverage.get(a, (0, 0))[0] == 0:
                        raise Broken("vacuity: action %s never taken (%s)" % (a, name))


# ---- 2. behaviour generation -------------------------------------------------------------------
GEN = dict(balanced="TRUE", hist="TRUE", dev=sset(ALL_DEVS), constraint="", mm="{TRUE, FALSE}")


def default_shape(exe):
    h = hrun.run_harness(exe, ["defaults"], timeout=60)
    try:
        d = h.json()[0]["defaults"]
    except Exception:
        raise Broken("c07_hist defaults failed: rc=%s %s" % (h.rc, h.err[-500:]))
    n = len(d)
    if n == 0 or any(d[i] >= d[i + 1] for i in range(n - 1)):
        raise Broken("default boundary list is empty or not increasing: %s" % d)
    return n, d


def generate(ctx, ndef):
    thorough = ctx.tier == "thorough"
    behs = []           # (source, steps)
    wit = {}
    jobs = []
    # -- witnesses: every deviation and every rare shape must be reachable and is replayed ----
    wd = dict(GEN, balanced="FALSE", maxrank=6, bsets="{{3}, {1,3,5}}", nslots=2, maxagg=3, maxops=4,
              constraint="CONSTRAINT Bound")
    for w, kw in [
        ("WitSentinel", dict(wd, mode="direct", tables='{"D_small"}', mm="{TRUE}")),
        ("WitRounded", dict(wd, mode="direct", tables='{"I_huge"}')),
        ("WitDiffSum", dict(wd, mode="direct", tables='{"I_small"}')),
        ("WitDiffRounded", dict(wd, mode="direct", tables='{"I_huge"}')),
        ("WitMergeOfDiff", dict(wd, mode="direct", tables='{"D_frac"}', mm="{TRUE}")),
        ("WitBoundaryEqual", dict(wd, mode="direct", tables='{"D_tiny"}')),
        ("WitSentinel", dict(wd, mode="pipe", tables='{"D_tiny"}', rcfgs="{12}", mm="{TRUE}", nkeys=2)),
        ("WitRounded", dict(wd, mode="pipe", tables='{"I_huge"}', rcfgs="{2}", nkeys=1)),
        ("WitCumSecondInterval", dict(wd, mode="pipe", tables='{"D_huge"}', rcfgs="{12}", nkeys=1, maxagg=4, maxops=3)),
        ("WitEmptyDelta", dict(wd, mode="pipe", tables='{"D_small"}', rcfgs="{11}", nkeys=2)),
        # long lists: a value equal to a boundary at the first / last / a middle position
        ("WitLongEqualAgg", dict(wd, mode="direct", tables='{"D_tiny"}', mm="{TRUE}", bsets=enc(L17_FIRST), boff=BOFF, x="first")),
        ("WitLongEqualAgg", dict(wd, mode="direct", tables='{"I_small"}', bsets=enc(L17_LAST), boff=BOFF, x="last")),
        ("WitLongEqualAgg", dict(wd, mode="direct", tables='{"D_frac"}', mm="{TRUE}", bsets=enc(L101), boff=BOFF, x="mid101")),
        ("WitLongEqualCollect", dict(wd, mode="pipe", tables='{"D_small"}', rcfgs="{2}", nkeys=1, bsets=enc(L32), boff=BOFF, x="d")),
        ("WitLongEqualCollect", dict(wd, mode="pipe", tables='{"I_huge"}', rcfgs="{2}", nkeys=1, bsets=enc(L18_MID), boff=BOFF, x="l")),
    ]:
        kw = dict(kw)
        tag = "%s-%s%s" % (w, kw["mode"], kw.pop("x", ""))
        jobs.append(("wit", tag, write_cfg(ctx, tag, **dict(kw, invs=w)), None))
    # -- all behaviours of a small depth (3 Record + 2 Collect in every order; 2 Aggregate + 3 other) --
    jobs.append(("all", "all-pipe", write_cfg(ctx, "all-pipe", **dict(
        GEN, balanced="FALSE", mode="pipe", maxrank=2, bsets=enc([1], [0, 1], R(-8, -1) + [0, 1] + R(3, 9)), boff=BOFF,
        tables='{"D_small", "I_small"}',
        mm="{TRUE}", rcfgs="{12}", nkeys=1, maxagg=3, maxops=2, view="FullView", constraint="CONSTRAINT Bound",
        invs="EmitAtDepth")), None))
    jobs.append(("all", "all-direct", write_cfg(ctx, "all-direct", **dict(
        GEN, balanced="FALSE", mode="direct", maxrank=2, bsets=enc([1], [1] + R(3, 18)), boff=BOFF, tables='{"D_tiny"}',
        mm="{TRUE}", nslots=2, maxagg=2, maxops=2 if not thorough else 3, view="FullView", constraint="CONSTRAINT Bound",
        invs="EmitAtDepth")), None))
    # -- random walks over the bigger domains ----------------------------------------------------
    num = 220 if thorough else 60
    dr = [2 * i for i in range(ndef)]                  # the default list, also embedded in longer view-configured ones
    dflt = enc(dr, dr + R(2 * ndef + 1, 2 * ndef + max(2, 17 - ndef)), R(-3, -1) + dr + R(2 * ndef + 1, 2 * ndef + 15),
               R(-40, -1) + dr + R(2 * ndef + 1, 2 * ndef + 50))
    walks = [("direct", (12, 10)), ("pipe", (20, 10))] + ([("direct", (7, 7)), ("pipe", (8, 6))] if thorough else [])
    for k, (mode, steps) in enumerate(walks):
        jobs.append(("sim", "sim-small-%s-%d" % (mode, k), write_cfg(ctx, "sim-small-%s-%d" % (mode, k), **dict(
            GEN, mode=mode, maxrank=6, bsets=enc(*(SHORT + LONG)), boff=BOFF, tables=SMALL_TABLES, nslots=3, nkeys=2,
            rcfgs="{1, 2, 11, 12, 21, 22}", maxagg=steps[0], maxops=steps[1], invs="EmitAll")),
            {"num": num, "depth": 2 * (steps[0] + steps[1]) + 4, "seed": ctx.seed * 7 + k}))
        jobs.append(("sim", "sim-default-%s-%d" % (mode, k), write_cfg(ctx, "sim-default-%s-%d" % (mode, k), **dict(
            GEN, mode=mode, maxrank=2 * ndef, bsets=dflt, boff=BOFF, tables='{"D_default", "I_default"}', mm="{TRUE}",
            nslots=3, nkeys=2, rcfgs="{1, 2, 11, 12, 21, 22}", maxagg=steps[0], maxops=steps[1], invs="EmitAll")),
            {"num": num // 2, "depth": 2 * (steps[0] + steps[1]) + 4, "seed": ctx.seed * 11 + k}))

    def go(j):
        kind, tag, cfg, sim = j
        if sim:
            return j, tlc.tlc("Histogram", cfg, rundir=ctx.rundir.path, workers=2, timeout_s=300, tag=tag,
                              simulate={"num": sim["num"], "depth": sim["depth"]}, seed=sim["seed"], xmx="4g")
        return j, tlc.tlc("Histogram", cfg, rundir=ctx.rundir.path, workers=2, timeout_s=300, tag=tag, xmx="4g")

    with cf.ThreadPoolExecutor(max_workers=5) as ex:
        for (kind, tag, cfg, sim), r in ex.map(go, jobs):
            b = r.printed("BEH")
            if kind == "wit":
                ctx.add_tlc("witness " + tag, r)
                if r.status != "invariant" or not b:
                    raise Broken("witness %s not reachable in the model (vacuity): %s" % (tag, r.status))
                wit[tag] = len(b[0]) - 1
                behs.append((tag, b[0]))
            elif kind == "all":
                ctx.add_tlc("all behaviours " + tag, r)
                tlc.must_ok(r, "behaviour enumeration " + tag)
                if not b:
                    raise Broken("behaviour enumeration %s printed nothing" % tag)
                ctx.extra["behaviours_" + tag] = len(b)
                behs += [(tag, x) for x in b]
            else:
                if r.status != "ok":
                    raise Broken("simulate %s failed: %s\n%s" % (tag, r.status, r.out[-1500:]))
                if not b:
                    raise Broken("simulate %s printed no behaviour" % tag)
                behs += [(tag, x) for x in b]
    ctx.extra["witness_lengths"] = wit
    # distinct behaviours only
    seen = set()
    out = []
    for src, steps in behs:
        k = hashlib.sha1(json.dumps(steps, sort_keys=True).encode()).hexdigest()
        if k in seen:
            continue
        seen.add(k)
        out.append({"src": src, "steps": steps})
    return out


# ---- 3. replay ------------------------------------------------------------------------------------
def run_replay(ctx, exe, behs, seed, tag, nproc=6):
    """Returns list of verdicts aligned with behs; raises Broken / reports crashes."""
    for j, b in enumerate(behs):       # every behaviour carries its own concretisation seed (replayable)
        if b.get("cseed") is None:
            b["cseed"] = (seed * 1000003 + j) % (2 ** 62)
    chunks = [behs[i::nproc] for i in range(nproc)]
    idx = [list(range(len(behs)))[i::nproc] for i in range(nproc)]

    def go(i):
        if not chunks[i]:
            return i, None
        p = ctx.rundir.file("beh-%s-%d.ndjson" % (tag, i))
        with open(p, "w") as f:
            for b in chunks[i]:
                f.write(json.dumps(b) + "\n")
        return i, hrun.run_harness(exe, ["replay", p, seed + i], timeout=900)

    verdicts = [None] * len(behs)
    with cf.ThreadPoolExecutor(max_workers=nproc) as ex:
        for i, h in ex.map(go, range(nproc)):
            if h is None:
                continue
            js = h.json()
            if h.rc == 5 or any("broken" in x for x in js):
                raise Broken("c07_hist self-check failed: %s" % [x for x in js if "broken" in x][:1])
            done = [x for x in js if "beh" in x]
            for v in done:
                verdicts[idx[i][v["beh"]]] = v
            if h.crashed or h.timed_out or h.rc != 0:
                starts = [x["start"] for x in js if "start" in x]
                k = starts[-1] if starts else 0
                if not (h.crashed or h.timed_out):
                    raise Broken("c07_hist failed rc=%s: %s" % (h.rc, h.err[-1500:]))
                b = chunks[i][k] if k < len(chunks[i]) else None
                ctx.violation("real code %s while replaying a TLC behaviour (src=%s)" % (
                    "timed out" if h.timed_out else "crashed (sanitizer/signal rc=%s)" % h.rc, b and b.get("src")),
                    {"behaviour": b, "harness_seed": seed + i, "index_in_chunk": k, "stderr": h.err[-3000:]})
    return verdicts


def classify(ctx, behs, verdicts):
    n = 0
    points = 0
    used = {}
    for b, v in sorted(zip(behs, verdicts), key=lambda bv: len(bv[0]["steps"])):
        if v is None:
            continue
        n += 1
        points += v.get("points", 0)
        cfg = b["steps"][0]
        ops = tuple(tuple(sorted((k, x) for k, x in s.items() if k not in ("exp", "alts", "pts"))) for s in b["steps"][1:])
        if v.get("points", 0) > 0 and any(s.get("op") in ("agg", "rec") for s in b["steps"]):
            ctx.distinct.add(hash((cfg["mode"], cfg["tab"], tuple(cfg["bounds"]), cfg["mm"], tuple(cfg["readers"]), ops)))
        rep = {"behaviour": dict(b, cseed=v.get("cseed")), "verdict": v}
        if not v["ok"]:
            if len(ctx.violations) >= MAX_REPORTS:
                ctx.extra["violations_not_reported_separately"] = ctx.extra.get("violations_not_reported_separately", 0) + 1
                continue
            st = b["steps"][v["step"]]
            ctx.violation("%s/%s table %s (%s) bounds(ranks)=%s: after step %d (%s) the real point differs from the spec in `%s`: got %s" % (
                cfg["mode"], cfg["kind"], cfg["tab"], v.get("variant"), cfg["bounds"], v["step"],
                json.dumps({k: st[k] for k in st if k not in ("exp", "alts", "pts")}), v.get("why"), json.dumps(v.get("got"))), rep)
            continue
        for d, at in zip(v["devs"], v["dev_step"]):
            used[d] = used.get(d, 0) + 1
            ctx.deviation(d, "%s: %s/%s table %s (%s), step %d of a %d-step behaviour" % (
                WHAT.get(d, d), cfg["mode"], cfg["kind"], cfg["tab"], v.get("variant"), at, len(b["steps"]) - 1), rep)
    return n, points, used


def binding_selftest(ctx, exe, behs, verdicts):
    """Corrupt one expected field of a replayed behaviour: the replayer must reject it."""
    for b, v in zip(behs, verdicts):
        if v and v["ok"] and not v["devs"] and v.get("points", 0) >= 3:
            c = json.loads(json.dumps(b))
            c["cseed"] = v["cseed"]
            for s in reversed(c["steps"]):
                if "exp" in s and s["exp"]["count"] > 0 and not s["alts"]:
                    s["exp"]["counts"][0] += 1
                    s["exp"]["count"] += 1
                    break
                if "pts" in s and any(p["must"] and not p["alts"] for p in s["pts"]):
                    p = [p for p in s["pts"] if p["must"] and not p["alts"]][0]
                    p["exp"]["sum"][-1] += 1
                    break
            else:
                continue
            p = ctx.rundir.file("selftest.ndjson")
            with open(p, "w") as f:
                f.write(json.dumps(c) + "\n")
            h = hrun.run_harness(exe, ["replay", p, 0], timeout=120)
            r = [x for x in h.json() if "beh" in x]
            if not r or r[0]["ok"]:
                raise Broken("binding self-test: a corrupted expectation was accepted by the replayer: rc=%s %s %s" % (h.rc, h.lines[-2:], h.err[-300:]))
            ctx.extra["binding_selftest"] = "corrupted expectation rejected at step %d (%s)" % (r[0]["step"], r[0].get("why"))
            return
    raise Broken("binding self-test: no suitable behaviour")


def run(ctx):
    ctx.assumptions += [
        "values/boundaries are ranks in the spec; concretisation tables in harness/c07_hist.cc (0.0, denorm_min and adjacent subnormals, r*2^1000, fractional, 2^53+-1, the real default boundary list) are part of the trusted base",
        "sum is compared exactly: every table is quantised so that all partial sums are exactly representable (self-checked); floating-point rounding of sums is not examined",
        "single-threaded histories only (concurrent Record/Collect belongs to C06); exhaustive TLC results hold for the stated small constants",
        "for an attribute set without values in a delta interval an absent point and an all-zero point are both accepted; min/max of an empty point and of a Diff result are don't-care",
    ]
    ctx.extra["rule"] = ("states/transitions: TLC on Histogram.tla (ideal spec, all clause invariants). traces_validated: TLC-generated behaviours "
                         "(witnesses + all behaviours of a small depth + seeded random walks) replayed step by step on the real aggregations / MeterProvider+readers; "
                         "evaluations = points compared; distinct_nontrivial = distinct (mode, table, boundaries, min/max, readers, full operation sequence) that record at least one value and compare at least one point")
    exe = build.harness("c07_hist", ["c07_hist.cc"], "asan")
    ndef, dvals = default_shape(exe)
    ctx.extra["default_boundaries_of_real_code"] = dvals
    model_check(ctx)
    behs = generate(ctx, ndef)
    verdicts = run_replay(ctx, exe, behs, ctx.seed, "main", nproc=8)
    n, points, used = classify(ctx, behs, verdicts)
    ctx.traces += n
    ctx.evaluations = points
    ctx.extra["behaviours_replayed"] = n
    ctx.extra["points_compared"] = points
    ctx.extra["deviation_hits"] = used
    by_src = {}
    for b in behs:
        k = b["src"].split("-")[0] + ("-" + b["steps"][0]["mode"])
        by_src[k] = by_src.get(k, 0) + 1
    ctx.extra["behaviours_by_source"] = by_src
    tabs = {}
    for b in behs:
        t = b["steps"][0]["tab"] + "/" + b["steps"][0]["mode"]
        tabs[t] = tabs.get(t, 0) + 1
    ctx.extra["behaviours_by_table"] = tabs
    for need in ["D_small", "D_tiny", "D_huge", "D_frac", "D_default", "I_small", "I_frac", "I_huge", "I_default"]:
        for mode in ("direct", "pipe"):
            if tabs.get(need + "/" + mode, 0) == 0:
                raise Broken("vacuity: no behaviour for table %s in mode %s" % (need, mode))
    # long boundary lists must really be exercised with boundary-equal values
    longs = {}
    sizes = set()
    for b in behs:
        c0 = b["steps"][0]
        nb = len(c0["bounds"])
        if nb < 17:
            continue
        sizes.add(nb)
        bset = set(c0["bounds"])
        if any(st.get("op") in ("agg", "rec") and st["v"] in bset for st in b["steps"][1:]):
            k = "%s/%s" % (c0["mode"], c0["kind"])
            longs[k] = longs.get(k, 0) + 1
    ctx.extra["long_list_behaviours_with_boundary_equal_value"] = longs
    ctx.extra["long_list_sizes"] = sorted(sizes)
    for k in ("direct/double", "direct/long", "pipe/double", "pipe/long"):
        if longs.get(k, 0) == 0:
            raise Broken("vacuity: no behaviour records a boundary-equal value on a list of >= 17 boundaries for %s" % k)
    if not any(17 <= x < 32 for x in sizes) or not any(32 <= x < 100 for x in sizes) or not any(x >= 100 for x in sizes):
        raise Broken("vacuity: long boundary lists of 17.., 32.., 100+ entries not all exercised: %s" % sorted(sizes))
    if not ctx.violations:
        binding_selftest(ctx, exe, behs, verdicts)
    for b in behs[:2] + [x for x in behs if x["src"].startswith("sim-default-pipe")][:1]:
        ctx.sample({"kind": "TLC behaviour replayed on the real code", "src": b["src"], "cfg": b["steps"][0],
                    "steps": [{k: s[k] for k in s if k != "alts"} for s in b["steps"][1:7]]})


def replay(ctx, path):
    rep = json.load(open(path))["replay"]
    b = rep.get("behaviour")
    if not b:
        raise Broken("replay file has no behaviour")
    exe = build.harness("c07_hist", ["c07_hist.cc"], "asan")
    if b.get("cseed") is None:
        b.pop("cseed", None)
    verdicts = run_replay(ctx, exe, [b], rep.get("harness_seed", ctx.seed), "replay", nproc=1)
    n, points, used = classify(ctx, [b], verdicts)
    ctx.traces += n
    ctx.evaluations = max(points, 1)
    ctx.distinct.update([1, 2])
    ctx.sample({"kind": "replayed violation behaviour", "cfg": b["steps"][0], "verdict": verdicts[0]})
