"""C01 — batch processors hand every accepted span/log to the exporter exactly once.

* TLC, Level B (spec/BatchProcessor.tla, span and log variants, ideal and as-implemented): ExportOnce,
  Order, NoPhantom, DroppedNotExported, NoLoss, ShutdownComplete, QueueBounded in every reachable
  state of every interleaving of producers, worker, ForceFlush and Shutdown (small constants).
* code -> spec: the unmodified BatchSpanProcessor / BatchLogRecordProcessor run under the
  deterministic scheduler (random, PCT, delay-bounded DFS; scenarios drawn from VERIF_SEED); every
  execution's observable event log is validated by the Level-A monitor spec/BatchMonitor.tla with
  Check = {"C01"}: exactly-once, per-producer order, legitimate drops only, nothing lost at
  shutdown, no leak.  "Producers never wait for the exporter": scenarios in which the worker is
  frozen inside Export while every producer call must still return (a stuck execution is a
  violation).
"""
from lib import build
from props import _batch as B

LEVEL = "model_checking"


def run(ctx):
    ctx.assumptions += [
        "sequentially consistent executions only (scheduler shim; memory_order arguments ignored)",
        "the lock-free queue is abstracted to an atomic bounded FIFO in BatchProcessor.tla (its refinement is C11)",
        "drop legitimacy uses consumption_count() sampled (without a scheduling point) at call start, through a peer subclass",
        "exhaustive TLC results hold for the stated small constants only; larger instances are sampled by the engine",
    ]
    ctx.extra["rule"] = ("states/transitions: TLC (Level-B model runs + trace-validation runs); traces: real executions of the unmodified "
                         "batch span/log processors under the deterministic scheduler, each validated by BatchMonitor.tla (Check={C01}); "
                         "distinct_nontrivial = executions with pairwise different observable event logs (md5 of the log without the seed)")
    exe = build.harness("batch", ["batch.cc"], "shim")
    B.model_check_batch(ctx, ["ExportOnce", "Order", "NoPhantom", "DroppedNotExported", "NoLoss", "ShutdownComplete", "QueueBounded"],
                        live=False)
    B.model_vs_monitor(ctx)
    lines, abnormal = B.explore(ctx, exe, B.batch_runs(ctx, focus="C01"))
    B.validate(ctx, "C01", lines, "batch")

    def relevant(ev):
        # crash: always; stuck: only when the scenario froze the exporter (producers must not wait)
        cfg = next((e for e in ev if isinstance(e, dict) and e.get("e") == "Cfg"), {})
        last = ev[-1] if ev else {}
        if isinstance(last, dict) and last.get("e") == "Crash":
            return True
        return cfg.get("freeze") == 1 and not any(isinstance(e, dict) and e.get("e") == "ProducersDone" for e in ev)
    B.report_abnormal(ctx, abnormal, "batch", only_if=relevant)
    from props import _simple
    _simple.run_simple(ctx, "C01")     # exactly once per exporter through providers / multi processors
    ctx.evaluations = ctx.traces


def replay(ctx, path):
    B.generic_replay(ctx, path)
