"""C16 - B3 (single / multi header) and Jaeger propagation: round-trip identity, the sampling decision,
the documented extraction variants.

1. TLC, exhaustive over the abstract input partition of spec/B3Jaeger.tla: id classes x ALL 256 flag
   bytes x 3 formats on the inject side; the mutation graph of abstract carriers (b3 single, X-B3-*
   multi, both, uber-trace-id; <= MaxFaults mutated dimensions) on the extract side.  Invariants = the
   clauses of the property, for Dev = {} and for Dev = every named deviation.
2. spec -> code: TLC prints one (abstract input, expected outcome) line per member (BEH); the
   ASan+UBSan harness concretises each n times (seeded), runs the real propagators and compares:
   accept = a valid remote context with exactly the ids of the named source (64-bit ids left-padded)
   and the sampled bit; reject = the caller's context unchanged; either = unchanged or some context
   with non-zero ids (all the statement demands for arbitrary bytes).
3. code -> spec: random byte-level mutations of documented headers and round trips of random contexts
   run through the real propagators; each header byte abstracted to a token; B3JaegerTrace.tla (TLC,
   token-level formulation of the same contract, kept consistent by the invariant Agree) decides.
The oracle is always TLC (BEH expectation or acceptance by the trace spec)."""
import json

from lib import build, propagation, tlc
from lib.common import Broken

LEVEL = "model_checking"
MODULE = "B3Jaeger"
ALLDEVS = ["b3multi-sampled-low-hex-digit"]

CFG = """CONSTANTS
  Dev = {%(dev)s}
  TidC = {"rand", "hi64zero", "lo64zero", "one", "max"}
  SidC = {"rand", "one", "max"}
  NFlag = 256
  JRep = {0, 1, 2, 3, 255}
  MaxFaults = %(k)d
INIT Init
NEXT Next
CONSTRAINT Budget
INVARIANTS %(inv)s
"""
INVS = ("TypeOK RoundTrip AcceptNonZero Pad64 DebugIsSampled MissingNotSampled SinglePrecedence NothingFromNothing "
        "ZeroNeverInstalled Agree")
TRACE_CFG = """CONSTANTS
  Dev = {%(dev)s}
  TidC = {"rand"}
  SidC = {"rand"}
  NFlag = 256
  JRep = {1}
  MaxFaults = 0
INIT TInit
NEXT TNext
CONSTRAINT Progress
INVARIANT Report
POSTCONDITION Accepted
CHECK_DEADLOCK FALSE
"""
MAX_REPORTS = 12


def _cfg(ctx, name, text):
    p = ctx.rundir.file(name)
    with open(p, "w") as f:
        f.write(text)
    return p


def _devset(names):
    return ", ".join('"%s"' % d for d in sorted(names))


def _k(ctx):
    return 5 if ctx.tier == "thorough" else 3


def model_check(ctx):
    """Two TLC runs: ideal (property invariants + coverage + EmitAll = the BEH lines) and as-implemented."""
    k = _k(ctx)
    # the named deviation concerns Inject (and the extraction of what it wrote); the carrier mutation graph
    # does not depend on Dev and is explored in the ideal run
    c = _cfg(ctx, "mc-dev.cfg", CFG % {"dev": _devset(ALLDEVS), "k": 0, "inv": INVS})
    r = tlc.tlc(MODULE, c, rundir=ctx.rundir.path, workers=4, timeout_s=900, tag="mc-dev")
    ctx.add_tlc("%s inject side + round trip, Dev=as-implemented" % MODULE, r)
    tlc.must_ok(r, "%s model checking (as implemented)" % MODULE)
    c = _cfg(ctx, "mc-ideal.cfg", CFG % {"dev": "", "k": k, "inv": INVS + " EmitAll"})
    r = tlc.tlc(MODULE, c, rundir=ctx.rundir.path, workers=4, timeout_s=900, coverage=True, tag="mc-ideal")
    ctx.add_tlc("%s partition, Dev=ideal, <=%d mutated dimensions (+ behaviour export)" % (MODULE, k), r)
    tlc.must_ok(r, "%s model checking (ideal)" % MODULE)
    for a in ("Init", "Inject", "ExtractRT", "Extract", "MutS", "MutM", "MutJ"):
        if r.coverage.get(a, (0, 0))[0] == 0:
            raise Broken("vacuity: action %s never taken" % a)
    return r


def generate(ctx, r):
    cases = propagation.beh_cases(r, "C16 generation")
    dims = propagation.printed_any(r.out, "DIMS")
    if not dims:
        raise Broken("generation run did not print the partition vocabulary")
    seen = {part: {d: set() for d in dims[part]} for part in dims}
    outs = {}
    rtflags = {"b3s": set(), "b3m": set(), "jg": set()}
    devdiff = 0
    variants = {"pad": 0, "debug": 0, "missing_single": 0, "missing_multi": 0, "precedence": 0}
    for cs in cases:
        if cs["k"] == "x":
            car, e = cs["car"], cs["exp"]
            outs[(cs["fmt"], e["o"])] = outs.get((cs["fmt"], e["o"]), 0) + 1
            parts = ["j"] if cs["fmt"] == "jg" else ["s", "m"]
            for part in parts:
                if part == "s" and car["s"]["p"] == "absent":
                    continue
                for d in dims[part]:
                    seen[part][d].add(car[part][d])
            if e["o"] == "accept":
                variants["pad"] += 1 if e["pad"] else 0
                if e["src"] == "s":
                    variants["debug"] += 1 if car["s"]["smp"] == "d" else 0
                    variants["missing_single"] += 1 if car["s"]["smp"] == "missing" else 0
                    variants["precedence"] += 1 if car["m"]["tid"] != "absent" else 0
                if e["src"] == "m":
                    variants["missing_multi"] += 1 if car["m"]["smp"] == "missing" else 0
        else:
            if cs["ext"]["o"] == "accept":
                rtflags[cs["fmt"]].add(cs["sc"]["fl"])
            devdiff += 1 if cs["dev"] and cs["ext"] != cs["extDev"] else 0
    for part in dims:
        for d in dims[part]:
            if set(dims[part][d]) - seen[part][d]:
                raise Broken("vacuity: values %s of dimension %s.%s never generated" % (
                    sorted(set(dims[part][d]) - seen[part][d]), part, d))
    need = [("b3", "accept"), ("b3", "either"), ("b3", "reject"), ("jg", "accept"), ("jg", "either"), ("jg", "reject")]
    if any(outs.get(x, 0) == 0 for x in need) or any(len(v) != 256 for v in rtflags.values()) or devdiff == 0 \
            or min(variants.values()) == 0:
        raise Broken("vacuity: outcomes %s, flag bytes %s, deviation cases %d, variants %s" % (
            outs, {k: len(v) for k, v in rtflags.items()}, devdiff, variants))
    ctx.extra["cases_generated"] = {"round_trip": sum(1 for c in cases if c["k"] == "rt"),
                                    "extract": sum(1 for c in cases if c["k"] == "x"),
                                    "extract_expected": {"%s/%s" % k: v for k, v in sorted(outs.items())},
                                    "documented_variant_cases": variants,
                                    "flag_bytes_round_trip": {k: len(v) for k, v in rtflags.items()}}
    return cases


# ---- the byte-value sweep -----------------------------------------------------------------------------------
# "non-hex byte at a hex-digit position" sites: name -> (byte values of the class, positions)
BAD_SITES = {"s.tid": (233, 32), "s.sid": (233, 16), "m.tid": (234, 32), "m.sid": (234, 16),
             "j.tid": (233, 32), "j.sid": (233, 16), "j.par": (233, 16), "j.fl": (233, 2)}
DEF = {"s": {"tid": "ok32", "sid": "ok", "smp": "1", "par": "none", "st": "ok", "cs": "lower"},
       "m": {"tid": "ok32", "sid": "ok", "smp": "1", "cs": "lower"},
       "j": {"tid": "ok32", "sid": "ok", "par": "0", "fl": "hex2", "st": "ok", "cs": "lower"}}


def sweep_cases(ctx, cases):
    """For every TLC line whose only malformation is ONE non-hex class, a copy marked "sweep": the harness
    enumerates every byte value of the class (all bytes that are neither hex digits nor the format's
    separator) at every position of the field.  The expectation stays the one TLC printed."""
    out, seen = [], {}
    for cs in cases:
        if cs["k"] != "x":
            continue
        car = cs["car"]
        faults = []
        if cs["fmt"] == "b3":
            if car["s"]["p"] == "present":
                faults += [("s." + d, car["s"][d]) for d in DEF["s"] if car["s"][d] != DEF["s"][d]]
            if not (car["m"]["tid"] == "absent" and car["m"]["sid"] == "absent" and car["m"]["smp"] == "missing"):
                faults += [("m." + d, car["m"][d]) for d in DEF["m"] if car["m"][d] != DEF["m"][d]]
        else:
            if car["j"]["p"] != "present" or car["j"]["fb"] != 1:
                continue
            faults += [("j." + d, car["j"][d]) for d in DEF["j"] if car["j"][d] != DEF["j"][d]]
        if len(faults) != 1 or faults[0][1] != "nonhex" or faults[0][0] not in BAD_SITES:
            continue
        c = json.loads(json.dumps(cs))
        c["orig"] = cs["id"]
        c["id"] = 2 * 10 ** 9 + cs["id"]
        c["sweep"] = "full"
        out.append(c)
        seen.setdefault(faults[0][0], []).append(c["id"])
    missing = set(BAD_SITES) - set(seen)
    if missing:
        raise Broken("vacuity: no single-fault case to sweep for %s" % sorted(missing))
    return out, seen


def check_sweeps(ctx, sweeps, seen, results):
    cov, runs = {}, 0
    for site, ids in sorted(seen.items()):
        nbytes, npos = BAD_SITES[site]
        for cid in ids:
            r = results.get(cid, {})
            sw = r.get("sweep") or {}
            if r.get("v") == "ok":
                runs += r.get("n", 0)
                if sw.get("bytes") != nbytes or sw.get("positions") != npos or r.get("n") != nbytes * npos:
                    raise Broken("byte sweep of %s incomplete: %s" % (site, sw))
        cov[site + "=nonhex"] = {"byte_values": nbytes, "positions": npos, "cases": len(ids),
                                 "verdicts": sorted(set(results.get(c, {}).get("v") for c in ids))}
    ctx.extra["byte_sweep"] = {"classes_swept_completely": cov, "sweep_cases": len(sweeps), "executions": runs}


def canaries(cases):
    out = []

    def first(pred):
        for c in cases:
            if pred(c):
                return json.loads(json.dumps(c))
        raise Broken("no case for a canary")
    c = first(lambda c: c["k"] == "x" and c["exp"]["o"] == "accept" and c["exp"]["src"] == "s" and c["car"]["s"]["smp"] == "d")
    c["exp"]["sampled"] = False
    out.append(("debug flag expected as not sampled", c))
    c = first(lambda c: c["k"] == "x" and c["exp"]["o"] == "accept" and c["exp"]["src"] == "s" and c["car"]["m"]["tid"] == "ok32")
    c["exp"]["src"] = "m"
    out.append(("multi headers expected to win over the single header", c))
    c = first(lambda c: c["k"] == "x" and c["exp"]["o"] == "accept" and c["fmt"] == "jg")
    c["exp"]["o"] = "reject"
    out.append(("well-formed uber-trace-id expected to be rejected", c))
    c = first(lambda c: c["k"] == "x" and c["exp"]["o"] == "reject" and c["fmt"] == "b3")
    c["exp"] = {"o": "accept", "src": "s", "pad": False, "sampled": False}
    out.append(("carrier without ids expected to be accepted", c))
    for f in ("b3s", "b3m", "jg"):
        c = first(lambda c: c["k"] == "rt" and c["fmt"] == f and c["sc"]["fl"] == 1)
        c["ext"]["sampled"] = False
        c["dev"] = ""
        out.append(("round trip (%s) expected to lose the sampled bit" % f, c))
    for i, (_, c) in enumerate(out):
        c["orig"] = c["id"]
        c["seed_id"] = c["id"]
        c["id"] = 10 ** 9 + i
    return out


def _what(cs, res):
    r = res.get("res", {})
    conc = r.get("concrete", {})
    if cs["k"] == "x":
        return "Extract(%s) from %s: expected %s, observed %s" % (cs["fmt"], json.dumps(conc.get("headers")), json.dumps(cs["exp"]),
                                                                   json.dumps(r.get("observed")))
    return "round trip (%s) of trace_id=%s span_id=%s flags=0x%02x via %s: expected %s, observed %s" % (
        cs["fmt"], conc.get("tid"), conc.get("sid"), conc.get("flags", 0), json.dumps(conc.get("injected")),
        json.dumps(cs["ext"]), json.dumps(r.get("observed")))


def classify(ctx, cases, results, n):
    byid = {c["id"]: c for c in cases}
    cnt = {"ok": 0, "dev": 0, "bad": 0, "crash": 0, "valid": 0, "unchanged": 0}
    reported = 0
    for cid in sorted(results):
        res = results[cid]
        v = res.get("v")
        cs = byid.get(cid)
        cnt[v] = cnt.get(v, 0) + 1
        cnt["valid"] += res.get("valid", 0)
        cnt["unchanged"] += res.get("unchanged", 0)
        rep = {"harness": "c16_b3jaeger", "case": cs, "n": n, "seed": ctx.seed, "result": res}
        if v == "ok":
            continue
        if v == "dev":
            ctx.deviation(cs["dev"], _what(cs, res), rep)
        elif v == "bad":
            if reported < MAX_REPORTS:
                ctx.violation(_what(cs, res), rep)
            reported += 1
        elif v == "crash":
            if reported < MAX_REPORTS:
                ctx.violation("the real propagator crashed / sanitizer report on %s\n%s" % (
                    json.dumps(res.get("concrete")), res.get("stderr", "")[-1200:]), rep)
            reported += 1
        else:
            raise Broken("unknown verdict %r" % v)
    missing = [c["id"] for c in cases if c["id"] not in results]
    if len(missing) != ctx.extra.get("cases_skipped_after_crash_cap", 0) and len(cases) > 1:
        raise Broken("%d cases without a result (%s skipped after crashes)" % (
            len(missing), ctx.extra.get("cases_skipped_after_crash_cap", 0)))
    if reported > MAX_REPORTS:
        ctx.extra["violations_not_written"] = reported - MAX_REPORTS
    return cnt


def replay_cases(ctx, exe, cases):
    n = 12 if ctx.tier == "thorough" else 4
    can = canaries(cases)
    cres = propagation.run_cases(ctx, exe, [c for _, c in can], n, procs=1, tag="canary")
    sweeps, seen = sweep_cases(ctx, cases)
    nbeh = len(cases)
    cases = cases + sweeps
    results = propagation.run_cases(ctx, exe, cases, n, procs=4)
    check_sweeps(ctx, sweeps, seen, results)
    for why, c in can:
        # a canary is concretised exactly like the case it was copied from (seed_id), so: either the
        # corrupted expectation is flagged, or the code under test already fails the genuine case
        r = cres.get(c["id"], {}).get("v")
        orig = results.get(c["orig"], {}).get("v")
        if r in ("bad", "crash") or orig in ("bad", "crash"):
            continue
        if ctx.extra.get("cases_skipped_after_crash_cap") and (r is None or orig is None):
            continue        # not run: too many crashes of the code under test (all reported)
        raise Broken("binding canary not detected (%s): canary %s, genuine case %s" % (why, r, orig))
    ctx.extra["canaries_detected"] = len(can)
    cnt = classify(ctx, cases, results, n)
    if not ctx.violations and (cnt["valid"] == 0 or cnt["unchanged"] == 0):
        raise Broken("vacuity: the real propagators never accepted / never rejected: %s" % cnt)
    ctx.extra["replay"] = {"cases": nbeh, "sweep_cases": len(sweeps), "concretisations_per_case": n,
                           "verdicts": {k: cnt[k] for k in ("ok", "dev", "bad", "crash")},
                           "observed_valid": cnt["valid"], "observed_unchanged": cnt["unchanged"]}
    ctx.traces += nbeh
    ctx.evaluations += sum(r.get("n", 0) for r in results.values())
    for c in cases:
        ctx.distinct.add(("beh", c["id"]))
    shown = 0
    for cs in cases:
        r = results.get(cs["id"], {})
        if "res" in r and r.get("v") == "ok" and shown < 3 and (shown == 0) == (cs["k"] == "rt"):
            ctx.sample({"kind": "TLC (abstract input, expected outcome) line, replayed %d times" % n, "case": cs, "result": r})
            shown += 1
    if shown == 0:
        ctx.sample({"kind": "TLC (abstract input, expected outcome) line", "case": cases[0], "result": results.get(cases[0]["id"])})


def _describe(ev):
    x = {k: v for k, v in ev.get("x", {}).items() if k in ("out", "remote", "sampled")}
    if ev.get("e") == "RT":
        return "round trip (%s) of flags=0x%02x via %s gave %s" % (ev.get("fmt"), ev.get("fl", 0), json.dumps(ev.get("raw")), json.dumps(x))
    return "Extract(%s) from %s gave %s" % (ev.get("e"), json.dumps(ev.get("raw")), json.dumps(x))


def record_validate(ctx, exe):
    propagation.record_validate(
        ctx, exe, harness="c16_b3jaeger", module=MODULE + "Trace", cfg_template=TRACE_CFG, alldevs=ALLDEVS,
        n=60000 if ctx.tier == "thorough" else 9000,
        need_kinds=("rt-b3s", "rt-b3m", "rt-jg", "b3-accept", "b3-either", "b3-reject", "jg-accept", "jg-either", "jg-reject"),
        describe=_describe, max_reports=MAX_REPORTS)


def run(ctx):
    ctx.assumptions += [
        "memory safety (never crashes / reads out of bounds) is not decided by the specification: it is covered only by running the "
        "model-generated inputs under AddressSanitizer+UBSan with exactly-sized, non-NUL-terminated carrier buffers",
        "concretisation table of harness/c16_b3jaeger.cc (abstract class -> bytes) is trusted",
        "ids are symbolic in the spec (classes) and sampled by the seeded concretiser; the 256 flag bytes are enumerated",
        "documented forms = lower-case hex, 32 or 16 digit trace id, 16 digit span id, b3 'tid-sid[-S[-parent]]' with S in 1/0/d, "
        "X-B3-Sampled 1/0/absent, uber-trace-id 'tid:sid:parent:flags' with parent 0 or 16 hex and flags 00/01; everything else is "
        "'arbitrary bytes' for which the statement only demands unchanged-or-non-zero-ids",
    ]
    ctx.extra["rule"] = ("states/transitions: TLC over the abstract partition (ideal + as-implemented + trace validation); a case = one BEH line "
                         "(abstract input, expected outcome), distinct by construction (distinct TLC states), each concretised n times; plus one "
                         "case per recorded execution (distinct seeds; byte-level duplicates possible and not removed)")
    exe = build.harness("c16_b3jaeger", ["c16_b3jaeger.cc"], "asan", need_sdk=False)
    phases = {}
    t0 = ctx.timer.s()
    cases = generate(ctx, model_check(ctx))
    phases["tlc_model_check_and_export_s"] = round(ctx.timer.s() - t0, 1)
    t0 = ctx.timer.s()
    replay_cases(ctx, exe, cases)
    phases["replay_s"] = round(ctx.timer.s() - t0, 1)
    t0 = ctx.timer.s()
    record_validate(ctx, exe)
    phases["record_validate_s"] = round(ctx.timer.s() - t0, 1)
    ctx.extra["phase_wall"] = phases


def replay(ctx, path):
    rep = json.load(open(path))["replay"]
    if "events" in rep:
        propagation.replay_events(ctx, MODULE + "Trace", TRACE_CFG, ALLDEVS, rep["events"])
        ctx.states = max(ctx.states, 1)
        ctx.transitions = max(ctx.transitions, 1)
        return
    if not rep.get("case"):
        raise Broken("replay file has neither a case nor events; re-run the check with the recorded seed")
    exe = build.harness("c16_b3jaeger", ["c16_b3jaeger.cc"], "asan", need_sdk=False)
    ctx.seed = rep.get("seed", ctx.seed)
    cs = rep["case"]
    results = propagation.run_cases(ctx, exe, [cs], rep["n"], procs=1)
    classify(ctx, [cs], results, rep["n"])
    ctx.traces += 1
    ctx.sample({"kind": "replayed case", "case": cs, "result": results.get(cs["id"])})
    ctx.states = max(ctx.states, 1)
    ctx.transitions = max(ctx.transitions, 1)
