"""C16 - B3 (single / multi header) and Jaeger propagation: round-trip identity, the sampling decision,
the documented extraction variants.

1. TLC, exhaustive over the abstract input partition of spec/B3Jaeger.tla: id classes x ALL 256 flag
   bytes x 3 formats on the inject side; the mutation graph of abstract carriers (b3 single, X-B3-*
   multi, both, uber-trace-id; <= MaxFaults mutated dimensions) on the extract side.  Invariants = the
   clauses of the property, for Dev = {} and for Dev = every named deviation.
2. spec -> code: TLC prints one (abstract input, expected outcome) line per member (BEH); the
   ASan+UBSan harness concretises each n times (seeded), runs the real propagators and compares:
   accept = a valid remote context with exactly the ids of the named source (64-bit ids left-padded)
   and the sampled bit; reject = the caller's context unchanged; either = unchanged or some context
   with non-zero ids (all the statement demands for arbitrary bytes).
3. code -> spec: random byte-level mutations of documented headers and round trips of random contexts
   run through the real propagators; each header byte abstracted to a token; B3JaegerTrace.tla (TLC,
   token-level formulation of the same contract, kept consistent by the invariant Agree) decides.
4. (round 4) the tail family of the same spec: header values given as TOKENS (one per byte, every byte value
   has exactly one token) - every prefix (length 0 .. full + 1) of the documented forms of each header kind
   with one of its last positions replaced by every token, and every token string of length <= ShortLen;
   TLC checks the clauses that apply (TailAcceptDocumented, TailNoSeparator, TailEmptyIsAbsent, TailAnchored)
   and prints the expected outcome (token-level contract); the harness expands the replaced / class positions
   to ALL byte values, hands each value over as a view into an exactly-sized heap block (ASan) and once more
   followed in-buffer by the form's continuation / adversarial bytes (identical observation demanded).
The oracle is always TLC (BEH expectation or acceptance by the trace spec)."""
import concurrent.futures as cf
import json

from lib import build, propagation, tlc
from lib.common import Broken

LEVEL = "model_checking"
MODULE = "B3Jaeger"
ALLDEVS = ["b3multi-sampled-low-hex-digit"]

CFG = """CONSTANTS
  Dev = {%(dev)s}
  TidC = {"rand", "hi64zero", "lo64zero", "one", "max"}
  SidC = {"rand", "one", "max"}
  NFlag = 256
  JRep = {0, 1, 2, 3, 255}
  MaxFaults = %(k)d
  TailBases = {}
  TailPos = 0
  TailComp = {}
  ShortKinds = {}
  ShortLen = 0
INIT Init
NEXT Next
CONSTRAINT Budget
INVARIANTS %(inv)s
"""
TAIL_CFG = """CONSTANTS
  Dev = {}
  TidC = {"rand"}
  SidC = {"rand"}
  NFlag = 256
  JRep = {1}
  MaxFaults = 0
  TailBases = {%(bases)s}
  TailPos = %(pos)d
  TailComp = {%(comp)s}
  ShortKinds = {"b3", "mt", "ms", "mf", "jg"}
  ShortLen = %(shortlen)d
INIT InitTail
NEXT Next
INVARIANTS TypeOK TailTypeOK TailAcceptDocumented TailNoSeparator TailEmptyIsAbsent TailAnchored EmitAll
"""
TAIL_TIERS = {"quick": {"bases": ["b3full", "mt", "ms", "mf", "jgfull", "jgurl"], "pos": 2, "comp": ["none"], "shortlen": 2},
              "thorough": {"bases": ["b3full", "b3pad", "mt", "ms", "mf", "jgfull", "jgpar0", "jgurl"], "pos": 3,
                           "comp": ["none", "wf"], "shortlen": 3}}
TAIL_ID0 = 3 * 10 ** 9
INVS = ("TypeOK RoundTrip AcceptNonZero Pad64 DebugIsSampled MissingNotSampled SinglePrecedence NothingFromNothing "
        "ZeroNeverInstalled Agree TailTypeOK")
TRACE_CFG = """CONSTANTS
  Dev = {%(dev)s}
  TidC = {"rand"}
  SidC = {"rand"}
  NFlag = 256
  JRep = {1}
  MaxFaults = 0
  TailBases = {}
  TailPos = 0
  TailComp = {}
  ShortKinds = {}
  ShortLen = 0
INIT TInit
NEXT TNext
CONSTRAINT Progress
INVARIANT Report
POSTCONDITION Accepted
CHECK_DEADLOCK FALSE
"""
MAX_REPORTS = 12


def _cfg(ctx, name, text):
    p = ctx.rundir.file(name)
    with open(p, "w") as f:
        f.write(text)
    return p


def _devset(names):
    return ", ".join('"%s"' % d for d in sorted(names))


def _k(ctx):
    return 5 if ctx.tier == "thorough" else 3


def model_check(ctx):
    """Three TLC runs: ideal (property invariants + coverage + EmitAll = the BEH lines), as-implemented, and the
    tail family (its own initial states; runs beside the other two)."""
    k = _k(ctx)
    tt = TAIL_TIERS[ctx.tier]
    ct = _cfg(ctx, "mc-tail.cfg", TAIL_CFG % {"bases": _devset(tt["bases"]), "pos": tt["pos"], "comp": _devset(tt["comp"]),
                                              "shortlen": tt["shortlen"]})
    ex = cf.ThreadPoolExecutor(max_workers=1)
    ftail = ex.submit(tlc.tlc, MODULE, ct, rundir=ctx.rundir.path, workers=3, timeout_s=900, tag="mc-tail")
    # the named deviation concerns Inject (and the extraction of what it wrote); the carrier mutation graph
    # does not depend on Dev and is explored in the ideal run
    c = _cfg(ctx, "mc-dev.cfg", CFG % {"dev": _devset(ALLDEVS), "k": 0, "inv": INVS})
    r = tlc.tlc(MODULE, c, rundir=ctx.rundir.path, workers=4, timeout_s=900, tag="mc-dev")
    ctx.add_tlc("%s inject side + round trip, Dev=as-implemented" % MODULE, r)
    tlc.must_ok(r, "%s model checking (as implemented)" % MODULE)
    c = _cfg(ctx, "mc-ideal.cfg", CFG % {"dev": "", "k": k, "inv": INVS + " EmitAll"})
    r = tlc.tlc(MODULE, c, rundir=ctx.rundir.path, workers=4, timeout_s=900, coverage=True, tag="mc-ideal")
    ctx.add_tlc("%s partition, Dev=ideal, <=%d mutated dimensions (+ behaviour export)" % (MODULE, k), r)
    tlc.must_ok(r, "%s model checking (ideal)" % MODULE)
    for a in ("Init", "Inject", "ExtractRT", "Extract", "MutS", "MutM", "MutJ"):
        if r.coverage.get(a, (0, 0))[0] == 0:
            raise Broken("vacuity: action %s never taken" % a)
    rt = ftail.result()
    ex.shutdown()
    ctx.add_tlc("%s tail family: prefixes of %s, last %d positions x every token, token strings of length <= %d "
                "(+ behaviour export)" % (MODULE, "/".join(tt["bases"]), tt["pos"], tt["shortlen"]), rt)
    tlc.must_ok(rt, "%s model checking (tail family)" % MODULE)
    # (no -coverage here: every TailExtract step prints its BEH line; generate_tail counts them against the states)
    return r, rt


def generate_tail(ctx, rt):
    """The tail family's BEH lines + the vacuity guards on what TLC enumerated."""
    tt = TAIL_TIERS[ctx.tier]
    cases = propagation.beh_cases(rt, "C16 tail generation")
    if 2 * len(cases) != rt.distinct:
        raise Broken("vacuity (tail family): %d states but %d TailExtract lines" % (rt.distinct, len(cases)))
    toks = propagation.printed_any(rt.out, "TAILTOK")
    if not toks or len(toks) != 27:
        raise Broken("tail run did not print the token vocabulary: %s" % toks)
    groups, outs, short = {}, {}, {}
    for c in cases:
        if c["k"] != "t":
            raise Broken("tail run printed a line of kind %s" % c["k"])
        c["id"] += TAIL_ID0
        t = c["tl"]
        outs[(c["fmt"], c["exp"]["o"])] = outs.get((c["fmt"], c["exp"]["o"]), 0) + 1
        if t["b"] == "short":
            short[t["h"]] = short.get(t["h"], 0) + 1
        else:
            groups.setdefault((t["b"], t["comp"], t["cut"], t["pos"]), set()).add(t["tok"])
    need = [("b3", "accept"), ("b3", "either"), ("b3", "reject"), ("jg", "accept"), ("jg", "either"), ("jg", "reject")]
    if any(outs.get(x, 0) == 0 for x in need):
        raise Broken("vacuity (tail family): outcomes %s" % outs)
    nshort = sum(27 ** i for i in range(tt["shortlen"] + 1))
    if sorted(short) != ["b3", "jg", "mf", "ms", "mt"] or any(v != nshort for v in short.values()):
        raise Broken("vacuity (tail family): short values %s, expected %d per header kind" % (short, nshort))
    cuts = {}
    for (b, comp, cut, pos), tk in groups.items():
        cuts.setdefault((b, comp), {}).setdefault(cut, set()).add(pos)
        if pos > 0 and tk != set(toks):
            raise Broken("vacuity (tail family): %s cut %d pos %d only has tokens %s" % (b, cut, pos, sorted(tk)))
    if sorted(set(b for b, _ in cuts)) != sorted(tt["bases"]):
        raise Broken("vacuity (tail family): bases %s" % sorted(cuts))
    lengths = {}
    for (b, comp), cs in cuts.items():
        top = max(cs)
        if sorted(cs) != list(range(top + 1)) or any(cs[n] != set(range(min(n, tt["pos"]) + 1)) for n in cs):
            raise Broken("vacuity (tail family): prefixes of %s/%s incomplete" % (b, comp))
        lengths["%s/%s" % (b, comp)] = top
    ctx.extra["tail_family"] = {"cases": len(cases), "token_classes": len(toks),
                                "prefix_lengths_0_to": lengths, "positions_replaced": tt["pos"],
                                "short_values_per_header_kind": nshort,
                                "expected": {"%s/%s" % k: v for k, v in sorted(outs.items())}}
    return cases


def generate(ctx, r):
    cases = propagation.beh_cases(r, "C16 generation")
    dims = propagation.printed_any(r.out, "DIMS")
    if not dims:
        raise Broken("generation run did not print the partition vocabulary")
    seen = {part: {d: set() for d in dims[part]} for part in dims}
    outs = {}
    rtflags = {"b3s": set(), "b3m": set(), "jg": set()}
    devdiff = 0
    variants = {"pad": 0, "debug": 0, "missing_single": 0, "missing_multi": 0, "precedence": 0}
    for cs in cases:
        if cs["k"] == "x":
            car, e = cs["car"], cs["exp"]
            outs[(cs["fmt"], e["o"])] = outs.get((cs["fmt"], e["o"]), 0) + 1
            parts = ["j"] if cs["fmt"] == "jg" else ["s", "m"]
            for part in parts:
                if part == "s" and car["s"]["p"] == "absent":
                    continue
                for d in dims[part]:
                    seen[part][d].add(car[part][d])
            if e["o"] == "accept":
                variants["pad"] += 1 if e["pad"] else 0
                if e["src"] == "s":
                    variants["debug"] += 1 if car["s"]["smp"] == "d" else 0
                    variants["missing_single"] += 1 if car["s"]["smp"] == "missing" else 0
                    variants["precedence"] += 1 if car["m"]["tid"] != "absent" else 0
                if e["src"] == "m":
                    variants["missing_multi"] += 1 if car["m"]["smp"] == "missing" else 0
        else:
            if cs["ext"]["o"] == "accept":
                rtflags[cs["fmt"]].add(cs["sc"]["fl"])
            devdiff += 1 if cs["dev"] and cs["ext"] != cs["extDev"] else 0
    for part in dims:
        for d in dims[part]:
            if set(dims[part][d]) - seen[part][d]:
                raise Broken("vacuity: values %s of dimension %s.%s never generated" % (
                    sorted(set(dims[part][d]) - seen[part][d]), part, d))
    need = [("b3", "accept"), ("b3", "either"), ("b3", "reject"), ("jg", "accept"), ("jg", "either"), ("jg", "reject")]
    if any(outs.get(x, 0) == 0 for x in need) or any(len(v) != 256 for v in rtflags.values()) or devdiff == 0 \
            or min(variants.values()) == 0:
        raise Broken("vacuity: outcomes %s, flag bytes %s, deviation cases %d, variants %s" % (
            outs, {k: len(v) for k, v in rtflags.items()}, devdiff, variants))
    ctx.extra["cases_generated"] = {"round_trip": sum(1 for c in cases if c["k"] == "rt"),
                                    "extract": sum(1 for c in cases if c["k"] == "x"),
                                    "extract_expected": {"%s/%s" % k: v for k, v in sorted(outs.items())},
                                    "documented_variant_cases": variants,
                                    "flag_bytes_round_trip": {k: len(v) for k, v in rtflags.items()}}
    return cases


# ---- the byte-value sweep -----------------------------------------------------------------------------------
# "non-hex byte at a hex-digit position" sites: name -> (byte values of the class, positions)
BAD_SITES = {"s.tid": (233, 32), "s.sid": (233, 16), "m.tid": (234, 32), "m.sid": (234, 16),
             "j.tid": (233, 32), "j.sid": (233, 16), "j.par": (233, 16), "j.fl": (233, 2)}
DEF = {"s": {"tid": "ok32", "sid": "ok", "smp": "1", "par": "none", "st": "ok", "cs": "lower"},
       "m": {"tid": "ok32", "sid": "ok", "smp": "1", "cs": "lower"},
       "j": {"tid": "ok32", "sid": "ok", "par": "0", "fl": "hex2", "st": "ok", "cs": "lower"}}


def sweep_cases(ctx, cases):
    """For every TLC line whose only malformation is ONE non-hex class, a copy marked "sweep": the harness
    enumerates every byte value of the class (all bytes that are neither hex digits nor the format's
    separator) at every position of the field.  The expectation stays the one TLC printed."""
    out, seen = [], {}
    for cs in cases:
        if cs["k"] != "x":
            continue
        car = cs["car"]
        faults = []
        if cs["fmt"] == "b3":
            if car["s"]["p"] == "present":
                faults += [("s." + d, car["s"][d]) for d in DEF["s"] if car["s"][d] != DEF["s"][d]]
            if not (car["m"]["tid"] == "absent" and car["m"]["sid"] == "absent" and car["m"]["smp"] == "missing"):
                faults += [("m." + d, car["m"][d]) for d in DEF["m"] if car["m"][d] != DEF["m"][d]]
        else:
            if car["j"]["p"] != "present" or car["j"]["fb"] != 1:
                continue
            faults += [("j." + d, car["j"][d]) for d in DEF["j"] if car["j"][d] != DEF["j"][d]]
        if len(faults) != 1 or faults[0][1] != "nonhex" or faults[0][0] not in BAD_SITES:
            continue
        c = json.loads(json.dumps(cs))
        c["orig"] = cs["id"]
        c["id"] = 2 * 10 ** 9 + cs["id"]
        c["sweep"] = "full"
        out.append(c)
        seen.setdefault(faults[0][0], []).append(c["id"])
    missing = set(BAD_SITES) - set(seen)
    if missing:
        raise Broken("vacuity: no single-fault case to sweep for %s" % sorted(missing))
    return out, seen


def check_sweeps(ctx, sweeps, seen, results):
    cov, runs = {}, 0
    for site, ids in sorted(seen.items()):
        nbytes, npos = BAD_SITES[site]
        for cid in ids:
            r = results.get(cid, {})
            sw = r.get("sweep") or {}
            if r.get("v") == "ok":
                runs += r.get("n", 0)
                if sw.get("bytes") != nbytes or sw.get("positions") != npos or r.get("n") != nbytes * npos:
                    raise Broken("byte sweep of %s incomplete: %s" % (site, sw))
        cov[site + "=nonhex"] = {"byte_values": nbytes, "positions": npos, "cases": len(ids),
                                 "verdicts": sorted(set(results.get(c, {}).get("v") for c in ids))}
    ctx.extra["byte_sweep"] = {"classes_swept_completely": cov, "sweep_cases": len(sweeps), "executions": runs}


def canaries(cases):
    out = []

    def first(pred):
        for c in cases:
            if pred(c):
                return json.loads(json.dumps(c))
        raise Broken("no case for a canary")
    c = first(lambda c: c["k"] == "x" and c["exp"]["o"] == "accept" and c["exp"]["src"] == "s" and c["car"]["s"]["smp"] == "d")
    c["exp"]["sampled"] = False
    out.append(("debug flag expected as not sampled", c))
    c = first(lambda c: c["k"] == "x" and c["exp"]["o"] == "accept" and c["exp"]["src"] == "s" and c["car"]["m"]["tid"] == "ok32")
    c["exp"]["src"] = "m"
    out.append(("multi headers expected to win over the single header", c))
    c = first(lambda c: c["k"] == "x" and c["exp"]["o"] == "accept" and c["fmt"] == "jg")
    c["exp"]["o"] = "reject"
    out.append(("well-formed uber-trace-id expected to be rejected", c))
    c = first(lambda c: c["k"] == "x" and c["exp"]["o"] == "reject" and c["fmt"] == "b3")
    c["exp"] = {"o": "accept", "src": "s", "pad": False, "sampled": False}
    out.append(("carrier without ids expected to be accepted", c))
    for f in ("b3s", "b3m", "jg"):
        c = first(lambda c: c["k"] == "rt" and c["fmt"] == f and c["sc"]["fl"] == 1)
        c["ext"]["sampled"] = False
        c["dev"] = ""
        out.append(("round trip (%s) expected to lose the sampled bit" % f, c))
    for i, (_, c) in enumerate(out):
        c["orig"] = c["id"]
        c["seed_id"] = c["id"]
        c["id"] = 10 ** 9 + i
    return out


def _what(cs, res):
    r = res.get("res", {})
    conc = r.get("concrete", {})
    if cs["k"] == "t":
        exp = {k: v for k, v in cs["exp"].items() if k in ("o", "src", "pad", "sampled")}
        if r.get("depends_on_bytes_behind_the_view"):
            return ("Extract(%s) read beyond the header value: %s (%s, behind the view: %s) gave %s, the same value in an exactly-sized "
                    "buffer gave %s" % (cs["fmt"], json.dumps(conc.get("headers")), conc.get("buffer"), json.dumps(conc.get("behind")),
                                        json.dumps(r.get("observed")), json.dumps(r.get("observed_with_exact_buffer"))))
        return "Extract(%s) from %s (%s): expected %s, observed %s" % (cs["fmt"], json.dumps(conc.get("headers")), conc.get("buffer"),
                                                                       json.dumps(exp), json.dumps(r.get("observed")))
    if cs["k"] == "x":
        return "Extract(%s) from %s: expected %s, observed %s" % (cs["fmt"], json.dumps(conc.get("headers")), json.dumps(cs["exp"]),
                                                                   json.dumps(r.get("observed")))
    return "round trip (%s) of trace_id=%s span_id=%s flags=0x%02x via %s: expected %s, observed %s" % (
        cs["fmt"], conc.get("tid"), conc.get("sid"), conc.get("flags", 0), json.dumps(conc.get("injected")),
        json.dumps(cs["ext"]), json.dumps(r.get("observed")))


def classify(ctx, cases, results, n):
    byid = {c["id"]: c for c in cases}
    cnt = {"ok": 0, "dev": 0, "bad": 0, "crash": 0, "valid": 0, "unchanged": 0}
    reported = 0
    for cid in sorted(results):
        res = results[cid]
        v = res.get("v")
        cs = byid.get(cid)
        cnt[v] = cnt.get(v, 0) + 1
        cnt["valid"] += res.get("valid", 0)
        cnt["unchanged"] += res.get("unchanged", 0)
        rep = {"harness": "c16_b3jaeger", "case": cs, "n": n, "seed": ctx.seed, "result": res}
        if v == "ok":
            continue
        if v == "dev":
            ctx.deviation(cs["dev"], _what(cs, res), rep)
        elif v == "bad":
            if reported < MAX_REPORTS:
                ctx.violation(_what(cs, res), rep)
            reported += 1
        elif v == "crash":
            if reported < MAX_REPORTS:
                ctx.violation("the real propagator crashed / sanitizer report on %s\n%s" % (
                    json.dumps(res.get("concrete")), res.get("stderr", "")[-1200:]), rep)
            reported += 1
        else:
            raise Broken("unknown verdict %r" % v)
    missing = [c["id"] for c in cases if c["id"] not in results]
    if len(missing) != ctx.extra.get("cases_skipped_after_crash_cap", 0) and len(cases) > 1:
        raise Broken("%d cases without a result (%s skipped after crashes)" % (
            len(missing), ctx.extra.get("cases_skipped_after_crash_cap", 0)))
    if reported > MAX_REPORTS:
        ctx.extra["violations_not_written"] = reported - MAX_REPORTS
    return cnt


def replay_cases(ctx, exe, cases):
    n = 12 if ctx.tier == "thorough" else 4
    can = canaries(cases)
    cres = propagation.run_cases(ctx, exe, [c for _, c in can], n, procs=1, tag="canary")
    sweeps, seen = sweep_cases(ctx, cases)
    nbeh = len(cases)
    cases = cases + sweeps
    results = propagation.run_cases(ctx, exe, cases, n, procs=4)
    check_sweeps(ctx, sweeps, seen, results)
    for why, c in can:
        # a canary is concretised exactly like the case it was copied from (seed_id), so: either the
        # corrupted expectation is flagged, or the code under test already fails the genuine case
        r = cres.get(c["id"], {}).get("v")
        orig = results.get(c["orig"], {}).get("v")
        if r in ("bad", "crash") or orig in ("bad", "crash"):
            continue
        if ctx.extra.get("cases_skipped_after_crash_cap") and (r is None or orig is None):
            continue        # not run: too many crashes of the code under test (all reported)
        raise Broken("binding canary not detected (%s): canary %s, genuine case %s" % (why, r, orig))
    ctx.extra["canaries_detected"] = len(can)
    cnt = classify(ctx, cases, results, n)
    if not ctx.violations and (cnt["valid"] == 0 or cnt["unchanged"] == 0):
        raise Broken("vacuity: the real propagators never accepted / never rejected: %s" % cnt)
    ctx.extra["replay"] = {"cases": nbeh, "sweep_cases": len(sweeps), "concretisations_per_case": n,
                           "verdicts": {k: cnt[k] for k in ("ok", "dev", "bad", "crash")},
                           "observed_valid": cnt["valid"], "observed_unchanged": cnt["unchanged"]}
    ctx.traces += nbeh
    ctx.evaluations += sum(r.get("n", 0) for r in results.values())
    for c in cases:
        ctx.distinct.add(("beh", c["id"]))
    shown = 0
    for cs in cases:
        r = results.get(cs["id"], {})
        if "res" in r and r.get("v") == "ok" and shown < 2 and (shown == 0) == (cs["k"] == "rt"):
            ctx.sample({"kind": "TLC (abstract input, expected outcome) line, replayed %d times" % n, "case": cs, "result": r})
            shown += 1
    if shown == 0:
        ctx.sample({"kind": "TLC (abstract input, expected outcome) line", "case": cases[0], "result": results.get(cases[0]["id"])})


def replay_tail(ctx, exe, tcases):
    """The tail family: every case is expanded by the harness to all byte values of its replaced / class positions."""
    skipped0 = ctx.extra.pop("cases_skipped_after_crash_cap", 0)      # (of the class-level replay)
    results = propagation.run_cases(ctx, exe, tcases, 1, procs=4, tag="tail")
    byid = {c["id"]: c for c in tcases}
    # binding canaries: a corrupted expectation must be flagged (chosen among cases the real code passed)
    can = []
    for c in tcases:
        r = results.get(c["id"], {})
        if r.get("v") != "ok":
            continue
        kinds = set(x[0] for x in can)
        if "accept" not in kinds and c["exp"]["o"] == "accept" and c["fmt"] == "jg":
            k = json.loads(json.dumps(c))
            k["exp"]["sampled"] = not k["exp"]["sampled"]
            can.append(("accept", "uber-trace-id prefix = the full form expected with the other sampled bit", k))
        if "either" not in kinds and c["exp"]["o"] == "either" and r.get("valid", 0) == r.get("n", -1):
            k = json.loads(json.dumps(c))
            k["exp"]["o"] = "reject"
            can.append(("either", "a truncated form the code installs ids for expected to be rejected", k))
        if "ids" not in kinds and c["exp"]["o"] == "accept" and c["fmt"] == "b3":
            k = json.loads(json.dumps(c))
            k["exp"]["sid"][-1] = (k["exp"]["sid"][-1] + 1) % 16
            can.append(("ids", "b3 form expected with another span id", k))
    crashed = any(r.get("v") == "crash" for r in results.values())
    if len(can) != 3 and not crashed:
        raise Broken("tail family: no case for a canary (%s)" % [x[0] for x in can])
    for i, (_, _, k) in enumerate(can):
        k["orig"], k["seed_id"], k["id"] = k["id"], k["id"], TAIL_ID0 + 10 ** 8 + i
    cres = propagation.run_cases(ctx, exe, [k for _, _, k in can], 1, procs=1, tag="tailcanary") if can else {}
    for _, why, k in can:
        if cres.get(k["id"], {}).get("v") not in ("bad", "crash"):
            raise Broken("binding canary not detected (tail family: %s): %s" % (why, cres.get(k["id"])))
    ctx.extra["canaries_detected"] = ctx.extra.get("canaries_detected", 0) + len(can)
    # completeness: at every (form, prefix length, replaced position) the classes of the 27 tokens are all 256 byte values
    clean = all(r.get("v") == "ok" for r in results.values()) and len(results) == len(tcases)
    groups, execs = {}, 0
    for cid, r in results.items():
        execs += r.get("n", 0)
        t = byid[cid]["tl"] if cid in byid else None
        if t and t["b"] != "short" and t["pos"] > 0:
            g = (t["b"], t["comp"], t["cut"], t["pos"])
            groups[g] = groups.get(g, 0) + r.get("bytes", 0)
    if clean and (not groups or any(v != 256 for v in groups.values())):
        raise Broken("tail family: byte values per (form, prefix, position) are not 256: %s" % sorted(
            (g, v) for g, v in groups.items() if v != 256)[:5])
    cnt = classify(ctx, tcases, results, 1)
    if skipped0 or ctx.extra.get("cases_skipped_after_crash_cap"):
        ctx.extra["cases_skipped_after_crash_cap"] = skipped0 + ctx.extra.get("cases_skipped_after_crash_cap", 0)
    ctx.extra["tail_family"].update({"executions": execs, "positions_swept_over_all_256_byte_values": len(groups),
                                     "verdicts": {k: cnt[k] for k in ("ok", "bad", "crash")},
                                     "observed_valid": cnt["valid"], "observed_unchanged": cnt["unchanged"]})
    if clean and (cnt["valid"] == 0 or cnt["unchanged"] == 0):
        raise Broken("vacuity (tail family): the real propagators never accepted / never rejected: %s" % cnt)
    ctx.traces += len(tcases)
    ctx.evaluations += execs
    for c in tcases:
        ctx.distinct.add(("beh", c["id"]))
    for c in tcases:
        r = results.get(c["id"], {})
        if "res" in r and r.get("v") == "ok":
            ctx.sample({"kind": "TLC tail-family line (token-level value, expected outcome), expanded to %d executions" % r.get("n", 0),
                        "case": c, "result": r})
            break


def _describe(ev):
    x = {k: v for k, v in ev.get("x", {}).items() if k in ("out", "remote", "sampled")}
    if ev.get("e") == "RT":
        return "round trip (%s) of flags=0x%02x via %s gave %s" % (ev.get("fmt"), ev.get("fl", 0), json.dumps(ev.get("raw")), json.dumps(x))
    return "Extract(%s) from %s gave %s" % (ev.get("e"), json.dumps(ev.get("raw")), json.dumps(x))


def record_validate(ctx, exe):
    propagation.record_validate(
        ctx, exe, harness="c16_b3jaeger", module=MODULE + "Trace", cfg_template=TRACE_CFG, alldevs=ALLDEVS,
        n=60000 if ctx.tier == "thorough" else 9000,
        need_kinds=("rt-b3s", "rt-b3m", "rt-jg", "b3-accept", "b3-either", "b3-reject", "jg-accept", "jg-either", "jg-reject"),
        describe=_describe, max_reports=MAX_REPORTS)


def run(ctx):
    ctx.assumptions += [
        "memory safety (never crashes / reads out of bounds) is not decided by the specification: it is covered only by running the "
        "model-generated inputs under AddressSanitizer+UBSan with exactly-sized, non-NUL-terminated carrier buffers (tail family: "
        "every byte value at the last positions of every prefix of the documented forms) and by demanding the same observation "
        "when the value is followed in-buffer by other bytes",
        "concretisation table of harness/c16_b3jaeger.cc (abstract class -> bytes) is trusted",
        "ids are symbolic in the spec (classes) and sampled by the seeded concretiser; the 256 flag bytes are enumerated",
        "documented forms = lower-case hex, 32 or 16 digit trace id, 16 digit span id, b3 'tid-sid[-S[-parent]]' with S in 1/0/d, "
        "X-B3-Sampled 1/0/absent, uber-trace-id 'tid:sid:parent:flags' with parent 0 or 16 hex and flags 00/01; everything else is "
        "'arbitrary bytes' for which the statement only demands unchanged-or-non-zero-ids",
    ]
    ctx.extra["rule"] = ("states/transitions: TLC over the abstract partition (ideal + as-implemented + trace validation); a case = one BEH line "
                         "(abstract input, expected outcome), distinct by construction (distinct TLC states), each concretised n times; plus one "
                         "case per recorded execution (distinct seeds; byte-level duplicates possible and not removed)")
    exe = build.harness("c16_b3jaeger", ["c16_b3jaeger.cc"], "asan", need_sdk=False)
    phases = {}
    t0 = ctx.timer.s()
    r, rt = model_check(ctx)
    cases = generate(ctx, r)
    tcases = generate_tail(ctx, rt)
    phases["tlc_model_check_and_export_s"] = round(ctx.timer.s() - t0, 1)
    t0 = ctx.timer.s()
    replay_cases(ctx, exe, cases)
    phases["replay_s"] = round(ctx.timer.s() - t0, 1)
    t0 = ctx.timer.s()
    replay_tail(ctx, exe, tcases)
    phases["replay_tail_s"] = round(ctx.timer.s() - t0, 1)
    t0 = ctx.timer.s()
    record_validate(ctx, exe)
    phases["record_validate_s"] = round(ctx.timer.s() - t0, 1)
    ctx.extra["phase_wall"] = phases


def replay(ctx, path):
    rep = json.load(open(path))["replay"]
    if "events" in rep:
        propagation.replay_events(ctx, MODULE + "Trace", TRACE_CFG, ALLDEVS, rep["events"])
        ctx.states = max(ctx.states, 1)
        ctx.transitions = max(ctx.transitions, 1)
        return
    if not rep.get("case"):
        raise Broken("replay file has neither a case nor events; re-run the check with the recorded seed")
    exe = build.harness("c16_b3jaeger", ["c16_b3jaeger.cc"], "asan", need_sdk=False)
    ctx.seed = rep.get("seed", ctx.seed)
    cs = rep["case"]
    results = propagation.run_cases(ctx, exe, [cs], rep["n"], procs=1)
    classify(ctx, [cs], results, rep["n"])
    ctx.traces += 1
    ctx.sample({"kind": "replayed case", "case": cs, "result": results.get(cs["id"])})
    ctx.states = max(ctx.states, 1)
    ctx.transitions = max(ctx.transitions, 1)
