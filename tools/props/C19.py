"""C19 - instrument names, views and scope rules select exactly what they describe.

Three explicit TLA+ specifications, each model-checked by TLC and bound to the real SDK:

  InstrumentNames.tla  ValidName/ValidUnit transcribed from the statement over an abstract partition
                       of all byte strings (length class x first-char class x distinguished-char class
                       x position x memory layout).  TLC enumerates the partition, checks the contract
                       invariants and prints (abstract case, expected outcome, deviation alternatives).
  Views.tla            AddView / CreateInstrument / Collect machine; Streams(i, views) = one stream per
                       matching view, default stream otherwise; invariants ExactlyMatching,
                       OnlyViewShapes, DefaultWhenNoMatch on every reachable state; sweep export of
                       (view list x instrument) expectations, random multi-instrument behaviours.
  ScopeConfig.tla      configurator (ordered rules, first match wins) + provider registry machine for
                       tracer / meter / logger; invariants FirstMatchWins,
                       DisabledEmitsNothingOthersUnaffected, DifferentlyNamedUnaffected,
                       SameArgsSameObject.  Behaviour replay AND trace validation
                       (ScopeConfigTrace.tla) of long random real histories.

  ScopeIdentityConc.tla  the identity clause for CONCURRENT requests: threads Call / Lin (atomic lookup-or-
                       create) / Ret on one provider; invariants SameIdentitySameObject,
                       DifferentIdentityDifferentObject, RegistryOnePerIdentity in every interleaving.  Real
                       providers used by 2-3 threads under the deterministic scheduler (harness/c19_conc.cc,
                       flavour shim; random + PCT schedules) are validated by ScopeIdentityConcTrace.tla.

spec -> code: harness/c19_*.cc (ASan+UBSan) concretises every abstract case through a fixed table,
drives the public API and projects what a pull reader / capturing exporter sees.  Expected values
always come out of TLC; this file only shuttles JSON and compares canonical forms.
"""
import concurrent.futures as cf
import json
import os

from lib import build, hrun, tlc, trace
from lib.common import Broken, log

LEVEL = "model_checking"

NAME_DEVS = ["name-validated-as-c-string", "unit-validated-as-c-string"]
VIEW_DEVS = ["multi-view-last-wins", "observable-view-attribute-filter-ignored", "attribute-filter-key-as-c-string"]
SCOPE_DEVS = ["getlogger-disabled-scope-new-object"]

NAME_INVS = "TypeOK StatementName StatementUnit ExactlyValid LayoutFree DevNarrow HandAgrees"
VIEW_INVS = "ExactlyMatching OnlyViewShapes MeterIdentityExact DefaultWhenNoMatch DevNarrow"
SCOPE_INVS = ("FirstMatchWins DisabledEmitsNothingOthersUnaffected DifferentlyNamedUnaffected "
              "SameArgsSameObject DifferentArgsDifferentObject DevNarrow")

NAME_TAGS = {"valid255", "invalid256", "unit63", "unit64", "devname", "devunit", "nulname", "highunit"}
VIEW_TAGS = {"TwoMatch", "FirstOnly", "SecondOnly", "NoneOfTwo", "Drop", "ObsFilter", "KeyView", "KeyNul",
             "EmptyFilter", "VersionMiss", "SchemaMiss", "MeterNameMiss", "TypeMiss", "UnitMiss", "PrefixHit",
             "SuffixHit", "ExactMiss", "Rename", "Default",
             # empty identity fields on the meter side / an instrument without unit
             "UnnamedMeterMiss", "UnnamedMeterHit", "BareMeterMiss", "BareMeterHit", "NoVersionMeterHit",
             "NoSchemaMeterHit", "NoVersionMeterNameMiss", "NoUnitInstMiss", "NoUnitInstHit"}
RX_LABELS = {"alt", "altone", "altsub", "opt", "plus", "star", "cls", "any", "escdot", "anch", "rep"}
SCOPE_TAGS = {"enabled", "disabled", "default", "second", "third", "shadowed", "byname", "bycond", "unnamed", "unnamedskip"}
SCOPE_WITS = {"SameTwice", "DisabledLogTwice", "EnabledLogTwice", "Mixed", "EmitOldHandle"}


# ------------------------------------------------------------------------------------------------
def _cfg(ctx, name, text):
    p = ctx.rundir.file(name)
    with open(p, "w") as f:
        f.write(text)
    return p


def views_cfg(types, pats, usel, msel, shapes, inames, iunits, meters, attrs, maxv, maxi, hist, inv):
    return ("CONSTANTS\n  TypeSet <- %s  PatSet <- %s  UnitSelSet <- %s  MSelSet <- %s  ShapeSet <- %s\n"
            "  INameSet <- %s  IUnitSet <- %s  MeterSet <- %s  AttrSet <- %s\n"
            "  MaxViews = %d  MaxInst = %d  Hist = %s\nINIT Init\nNEXT Next\nVIEW View\nINVARIANTS %s\n" % (
                types, pats, usel, msel, shapes, inames, iunits, meters, attrs, maxv, maxi,
                "TRUE" if hist else "FALSE", inv))


def scope_cfg(signals, matchers, scopes, maxr, maxg, maxe, dev, hist, inv, init="Init"):
    return ("CONSTANTS\n  SignalSet <- %s  MatcherSet <- %s  ScopeSet <- %s\n"
            "  MaxRules = %d  MaxGets = %d  MaxEmits = %d  Dev <- %s  Hist = %s\n"
            "INIT %s\nNEXT Next\nVIEW View\nINVARIANTS %s\n" % (
                signals, matchers, scopes, maxr, maxg, maxe, dev, "TRUE" if hist else "FALSE", init, inv))


class Job:
    def __init__(self, name, module, cfgtext, **kw):
        self.name, self.module, self.cfgtext, self.kw = name, module, cfgtext, kw
        self.result = None


def run_jobs(ctx, jobs, parallel=3):
    """Run TLC jobs a few at a time (each with <= 4 workers); bookkeeping in the main thread."""
    def one(j):
        cfg = _cfg(ctx, j.name + ".cfg", j.cfgtext)
        kw = dict(j.kw)
        kw.setdefault("workers", 2)
        kw.setdefault("timeout_s", 900 if ctx.tier == "quick" else 2400)
        return tlc.tlc(j.module, cfg, rundir=ctx.rundir.path, tag=j.name, xmx="6g", **kw)
    with cf.ThreadPoolExecutor(max_workers=parallel) as ex:
        futs = [(j, ex.submit(one, j)) for j in jobs]
        for j, f in futs:
            j.result = f.result()
    for j in jobs:
        ctx.add_tlc(j.name, j.result)
        log("tlc %-20s %-9s distinct=%-8d %.1fs" % (j.name, j.result.status, j.result.distinct, j.result.wall))
    return {j.name: j.result for j in jobs}


def expect_status(r, name, want):
    if r.status != want:
        raise Broken("TLC run %s: status %s (wanted %s), violated=%s\n%s" % (name, r.status, want, r.violated, r.out[-2500:]))


def canon(x):
    return json.dumps(x, sort_keys=True)


def run_harness_chunks(ctx, exe, mode, lines, instances, tag, nproc=4, env=None):
    """Feed ndjson lines to `c19_replay <mode>`, split over a few processes.  Returns parsed output
    lines.  A crash of the code under test is reported as a VIOLATION with the offending input."""
    if not lines:
        return []
    nproc = max(1, min(nproc, len(lines) // 50 + 1))
    chunks = [lines[i::nproc] for i in range(nproc)]
    paths = []
    for i, ch in enumerate(chunks):
        p = ctx.rundir.file("in-%s-%d.ndjson" % (tag, i))
        with open(p, "w") as f:
            f.write("\n".join(ch) + "\n")
        paths.append(p)
    out = []
    with cf.ThreadPoolExecutor(max_workers=nproc) as ex:
        futs = [ex.submit(hrun.run_harness, exe, [mode, p, ctx.seed, instances], timeout=1500, env=env) for p in paths]
        for ch, f in zip(chunks, futs):
            r = f.result()
            res = r.json()
            if r.rc == 3:
                raise Broken("harness c19_replay %s is broken: %s" % (mode, r.err[-1500:]))
            if r.rc != 0 or r.timed_out:
                done = {x.get("id") for x in res}
                nxt = None
                for ln in ch:
                    if json.loads(ln)["id"] not in done:
                        nxt = json.loads(ln)
                        break
                ctx.violation("%s: the real code %s while replaying a TLC-generated case (rc=%s): %s" % (
                    tag, "hung" if r.timed_out else "crashed", r.rc, _first_error(r.err)),
                    {"part": mode, "line": nxt, "instances": instances, "seed": ctx.seed, "stderr": r.err[-3000:]})
            out += res
    for p in paths:
        try:
            os.unlink(p)
        except OSError:
            pass
    return out


def _first_error(err):
    for ln in err.splitlines():
        if "ERROR:" in ln or "runtime error:" in ln:
            return ln.strip()[:200]
    return err.strip()[-200:]


def classify(ctx, actual, exp, alts, match_alt, what, replay_obj, stats):
    """Compare one observed projection with the TLC expectation; returns True when the ideal held."""
    if actual == exp:
        stats["ideal"] = stats.get("ideal", 0) + 1
        return True
    for a in sorted(alts, key=lambda a: (len(a["dev"]), sorted(a["dev"]))):
        if match_alt(a):
            for d in sorted(a["dev"]):
                stats[d] = stats.get(d, 0) + 1
                ctx.deviation(d, what(), replay_obj())
            return False
    stats["violations"] = stats.get("violations", 0) + 1
    if stats["violations"] <= 8:
        ctx.violation(what(), replay_obj())
    return False


# ================================================================================================
# 1. names / units
# ================================================================================================
def names_jobs(ctx):
    # one run: the contract invariants on every case of the partition + the expected outcome per case
    return [Job("names-all", "InstrumentNames",
                'CONSTANTS Part = "all"\nINIT Init\nNEXT Next\nINVARIANTS %s Emit\n' % NAME_INVS, workers=3)]


def names_replay(ctx, exe, results):
    thorough = ctx.tier == "thorough"
    cases = []
    tags = set()
    r = results["names-all"]
    expect_status(r, "names-all", "ok")
    b = r.printed("BEH")
    if len(b) != r.distinct or not b:
        raise Broken("names-all: %d BEH lines for %d states" % (len(b), r.distinct))
    for c in b:
        tags |= set(c["tags"])
        cases.append(c)
    if tags != NAME_TAGS:
        raise Broken("vacuity: name/unit partition misses the situations %s" % sorted(NAME_TAGS - tags))
    cases.sort(key=canon)
    for i, c in enumerate(cases):
        c["id"] = i
    inst = 4 if thorough else 2

    def line(c):
        return json.dumps({k: c[k] for k in ("id", "name", "nterm", "unit", "uterm", "sweep")})
    exact = [c for c in cases if "exact" in (c["nterm"], c["uterm"])]
    if not thorough:   # a seeded quarter of the exactly-sized layouts (each runs in a forked child)
        exact = [c for c in exact if (c["id"] * 2654435761 + ctx.seed) % 4 == 0 or any(
            r["c"] == "nul" for r in c["name"] + c["unit"])]
    plain = [c for c in cases if "exact" not in (c["nterm"], c["uterm"])]
    out = run_harness_chunks(ctx, exe, "names", [line(c) for c in plain], inst, "names")
    # the forked children die with an ASan report when the code reads past an exactly-sized block;
    # symbolising every such report would dominate the run time
    out += run_harness_chunks(ctx, exe, "names", [line(c) for c in exact], inst if thorough else 1, "names-exact",
                              env={"ASAN_OPTIONS": build.ASAN_ENV["ASAN_OPTIONS"] + ":symbolize=0"})
    stats = {}
    seen_ids = set()
    bytes_seen = set()
    byid = {c["id"]: c for c in cases}
    for r in out:
        c = byid[r["id"]]
        seen_ids.add(r["id"])
        if "byte" in r:
            bytes_seen.add(r["byte"])
        ctx.distinct.add(("names", r["id"], r.get("byte", -1)))

        def what(c=c, r=r):
            return ("instrument name (len %d, hex %s, layout %s) unit (hex %s, layout %s) created as %s: expected %s, real Meter: %s%s"
                    % (r["nlen"], r["nhex"], c["nterm"], r["uhex"], c["uterm"], r["kind"], c["exp"], r["out"],
                       (" (" + r["detail"][:90] + ")") if r.get("detail") else ""))

        def rep(c=c, r=r):
            return {"part": "names", "line": json.loads(line(c)), "expect": {"exp": c["exp"], "alts": c["alts"]},
                    "instances": r["inst"] + 1, "seed": ctx.seed, "observed": r}
        classify(ctx, r["out"], c["exp"], c["alts"],
                 lambda a, r=r: a["out"] == r["out"] or a["out"] == "undefined", what, rep, stats)
    want = {c["id"] for c in plain} | {c["id"] for c in exact}
    if seen_ids != want and not ctx.violations:
        raise Broken("names replay: %d of %d cases came back" % (len(seen_ids), len(want)))
    if len(bytes_seen) != 256 and not ctx.violations:
        raise Broken("byte sweep covered %d of 256 byte values" % len(bytes_seen))
    ctx.traces += len(out)
    ctx.extra["names_cases"] = len(cases)
    ctx.extra["names_replays"] = len(out)
    ctx.extra["names_exact_layout_cases_replayed"] = len(exact)
    ctx.extra["names_byte_values_swept"] = len(bytes_seen)
    ctx.extra["names_outcomes"] = stats
    ctx.sample({"kind": "abstract name/unit case (TLC) and what the real Meter did",
                "case": {k: plain[len(plain) // 3][k] for k in ("name", "nterm", "unit", "uterm", "exp", "alts")},
                "observed": [r for r in out if r["id"] == plain[len(plain) // 3]["id"]][:2]})


# ================================================================================================
# 2. views
# ================================================================================================
def views_jobs(ctx):
    thorough = ctx.tier == "thorough"
    t2 = "Types3" if thorough else "Types2"
    jobs = [
        # exhaustive model checking (no history variable)
        Job("views-mc-pairs", "Views", views_cfg(t2, "Pats3", "UnitSel2", "MSels4" if thorough else "MSels2", "Shapes2",
                                                 "INamesAll", "IUnit1", "Meters2", "Attrs1",
                                                 2, 1, False, VIEW_INVS), workers=4, coverage=True),
        Job("views-mc-select", "Views", views_cfg(t2, "PatsAll", "UnitSelAll", "MSelsAll",
                                                  "Shape1", "INamesAll", "IUnitsAll", "Meters3", "Attrs1", 1, 1, False,
                                                  VIEW_INVS), workers=4 if thorough else 3),
        Job("views-mc-shape", "Views", views_cfg("TypesAll", "Pats3" if thorough else "Pats2",
                                                 "UnitSel2" if thorough else "UnitSelAny", "MSelAny", "ShapesAll", "IName1",
                                                 "IUnit1", "Meter1", "AttrsAll", 1, 1, False, VIEW_INVS), workers=3),
        # regular-expression name selectors, one operator alone per pattern: model checking + sweep export in one run
        Job("views-mc-regex", "Views", views_cfg("Types1", "PatsRx", "UnitSelAny", "MSelAny", "Shape1", "INamesRx", "IUnit1",
                                                 "Meter1", "Attrs1", 1, 1, False, VIEW_INVS + " EmitSweep")),
        # meter identity: EVERY meter selector x EVERY meter, both over {empty, a, b}^3 for name / version / schema url
        # (27 selectors x 27 meters; thorough: x unit selector x instrument unit over {empty, a, b}): model checking + sweep export
        Job("views-mc-meters", "Views", views_cfg("Types1", "PatAllOnly", "UnitSelAll" if thorough else "UnitSelAny", "MSelsAll",
                                                  "Shape1", "IName1", "IUnitsAll" if thorough else "IUnit1", "MetersAll", "Attrs1",
                                                  1, 1, False, VIEW_INVS + " EmitSweep")),
        # sweep exports: every selector / every shape / every pair over a product domain
        Job("views-g-select", "Views", views_cfg(t2, "PatsAll", "UnitSelAll", "MSelsAll", "Shape1", "INamesAll",
                                                 "IUnitsAll", "Meters3", "Attrs1", 1, 0, False, "EmitSweep")),
        Job("views-g-shape", "Views", views_cfg("TypesAll", "PatAllOnly", "UnitSelAny", "MSelAny", "ShapesAll", "IName1",
                                                "IUnit1", "Meter1", "AttrsAll", 1, 0, False, "EmitSweep")),
        Job("views-g-pairs", "Views", views_cfg("Types2", "Pats3", "UnitSelAny" if not thorough else "UnitSel2",
                                                "MSels2" if not thorough else "MSels4", "Shapes2", "INamesAll", "IUnit1",
                                                "MetersAB" if not thorough else "Meters2U", "Attrs1", 2, 0, False, "EmitSweep")),
        # random view pairs over the larger domain, and random multi-instrument behaviours of the machine
        Job("views-g-pairs-sim", "Views", views_cfg("TypesAll", "PatsAll", "UnitSel2", "MSels4", "Shapes2", "INamesAll",
                                                    "IUnits2", "Meters6" if thorough else "Meters2U", "Attrs1", 2, 0, False, "EmitSweep"),
            simulate={"num": 600 if thorough else 120, "depth": 3}, seed=ctx.seed + 19),
        Job("views-g-beh-sim", "Views", views_cfg("Types3", "PatsMix", "UnitSel2", "MSels4", "ShapesAll", "INamesMix",
                                                  "IUnits2", "Meters6", "AttrsAll", 2, 3, True, "EmitAll"),
            simulate={"num": 1500 if thorough else 250, "depth": 7}, seed=ctx.seed + 23),
    ]
    return jobs


def views_replay(ctx, exe, results):
    thorough = ctx.tier == "thorough"
    for n in ("views-mc-pairs", "views-mc-select", "views-mc-shape", "views-mc-regex", "views-mc-meters", "views-g-select", "views-g-shape",
              "views-g-pairs", "views-g-pairs-sim", "views-g-beh-sim"):
        expect_status(results[n], n, "ok")
    cov = results["views-mc-pairs"].coverage
    for a in ("AddView", "CreateInst", "Collect"):
        if cov.get(a, (0, 0))[0] == 0:
            raise Broken("vacuity: action %s never taken in views-mc-pairs (%s)" % (a, sorted(cov)))
    lines = []       # harness input objects
    expect = {}      # id -> list of (exp, alts) per instrument
    seen = set()
    tags = set()
    rxtags = set()

    def add(views, insts, shared, src):
        key = canon([views, [x["i"] for x in insts], shared])
        if key in seen or not insts:
            return
        seen.add(key)
        i = len(lines)
        lines.append({"id": i, "shared": shared, "views": views, "insts": [x["i"] for x in insts], "src": src})
        expect[i] = insts
        for x in insts:
            tags.update(x.get("tags", []))
            rxtags.update(tuple(t) for t in x.get("rxtags", []))
    for n in ("views-mc-regex", "views-mc-meters", "views-g-select", "views-g-shape", "views-g-pairs", "views-g-pairs-sim"):
        got = results[n].printed("BEHS")
        if not got:
            raise Broken("%s printed no sweep lines" % n)
        for b in got:
            add(b["views"], sorted(b["cases"], key=lambda x: canon(x["i"])), False, n)
    nbeh = 0
    for b in results["views-g-beh-sim"].printed("BEH"):
        views = [s["v"] for s in b if s["op"] == "view"]
        insts = [s for s in b if s["op"] == "inst"]
        add(views, insts, True, "views-g-beh-sim")
        nbeh += 1
    if nbeh == 0:
        raise Broken("views-g-beh-sim printed no behaviour")
    if tags != VIEW_TAGS:
        raise Broken("vacuity: the replayed view cases miss the situations %s" % sorted(VIEW_TAGS - tags))
    want_rx = {(h, l) for h in ("hit", "miss") for l in RX_LABELS}
    if not want_rx <= rxtags:
        raise Broken("vacuity: regular-expression selectors never %s" % sorted(want_rx - rxtags))
    inst = 2 if thorough else 1
    out = run_harness_chunks(ctx, exe, "views", [json.dumps({k: l[k] for k in ("id", "shared", "views", "insts")})
                                                   for l in lines], inst, "views", nproc=6)
    stats = {}
    ncases = 0
    came = set()
    for r in out:
        l = lines[r["id"]]
        came.add(r["id"])
        got = {x["j"]: x["streams"] for x in r["res"]}
        if r["unattributed"]:
            ctx.violation("views: streams that belong to no instrument of the behaviour were collected: %s" % r["unattributed"][:3],
                          {"part": "views", "line": l, "expect": expect[r["id"]], "instances": r["inst"] + 1, "seed": ctx.seed})
        for j, x in enumerate(expect[r["id"]]):
            ncases += 1
            ctx.distinct.add(("views", canon(l["views"]), canon(x["i"])))
            act = sorted(canon(_norm_stream(s)) for s in got.get(j, []))
            exp = sorted(canon(_norm_stream(s)) for s in x["exp"])

            def what(l=l, x=x, act=act, exp=exp):
                return "views %s; instrument %s: expected streams %s, collected %s" % (
                    canon(l["views"]), canon(x["i"]), exp, act)

            def rep(l=l, r=r):
                return {"part": "views", "line": {k: l[k] for k in ("id", "shared", "views", "insts")},
                        "expect": expect[l["id"]], "instances": r["inst"] + 1, "seed": ctx.seed}
            classify(ctx, act, exp, x["alts"],
                     lambda a, act=act: sorted(canon(_norm_stream(s)) for s in a["streams"]) == act, what, rep, stats)
    if came != set(range(len(lines))) and not ctx.violations:
        raise Broken("views replay: %d of %d lines came back" % (len(came), len(lines)))
    ctx.traces += len(out)
    ctx.extra["views_lines_replayed"] = len(out)
    ctx.extra["views_instrument_cases_compared"] = ncases
    ctx.extra["views_machine_behaviours"] = nbeh
    ctx.extra["views_outcomes"] = stats
    ctx.extra["views_tags_seen"] = sorted(tags)
    ctx.extra["views_regex_operator_cases"] = sorted("%s:%s" % t for t in rxtags)
    mid = next(l for l in lines if l["src"] == "views-g-beh-sim")
    ctx.sample({"kind": "Views.tla behaviour (TLC) replayed on MeterProvider/ViewRegistry/Meter",
                "views": mid["views"], "instruments": [{"i": x["i"], "exp": x["exp"]} for x in expect[mid["id"]]][:3]})
    return ncases


def _norm_stream(s):
    d = dict(s)
    d["keys"] = sorted(d["keys"])
    return d


# ================================================================================================
# 3. scope configurator + identity
# ================================================================================================
def scope_jobs(ctx):
    thorough = ctx.tier == "thorough"
    return [
        Job("scope-mc-rules", "ScopeConfig", scope_cfg("SignalOne", "Matchers5", "Scopes5", 3, 1, 1, "NoDev", False, SCOPE_INVS)),
        Job("scope-mc-ops", "ScopeConfig", scope_cfg("SignalsAll", "Matchers3", "Scopes3", 2, 4 if thorough else 3, 2,
                                                     "NoDev", False, SCOPE_INVS), coverage=True),
        Job("scope-mc-asimpl", "ScopeConfig", scope_cfg("SignalsAll", "Matchers3", "Scopes3", 2, 3, 2, "AllDevs", False,
                                                        SCOPE_INVS), coverage=True),
        # every rule list of <= 3 rules x both defaults x the three signals, all scopes
        Job("scope-g-sweep", "ScopeConfig", scope_cfg("SignalsAll", "Matchers5", "Scopes7", 3, 0, 0, "NoDev", False, "EmitSweep")),
        Job("scope-g-sweep-attr", "ScopeConfig", scope_cfg("SignalLogs", "Matchers3", "ScopesLog", 2, 0, 0, "NoDev", False,
                                                           "EmitSweep")),
        # identities with EMPTY fields: every combination of empty / given name, version, schema url (8 scopes, one of them
        # Get*("")) under every rule list of <= 2 rules: model checking (one Get, one Emit) + sweep export
        Job("scope-mc-empty", "ScopeConfig", scope_cfg("SignalsAll", "Matchers3", "ScopesE", 2, 1, 1, "NoDev", False,
                                                       SCOPE_INVS + " EmitSweep")),
        # witness-directed behaviours (identity asked twice, disabled logger twice, ...)
        Job("scope-g-wit", "ScopeConfig", scope_cfg("SignalsAll", "Matchers3", "Scopes3", 1, 3, 2, "NoDev", True, "WitAll",
                                                    init="WInit"), workers=1),
        Job("scope-g-sim", "ScopeConfig", scope_cfg("SignalsAll", "Matchers5", "Scopes9", 3, 6, 6, "NoDev", True, "EmitAll"),
            simulate={"num": 2500 if thorough else 400, "depth": 13}, seed=ctx.seed + 31),
    ]


def scope_replay(ctx, exe, results):
    thorough = ctx.tier == "thorough"
    for n in ("scope-mc-rules", "scope-mc-ops", "scope-mc-asimpl", "scope-mc-empty", "scope-g-sweep", "scope-g-sweep-attr", "scope-g-sim"):
        expect_status(results[n], n, "ok")
    for n, acts in (("scope-mc-ops", ("GetIdeal", "Emit")), ("scope-mc-asimpl", ("GetIdeal", "GetDev", "Emit"))):
        cov = results[n].coverage
        for a in acts:
            if cov.get(a, (0, 0))[0] == 0:
                raise Broken("vacuity: action %s never taken in %s" % (a, n))
    expect_status(results["scope-g-wit"], "scope-g-wit", "invariant")
    lines, expect, tags, wits, seen = [], {}, set(), set(), set()

    def add(b, steps, exp, src):
        key = canon([b["signal"], b["rules"], b["dflt"], steps])
        if key in seen:
            return
        seen.add(key)
        i = len(lines)
        lines.append({"id": i, "signal": b["signal"], "rules": b["rules"], "dflt": b["dflt"], "steps": steps, "src": src})
        expect[i] = exp
    for n in ("scope-g-sweep", "scope-g-sweep-attr", "scope-mc-empty"):
        got = results[n].printed("BEHS")
        if not got:
            raise Broken("%s printed nothing" % n)
        for b in got:
            steps, exp = [], []
            order = sorted(b["cases"], key=lambda c: canon(c["scope"]))
            if (len(lines) + ctx.seed) % 2:     # both request orders matter for identities that are related
                order.reverse()
            for k, c in enumerate(order):
                tags.update(c["tags"])
                steps += [{"op": "get", "scope": c["scope"], "cmp": list(range(1, k + 1))}, {"op": "emit", "h": k + 1}]
                # `shares` (printed by TLC): the other scopes of the sweep that must be the same object
                same = [j + 1 for j in range(k) if order[j]["scope"] in c["shares"]]
                exp += [{"exp": same, "alts": []}, {"exp": c["enabled"]}]
            add(b, steps, exp, n)
    for n in ("scope-g-wit", "scope-g-sim"):
        got = results[n].printed("BEH")
        if not got:
            raise Broken("%s printed no behaviour" % n)
        for b in got:
            if b.get("wit"):
                wits.add(b["wit"])
            steps = [({"op": "get", "scope": s["scope"], "cmp": sorted(s["cmp"])} if s["op"] == "get"
                      else {"op": "emit", "h": s["h"]}) for s in b["steps"]]
            exp = [({"exp": sorted(s["exp"]), "alts": s["alts"]} if s["op"] == "get" else {"exp": s["exp"]})
                   for s in b["steps"]]
            add(b, steps, exp, n)
    if tags != SCOPE_TAGS:
        raise Broken("vacuity: the rule-list sweep misses the situations %s" % sorted(SCOPE_TAGS - tags))
    if wits != SCOPE_WITS:
        raise Broken("vacuity: witness behaviours not found: %s" % sorted(SCOPE_WITS - wits))
    inst = 2 if thorough else 1
    out = run_harness_chunks(ctx, exe, "scopes", [json.dumps({k: l[k] for k in ("id", "signal", "rules", "dflt", "steps")})
                                                    for l in lines], inst, "scopes", nproc=4)
    stats = {}
    nsteps = 0
    came = set()
    for r in out:
        l = lines[r["id"]]
        came.add(r["id"])
        ctx.distinct.add(("scopes", r["id"]))
        for k, (st, ex, ob) in enumerate(zip(l["steps"], expect[r["id"]], r["res"])):
            nsteps += 1

            def rep(l=l, r=r):
                return {"part": "scopes", "line": {x: l[x] for x in ("id", "signal", "rules", "dflt", "steps")},
                        "expect": expect[l["id"]], "instances": r["inst"] + 1, "seed": ctx.seed}
            if st["op"] == "get":
                def what(l=l, st=st, ex=ex, ob=ob, k=k):
                    return ("%s provider, rules %s default %s: step %d Get(%s) must be the same object as exactly the earlier "
                            "handles %s (those requested with the same arguments), but is identical to the handles %s" % (
                                l["signal"], canon(l["rules"]), l["dflt"], k + 1, canon(st["scope"]), ex["exp"], ob["same"]))
                ok = classify(ctx, sorted(ob["same"]), ex["exp"], ex["alts"],
                              lambda a, ob=ob: sorted(a["same"]) == sorted(ob["same"]), what, rep, stats)
            else:
                def what(l=l, st=st, ex=ex, ob=ob, k=k):
                    return ("%s provider, rules %s default %s: step %d telemetry through handle %d (scope %s) expected %s, observed '%s'"
                            % (l["signal"], canon(l["rules"]), l["dflt"], k + 1, st["h"],
                               canon(l["steps"][[i for i, s in enumerate(l["steps"]) if s["op"] == "get"][st["h"] - 1]]["scope"]),
                               "to arrive" if ex["exp"] else "NOT to arrive", ob["appeared"]))
                classify(ctx, ob["appeared"], "yes" if ex["exp"] else "no", [], lambda a: False, what, rep, stats)
    if came != set(range(len(lines))) and not ctx.violations:
        raise Broken("scopes replay: %d of %d behaviours came back" % (len(came), len(lines)))
    ctx.traces += len(out)
    ctx.extra["scope_behaviours_replayed"] = len(out)
    ctx.extra["scope_steps_compared"] = nsteps
    ctx.extra["scope_outcomes"] = stats
    w = next(l for l in lines if l["src"] == "scope-g-wit")
    ctx.sample({"kind": "ScopeConfig.tla witness behaviour (TLC) replayed on a real provider", "signal": w["signal"],
                "rules": w["rules"], "dflt": w["dflt"], "steps": w["steps"], "expected": expect[w["id"]]})


def _trace_cfg(ctx):
    """ScopeConfigTrace config with Dev = the deviations currently listed as known."""
    known = sorted(d for d in SCOPE_DEVS if d in ctx.known_devs())
    cfg = _cfg(ctx, "sctrace.cfg",
               "CONSTANTS\n  SignalSet <- SignalsAll  MatcherSet <- Matchers3  ScopeSet <- Scopes3\n"
               "  MaxRules = 0  MaxGets = 100000  MaxEmits = 100000  Hist = FALSE\n  Dev = {%s}\n"
               "INIT TInit\nNEXT TNext\nCONSTRAINT Progress\nINVARIANTS Report TraceInv\nPOSTCONDITION Accepted\n"
               "CHECK_DEADLOCK FALSE\n" % ", ".join('"%s"' % d for d in known))
    return known, cfg


def scope_traces(ctx, exe):
    """code -> spec: long random histories of real providers validated by ScopeConfigTrace.tla."""
    thorough = ctx.tier == "thorough"
    nexec, nops = (1500, 60) if thorough else (200, 40)
    known, cfg = _trace_cfg(ctx)
    nproc = 4
    per = (nexec + nproc - 1) // nproc
    lines = []
    with cf.ThreadPoolExecutor(max_workers=nproc) as ex:
        futs = [ex.submit(hrun.run_harness, exe, ["record", ctx.seed * 131 + i, per, nops], timeout=1200) for i in range(nproc)]
        for i, f in enumerate(futs):
            r = f.result()
            if r.rc == 3:
                raise Broken("recorder broken: " + r.err[-1000:])
            if r.rc != 0:
                ctx.violation("scopes: the real provider crashed under a random Get/Emit history (rc=%s): %s" % (r.rc, _first_error(r.err)),
                              {"part": "record", "args": ["record", ctx.seed * 131 + i, per, nops], "stderr": r.err[-3000:]})
            lines += [ln for ln in r.lines if ln.startswith("{")]
    if not lines:
        raise Broken("recorder produced no events")
    res = trace.validate(ctx, "ScopeConfigTrace", cfg, lines, chunk=(per + 1) // 2, parallel=4, tag="sc", max_rejects=2)
    ctx.extra["scope_executions_validated"] = res["executions"]
    ctx.extra["scope_events_validated"] = res["events"]
    ctx.extra["scope_executions_rejected"] = len(res["rejected"])
    for rj in res["rejected"][:3]:
        ev, at = rj["events"], rj["at"]
        ctx.violation("scopes: ScopeConfigTrace rejects a real %s-provider history at event %d: %s (configuration %s)" % (
            ev[0].get("signal"), at, json.dumps(ev[at]) if at < len(ev) else "?", json.dumps(ev[0])),
            {"part": "trace", "events": ev, "at": at})
    # which listed deviations did the accepted executions need?  (one more pass over a sample chunk,
    # reading DEVUSED / DEVAT)
    if known:
        execs = trace.split_executions(lines)
        sample = [e for e in execs if '"signal":"logs"' in e[0]][:150]
        if sample:
            p = ctx.rundir.file("sc-devused.ndjson")
            with open(p, "w") as f:
                for e in sample:
                    f.write("\n".join(e) + "\n")
            r = tlc.tlc("ScopeConfigTrace", cfg, rundir=ctx.rundir.path, workers=1, timeout_s=600, env={"TRACE": p},
                        tag="sc-devused", deadlock=True)
            ctx.add_tlc("scope-trace-devused", r)
            used = r.printed_raw("DEVUSED")
            at = r.printed_raw("DEVAT")
            if r.status == "ok" and used:
                flat = [ln for e in sample for ln in e]
                for d in known:
                    if d in used[-1]:
                        k = int(at[0]) - 1 if at else 0
                        s = max(i for i in range(k + 1) if '"e":"Cfg"' in flat[i])
                        ctx.deviation(d, "a recorded LoggerProvider history is accepted only with the deviation: event %s after configuration %s" % (
                            flat[k], flat[s]), {"part": "trace", "events": [json.loads(x) for x in flat[s:k + 1]], "at": k - s})
    ex0 = trace.split_executions(lines)[0]
    ctx.sample({"kind": "real provider history validated by ScopeConfigTrace.tla", "events": [json.loads(x) for x in ex0[:10]]})


# ================================================================================================
# 4. identity under concurrent requests
# ================================================================================================
IDENT_INVS = "SameIdentitySameObject DifferentIdentityDifferentObject RegistryOnePerIdentity"


def ident_cfg(threads, scopes, gets, atomic, inv):
    return ("CONSTANTS\n  Threads <- %s  ScopeSet <- %s  MaxGets = %d  Atomic = %s\nINIT Init\nNEXT Next\nINVARIANTS %s\n" % (
        threads, scopes, gets, "TRUE" if atomic else "FALSE", inv))


def ident_jobs(ctx):
    thorough = ctx.tier == "thorough"
    return [
        # every interleaving of 3 threads x 2 Gets over 3 identities (thorough: 4 identities incl. one without name)
        Job("ident-mc", "ScopeIdentityConc", ident_cfg("T3", "Scopes4" if thorough else "Scopes3", 2, True, IDENT_INVS),
            coverage=True, workers=3),
        # vacuity guards of the model: racing first requests are in its schedule space, and a registry that looks up and
        # registers in two steps is told apart by the invariant
        Job("ident-wit-first", "ScopeIdentityConc", ident_cfg("T2", "Scopes2", 1, True, "NoRacingFirst"), workers=1),
        Job("ident-wit-split", "ScopeIdentityConc", ident_cfg("T2", "Scopes2", 1, False, "SameIdentitySameObject"), workers=1),
    ]


def _racing_first(ex):
    """(coverage measured on a log, not an oracle) did two calls for one identity overlap before any call for it returned?"""
    pending, returned = {}, set()
    for ln in ex[1:]:
        v = json.loads(ln)
        if v["e"] not in ("Call", "Ret"):
            continue
        k = canon(v["scope"])
        if v["e"] == "Call":
            if k not in returned:
                pending[k] = pending.get(k, 0) + 1
                if pending[k] >= 2:
                    return True
        else:
            returned.add(k)
    return False


def ident_conc(ctx, exe, results):
    """code -> spec: real providers used by several threads under the deterministic scheduler."""
    thorough = ctx.tier == "thorough"
    expect_status(results["ident-mc"], "ident-mc", "ok")
    cov = results["ident-mc"].coverage
    for a in ("Call", "Lin", "Ret"):
        if cov.get(a, (0, 0))[0] == 0:
            raise Broken("vacuity: action %s never taken in ident-mc (%s)" % (a, sorted(cov)))
    for n, inv in (("ident-wit-first", "NoRacingFirst"), ("ident-wit-split", "SameIdentitySameObject")):
        r = results[n]
        if r.status != "invariant" or inv not in str(r.violated):
            raise Broken("vacuity: %s must violate %s (status %s, violated %s)" % (n, inv, r.status, r.violated))
    n = 2000 if thorough else 400
    shapes = [(3, 2, 2), (2, 3, 2), (3, 3, 3)] + ([(4, 2, 2), (3, 3, 1)] if thorough else [])
    runs = []
    for ki, kind in enumerate(("trace", "metrics", "logs")):
        for si, sh in enumerate(shapes):
            runs.append(["explore", "random", n, ctx.seed * 37 + ki * 11 + si, kind] + list(sh))
            runs.append(["explore", "pct", n, ctx.seed * 41 + ki * 13 + si, kind] + list(sh))
    lines, bad = [], []
    with cf.ThreadPoolExecutor(max_workers=6) as ex:
        futs = [(a, ex.submit(hrun.run_harness, exe, a, timeout=900)) for a in runs]
        for a, f in futs:
            r = f.result()
            out = [ln for ln in r.lines if ln.startswith("{")]
            if r.rc in (3, 4) or r.crashed or r.timed_out:
                last = max([i for i, ln in enumerate(out) if '"e":"Cfg"' in ln] or [0])
                bad.append((a, r.rc, out[last:], r.err[-1500:]))
                out = out[:last]
            elif r.rc != 0:
                raise Broken("c19_conc failed rc=%s args=%s: %s" % (r.rc, a, r.err[-1500:]))
            lines += [ln for ln in out if '"e":"Summary"' not in ln]
    execs = trace.split_executions(lines)
    racing = {}
    for e in execs:
        k = json.loads(e[0])["kind"]
        racing.setdefault(k, [0, 0])
        racing[k][0] += 1
        racing[k][1] += _racing_first(e)
    ctx.extra["identity_conc_executions_by_kind"] = {k: v[0] for k, v in racing.items()}
    ctx.extra["identity_conc_executions_with_racing_first_requests"] = {k: v[1] for k, v in racing.items()}
    for k in ("trace", "metrics", "logs"):
        if not bad and racing.get(k, [0, 0])[1] == 0:
            raise Broken("vacuity: no %s execution in which first requests for one identity overlapped" % k)
    nd = len(ctx.distinct)
    res = trace.validate(ctx, "ScopeIdentityConcTrace", "ScopeIdentityConcTrace.cfg", lines, chunk=900, parallel=4, tag="ic",
                         max_rejects=2)
    ctx.extra["identity_conc_executions_validated"] = res["executions"]
    ctx.extra["identity_conc_events_validated"] = res["events"]
    ctx.extra["identity_conc_distinct_interleavings"] = len(ctx.distinct) - nd
    ctx.extra["identity_conc_executions_rejected"] = len(res["rejected"])
    ctx.extra["identity_conc_rejected_by_kind"] = {}
    for rj in res["rejected"]:
        kd = rj["events"][0].get("kind") if rj["events"] and isinstance(rj["events"][0], dict) else "?"
        ctx.extra["identity_conc_rejected_by_kind"][kd] = ctx.extra["identity_conc_rejected_by_kind"].get(kd, 0) + 1
    ctx.evaluations += res["events"]
    shown = {}
    for rj in res["rejected"]:
        ev, at = rj["events"], rj["at"]
        kd = ev[0].get("kind") if ev and isinstance(ev[0], dict) else "?"
        shown[kd] = shown.get(kd, 0) + 1
        if shown[kd] > 2:      # at most two per provider kind
            continue
        ctx.violation("identity under concurrent requests: ScopeIdentityConcTrace rejects a real %s-provider execution at event %d: %s "
                      "(the same name/version/schema/attributes must yield the same object, different ones different objects, in "
                      "every interleaving); execution %s" % (ev[0].get("kind"), at, json.dumps(ev[at]) if at < len(ev) else "?",
                                                             json.dumps(ev[:at + 1])[:1500]),
                      {"part": "conc-trace", "events": ev, "at": at})
    for a, rc, out, err in bad[:3]:
        tail = []
        for x in out[-60:]:
            try:
                tail.append(json.loads(x))
            except ValueError:
                tail.append(x)
        ctx.violation("identity under concurrent requests: a real execution %s (harness args %s): %s" % (
            "got stuck (deadlock / livelock under the fair schedule)" if rc == 3 else "crashed (rc=%s)" % rc, a, _first_error(err)),
            {"part": "conc-run", "args": [str(x) for x in a], "events": tail})
    if execs:
        pick = next((e for e in execs if _racing_first(e)), execs[0])
        ctx.sample({"kind": "concurrent Get* execution (deterministic scheduler) validated by ScopeIdentityConcTrace.tla",
                    "events": [json.loads(x) for x in pick[:16]]})


# ================================================================================================
def run(ctx):
    ctx.assumptions += [
        "concretisation tables of harness/c19_{names,views,scopes}.cc (byte classes partition 0..255; name tokens, units, meters, scope names) are part of the trusted base",
        "instrument names are replayed through all 6 instrument types x {integer, floating point} chosen by seed; the verdict must not depend on the choice",
        "an exactly-sized, non-terminated string_view argument is replayed in a forked child; reading past it is 'undefined' (any outcome, or an ASan report) under the c-string deviations only",
        "left open because the statement is silent: order of collected streams; monotonicity/temporality/values; a meter WITHOUT version/schema against a selector WITH one where the other fields do not already decide (the meter NAME is always compared: an unnamed meter is selected only by selectors without name); whether a drop view yields no stream or a stream of drop points; regex metacharacters inside exact names",
        "only the std::regex variants of the validators and PatternPredicate are executed (OPENTELEMETRY_HAVE_WORKING_REGEX == 0 cannot be selected with this compiler); the hand-written validators are compared with the statement inside the model only (HandAgrees)",
        "ABI v1: only GetLogger takes scope attributes; GetTracer/GetMeter identity is name/version/schema",
        "identity under concurrent requests: sequentially consistent executions only (scheduler shim), schedules sampled (random + PCT), 2-4 threads x 2-3 Get calls over 1-3 identities, default (trivial) scope configurator",
    ]
    ctx.extra["rule"] = ("states/transitions: TLC over InstrumentNames (whole partition), Views (bounded state graph) and ScopeConfig "
                         "(+ trace-validation runs); traces_validated: TLC-generated cases/behaviours replayed on the real SDK "
                         "(one per harness output line) + real provider histories validated by ScopeConfigTrace; "
                         "distinct_nontrivial: distinct (abstract name/unit case[, byte]) + distinct (view list, instrument) pairs + "
                         "distinct scope behaviours + validated executions")
    bex = cf.ThreadPoolExecutor(max_workers=1)
    fconc = bex.submit(build.harness, "c19_conc", ["c19_conc.cc"], "shim")
    exe = build.harness("c19_replay", ["c19_main.cc", "c19_names.cc", "c19_views.cc", "c19_scopes.cc"], "asan")
    log("harness built at %.1fs" % ctx.timer.s())
    jobs = names_jobs(ctx) + views_jobs(ctx) + scope_jobs(ctx) + ident_jobs(ctx)
    # longest first
    order = {"views-mc-pairs": 0, "views-mc-select": 1, "views-mc-shape": 2}
    jobs.sort(key=lambda j: order.get(j.name, 9))
    results = run_jobs(ctx, jobs, parallel=4)
    log("TLC runs done at %.1fs" % ctx.timer.s())
    names_replay(ctx, exe, results)
    log("names replayed at %.1fs" % ctx.timer.s())
    views_replay(ctx, exe, results)
    log("views replayed at %.1fs" % ctx.timer.s())
    scope_replay(ctx, exe, results)
    log("scopes replayed at %.1fs" % ctx.timer.s())
    scope_traces(ctx, exe)
    log("scope traces validated at %.1fs" % ctx.timer.s())
    ident_conc(ctx, fconc.result(), results)
    log("concurrent identity validated at %.1fs" % ctx.timer.s())
    for e in range(ctx.extra.get("scope_executions_validated", 0)):
        ctx.distinct.add(("exec", e))
    ctx.evaluations = (ctx.extra.get("names_replays", 0) + ctx.extra.get("views_instrument_cases_compared", 0)
                       + ctx.extra.get("scope_steps_compared", 0) + ctx.extra.get("scope_events_validated", 0))
    ctx.extra["deviation_names"] = NAME_DEVS + VIEW_DEVS + SCOPE_DEVS


def replay(ctx, path):
    """Re-run the case stored in a violation file on the current tree and compare with the stored
    TLC expectation (trace files: re-validate the stored event log)."""
    rep = json.load(open(path))["replay"]
    part = rep.get("part")
    if part == "trace":
        _, cfg = _trace_cfg(ctx)
        lines = [json.dumps(e) for e in rep["events"]]
        res = trace.validate(ctx, "ScopeConfigTrace", cfg, lines, parallel=1, tag="replay")
        for rj in res["rejected"]:
            ctx.violation("replayed history rejected by ScopeConfigTrace at event %d" % rj["at"],
                          {"part": "trace", "events": rj["events"], "at": rj["at"]})
        ctx.sample({"kind": "replayed history", "events": rep["events"][:10]})
        return
    if part == "conc-trace":
        lines = [json.dumps(e) for e in rep["events"]]
        res = trace.validate(ctx, "ScopeIdentityConcTrace", "ScopeIdentityConcTrace.cfg", lines, parallel=1, tag="replay")
        for rj in res["rejected"]:
            ctx.violation("replayed concurrent execution rejected by ScopeIdentityConcTrace at event %d" % rj["at"],
                          {"part": "conc-trace", "events": rj["events"], "at": rj["at"]})
        ctx.sample({"kind": "replayed concurrent execution", "events": rep["events"][:16]})
        return
    if part not in ("names", "views", "scopes") or not rep.get("line"):
        raise Broken("replay file has no replayable case; re-run the check with the recorded seed")
    exe = build.harness("c19_replay", ["c19_main.cc", "c19_names.cc", "c19_views.cc", "c19_scopes.cc"], "asan")
    r = hrun.run_harness(exe, [part, "-", rep["seed"], rep["instances"]], stdin_lines=[json.dumps(rep["line"])], timeout=300)
    out = r.json()
    ctx.traces += len(out)
    ctx.sample({"kind": "replayed case", "line": rep["line"], "observed": out[:2]})
    if r.rc != 0:
        ctx.violation("replay: the real code crashed (rc=%s): %s" % (r.rc, _first_error(r.err)), rep)
        return
    stats = {}
    for o in out:
        if part == "names":
            e = rep["expect"]
            classify(ctx, o["out"], e["exp"], e["alts"], lambda a, o=o: a["out"] in (o["out"], "undefined"),
                     lambda o=o: "replayed name case: expected %s, observed %s" % (rep["expect"]["exp"], o["out"]), lambda: rep, stats)
        elif part == "views":
            got = {x["j"]: x["streams"] for x in o["res"]}
            for j, x in enumerate(rep["expect"]):
                act = sorted(canon(_norm_stream(s)) for s in got.get(j, []))
                exp = sorted(canon(_norm_stream(s)) for s in x["exp"])
                classify(ctx, act, exp, x["alts"],
                         lambda a, act=act: sorted(canon(_norm_stream(s)) for s in a["streams"]) == act,
                         lambda act=act, exp=exp: "replayed view case: expected %s, collected %s" % (exp, act), lambda: rep, stats)
        else:
            for st, ex, ob in zip(rep["line"]["steps"], rep["expect"], o["res"]):
                if st["op"] == "get":
                    classify(ctx, sorted(ob["same"]), ex["exp"], ex["alts"], lambda a, ob=ob: sorted(a["same"]) == sorted(ob["same"]),
                             lambda ex=ex, ob=ob: "replayed Get: expected identical to %s, is identical to %s" % (ex["exp"], ob["same"]),
                             lambda: rep, stats)
                else:
                    classify(ctx, ob["appeared"], "yes" if ex["exp"] else "no", [], lambda a: False,
                             lambda ex=ex, ob=ob: "replayed Emit: expected %s, observed %s" % (ex["exp"], ob["appeared"]),
                             lambda: rep, stats)
