"""C03 — exporters are driven one call at a time and within the configured batch bounds.

* TLC, Level B: NoOverlap and BatchBound on spec/BatchProcessor.tla (ideal: both hold; the model of
  the current code is expected to violate BatchBound only through the deviations that are known
  findings), NoOverlap on spec/SimpleProcessor.tla (N threads -> spin lock -> Export) and
  spec/PeriodicReader.tla.
* code -> spec: real batch span/log processors, simple span/log processors called from 2-4
  threads, and the periodic metric reader racing ForceFlush, all under the deterministic scheduler;
  Level-A monitors (BatchMonitor.tla with Check = {"C03"}, ExportMonitor.tla) check that no Export
  begins while another is running on the same exporter and that 1 <= |batch| <= max_export_batch_size.
"""
from lib import build
from props import _batch as B

LEVEL = "model_checking"


def run(ctx):
    ctx.assumptions += [
        "sequentially consistent executions only (scheduler shim; memory_order arguments ignored)",
        "exporter latency = scheduling points inside Export; other threads may run there",
        "exhaustive TLC results hold for the stated small constants only",
    ]
    ctx.extra["rule"] = ("states/transitions: TLC (Level-B models + trace validation); traces: real executions under the deterministic "
                         "scheduler validated by the Level-A monitors; distinct_nontrivial = executions with pairwise different observable event logs (md5 of the log without the seed)")
    exe = build.harness("batch", ["batch.cc"], "shim")
    B.model_check_batch(ctx, ["NoOverlap", "BatchBound"], expect_violation_with_devs=["BatchBound"], live=False, with_devs=True)
    B.model_vs_monitor(ctx)
    lines, abnormal = B.explore(ctx, exe, B.batch_runs(ctx, focus="C03"))
    B.validate(ctx, "C03", lines, "batch", devs=B.BATCH_DEVS)
    B.report_abnormal(ctx, abnormal, "batch", only_if=lambda ev: bool(ev) and isinstance(ev[-1], dict) and ev[-1].get("e") == "Crash")
    try:
        from props import _simple
        _simple.run_simple(ctx, "C03")
    except ImportError:
        pass
    try:
        from props import _reader
        _reader.run_reader(ctx, "C03")
    except ImportError:
        pass
    ctx.evaluations = ctx.traces


def replay(ctx, path):
    B.generic_replay(ctx, path)
