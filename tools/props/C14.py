"""C14 - TraceState stays a valid, duplicate-free W3C list under every update.

1. TLC, exhaustive: spec/TraceState.tla (lists of abstract <<class, n>> keys/values, Max = 32 real) from the
   canonical lists of 0/1/2/31/32 members through every history of <= 2 (thorough: 3) menu operations on ANY object
   created so far: AllValid, AtMost32, NoDuplicate, SetPutsFirstKeepsRestOnce, RefusedAtMax,
   DeleteExact, InvalidYieldsEmpty, GetIsLatest, HeaderRoundTrip, OriginalUntouched (action property).
   A second run with the deviation catalogue enabled checks that the property can only break through
   a named deviation; a third evaluates FromHeader on the whole header family.
2. spec -> code: every behaviour of depth 2, the whole header family (several concretisations each),
   witness-directed behaviours for the rare situations at the 32-member limit and random walks of
   depth 6 are replayed on the real class; ToHeader()/GetAllEntries()/Get()/Empty() of EVERY object
   created so far are compared after EVERY step with the lists TLC computed.
3. code -> spec: long random histories on the real class (12-40 keys, lists up to the limit) are logged
   call by call and validated by spec/TraceStateTrace.tla.
Known defects of the unchanged tree are the named deviations of the spec's catalogue (SetAlt)."""
import concurrent.futures as cf
import hashlib
import json
import os

from lib import build, hrun, tlc
from lib import c1415tv as tvdev
from lib.common import Broken, log

LEVEL = "model_checking"
ALL_DEVS = ["set-duplicates-existing-key", "set-existing-at-max-not-updated"]
INVS = ("AllValid AtMost32 NoDuplicate SetPutsFirstKeepsRestOnce SameValueStillMoves RefusedAtMax DeleteExact InvalidYieldsEmpty "
        "GetIsLatest GetMatchesLast HeaderRoundTrip")
INVS_DEV = "AllValid AtMost32 OnlyThroughDev RefusedAtMax DeleteExact InvalidYieldsEmpty GetMatchesLast"
ACTIONS = ["ASetExisting", "ASetSame", "ASetNew", "ASetBadKey", "ASetBadVal", "ADelete", "ADeleteAbsent", "ADeleteBad",
           "AGetPresent", "AGetAbsent", "AGetBad", "ARoundTrip"]
WITNESSES = [("WitRefused", "{32}", 1), ("WitExistAtMax", "{32}", 1), ("WitExistBelow", "{31}", 1),
             ("WitGrowRefuse", "{31}", 2), ("WitGrowUpdate", "{31}", 2), ("WitDelAtMaxGrow", "{32}", 2),
             ("WitInvalid", "{32}", 1)]
MAX_REPORTS = 8


_printed = tvdev.fast_printed


def _set(names):
    return "{" + ", ".join('"%s"' % n for n in sorted(names)) + "}"


def _crash_summary(err):
    keep = [ln.strip() for ln in err.splitlines() if "ERROR: AddressSanitizer" in ln or ln.startswith("SUMMARY:")
            or "runtime error:" in ln or ln.lstrip().startswith("#0 ") or ln.lstrip().startswith("#1 ") or ln.lstrip().startswith("#2 ")]
    return " | ".join(keep[:8])[:900] if keep else err[-600:]


def _cfg(ctx, name, dev, hist, menu, maxops, sizes, invs, prop=""):
    text = ("CONSTANTS Dev = %s Hist = %s Menu = \"%s\" MaxOps = %d Sizes = %s\nINIT Init\nNEXT Next\nVIEW View\n"
            "INVARIANTS %s\n%s" % (_set(dev), "TRUE" if hist else "FALSE", menu, maxops, sizes, invs, prop))
    p = ctx.rundir.file(name)
    with open(p, "w") as f:
        f.write(text)
    return p


def model_check(ctx):
    """Runs in a worker thread beside generate(): returns [(name, result)], the caller does the bookkeeping."""
    runs = []
    thorough = ctx.tier == "thorough"
    sizes = "{0, 1, 2, 31, 32}"
    P = "PROPERTY OriginalUntouched\n"
    # exhaustive, ideal spec: every history of 2 operations from every canonical list (+ vacuity guard)
    c = _cfg(ctx, "mc2.cfg", [], False, "ops", 2, sizes, INVS, P)
    r = tlc.tlc("TraceState", c, rundir=ctx.rundir.path, workers=4, timeout_s=600, coverage=True, tag="mc2")
    runs.append(("TraceState ideal, <=2 ops on any object, lists of 0/1/2/31/32", r))
    tlc.must_ok(r, "TraceState model checking (the ideal spec must satisfy the property)")
    for a in ACTIONS:
        if r.coverage.get(a, (0, 0))[0] == 0:
            raise Broken("vacuity: action %s never taken in the main TraceState configuration" % a)
    # ... of 3 operations: quick from the full list only, thorough from every canonical list
    c = _cfg(ctx, "mc3.cfg", [], False, "ops", 3, sizes if thorough else "{32}", INVS, P)
    r = tlc.tlc("TraceState", c, rundir=ctx.rundir.path, workers=4, timeout_s=900 if thorough else 100, tag="mc3")
    runs.append(("TraceState ideal, <=3 ops on any object, lists of %s" % ("0/1/2/31/32" if thorough else "32"), r))
    if r.status == "timeout":
        log("depth-3 model checking timed out (bounded, reported as not exhaustive)")
    else:
        tlc.must_ok(r, "TraceState model checking depth 3")
    # every way of breaking the property goes through a named deviation
    c = _cfg(ctx, "mcd.cfg", ALL_DEVS, False, "ops", 3 if thorough else 2, sizes, INVS_DEV, P)
    r = tlc.tlc("TraceState", c, rundir=ctx.rundir.path, workers=4, timeout_s=600, tag="mcdev")
    runs.append(("TraceState with the deviation catalogue: property \\/ devUsed # {}", r))
    tlc.must_ok(r, "TraceState as-implemented model checking")
    # the deviations must really break the ideal property (otherwise the catalogue is vacuous)
    c = _cfg(ctx, "mcv.cfg", ALL_DEVS, False, "ops", 1, "{2, 32}", "NoDuplicate GetIsLatest")
    r = tlc.tlc("TraceState", c, rundir=ctx.rundir.path, workers=2, timeout_s=300, tag="mcvac")
    runs.append(("vacuity: the catalogue's deviations violate NoDuplicate/GetIsLatest", r))
    if r.status != "invariant":
        raise Broken("vacuity: deviations enabled but the ideal invariants still hold (%s)" % r.status)
    return runs


def generate(ctx):
    """Returns list of dict(steps=[...], src=...)."""
    thorough = ctx.tier == "thorough"
    behs = []

    def add(r, src):
        seen = set()
        out = []
        for b in _printed(r):
            k = json.dumps(b, sort_keys=True)
            if k not in seen:
                seen.add(k)
                out.append((k, b))
        out.sort(key=lambda x: x[0])
        for _, b in out:
            behs.append({"steps": b, "src": src})
        return len(out)

    counts = {}
    # the whole header family (Menu "parse"), invariants evaluated on every parse result
    c = _cfg(ctx, "gp.cfg", [], True, "parse", 0, "{}", "EmitAll AllValid AtMost32 InvalidYieldsEmpty HeaderRoundTrip")
    r = tlc.tlc("TraceState", c, rundir=ctx.rundir.path, workers=1, timeout_s=300, tag="genparse")
    ctx.add_tlc("header family: FromHeader on every generated header", r)
    tlc.must_ok(r, "header family generation")
    counts["parse"] = add(r, "parse")
    if counts["parse"] < 100:
        raise Broken("header family unexpectedly small: %d" % counts["parse"])
    # all behaviours of depth 2 from every canonical list, both families (ideal / deviating branch)
    c = _cfg(ctx, "g2.cfg", ALL_DEVS, True, "ops", 2, "{0, 1, 2, 31, 32}", "EmitAll")
    r = tlc.tlc("TraceState", c, rundir=ctx.rundir.path, workers=1, timeout_s=600, tag="gen2")
    ctx.add_tlc("generation: all behaviours of 2 operations", r)
    tlc.must_ok(r, "behaviour generation depth 2")
    counts["bfs2"] = add(r, "bfs2")
    flagcov = {}
    for b in behs:
        if b["src"] == "bfs2":
            for st in b["steps"]:
                for f in st.get("fl", []):
                    flagcov[f] = flagcov.get(f, 0) + 1
    ctx.extra["rare_situations_in_depth2_behaviours"] = flagcov
    for f in ("refused", "exist_at_max", "exist_below_max", "grow_to_max", "del_at_max", "invalid_on_nonempty",
              "same_value_moved", "same_value_moved_at_max"):
        if not flagcov.get(f):
            raise Broken("vacuity: situation %s never occurs in the exhaustive depth-2 behaviours" % f)
    if thorough:
        c = _cfg(ctx, "g3.cfg", ALL_DEVS, True, "ops", 3, "{0, 2}", "EmitAll")
        r = tlc.tlc("TraceState", c, rundir=ctx.rundir.path, workers=1, timeout_s=900, tag="gen3")
        ctx.add_tlc("generation: all behaviours of 3 operations from lists of 0/2", r)
        tlc.must_ok(r, "behaviour generation depth 3")
        counts["bfs3"] = add(r, "bfs3")
    # witness-directed: the rare situations around the 32-member limit, 1-2 operations + 1 more
    def wit(args):
        (w, sizes, depth), dev = args
        c = _cfg(ctx, "w-%s-%d.cfg" % (w, len(dev)), dev, True, "ops", depth + 1, sizes, w)
        return tlc.tlc("TraceState", c, rundir=ctx.rundir.path, workers=1, timeout_s=300, tag="%s-%d" % (w, len(dev)))

    wjobs = [(wd, dev) for wd in WITNESSES for dev in ([], ALL_DEVS)] if thorough else \
            [(wd, ALL_DEVS) for wd in WITNESSES if wd[2] == 2]
    with cf.ThreadPoolExecutor(max_workers=2) as ex:
        wres = list(ex.map(wit, wjobs))
    for ((w, sizes, depth), dev), r in zip(wjobs, wres):
        ctx.add_tlc("witness %s (Dev %s)" % (w, "all" if dev else "{}"), r)
        if r.status != "invariant" or not _printed(r):
            raise Broken("witness %s not reachable in the model (vacuity): %s" % (w, r.status))
        counts["wit"] = counts.get("wit", 0) + add(r, w)
    # random walks of 6 operations over all sizes
    c = _cfg(ctx, "gs.cfg", ALL_DEVS, True, "ops", 6, "{0, 1, 2, 31, 32}", "EmitAll")
    r = tlc.tlc("TraceState", c, rundir=ctx.rundir.path, workers=1, timeout_s=600,
                simulate={"num": 600 if thorough else 120, "depth": 8}, seed=ctx.seed + 14, tag="sim")
    if r.status != "ok":
        raise Broken("simulate failed: %s\n%s" % (r.status, r.out[-1500:]))
    counts["simulate"] = add(r, "simulate")
    if counts["simulate"] < 20:
        raise Broken("simulation printed too few behaviours: %d" % counts["simulate"])
    ctx.extra["behaviours_generated"] = counts
    return behs


def _run_replay(exe, path):
    return hrun.run_harness(exe, ["replay", path], timeout=1500)


def replay_behs(ctx, exe, behs, ninst):
    """ninst: dict src -> number of concretisations."""
    jobs = []
    for i, b in enumerate(behs):
        for k in range(ninst.get(b["src"], 1)):
            inst = (ctx.seed * 1000003 + i * 31 + k * 7919) % (2 ** 31)
            jobs.append({"id": len(jobs), "inst": inst, "steps": b["steps"], "src": b["src"]})
    nproc = 4
    files = []
    for p in range(nproc):
        path = ctx.rundir.file("behs-%d.ndjson" % p)
        with open(path, "w") as f:
            for j in jobs[p::nproc]:
                f.write(json.dumps({"id": j["id"], "inst": j["inst"], "steps": j["steps"]}) + "\n")
        files.append(path)
    results = {}
    with cf.ThreadPoolExecutor(max_workers=nproc) as ex:
        for p, hr in enumerate(ex.map(lambda f: _run_replay(exe, f), files)):
            for v in hr.json():
                results[v["beh"]] = v
            mine = [j for j in jobs[p::nproc]]
            if hr.crashed or hr.rc != 0:
                done = [j for j in mine if j["id"] in results]
                nxt = mine[len(done)] if len(done) < len(mine) else None
                if hr.rc == 5 or nxt is None or hr.timed_out:
                    raise Broken("replay harness failed rc=%s: %s" % (hr.rc, hr.err[-2000:]))
                # the real code crashed (sanitizer report / signal) on a model-generated behaviour
                ctx.violation("TraceState crashed (rc=%s) while replaying a TLC behaviour (src=%s): %s" % (
                    hr.rc, nxt["src"], _crash_summary(hr.err)), {"kind": "behaviour", "beh": nxt})
    took = {}
    modes = {}
    reports = 0
    stopped = 0
    for j in jobs:
        v = results.get(j["id"])
        if v is None:
            continue
        ctx.traces += 1
        ctx.distinct.add(hashlib.sha1((json.dumps(j["steps"], sort_keys=True) + str(j["inst"])).encode()).hexdigest())
        for t in v["took"]:
            took[t] = took.get(t, 0) + 1
        modes[v.get("mode", -1)] = modes.get(v.get("mode", -1), 0) + 1
        if v.get("stopped", -1) >= 0:
            stopped += 1
        if not v["ok"]:
            if reports < MAX_REPORTS:
                reports += 1
                ctx.violation("behaviour (src=%s) step %d: %s" % (j["src"], v["step"], v["what"]),
                              {"kind": "behaviour", "beh": j, "step": v["step"], "got": v.get("got")})
            continue
        for i, t in enumerate(v["took"]):
            if t not in ("exp", "ideal", "dc"):
                st = j["steps"][i]
                ctx.deviation(t, "%s(%s, %s) on object #%s took the deviating branch" % (
                    st["op"], st.get("k"), st.get("v"), st.get("o")),
                    {"kind": "behaviour", "beh": j, "step": i})
    ctx.extra["replay_results"] = took
    ctx.extra["key_relation_modes_replayed"] = {{0: "independent", 1: "prefix-chain", 2: "same-length-siblings"}.get(k, str(k)): n
                                                for k, n in sorted(modes.items())}
    if len(results) >= 300 and not all(modes.get(m) for m in (0, 1, 2)):
        raise Broken("vacuity: a key-relation mode of the concretiser was never used: %s" % modes)
    ctx.extra["replay_truncated_at_alternative"] = stopped
    ctx.extra["behaviour_instances_replayed"] = len(results)
    if len(results) < len(jobs) and not ctx.violations:
        raise Broken("replay lost behaviours: %d of %d" % (len(results), len(jobs)))
    for src in ("parse", "bfs2", "simulate"):
        b = next((x for x in behs if x["src"] == src), None)
        if b:
            ctx.sample({"kind": "TLC behaviour replayed on the real TraceState (%s)" % src, "steps": _short(b["steps"])})


def _short(steps):
    out = []
    for s in steps[:4]:
        t = dict(s)
        for k in ("hdr", "exp"):
            if isinstance(t.get(k), list) and len(t[k]) > 3:
                t[k] = t[k][:3] + ["... %d more" % (len(t[k]) - 3)]
        if t.get("alt"):
            t["alt"] = [{"dev": a["dev"], "res": (a["res"][:3] + ["..."]) if len(a["res"]) > 3 else a["res"]} for a in t["alt"]]
        out.append(t)
    return out


def _tv_cfg(ctx, name, devs):
    p = ctx.rundir.file(name)
    with open(p, "w") as f:
        f.write("CONSTANTS Dev = %s Hist = FALSE Menu = \"ops\" MaxOps = 0 Sizes = {}\nINIT TInit\nNEXT TNext\n"
                "CONSTRAINT Progress\nINVARIANT Report\nPOSTCONDITION Accepted\nCHECK_DEADLOCK FALSE\n" % _set(devs))
    return p


def validate_lines(ctx, lines, tag="tv"):
    known = sorted(d for d in ctx.known_devs() if d in ALL_DEVS)
    cfg = _tv_cfg(ctx, "tv.cfg", known)
    res = tvdev.validate(ctx, "TraceStateTrace", cfg, lines, chunk=12, parallel=4, tag=tag)
    for d, ev in res["devused"].items():
        ctx.deviation(d, "a recorded history of the real TraceState is accepted only through deviation %s" % d,
                      {"kind": "trace", "events": ev})
    cfg_all = None
    for rj in res["rejected"][:MAX_REPORTS]:
        ev, at = rj["events"], rj["at"]
        if cfg_all is None:
            cfg_all = _tv_cfg(ctx, "tvall.cfg", ALL_DEVS)
        why = tvdev.explain(ctx, "TraceStateTrace", cfg_all, ev)
        if why:
            for d in why:
                ctx.deviation(d, "a recorded history of the real TraceState needs the unlisted deviation %s (event %d: %s)" % (
                    d, at, json.dumps(ev[at])[:300] if at < len(ev) else "?"), {"kind": "trace", "events": ev, "at": at})
        else:
            ctx.violation("TraceStateTrace rejects a recorded history of the real class at event %d: %s" % (
                at, json.dumps(ev[at])[:400] if at < len(ev) else "?"), {"kind": "trace", "events": ev, "at": at})
    return res


def record_and_validate(ctx, exe):
    thorough = ctx.tier == "thorough"
    nexec, length = (240, 160) if thorough else (48, 120)
    nproc = 4
    per = nexec // nproc
    with cf.ThreadPoolExecutor(max_workers=nproc) as ex:
        hrs = list(ex.map(lambda p: hrun.run_harness(exe, ["record", ctx.seed * 101 + p, per, length], timeout=900),
                          range(nproc)))
    lines = []
    for hr in hrs:
        if hr.crashed:
            tail = [ln for ln in hr.lines[-40:]]
            ctx.violation("TraceState crashed (rc=%s) during a random history: %s" % (hr.rc, _crash_summary(hr.err)),
                          {"kind": "crash", "tail": tail})
            last = max([i for i, ln in enumerate(hr.lines) if '"e":"Cfg"' in ln] or [0])
            lines += hr.lines[:last]
            continue
        if hr.rc != 0:
            raise Broken("recorder failed rc=%s: %s" % (hr.rc, hr.err[-1500:]))
        lines += hr.lines
    res = validate_lines(ctx, lines)
    ctx.extra["histories_validated"] = res["executions"]
    ctx.extra["history_events_validated"] = res["events"]
    ctx.extra["histories_not_validated_after_rejections"] = res["unvalidated"]
    if res["executions"] < nexec - 1 and not ctx.violations:
        raise Broken("recorder produced too few executions: %d" % res["executions"])
    ops = {}
    for ln in lines:
        try:
            e = json.loads(ln)["e"]
        except Exception:
            continue
        ops[e] = ops.get(e, 0) + 1
    ctx.extra["history_event_counts"] = ops
    for need in ("From", "Set", "Del", "Get", "Rt", "Obs"):
        if not ops.get(need):
            raise Broken("vacuity: no %s event in the recorded histories" % need)
    ex0 = tvdev.split_executions(lines)[0]
    ctx.sample({"kind": "recorded history of the real TraceState validated by TraceStateTrace.tla",
                "events": [json.loads(x) if len(x) < 400 else x[:400] + "..." for x in ex0[1:9]]})
    for i, ex_ in enumerate(tvdev.split_executions(lines)):
        ctx.distinct.add("hist-%d-%s" % (i, hashlib.sha1("".join(ex_).encode()).hexdigest()[:12]))


def run(ctx):
    thorough = ctx.tier == "thorough"
    ctx.assumptions += [
        "keys and values are abstracted to <<class, n>>; the concretisation table in harness/c14_tracestate.cc "
        "(several seeded instances per class) is trusted; verdict-homogeneity of a class is sampled, not proved",
        "distinct abstract keys must behave alike however their strings relate: a third of the behaviours / histories "
        "concretise the valid keys as a prefix chain (k, k1, k10; t vs t@s vs t@s2), a third as same-length keys differing in "
        "the last characters; upper-case keys are then case variants of present keys",
        "grammar oracle = W3C trace-context level 1 with the permissive reading where level 1 and 2 differ: simple "
        "keys starting with a digit and system-ids starting with a digit are never generated (don't-care)",
        "don't-care bands: valid headers with empty members / blanks around members may parse to the complete list or "
        "to the empty state; headers with duplicate keys, white space other than blank/tab at member borders are not generated",
        "only the std::regex variants of IsValidKey/IsValidValue are compiled with this tool chain",
        "exhaustive TLC results: lists of 0/1/2/31/32 members, <= 2 operations (quick; 3 from the 32-list) or <= 3 (thorough) from the stated menu on any object",
    ]
    ctx.extra["rule"] = (
        "states/transitions: TLC on TraceState.tla (exhaustive runs, generation runs, trace validation); "
        "traces_validated: TLC behaviours replayed step by step on the real class (each concretisation counts) + recorded "
        "random histories accepted/rejected by TraceStateTrace.tla; distinct_nontrivial: distinct (behaviour, concretisation "
        "seed) pairs and distinct recorded histories (by content hash); every behaviour has >= 1 operation")
    ph = ctx.extra.setdefault("phase_wall_s", {})
    t0 = ctx.timer.s()
    exe = build.harness("c14_tracestate", ["c14_tracestate.cc"], "asan", need_sdk=False)
    ph["build"] = round(ctx.timer.s() - t0, 1)
    t0 = ctx.timer.s()
    mpool = cf.ThreadPoolExecutor(max_workers=1)     # the exhaustive runs go beside the generation runs
    fm = mpool.submit(model_check, ctx)
    behs = generate(ctx)
    ph["generate"] = round(ctx.timer.s() - t0, 1)
    for name, r in fm.result():
        ctx.add_tlc(name, r)
    mpool.shutdown()
    ph["model_check_and_generate"] = round(ctx.timer.s() - t0, 1)
    t0 = ctx.timer.s()
    ninst = {"parse": 12 if thorough else 4, "bfs2": 2 if thorough else 1, "bfs3": 1, "simulate": 2 if thorough else 1}
    for (w, _, _) in WITNESSES:
        ninst[w] = 10 if thorough else 3
    replay_behs(ctx, exe, behs, ninst)
    ph["replay"] = round(ctx.timer.s() - t0, 1)
    t0 = ctx.timer.s()
    record_and_validate(ctx, exe)
    ph["record_validate"] = round(ctx.timer.s() - t0, 1)
    ctx.evaluations = ctx.traces


def replay(ctx, path):
    rep = json.load(open(path))["replay"]
    exe = build.harness("c14_tracestate", ["c14_tracestate.cc"], "asan", need_sdk=False)
    if rep.get("kind") == "behaviour":
        b = rep["beh"]
        ctx.traces += 1
        # integrity of the stored case: its expectations must be what the spec computes - the behaviour,
        # written as a log with the expected results as "observed" ones, must be accepted by the trace spec
        ev = [{"e": "Cfg"}]
        for st in b["steps"]:
            if st["op"] == "from":
                ev.append({"e": "From", "hdr": st["hdr"], "res": st["exp"]})
            elif st["op"] == "set":
                ev.append({"e": "Set", "o": st["o"], "k": st["k"], "v": st["v"], "res": st["exp"]})
            elif st["op"] == "del":
                ev.append({"e": "Del", "o": st["o"], "k": st["k"], "res": st["exp"]})
            elif st["op"] == "rt":
                ev.append({"e": "Rt", "o": st["o"], "res": st["exp"]})
            elif st["op"] == "get":
                ev.append({"e": "Get", "o": st["o"], "k": st["k"], "found": st["exp"][0], "val": st["exp"][1]})
        r = tvdev.validate(ctx, "TraceStateTrace", _tv_cfg(ctx, "tvall.cfg", ALL_DEVS), [json.dumps(e) for e in ev],
                           chunk=1, parallel=1, tag="stored")
        ctx.traces -= 1          # (that was the stored expectation, not an execution of the code)
        if r["rejected"]:
            raise Broken("the stored behaviour is not a behaviour of TraceState.tla (edited or stale replay file)")
        p = ctx.rundir.file("one.ndjson")
        with open(p, "w") as f:
            f.write(json.dumps({"id": 0, "inst": b["inst"], "steps": b["steps"]}) + "\n")
        hr = hrun.run_harness(exe, ["replay", p], timeout=300)
        for v in hr.json():
            if not v["ok"]:
                ctx.violation("replayed behaviour step %d: %s" % (v["step"], v["what"]),
                              {"kind": "behaviour", "beh": b, "step": v["step"], "got": v.get("got")})
            for i, t in enumerate(v["took"]):
                if t not in ("exp", "ideal", "dc"):
                    ctx.deviation(t, "replayed behaviour took the deviating branch at step %d" % i,
                                  {"kind": "behaviour", "beh": b, "step": i})
        if hr.crashed:
            ctx.violation("TraceState crashed while replaying the stored behaviour", {"kind": "behaviour", "beh": b})
    elif rep.get("kind") == "trace":
        validate_lines(ctx, [json.dumps(e) for e in rep["events"]], tag="replay")
    else:
        raise Broken("replay file has no behaviour/trace; re-run the check with the recorded seed")
    ctx.sample({"kind": "replayed violation", "replay": str(rep)[:600]})
