"""C11 — the lock-free circular buffer and the spin lock under every interleaving.

1. TLC, exhaustive, Level B models (CircularBuffer.tla, SpinLock.tla): the property's invariants in
   every reachable state of every interleaving for small constants; spin-lock termination under
   weak fairness.
2. spec -> code: TLC behaviours (witness-directed for every rare step + random walks) are stepped
   one-to-one through the real header-only classes under the scheduler shim, comparing
   head/tail/slots (resp. flag/occupancy) after EVERY step.  A mismatch is Level-B *drift*
   (reported in the evidence, not an alarm).
3. code -> spec: the engine explores schedules of the real classes (delay-bounded DFS, PCT,
   random, spurious weak-CAS failures as choices); every execution's observable event log is
   validated by the Level-A monitors QueueMonitor.tla / LockMonitor.tla.  A rejected log, or a
   stuck execution, is a VIOLATION.
"""
import json
import os
import subprocess

from lib import build, tlc, trace
from lib.common import Broken, log

LEVEL = "model_checking"

CB_CFG = """CONSTANTS NProd = %d  NElem = %d  MaxSize = %d  SpuriousCAS = %s  Retry = FALSE Hist = %s
INIT Init
NEXT Next
VIEW View
INVARIANTS %s
"""
CB_INVS = "TypeOK Bounded NoNullConsumed NoDup OnlyOk Order NoLoss SlotsMatch FailLegit UndoGetsOwn HeldOrPlaced"
SL_CFG = """CONSTANTS NThr = %d Rounds = %d FastIter = %d UseTry = TRUE Hist = %s
INIT Init
NEXT Next
VIEW View
INVARIANTS %s
"""
SL_INVS = "MutualExclusion HeldImpliesFlag TryLockOnlyWhenFree"
CB_ACTIONS = ["PLoadTail", "PLoadHead", "PSwapIfNull", "PCasHead", "PUndo", "CSizeLt", "CSizeLh",
              "CPeekLt", "CPeekLh", "CAdv", "CClr"]


def _cfg(ctx, name, text):
    p = ctx.rundir.file(name)
    with open(p, "w") as f:
        f.write(text)
    return p


def _run_harness(exe, args, timeout=1800):
    p = subprocess.run([exe] + [str(a) for a in args], stdout=subprocess.PIPE, stderr=subprocess.PIPE,
                       text=True, timeout=timeout)
    return p.returncode, p.stdout.splitlines(), p.stderr


def model_check(ctx):
    thorough = ctx.tier == "thorough"
    cb = [(2, 2, 2, True), (2, 2, 1, True), (1, 3, 2, True), (3, 1, 1, True)]
    if thorough:
        cb += [(3, 1, 2, True), (3, 1, 3, True), (2, 3, 2, False), (2, 2, 3, True), (3, 2, 2, False)]
    for (np_, ne, mx, sp) in cb:
        c = _cfg(ctx, "cb.cfg", CB_CFG % (np_, ne, mx, "TRUE" if sp else "FALSE", "FALSE", CB_INVS))
        r = tlc.tlc("CircularBuffer", c, rundir=ctx.rundir.path, workers=16, timeout_s=2400 if thorough else 600,
                    coverage=(np_, ne, mx) == (2, 2, 2), xmx="24g", tag="cb%d%d%d" % (np_, ne, mx))
        ctx.add_tlc("CircularBuffer %dx%d max=%d spurious=%s" % (np_, ne, mx, sp), r)
        if r.status == "timeout":
            log("CircularBuffer config timed out (bounded)")
            continue
        if r.status == "invariant":
            # the MODEL of the current code breaks the property: this is a model-level finding; the
            # alarm still has to come from a real execution (below), so only record it
            ctx.extra.setdefault("model_violations", []).append({"cfg": [np_, ne, mx], "invariant": r.violated})
            continue
        tlc.must_ok(r, "CircularBuffer model checking")
        if r.coverage:
            for a in CB_ACTIONS:
                if r.coverage.get(a, (0, 0))[0] == 0:
                    raise Broken("vacuity: action %s never taken in CircularBuffer 2x2" % a)
    sl = [(3, 2, 2), (2, 2, 3)] + ([(3, 2, 4), (2, 3, 100)] if thorough else [])
    for (n, rnd, fi) in sl:
        c = _cfg(ctx, "sl.cfg", SL_CFG % (n, rnd, fi, "FALSE", SL_INVS))
        r = tlc.tlc("SpinLock", c, rundir=ctx.rundir.path, workers=8, timeout_s=900, coverage=True, tag="sl")
        ctx.add_tlc("SpinLock thr=%d rounds=%d fast=%d" % (n, rnd, fi), r)
        if r.status == "invariant":
            ctx.extra.setdefault("model_violations", []).append({"cfg": [n, rnd, fi], "invariant": r.violated})
            continue
        tlc.must_ok(r, "SpinLock model checking")
    c = _cfg(ctx, "sll.cfg", "CONSTANTS NThr = %d Rounds = 2 FastIter = 2 UseTry = TRUE Hist = FALSE\n"
             "SPECIFICATION FairSpec\nINVARIANTS MutualExclusion\nPROPERTY Termination\nCHECK_DEADLOCK FALSE\n"
             % (3 if thorough else 2))
    r = tlc.tlc("SpinLock", c, rundir=ctx.rundir.path, workers=8, timeout_s=1200, tag="sllive", deadlock=True)
    ctx.add_tlc("SpinLock liveness (Termination under WF)", r)
    if r.status != "ok":
        if r.status in ("temporal",):
            ctx.extra.setdefault("model_violations", []).append({"cfg": "liveness", "invariant": "Termination"})
        else:
            tlc.must_ok(r, "SpinLock liveness")


def generate_cb(ctx):
    """Witness-directed + random-walk behaviours of CircularBuffer.tla."""
    behs = []
    shapes = [(2, 2, 2)] + ([(2, 2, 1), (3, 1, 2), (2, 3, 2)] if ctx.tier == "thorough" else [(2, 2, 1)])
    wit_found = {}
    for (np_, ne, mx) in shapes:
        if (np_, ne, mx) == (2, 2, 2):
            for w in ["WitUndo", "WitBusy", "WitFull", "WitMoved", "WitSpurSwap", "WitSpurHead", "WitWrap"]:
                c = _cfg(ctx, "w.cfg", CB_CFG % (np_, ne, mx, "TRUE", "TRUE", w))
                r = tlc.tlc("CircularBuffer", c, rundir=ctx.rundir.path, workers=8, timeout_s=300, tag=w)
                ctx.add_tlc("witness " + w, r, complete=True)
                b = r.printed("BEH")
                if r.status != "invariant" or not b:
                    raise Broken("witness %s not reachable in the model (vacuity): %s" % (w, r.status))
                wit_found[w] = len(b[0])
                behs.append({"np": np_, "ne": ne, "max": mx, "steps": b[0], "src": w})
        c = _cfg(ctx, "g.cfg", CB_CFG % (np_, ne, mx, "TRUE", "TRUE", "EmitAll"))
        num = 400 if ctx.tier == "thorough" else 60
        r = tlc.tlc("CircularBuffer", c, rundir=ctx.rundir.path, workers=4, timeout_s=300,
                    simulate={"num": num, "depth": 40 * np_ * ne}, seed=ctx.seed + 11, tag="sim")
        if r.status not in ("ok",):
            raise Broken("simulate failed: " + r.status)
        seen = set()
        for b in r.printed("BEH"):
            k = json.dumps(b)
            if k in seen:
                continue
            seen.add(k)
            behs.append({"np": np_, "ne": ne, "max": mx, "steps": b, "src": "simulate"})
    ctx.extra["cb_witness_lengths"] = wit_found
    return behs


def generate_sl(ctx):
    behs = []
    for w in ["WitSleep", "WitTryFail2", "WitSecondRound"]:
        c = _cfg(ctx, "w.cfg", SL_CFG % (2, 2, 100, "TRUE", w))
        r = tlc.tlc("SpinLock", c, rundir=ctx.rundir.path, workers=8, timeout_s=300, tag=w)
        ctx.add_tlc("witness " + w, r)
        b = r.printed("BEH")
        if r.status != "invariant" or not b:
            raise Broken("witness %s not reachable (vacuity)" % w)
        behs.append({"nthr": 2, "steps": b[0], "src": w})
    for nthr in (2, 3):
        c = _cfg(ctx, "g.cfg", SL_CFG % (nthr, 2, 100, "TRUE", "EmitAll"))
        r = tlc.tlc("SpinLock", c, rundir=ctx.rundir.path, workers=4, timeout_s=300,
                    simulate={"num": 300 if ctx.tier == "thorough" else 50, "depth": 900}, seed=ctx.seed + 5, tag="sim")
        if r.status != "ok":
            raise Broken("simulate failed: " + r.status)
        seen = set()
        for b in r.printed("BEH"):
            k = json.dumps(b)
            if k in seen:
                continue
            seen.add(k)
            behs.append({"nthr": nthr, "steps": b, "src": "simulate"})
    return behs


def replay_behs(ctx, exe, behs, monitor, cfg_event, tag):
    """Level-B one-to-one replay; returns Level-A logs of the replayed executions."""
    path = ctx.rundir.file("beh-%s.ndjson" % tag)
    with open(path, "w") as f:
        for b in behs:
            f.write(json.dumps(b) + "\n")
    rc, out, err = _run_harness(exe, ["replay", path])
    if rc == 4 or rc < 0 or rc == 3:
        # the REAL code crashed / got stuck while following a schedule that the model allows
        done = [ln for ln in out if ln.startswith('{"beh"')]
        k = len(done)
        ctx.violation("%s: real code %s while replaying TLC behaviour #%d (src=%s)" % (
            tag, "got stuck" if rc == 3 else "crashed (rc=%s)" % rc, k, behs[k].get("src") if k < len(behs) else "?"),
            {"behaviour": behs[k] if k < len(behs) else None, "tail": out[-30:]})
        out = done
    elif rc != 0:
        raise Broken("replay harness failed rc=%s: %s" % (rc, err[-2000:]))
    drift = []
    lines = []
    n = 0
    acts = {}
    for ln in out:
        v = json.loads(ln)
        n += 1
        b = behs[v["beh"]]
        for s in b["steps"]:
            acts[s["a"]] = acts.get(s["a"], 0) + 1
        if not v["ok"]:
            drift.append({k: v[k] for k in v if k != "events"})
        lines.append(json.dumps(cfg_event(b)))
        for e in v["events"]:
            lines.append(json.dumps(e))
        if tag == "cb":
            lines.append(json.dumps({"e": "End", "live": v.get("live", 0), "drained": False}))
        else:
            lines.append(json.dumps({"e": "End"}))
    ctx.extra["replayed_%s" % tag] = n
    ctx.extra["replay_action_counts_%s" % tag] = acts
    ctx.extra.setdefault("levelB_drift", 0)
    ctx.extra["levelB_drift"] += len(drift)
    if drift:
        ctx.extra["levelB_drift_first_%s" % tag] = drift[0]
    if behs:
        ctx.sample({"kind": "TLC behaviour replayed 1:1 on the real class (%s)" % tag,
                    "src": behs[0].get("src"), "steps": behs[0]["steps"][:12]})
    return lines, n


def explore(ctx, exe, runs, tag):
    """runs: list of argument lists for `explore`; returns concatenated Level-A log lines."""
    import concurrent.futures as cf
    lines = []
    stuck = []
    with cf.ThreadPoolExecutor(max_workers=16) as ex:
        futs = [(a, ex.submit(_run_harness, exe, ["explore"] + a)) for a in runs]
        for a, f in futs:
            rc, out, err = f.result()
            if rc == 3 or rc == 4 or rc < 0:
                # stuck (3) or crashed (4 / signal): keep the complete executions, report the last one
                last = max([i for i, ln in enumerate(out) if '"e":"Cfg"' in ln] or [0])
                stuck.append((a, rc, out[last:]))
                out = out[:last]
            elif rc != 0:
                raise Broken("explore harness failed rc=%s args=%s: %s" % (rc, a, err[-2000:]))
            for ln in out:
                if '"e":"Summary"' in ln or '"e":"DfsComplete"' in ln:
                    if "DfsComplete" in ln:
                        ctx.extra.setdefault("dfs_complete", []).append({"args": a, "executions": json.loads(ln)["executions"]})
                    continue
                lines.append(ln)
    return lines, stuck


def check_logs(ctx, module, cfg, lines, what, stuck):
    res = trace.validate(ctx, module, cfg, lines, parallel=12, chunk=4000, tag=what)
    ctx.extra["executions_validated_" + what] = res["executions"]
    ctx.extra["events_validated_" + what] = res["events"]
    for rj in res["rejected"]:
        ev = rj["events"]
        at = rj["at"]
        ctx.violation("%s: Level-A monitor %s rejects a real execution at event %d: %s" % (
            what, module, at, json.dumps(ev[at]) if at < len(ev) else "?"), {"monitor": module, "events": ev, "at": at})
    for a, rc, out in stuck:
        tail = []
        for x in out[-60:]:
            try:
                tail.append(json.loads(x))
            except Exception:
                tail.append(x)
        ctx.violation("%s: real execution %s, harness args=%s" % (
            what, "got stuck (deadlock, or livelock under the fair schedule)" if rc == 3 else "crashed (rc=%s)" % rc, a),
            {"args": a, "events": tail})
    if res["executions"] and lines:
        # sample: first execution
        ex0 = trace.split_executions(lines)[0]
        ctx.sample({"kind": "real execution validated by %s" % module, "events": [json.loads(x) for x in ex0[:14]]})


def run(ctx):
    thorough = ctx.tier == "thorough"
    ctx.assumptions += [
        "sequentially consistent executions only (the scheduler shim runs one thread at a time; memory_order arguments are ignored)",
        "CircularBuffer/SpinLockMutex are exercised through their public interface; `private` is opened in the harness TU only to READ head/tail/slots/flag for the step-by-step comparison",
        "exhaustive TLC results are for the stated small constants (<=3 producers, <=3 elements, capacity 1..3; <=3 lock threads)",
    ]
    ctx.extra["rule"] = ("states/transitions: TLC (Level B models + trace-validation runs); traces_validated: real executions of the "
                         "unmodified classes under the deterministic scheduler validated by the Level-A monitor + TLC behaviours replayed 1:1")
    qexe = build.harness("c11_queue", ["c11_queue.cc"], "shim", need_sdk=False)
    lexe = build.harness("c11_lock", ["c11_lock.cc"], "shim", need_sdk=False)
    model_check(ctx)
    # ---- spec -> code ----------------------------------------------------------------------------
    cb_behs = generate_cb(ctx)
    qlines, nq = replay_behs(ctx, qexe, cb_behs, "QueueMonitor",
                        lambda b: {"e": "Cfg", "np": b["np"], "ne": b["ne"], "max": b["max"]}, "cb")
    sl_behs = generate_sl(ctx)
    llines, nl = replay_behs(ctx, lexe, sl_behs, "LockMonitor", lambda b: {"e": "Cfg", "nthr": b["nthr"], "rounds": 2}, "sl")
    # ---- code -> spec ------------------------------------------------------------------------------
    s = ctx.seed
    qruns = []
    shapes = [(1, 3, 1), (2, 2, 1), (2, 2, 2), (3, 2, 2), (3, 1, 1), (2, 3, 3), (3, 3, 3)]
    for (np_, ne, mx) in shapes:
        qruns.append(["random", 6000 if thorough else 600, s, np_, ne, mx])
        qruns.append(["pct", 6000 if thorough else 600, s + 1, np_, ne, mx])
    for (np_, ne, mx) in [(2, 2, 2), (2, 2, 1), (3, 1, 1)]:
        qruns.append(["dfs", 10 ** 7, s, np_, ne, mx, 3 if thorough else 2])
    if thorough:
        qruns.append(["dfs", 10 ** 7, s, 3, 2, 2, 2])
        qruns.append(["dfs", 10 ** 7, s, 2, 3, 2, 3])
    ql2, qstuck = explore(ctx, qexe, qruns, "queue")
    check_logs(ctx, "QueueMonitor", "QueueMonitor.cfg", qlines + ql2, "queue", qstuck)
    lruns = []
    for (n, r) in [(2, 2), (3, 2), (3, 3)]:
        lruns.append(["random", 4000 if thorough else 500, s, n, r])
        lruns.append(["pct", 4000 if thorough else 500, s + 1, n, r])
    lruns.append(["dfs", 10 ** 7, s, 2, 2, 3 if thorough else 2])
    lruns.append(["dfs", 10 ** 7, s, 3, 2 if thorough else 1, 2])
    # long critical sections (the holder sleeps): waiters go through the whole spin / yield / sleep cycle
    for (n, r) in [(2, 2), (3, 2)]:
        lruns.append(["random", 1500 if thorough else 200, s + 2, n, r, 2, 1])
        lruns.append(["pct", 1500 if thorough else 200, s + 3, n, r, 2, 1])
    lruns.append(["dfs", 10 ** 7, s, 2, 2, 2 if thorough else 1, 1])
    ll2, lstuck = explore(ctx, lexe, lruns, "lock")
    check_logs(ctx, "LockMonitor", "LockMonitor.cfg", llines + ll2, "lock", lstuck)
    ctx.evaluations = ctx.traces
    ctx.extra["rule"] += "; distinct_nontrivial counts executions with pairwise different observable event logs (md5 of the log without the seed)"
    if ctx.extra.get("model_violations") and not ctx.violations:
        # the model of the code violates the property but no real execution did: the model has
        # drifted from the code or exploration was too shallow; say so, do not alarm
        log("model-level violations without a real-execution witness:", ctx.extra["model_violations"])


def replay(ctx, path):
    """Re-validate the event log stored in a violation file against its Level-A monitor."""
    rep = json.load(open(path))["replay"]
    if "events" not in rep:
        raise Broken("replay file has no event log; re-run the check with the recorded seed")
    lines = [json.dumps(e) for e in rep["events"]]
    res = trace.validate(ctx, rep["monitor"], rep["monitor"] + ".cfg", lines, parallel=1, tag="replay")
    for rj in res["rejected"]:
        ctx.violation("replayed log rejected by %s at event %d" % (rep["monitor"], rj["at"]),
                      {"monitor": rep["monitor"], "events": rj["events"], "at": rj["at"]})
    ctx.sample({"kind": "replayed violation log", "events": rep["events"][:10]})
