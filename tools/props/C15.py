"""C15 - baggage round-trips through its header; composite propagators apply every part.

1. TLC, exhaustive: spec/Baggage.tla (strings = runs over the character classes token/blank/reserved/other
   printable/non-printable; ToHeader/FromHeader transcribe the contract over header tokens lit/enc/raw/bad):
   RoundTrip(FromHeader(ToHeader(b)) = b) for every single entry with key <= 2, value <= 2 (thorough 3)
   characters and every pair of one-character entries; Set/Delete/round-trip histories of <= 2 (thorough 3) operations (NoDupKeys, SetReplaces,
   DeleteRemoves, HeaderClean, OriginalUntouched); the extraction family (member classes alone and between
   valid members, limits 180 / 4096 / 8192 below-at-above): ExtractValid; headers that state a key more than once
   (every shape of <= 5 members over three keys, dropped members mixed in, near the limits): DupBand (what the repeated
   key itself yields is open, every other valid member is kept once, in order), then Set / Delete of every key on the
   extracted baggage (XOpsRemove: no entry with the key survives) and Inject + Extract of the result.  spec/Composite.tla: every ordered
   subset of {tc, bag, b3, b3m, jg} x every carrier (each wire format independently present) / context shape:
   LastValidWins, CrossFormatApplied, EveryPartWrote, ...
2. spec -> code: every generated behaviour is replayed on the real Baggage / BaggagePropagator /
   CompositePropagator (several concretisations: real characters per class, real sizes around the limits).
3. code -> spec: random Set/Delete/Inject+Extract histories of the real classes validated by BaggageTrace.tla.
By-product only (no oracle): arbitrary header bytes through Extract under ASan/UBSan."""
import concurrent.futures as cf
import hashlib
import json

from lib import build, hrun, tlc
from lib import c1415tv as tv
from lib.common import Broken, log

LEVEL = "model_checking"
ALL_DEVS = ["metadata-nonprintable-kept"]
INVS = "NoDupKeys AllPrintable SetReplaces DeleteRemoves RoundTrip RoundTripStep HeaderClean PromiseIsTight"
OPS_ACTIONS = ["ASet", "ADelete", "ASetBad", "ARoundTrip"]
MAX_REPORTS = 8
_printed = tv.fast_printed


def _crash_summary(err):
    keep = [ln.strip() for ln in err.splitlines() if "ERROR: AddressSanitizer" in ln or ln.startswith("SUMMARY:")
            or "runtime error:" in ln or ln.lstrip().startswith("#0 ") or ln.lstrip().startswith("#1 ") or ln.lstrip().startswith("#2 ")]
    return " | ".join(keep[:8])[:900] if keep else err[-600:]


def _cfg(ctx, name, hist, menu, maxops, anyobj, vlen, invs, prop=""):
    text = ("CONSTANTS Dev = {} Hist = %s Menu = \"%s\" MaxOps = %d AnyObj = %s VLen = %d\nINIT Init\nNEXT Next\nVIEW View\n"
            "INVARIANTS %s\n%s" % ("TRUE" if hist else "FALSE", menu, maxops, "TRUE" if anyobj else "FALSE", vlen, invs, prop))
    p = ctx.rundir.file(name)
    with open(p, "w") as f:
        f.write(text)
    return p


def _ccfg(ctx, name, hist, menu, invs):
    p = ctx.rundir.file(name)
    with open(p, "w") as f:
        f.write("CONSTANTS Hist = %s Menu = \"%s\"\nINIT Init\nNEXT Next\nVIEW View\nINVARIANTS %s\n" % (
            "TRUE" if hist else "FALSE", menu, invs))
    return p


def _uniq(r, src):
    seen, out = set(), []
    for b in _printed(r):
        k = json.dumps(b, sort_keys=True)
        if k not in seen:
            seen.add(k)
            out.append((k, b))
    out.sort(key=lambda x: x[0])
    return [{"steps": b, "src": src} for _, b in out]


def baggage_runs(ctx):
    """Model checking AND generation in the same TLC runs (Hist = TRUE keeps hist out of the VIEW)."""
    thorough = ctx.tier == "thorough"
    behs = []
    counts = {}
    P = "PROPERTY OriginalUntouched\n"
    # --- histories -----------------------------------------------------------------------------
    # (the exhaustive depth-3 run is independent of everything else: it runs beside the generation runs)
    pool, f3 = None, None
    pool = cf.ThreadPoolExecutor(max_workers=2)
    # headers with a repeated key (independent of the other runs too)
    cd = _cfg(ctx, "dup.cfg", True, "dup", 2, True, 1, "ExtractValid DupBand DupWithinLimit XOpsRemove EmitDup", P)
    fd = pool.submit(tlc.tlc, "Baggage", cd, rundir=ctx.rundir.path, workers=1, timeout_s=600, tag="dup")
    if thorough:
        c3 = _cfg(ctx, "ops3.cfg", False, "ops", 3, False, 1, INVS, P)
        f3 = pool.submit(tlc.tlc, "Baggage", c3, rundir=ctx.rundir.path, workers=4, timeout_s=900, coverage=True, tag="ops3")
    c = _cfg(ctx, "ops2.cfg", True, "ops", 2, True, 1, INVS + " EmitAll", P)
    r = tlc.tlc("Baggage", c, rundir=ctx.rundir.path, workers=1, timeout_s=300, tag="ops2")
    ctx.add_tlc("Baggage histories: all behaviours of 2 operations on any object, 8 keys x 8 values (checked + exported)", r)
    tlc.must_ok(r, "Baggage history generation")
    b = _uniq(r, "ops2")
    counts["ops2"] = len(b)
    behs += b
    opcount = {}
    for x in b:
        for st in x["steps"]:
            opcount[st["op"]] = opcount.get(st["op"], 0) + 1
    ctx.extra["ops2_step_counts"] = opcount
    for a in ("set", "del", "setbad", "rt"):
        if not opcount.get(a):
            raise Broken("vacuity: no %s step in the exhaustive depth-2 Baggage behaviours" % a)
    c = _cfg(ctx, "opss.cfg", True, "ops", 5, True, 1, INVS + " EmitAll")
    r = tlc.tlc("Baggage", c, rundir=ctx.rundir.path, workers=1, timeout_s=300,
                simulate={"num": 150 if thorough else 20, "depth": 7}, seed=ctx.seed + 15, tag="opssim")
    if r.status != "ok":
        raise Broken("Baggage history simulation failed: %s\n%s" % (r.status, r.out[-1500:]))
    b = _uniq(r, "opssim")
    counts["opssim"] = len(b)
    behs += b
    # --- round trip of every small baggage --------------------------------------------------------
    vlen = 3 if thorough else 2
    c = _cfg(ctx, "rt1.cfg", True, "rt1", 1, True, vlen, INVS + " EmitAll", P)
    r = tlc.tlc("Baggage", c, rundir=ctx.rundir.path, workers=1, timeout_s=900, tag="rt1")
    ctx.add_tlc("RoundTrip: every entry with key <= 2 and value <= %d characters over the 9 printable classes" % vlen, r)
    tlc.must_ok(r, "Baggage single-entry round trip")
    b = _uniq(r, "rt1")
    counts["rt1"] = len(b)
    behs += b
    c = _cfg(ctx, "rt2.cfg", True, "rt2", 1, True, 1, INVS + " EmitAll", P)
    r = tlc.tlc("Baggage", c, rundir=ctx.rundir.path, workers=1, timeout_s=600, tag="rt2")
    ctx.add_tlc("RoundTrip: every ordered pair of entries with one-character keys and values <= 1", r)
    tlc.must_ok(r, "Baggage two-entry round trip")
    b = _uniq(r, "rt2")
    counts["rt2"] = len(b)
    behs += b
    if counts["rt1"] < 5000 or counts["rt2"] < 5000:
        raise Broken("round-trip families unexpectedly small: %s" % counts)
    # --- extraction family ------------------------------------------------------------------------------
    c = _cfg(ctx, "parse.cfg", True, "parse", 0, True, 1, "ExtractValid EmitAll")
    r = tlc.tlc("Baggage", c, rundir=ctx.rundir.path, workers=1, timeout_s=300, tag="parse")
    ctx.add_tlc("extraction family: member classes alone / between valid members, limit classes", r)
    tlc.must_ok(r, "Baggage extraction family")
    b = _uniq(r, "parse")
    counts["parse"] = len(b)
    behs += b
    recs = [x["steps"][0] for x in b]
    if (len(b) < 200 or not any(x["dev"] for x in recs) or not any(x["alt"] for x in recs)
            or not any(x["ctx0"] == "b0" and x["exp"]["u"] == x["b0"] for x in recs)):
        raise Broken("vacuity: extraction family lacks deviation / alternative / untouched-context cases")
    r = fd.result()
    ctx.add_tlc("extraction of headers that state a key more than once: every shape of <= 5 members over 3 keys, dropped "
                "members mixed in, around the limits (DupBand: the band is open for the repeated key only)", r)
    tlc.must_ok(r, "Baggage repeated-key family")
    b = _uniq(r, "dup")
    counts["dup"] = len(b)
    behs += b
    # Set / Delete on the extracted baggage (then Inject + Extract when no repeated key is left)
    hdrs = {}
    xstat = {"xdel": 0, "xset": 0, "rt": 0, "xdel_of_repeated_key": 0, "xset_of_repeated_key": 0, "op_with_other_key_still_repeated": 0}
    for x in b:
        st = x["steps"]
        hdrs[json.dumps(st[0]["hdr"])] = st[0]
        for y in st[1:]:
            xstat[y["op"]] += 1
            if y["op"] in ("xdel", "xset"):
                if any(d["k"] == y["k"] for d in st[0]["exp"]["d"]):
                    xstat[y["op"] + "_of_repeated_key"] += 1
                if y["exp"]["d"]:
                    xstat["op_with_other_key_still_repeated"] += 1
    ctx.extra["operations_on_extracted_baggage"] = xstat
    if not all(xstat.values()):
        raise Broken("vacuity: operations on extracted baggage lack a class: %s" % xstat)
    recs = list(hdrs.values())
    # shape of the family, measured: a repeated key / two of them / one stated >= 3 times / followed by >= 2 valid members
    # with keys of their own / next to a dropped member / in a header of >= 179 members
    nmem = lambda x: 1 + sum(1 for t in x["hdr"] if t["t"] == "raw" and t["c"] == "cm")
    dupstat = {
        "with_repeated_key": sum(1 for x in recs if x["exp"]["d"]),
        "two_repeated_keys": sum(1 for x in recs if len(x["exp"]["d"]) >= 2),
        "key_stated_3_times_or_more": sum(1 for x in recs if any(d["n"] >= 3 for d in x["exp"]["d"])),
        "two_or_more_own_keys_beside": sum(1 for x in recs if x["exp"]["d"] and len(x["exp"]["u"]) >= 2),
        "with_dropped_member": sum(1 for x in recs if x["exp"]["d"] and any(t["t"] == "bad" for t in x["hdr"])),
        "near_member_limit": sum(1 for x in recs if x["exp"]["d"] and nmem(x) >= 179),
        "over_long_header_alternative": sum(1 for x in recs if x["alt"]),
    }
    ctx.extra["repeated_key_family"] = dupstat
    if len(recs) < 600 or not all(dupstat.values()):
        raise Broken("vacuity: repeated-key family lacks a class: %s" % dupstat)
    c = _cfg(ctx, "mix.cfg", True, "mix", 5, True, 1, "ExtractValid DupBand EmitMix")
    r = tlc.tlc("Baggage", c, rundir=ctx.rundir.path, workers=1, timeout_s=600,
                simulate={"num": 60 if thorough else 8, "depth": 7}, seed=ctx.seed + 16, tag="mix")
    if r.status != "ok":
        raise Broken("Baggage mix simulation failed: %s\n%s" % (r.status, r.out[-1500:]))
    b = _uniq(r, "mix")
    counts["mix"] = len(b)
    behs += b
    ctx.extra["mix_headers_with_repeated_key"] = sum(1 for x in b if x["steps"][0]["exp"]["d"])
    ctx.extra["behaviours_generated"] = counts
    pool.shutdown()
    if f3 is not None:
        r = f3.result()
        ctx.add_tlc("Baggage histories: <= 3 operations on the newest object, 8 keys x 8 values", r)
        if r.status != "timeout":
            tlc.must_ok(r, "Baggage history model checking")
            for a in OPS_ACTIONS:
                if r.coverage.get(a, (0, 0))[0] == 0:
                    raise Broken("vacuity: action %s never taken in the Baggage history configuration" % a)
        else:
            log("Baggage depth-3 model checking timed out (bounded; reported as not exhaustive)")
    return behs


def composite_runs(ctx):
    behs = []
    laws = "LastValidWins CrossFormatApplied EmptyIsIdentity NothingValidUntouched EveryPartWrote"
    for menu in ("extract", "inject"):
        c = _ccfg(ctx, "comp-%s.cfg" % menu, True, menu, laws + " EmitAll")
        r = tlc.tlc("Composite", c, rundir=ctx.rundir.path, workers=1, timeout_s=600, tag="comp" + menu)
        ctx.add_tlc("Composite %s: every ordered subset of the 5 propagators x every carrier / context shape" % menu, r)
        tlc.must_ok(r, "Composite " + menu)
        b = _uniq(r, "comp-" + menu)
        ctx.extra["behaviours_generated"]["comp-" + menu] = len(b)
        behs += b
    if ctx.extra["behaviours_generated"]["comp-extract"] != 326 * 216 * 2:
        raise Broken("Composite extract family has %d scenarios, expected %d" % (
            ctx.extra["behaviours_generated"]["comp-extract"], 326 * 216 * 2))
    # vacuity: the cross-format carriers (a B3 part facing only the OTHER B3 format) are in the family
    cross = sum(1 for b in behs if b["src"] == "comp-extract" and b["steps"][0]["exp"]["span"] == "b3xS"
                and "b3m" not in b["steps"][0]["parts"])
    ctx.extra["composite_cross_format_scenarios"] = cross
    if not cross:
        raise Broken("vacuity: no scenario where B3Propagator alone must read the X-B3-* headers")
    # teeth: the order of the parts must be observable in the model
    c = _ccfg(ctx, "comp-teeth.cfg", False, "extract", "OrderIrrelevant")
    r = tlc.tlc("Composite", c, rundir=ctx.rundir.path, workers=2, timeout_s=300, tag="compteeth")
    ctx.add_tlc("vacuity: OrderIrrelevant must be violated", r)
    if r.status != "invariant":
        raise Broken("vacuity: the order of the parts is not observable in Composite.tla (%s)" % r.status)
    return behs


def replay_behs(ctx, exe, behs, ninst, what):
    jobs = []
    for i, b in enumerate(behs):
        for k in range(ninst.get(b["src"], 1)):
            inst = (ctx.seed * 1000003 + i * 37 + k * 7919 + 11) % (2 ** 31)
            jobs.append({"id": len(jobs), "inst": inst, "steps": b["steps"], "src": b["src"]})
    nproc = 4
    files = []
    for p in range(nproc):
        path = ctx.rundir.file("behs-%s-%d.ndjson" % (what, p))
        with open(path, "w") as f:
            for j in jobs[p::nproc]:
                f.write(json.dumps({"id": j["id"], "inst": j["inst"], "steps": j["steps"]}) + "\n")
        files.append(path)
    results = {}
    with cf.ThreadPoolExecutor(max_workers=nproc) as ex:
        for p, hr in enumerate(ex.map(lambda f: hrun.run_harness(exe, ["replay", f], timeout=1500), files)):
            for v in hr.json():
                results[v["beh"]] = v
            mine = jobs[p::nproc]
            if hr.crashed or hr.rc != 0:
                done = [j for j in mine if j["id"] in results]
                nxt = mine[len(done)] if len(done) < len(mine) else None
                if hr.rc == 5 or nxt is None or hr.timed_out:
                    raise Broken("%s replay harness failed rc=%s: %s" % (what, hr.rc, hr.err[-2000:]))
                ctx.violation("%s: the real code crashed (rc=%s) on a TLC-generated case (src=%s): %s" % (
                    what, hr.rc, nxt["src"], _crash_summary(hr.err)), {"kind": what, "beh": _trim(nxt)})
    took, chars, reports = {}, set(), 0
    for j in jobs:
        v = results.get(j["id"])
        if v is None:
            continue
        ctx.traces += 1
        ctx.distinct.add(hashlib.sha1((json.dumps(j["steps"], sort_keys=True) + str(j["inst"])).encode()).hexdigest())
        for t in v.get("took", []):
            took[t] = took.get(t, 0) + 1
        chars.update(v.get("chars", ""))
        if not v["ok"]:
            if reports < MAX_REPORTS:
                reports += 1
                ctx.violation("%s (src=%s) step %d: %s" % (what, j["src"], v.get("step", 0), v["what"]),
                              {"kind": what, "beh": _trim(j), "step": v.get("step", 0), "got": v.get("got")})
            continue
        for i, t in enumerate(v.get("took", [])):
            if t not in ("exp", "dc"):
                ctx.deviation(t, "extraction of a TLC-generated header took the deviating branch",
                              {"kind": what, "beh": _trim(j), "step": i})
    ctx.extra["replay_results_" + what] = took
    ctx.extra["instances_replayed_" + what] = len(results)
    if what == "baggage":
        ctx.extra["distinct_token_and_other_printable_characters_used"] = len(chars)
    if len(results) < len(jobs) and not ctx.violations:
        raise Broken("%s replay lost behaviours: %d of %d" % (what, len(results), len(jobs)))


def _trim(j):
    """Replay objects must stay small: long token lists are kept (they are run-length encoded)."""
    return {"id": 0, "inst": j["inst"], "steps": j["steps"], "src": j.get("src")}


def _tv_cfg(ctx):
    p = ctx.rundir.file("tv.cfg")
    with open(p, "w") as f:
        f.write("CONSTANTS Dev = {} Hist = FALSE Menu = \"ops\" MaxOps = 0 AnyObj = TRUE VLen = 1\nINIT TInit\nNEXT TNext\n"
                "CONSTRAINT Progress\nINVARIANT Report\nPOSTCONDITION Accepted\nCHECK_DEADLOCK FALSE\n")
    return p


def validate_lines(ctx, lines, tag="tv"):
    res = tv.validate(ctx, "BaggageTrace", _tv_cfg(ctx), lines, chunk=30, parallel=4, tag=tag)
    for rj in res["rejected"][:MAX_REPORTS]:
        ev, at = rj["events"], rj["at"]
        ctx.violation("BaggageTrace rejects a recorded history of the real Baggage/propagator at event %d: %s" % (
            at, json.dumps(ev[at])[:400] if at < len(ev) else "?"), {"kind": "trace", "events": ev, "at": at})
    return res


def record_and_validate(ctx, exe):
    thorough = ctx.tier == "thorough"
    nexec, length = (400, 150) if thorough else (60, 80)
    nproc = 4
    per = nexec // nproc
    with cf.ThreadPoolExecutor(max_workers=nproc) as ex:
        hrs = list(ex.map(lambda p: hrun.run_harness(exe, ["record", ctx.seed * 103 + p, per, length], timeout=900), range(nproc)))
    lines = []
    for hr in hrs:
        if hr.crashed:
            ctx.violation("Baggage crashed (rc=%s) during a random history: %s" % (hr.rc, _crash_summary(hr.err)),
                          {"kind": "crash", "tail": hr.lines[-30:]})
            last = max([i for i, ln in enumerate(hr.lines) if '"e":"Cfg"' in ln] or [0])
            lines += hr.lines[:last]
            continue
        if hr.rc != 0:
            raise Broken("recorder failed rc=%s: %s" % (hr.rc, hr.err[-1500:]))
        lines += hr.lines
    res = validate_lines(ctx, lines)
    ctx.extra["histories_validated"] = res["executions"]
    ctx.extra["history_events_validated"] = res["events"]
    ctx.extra["histories_not_validated_after_rejections"] = res["unvalidated"]
    ops = {}
    for ln in lines:
        try:
            e = json.loads(ln)["e"]
        except Exception:
            continue
        ops[e] = ops.get(e, 0) + 1
    ctx.extra["history_event_counts"] = ops
    for need in ("Set", "SetBad", "Del", "Rt", "Obs"):
        if not ops.get(need):
            raise Broken("vacuity: no %s event in the recorded histories" % need)
    execs = tv.split_executions(lines)
    ctx.sample({"kind": "recorded history of the real Baggage validated by BaggageTrace.tla",
                "events": [json.loads(x) for x in execs[0][1:6]]})
    for i, ex_ in enumerate(execs):
        ctx.distinct.add("hist-%d-%s" % (i, hashlib.sha1("".join(ex_).encode()).hexdigest()[:12]))


def arbitrary_bytes(ctx, exe):
    n = 20000 if ctx.tier == "thorough" else 4000
    with cf.ThreadPoolExecutor(max_workers=4) as ex:
        hrs = list(ex.map(lambda p: hrun.run_harness(exe, ["bytes", ctx.seed * 107 + p, n // 4], timeout=900), range(4)))
    tot = 0
    for p, hr in enumerate(hrs):
        out = hr.json()
        if hr.crashed or not out or not out[-1].get("ok"):
            if hr.rc == 5:
                raise Broken("bytes mode failed: " + hr.err[-500:])
            ctx.violation("BaggagePropagator::Extract crashed / disturbed the context on arbitrary header bytes (rc=%s): %s" % (
                hr.rc, _crash_summary(hr.err) if hr.err else json.dumps(out[-1:])), {"kind": "bytes", "seed": ctx.seed * 107 + p, "n": n // 4})
        else:
            tot += out[-1]["n"]
    ctx.extra["arbitrary_byte_headers_under_sanitizers"] = tot


def run(ctx):
    thorough = ctx.tier == "thorough"
    ctx.assumptions += [
        "strings are abstracted to runs over 11 character classes; the concretisation table in harness/c15_baggage.cc "
        "(seeded real characters per class, real sizes) is trusted; class homogeneity is sampled, not proved",
        "related keys: the history menu holds a / ab / aa (prefix, same length differing in the last character; equal up to "
        "case in every third concretisation) and two thirds of the recorded histories' keys are derived from earlier keys; "
        "GetValue is also probed with prefixes / extensions / case variants that are not keys",
        "don't-care bands (the statement is silent): position of the entry after Set (Set/Delete results compared as sets; "
        "the round trip must reproduce the order the object itself reports); Set with an empty / non-printable argument; "
        "members with unescaped non-token characters, a literal '+', or '=' inside the value (wildcard: zero or one valid entry); "
        "'+' or '%20' for a blank and hex-digit case in injected headers; key+value of exactly 4096 bytes; what is kept from a header "
        "over 8192 bytes / over 180 members (nothing, or only what lies within the limit); what a key stated by several valid "
        "members of a header yields (1..n entries with stated values, anywhere; GetValue one of them) - every other valid member "
        "is demanded exactly once, in header order; headers with a repeated key and more than 180 members are not generated; blanks at "
        "the end of ;metadata (optional white space of the header)",
        "memory safety of extraction is covered only as a by-product: ASan/UBSan on every model-generated header and on seeded "
        "arbitrary byte strings, carriers return exactly-sized views without NUL terminator",
        "Composite.tla models the parts abstractly (valid header -> the part installs its identity, absent/invalid -> context "
        "unchanged, as pinned by C09/C16); carriers hold every wire format independently of the configured parts; both B3 parts read "
        "both B3 formats, single header first (C16); the shape b3 invalid + X-B3-* valid is not generated",
    ]
    ctx.extra["rule"] = (
        "states/transitions: TLC on Baggage.tla / Composite.tla (exhaustive + generation + trace validation); traces_validated: "
        "TLC-generated behaviours/scenarios replayed on the real classes (each concretisation counts) + recorded histories validated by "
        "BaggageTrace.tla; distinct_nontrivial: distinct (behaviour, concretisation seed) pairs and distinct recorded histories")
    ph = ctx.extra.setdefault("phase_wall_s", {})
    t0 = ctx.timer.s()
    bpool = cf.ThreadPoolExecutor(max_workers=2)       # the harness builds run beside the TLC runs
    fb = bpool.submit(build.harness, "c15_baggage", ["c15_baggage.cc"], "asan", need_sdk=False)
    fc = bpool.submit(build.harness, "c15_composite", ["c15_composite.cc"], "asan", need_sdk=False)
    behs = baggage_runs(ctx)
    cbehs = composite_runs(ctx)
    ph["tlc"] = round(ctx.timer.s() - t0, 1)
    bexe, cexe = fb.result(), fc.result()
    bpool.shutdown()
    ph["tlc_and_build"] = round(ctx.timer.s() - t0, 1)
    t0 = ctx.timer.s()
    ninst = {"parse": 40 if thorough else 8, "dup": 12 if thorough else 3, "mix": 2 if thorough else 1, "rt1": 1, "rt2": 2 if thorough else 1,
             "ops2": 2 if thorough else 1, "opssim": 2 if thorough else 1}
    replay_behs(ctx, bexe, behs, ninst, "baggage")
    replay_behs(ctx, cexe, cbehs, {"comp-extract": 2 if thorough else 1, "comp-inject": 4 if thorough else 2}, "composite")
    ph["replay"] = round(ctx.timer.s() - t0, 1)
    for src in ("parse", "dup", "rt1", "ops2", "comp-extract"):
        b = next((x for x in behs + cbehs if x["src"] == src), None)
        if b:
            ctx.sample({"kind": "TLC behaviour replayed on the real code (%s)" % src, "steps": json.loads(json.dumps(b["steps"]))[:3]}, limit=6)
    t0 = ctx.timer.s()
    record_and_validate(ctx, bexe)
    arbitrary_bytes(ctx, bexe)
    ph["record_validate_bytes"] = round(ctx.timer.s() - t0, 1)
    ctx.evaluations = ctx.traces + ctx.extra.get("arbitrary_byte_headers_under_sanitizers", 0)


def replay(ctx, path):
    rep = json.load(open(path))["replay"]
    kind = rep.get("kind")
    if kind in ("baggage", "composite"):
        name = "c15_baggage" if kind == "baggage" else "c15_composite"
        exe = build.harness(name, [name + ".cc"], "asan", need_sdk=False)
        b = rep["beh"]
        # spec sanity run (the stored expectation was computed by these modules)
        if kind == "baggage":
            r = tlc.tlc("Baggage", _cfg(ctx, "parse.cfg", False, "parse", 0, True, 1, "ExtractValid"), rundir=ctx.rundir.path,
                        workers=2, timeout_s=300, tag="parse")
        else:
            r = tlc.tlc("Composite", _ccfg(ctx, "ci.cfg", False, "inject", "EveryPartWrote"), rundir=ctx.rundir.path,
                        workers=2, timeout_s=300, tag="ci")
        ctx.add_tlc("spec sanity run for the replay", r)
        tlc.must_ok(r, "spec sanity run")
        p = ctx.rundir.file("one.ndjson")
        with open(p, "w") as f:
            f.write(json.dumps({"id": 0, "inst": b["inst"], "steps": b["steps"]}) + "\n")
        hr = hrun.run_harness(exe, ["replay", p], timeout=300)
        ctx.traces += 1
        for v in hr.json():
            if not v["ok"]:
                ctx.violation("replayed %s case step %d: %s" % (kind, v.get("step", 0), v["what"]),
                              {"kind": kind, "beh": b, "got": v.get("got")})
            for t in v.get("took", []):
                if t not in ("exp", "dc"):
                    ctx.deviation(t, "replayed case took the deviating branch", {"kind": kind, "beh": b})
        if hr.crashed:
            ctx.violation("the real code crashed on the stored case: " + hr.err[-500:], {"kind": kind, "beh": b})
    elif kind == "trace":
        validate_lines(ctx, [json.dumps(e) for e in rep["events"]], tag="replay")
    elif kind == "bytes":
        exe = build.harness("c15_baggage", ["c15_baggage.cc"], "asan", need_sdk=False)
        hr = hrun.run_harness(exe, ["bytes", rep["seed"], rep["n"]], timeout=600)
        if hr.crashed:
            ctx.violation("Extract crashed on arbitrary bytes: " + hr.err[-500:], rep)
    else:
        raise Broken("replay file has no replayable case; re-run the check with the recorded seed")
    ctx.sample({"kind": "replayed violation", "replay": str(rep)[:600]})
