"""C12 - consistent sampling.

1. Decision table (always-on / always-off / parent-based over every parent-context class and every
   root sampler): spec/Sampler.tla, Mode "table".  TLC enumerates all 15 x 144 cases, checks the
   statement's clauses on each, prints each case with its expected result; harness/c12_sampler.cc
   replays every case (several seeded concretisations) on the real samplers and through a real
   Tracer (sampled flag + trace state of the started span, number of root-sampler consultations).
2. Ratio sampler: its floating-point threshold cannot be modelled in TLC.  The spec states the
   decision as  T(ratio) # 0 /\\ h(id) <= T(ratio)  for an unknown monotone T; TLC checks over all
   T, h of a small domain that the statement's clauses follow.  Binding code -> spec: the harness
   evaluates the REAL sampler on trace ids x sorted adversarial ratios (subnormals, 2^-64
   neighbourhood, adjacent doubles, 1-2^-53, out-of-range, +-inf; ids targeted at each threshold)
   in several contexts (fresh sampler objects, other parents/names/kinds, through Tracers) and
   SamplerTrace.tla accepts the logged matrix iff some admissible (T, h) explains it.
Level claimed: exploration (the ratio part is sampled); the decision table alone is exhaustive.
"""
import json

from lib import build, hrun, tlc, trace
from lib.common import Broken, log

LEVEL = "exploration"

ALL_DEVS = ["tracer-keeps-parent-sampled-flag"]
N_CASES = 15 * 144
MAX_REPORTS = 8      # one broken clause fails many cases: report the first few, count the rest

MC_RATIO = """CONSTANTS Mode = "ratio" Dev = {} Hist = FALSE NMid = %d NIds = %d Top = %d
INIT Init
NEXT Next
INVARIANTS ZeroSamplesNothing OneSamplesAll Nested RaisingOnlyAdds CanonicalExplains RejectsBadRows
"""
WIT = """CONSTANTS Mode = "table" Dev = {"tracer-keeps-parent-sampled-flag"} Hist = FALSE NMid = 1 NIds = 1 Top = 1
INIT Init
NEXT Next
INVARIANTS WitDev
"""


def _cfg(ctx, name, text):
    p = ctx.rundir.file(name)
    with open(p, "w") as f:
        f.write(text)
    return p


def model_check(ctx):
    r = tlc.tlc("Sampler", "MC_Sampler_table.cfg", rundir=ctx.rundir.path, workers=2, timeout_s=300, coverage=True, tag="mct")
    ctx.add_tlc("decision table, 15 samplers x 144 parent classes, all clause invariants", r)
    if r.status == "invariant":
        raise Broken("the ideal decision table violates its own clause %s: the spec is wrong\n%s" % (r.violated, r.trace_text[:2000]))
    tlc.must_ok(r, "Sampler decision table")
    if r.coverage.get("Eval", (0, 0))[0] != N_CASES:
        raise Broken("vacuity: decision table enumerated %s cases, expected %d" % (r.coverage.get("Eval"), N_CASES))
    shapes = [(3, 3, 4)] + ([(4, 3, 5), (2, 4, 4)] if ctx.tier == "thorough" else [])
    for (nm, ni, top) in shapes:
        c = _cfg(ctx, "mcr.cfg", MC_RATIO % (nm, ni, top))
        r = tlc.tlc("Sampler", c, rundir=ctx.rundir.path, workers=4, timeout_s=900, coverage=(nm, ni, top) == (3, 3, 4), tag="mcr")
        ctx.add_tlc("ratio model: every monotone T over %d ratios in (0,1) and every hash of %d ids into 0..%d" % (nm, ni, top), r)
        if r.status == "invariant":
            raise Broken("the ratio model violates %s: the spec is wrong\n%s" % (r.violated, r.trace_text[:2000]))
        if r.status == "timeout":
            continue
        tlc.must_ok(r, "Sampler ratio model")
        if r.coverage and r.coverage.get("Raise", (0, 0))[0] == 0:
            raise Broken("vacuity: Raise never taken in the ratio model")


# ---- decision table: spec -> code -----------------------------------------------------------------
def table_cases(ctx):
    r = tlc.tlc("Sampler", "Gen_Sampler_table.cfg", rundir=ctx.rundir.path, workers=2, timeout_s=300, tag="gen")
    ctx.add_tlc("decision table generation (expected result of every case)", r)
    tlc.must_ok(r, "Sampler table generation")
    cases = r.printed("BEH")
    keys = set(json.dumps([c["s"], c["p"]], sort_keys=True) for c in cases)
    if len(cases) != N_CASES or len(keys) != N_CASES:
        raise Broken("decision table generation printed %d cases (%d distinct), expected %d" % (len(cases), len(keys), N_CASES))
    w = tlc.tlc("Sampler", _cfg(ctx, "wit.cfg", WIT), rundir=ctx.rundir.path, workers=1, timeout_s=120, tag="wit")
    ctx.add_tlc("witness: a case where the Tracer deviation applies", w)
    if w.status != "invariant" or not w.printed("BEH"):
        raise Broken("witness for the tracer deviation not reachable (vacuity)")
    cases.sort(key=lambda c: json.dumps([c["s"], c["p"]], sort_keys=True))
    return cases


def replay_table(ctx, exe, cases, ninst, seed):
    p = ctx.rundir.file("cases.ndjson")
    with open(p, "w") as f:
        for c in cases:
            f.write(json.dumps(c) + "\n")
    h = hrun.run_harness(exe, ["table", p, seed, ninst], timeout=1200)
    js = h.json()
    if h.rc == 5 or any("broken" in x for x in js):
        raise Broken("c12_sampler self-check failed: %s" % [x for x in js if "broken" in x][:1])
    res = [x for x in js if "case" in x]
    if h.crashed or h.timed_out:
        starts = [x["start"] for x in js if "start" in x]
        k = starts[-1] if starts else 0
        ctx.violation("real sampler/tracer %s on decision-table case %s" % (
            "timed out" if h.timed_out else "crashed (rc=%s)" % h.rc, json.dumps(cases[k]) if k < len(cases) else "?"),
            {"case": cases[k] if k < len(cases) else None, "seed": seed, "ninst": ninst, "stderr": h.err[-3000:]})
    elif h.rc != 0 or len(res) != len(cases):
        raise Broken("c12_sampler table failed rc=%s (%d of %d cases): %s" % (h.rc, len(res), len(cases), h.err[-1500:]))
    evals = 0
    used = 0
    for v in res:
        c = cases[v["case"]]
        evals += v.get("evals", 0)
        rep = {"case": c, "seed": seed, "ninst": ninst, "verdict": v}
        sname = "ParentBased(" * c["s"]["depth"] + c["s"]["base"] + ")" * c["s"]["depth"]
        if not v["ok"]:
            if len(ctx.violations) >= MAX_REPORTS:
                ctx.extra["violations_not_reported_separately"] = ctx.extra.get("violations_not_reported_separately", 0) + 1
                continue
            ctx.violation("sampler %s, parent %s: %s differs from the spec: expected d=%s ts=%s calls=%s tracer-sampled=%s, got %s (%s)" % (
                sname, json.dumps(c["p"]), v.get("why"), c["d"], c["ts"], c["calls"], c["tsampled"], json.dumps(v.get("got")),
                json.dumps(v.get("concrete"))), rep)
            continue
        for d in v["devs"]:
            used += 1
            ctx.deviation(d, "Tracer with sampler %s and valid sampled parent %s: decision %s but the started span has the sampled flag set" % (
                sname, json.dumps(c["p"]), c["d"]), rep)
        ctx.distinct.add(("case", json.dumps([c["s"], c["p"]], sort_keys=True)))
    return len(res), evals, used


# ---- ratio sampler: code -> spec --------------------------------------------------------------------
def record_matrix(ctx, exe, seed, nids, nratios):
    h = hrun.run_harness(exe, ["matrix", seed, nids, nratios], timeout=1200)
    if h.rc == 5:
        raise Broken("c12_sampler matrix self-check failed: %s" % h.lines[-1:])
    if h.crashed or h.timed_out:
        ctx.violation("real ratio sampler / tracer %s while recording the decision matrix (seed %d)" % (
            "timed out" if h.timed_out else "crashed (rc=%s)" % h.rc, seed),
            {"matrix_args": [seed, nids, nratios], "stderr": h.err[-3000:], "tail": h.lines[-3:]})
        return None, [], {}
    if h.rc != 0:
        raise Broken("c12_sampler matrix failed rc=%s: %s" % (h.rc, h.err[-1500:]))
    info = None
    summary = {}
    lines = []
    for ln in h.lines:
        if '"e":"Info"' in ln:
            info = json.loads(ln)
        elif '"e":"Summary"' in ln:
            summary = json.loads(ln)
        elif ln.startswith("{"):
            lines.append(ln)
    if not info or not summary or not lines:
        raise Broken("c12_sampler matrix printed no Info/Summary/rows")
    cfgs = [json.loads(l) for l in lines if '"e":"Cfg"' in l]
    cl = cfgs[0]["classes"]
    order = {"le0": 0, "mid": 1, "ge1": 2}
    if any(order[cl[i]] > order[cl[i + 1]] for i in range(len(cl) - 1)) or set(cl) != set(order) or len(cl) != len(info["ratios"]):
        raise Broken("harness ratio columns are not sorted / do not cover all classes")
    if cl.count("mid") < 50 or cl.count("le0") < 5 or cl.count("ge1") < 5:
        raise Broken("vacuity: too few ratio columns %s" % {k: cl.count(k) for k in order})
    return info, lines, summary


def check_matrix(ctx, info, lines, tag, parallel):
    res = trace.validate(ctx, "SamplerTrace", "SamplerTrace.cfg", lines, chunk=max(1, len([1 for l in lines if '"e":"Cfg"' in l]) // (parallel * 2) + 1),
                         parallel=parallel, tag=tag, timeout_s=1200)
    for rj in res["rejected"]:
        if len(ctx.violations) >= 2 * MAX_REPORTS:
            ctx.extra["violations_not_reported_separately"] = ctx.extra.get("violations_not_reported_separately", 0) + 1
            continue
        ev, at = rj["events"], rj["at"]
        row = ev[at] if at < len(ev) else {}
        d = row.get("d", [])
        ones = [j for j, x in enumerate(d) if x == 1]
        zeros_after = [j for j in range(ones[0], len(d)) if d[j] == 0] if ones else []
        hint = ""
        if zeros_after:
            j = zeros_after[0]
            hint = "sampled at ratio %s but not at the larger ratio %s" % (info["ratios"][ones[0]], info["ratios"][j])
        ctx.violation("ratio sampler: the decision row of trace id %s (context %s) is not explained by any monotone threshold: %s" % (
            row.get("tid"), row.get("src"), hint or "a ratio <= 0 sampled it, a ratio >= 1 did not, or it disagrees with another row of the same trace id"),
            {"monitor": "SamplerTrace", "events": [ev[0]] + [e for e in ev[1:at + 1] if e.get("id") == row.get("id")], "ratios": info["ratios"]})
    return res


def binding_selftest(ctx, lines):
    """Corrupt one logged cell: SamplerTrace must reject the log."""
    blk = trace.split_executions(lines)[0]
    bad = None
    for i, ln in enumerate(blk):
        if '"e":"Row"' in ln:
            e = json.loads(ln)
            if 1 in e["d"] and e["d"].index(1) + 2 < len(e["d"]) - 8:
                e["d"][e["d"].index(1) + 2] = 0
                bad = blk[:i] + [json.dumps(e)] + blk[i + 1:]
                at = i
                break
    if bad is None:
        raise Broken("binding self-test: no suitable row")
    saved = (ctx.traces, ctx.states, ctx.transitions)
    res = trace.validate(ctx, "SamplerTrace", "SamplerTrace.cfg", bad, chunk=1, parallel=1, tag="self")
    ctx.traces, ctx.states, ctx.transitions = saved
    if len(res["rejected"]) != 1 or res["rejected"][0]["at"] != at:
        raise Broken("binding self-test: a corrupted decision matrix was not rejected at the corrupted row")
    ctx.extra["binding_selftest"] = "a matrix with one flipped cell is rejected at that row"


def run(ctx):
    thorough = ctx.tier == "thorough"
    ctx.exhaustive = False
    ctx.assumptions += [
        "the ratio sampler's numeric threshold is NOT modelled: the spec only says decision = (T(ratio) # 0 /\\ h(id) <= T(ratio)) for some monotone T; the real computation is sampled on the adversarial ratio/id lists of harness/c12_sampler.cc (NaN is not evaluated: a don't-care)",
        "trace ids are given to the sampler as objects; the first-8-bytes convention is the code's own and only used to aim ids at thresholds",
        "the decision table is exhaustive over parent-context CLASSES (validity x sampled x remote x other flag bits {0x00,0x02,0xfe} x trace state {none,1,2 members}); each class is concretised a few times (seeded)",
        "always-on/always-off/ratio: only the decision is demanded (their trace state is left open); parent-based: decision, trace state and root-sampler consultations",
    ]
    ctx.extra["rule"] = ("evaluations = real ShouldSample/StartSpan evaluations (decision table cases x concretisations x {direct, Tracer} + matrix cells); "
                         "distinct_nontrivial = distinct decision-table cases + distinct (trace id, context) rows of the ratio matrix that are neither all-0 nor all-1 on the ratios in (0,1); "
                         "traces_validated = table cases replayed + matrix blocks accepted by SamplerTrace.tla")
    exe = build.harness("c12_sampler", ["c12_sampler.cc"], "asan")
    model_check(ctx)
    # -- decision table
    cases = table_cases(ctx)
    n, evals, used = replay_table(ctx, exe, cases, 25 if thorough else 3, ctx.seed)
    ctx.traces += n
    ctx.evaluations += evals
    ctx.extra["decision_table_cases_replayed"] = n
    ctx.extra["decision_table_exhaustive"] = (n == N_CASES)
    ctx.extra["decision_table_evaluations"] = evals
    ctx.extra["deviation_hits"] = {ALL_DEVS[0]: used}
    ctx.sample({"kind": "decision-table case (TLC) replayed on the real samplers and a real Tracer", "case": cases[len(cases) // 3]})
    # -- ratio matrix
    runs = [(ctx.seed, 250, 16)] if not thorough else [(ctx.seed, 1500, 48), (ctx.seed + 1000, 1500, 48), (ctx.seed + 2000, 400, 120),
                                                             (ctx.seed + 3000, 3000, 64), (ctx.seed + 4000, 800, 150)]
    tot = {"rows": 0, "cells": 0, "blocks": 0, "ids": 0}
    first = None
    for k, (sd, nids, nr) in enumerate(runs):
        info, lines, summary = record_matrix(ctx, exe, sd, nids, nr)
        if info is None:
            continue
        res = check_matrix(ctx, info, lines, "m%d" % k, parallel=4 if not thorough else 8)
        tot["rows"] += sum(1 for l in lines if '"e":"Row"' in l)
        tot["cells"] += summary.get("evaluations", 0)
        tot["blocks"] += res["executions"]
        tot["ids"] += summary.get("ids", 0)
        ctx.extra.setdefault("matrix_shapes", []).append({"seed": sd, "ratios": summary.get("ratios"), "trace_ids": summary.get("ids"),
                                                          "rows": sum(1 for l in lines if '"e":"Row"' in l)})
        cl = json.loads(lines[0])["classes"]
        mid = [j for j, c in enumerate(cl) if c == "mid"]
        srcs = {}
        for l in lines:
            if '"e":"Row"' in l:
                e = json.loads(l)
                srcs[e["src"]] = srcs.get(e["src"], 0) + 1
                dm = [e["d"][j] for j in mid]
                if 0 in dm and 1 in dm:
                    ctx.distinct.add(("row", sd, e["tid"], e["src"]))
        ctx.extra.setdefault("matrix_rows_by_context", {}).update({k2: srcs[k2] + ctx.extra.get("matrix_rows_by_context", {}).get(k2, 0) for k2 in srcs})
        for need in ("direct", "participant", "tracer-root", "tracer-parentbased-root", "tracer-child-of-unsampled"):
            if srcs.get(need, 0) == 0:
                raise Broken("vacuity: no matrix row for context %s" % need)
        if first is None:
            first = (info, lines)
    ctx.evaluations += tot["cells"]
    ctx.extra["matrix_totals"] = tot
    if first:
        info, lines = first
        row = json.loads([l for l in lines if '"e":"Row"' in l][3])
        ones = [j for j, x in enumerate(row["d"]) if x == 1]
        ctx.sample({"kind": "logged decision row of the real ratio sampler, accepted by SamplerTrace.tla", "trace_id": row["tid"],
                    "context": row["src"], "first_sampled_ratio": info["ratios"][ones[0]] if ones else None,
                    "largest_unsampled_ratio": info["ratios"][ones[0] - 1] if ones and ones[0] > 0 else None,
                    "ratios": len(info["ratios"])})
        ctx.sample({"kind": "ratio columns (sorted, hex doubles), first 40 of %d" % len(info["ratios"]), "ratios": info["ratios"][:40]})
        if not ctx.violations:
            binding_selftest(ctx, lines)


def replay(ctx, path):
    rep = json.load(open(path))["replay"]
    exe = build.harness("c12_sampler", ["c12_sampler.cc"], "asan")
    ctx.exhaustive = False
    ctx.distinct.update([1, 2])
    if rep.get("case"):
        n, evals, used = replay_table(ctx, exe, [rep["case"]], rep.get("ninst", 3), rep.get("seed", ctx.seed))
        ctx.traces += n
        ctx.evaluations += max(evals, 1)
        ctx.sample({"kind": "replayed decision-table case", "case": rep["case"]})
    elif rep.get("events"):
        lines = [json.dumps(e) for e in rep["events"]]
        res = trace.validate(ctx, "SamplerTrace", "SamplerTrace.cfg", lines, chunk=1, parallel=1, tag="replay")
        for rj in res["rejected"]:
            ctx.violation("replayed decision rows rejected by SamplerTrace at event %d" % rj["at"],
                          {"monitor": "SamplerTrace", "events": rj["events"], "ratios": rep.get("ratios")})
        ctx.evaluations += 1
        ctx.sample({"kind": "replayed decision rows", "events": rep["events"][:3]})
    elif rep.get("matrix_args"):
        info, lines, summary = record_matrix(ctx, exe, *rep["matrix_args"])
        if info:
            check_matrix(ctx, info, lines, "replay", 4)
        ctx.evaluations += 1
        ctx.sample({"kind": "re-recorded matrix", "args": rep["matrix_args"]})
    else:
        raise Broken("replay file has neither a case nor events")
