"""C02 — ForceFlush and Shutdown are complete, final and always return.

* TLC, Level B: FlushComplete, ShutdownComplete, ShutdownOnce, NoLateCall on spec/BatchProcessor.tla
  (span/log, ideal and as-implemented) and termination of every ForceFlush/Shutdown call under weak
  fairness; spec/PeriodicReader.tla (FlushTrueImpliesExported, NoExportAfterShutdown, termination).
* code -> spec: real batch processors (concurrent flushers with timeout 0 / finite / max, racing and
  repeated Shutdown, shutdown by destruction, failing exporters), multi processors and providers,
  and the real PeriodicExportingMetricReader + MeterProvider, all under the deterministic scheduler;
  Level-A monitors (BatchMonitor.tla with Check = {"C02"}, ReaderMonitor.tla, ProviderMonitor.tla).
  Termination is decided by the engine: an execution that is still running after its step budget
  under the fair (round-robin, timers firing) schedule, or that deadlocks, is a VIOLATION.
"""
from lib import build
from props import _batch as B

LEVEL = "model_checking"


def run(ctx):
    ctx.assumptions += [
        "sequentially consistent executions only (scheduler shim; memory_order arguments ignored)",
        "termination verdicts: deadlock, or no completion within the step budget after the scheduler has turned fair (round robin, timers firing)",
        "exhaustive TLC results hold for the stated small constants only",
    ]
    ctx.extra["rule"] = ("states/transitions: TLC (Level-B models + trace validation); traces: real executions under the deterministic "
                         "scheduler validated by the Level-A monitors; distinct_nontrivial = executions with pairwise different observable event logs (md5 of the log without the seed)")
    exe = build.harness("batch", ["batch.cc"], "shim")
    B.model_check_batch(ctx, ["FlushComplete", "ShutdownComplete", "ShutdownOnce", "NoLateCall"], live=True)
    B.model_vs_monitor(ctx)
    lines, abnormal = B.explore(ctx, exe, B.batch_runs(ctx, focus="C02"))
    B.validate(ctx, "C02", lines, "batch")
    B.report_abnormal(ctx, abnormal, "batch")
    try:
        from props import _simple
        _simple.run_simple(ctx, "C02")
    except ImportError:
        pass
    try:
        from props import _reader
        _reader.run_reader(ctx, "C02")
    except ImportError:
        pass
    ctx.evaluations = ctx.traces


def replay(ctx, path):
    B.generic_replay(ctx, path)
