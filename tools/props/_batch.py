"""Shared machinery for C01 / C02 / C03: batch span/log processors under the deterministic scheduler,
validated by the Level-A monitor spec/BatchMonitor.tla; Level-B model spec/BatchProcessor.tla."""
import concurrent.futures as cf
import json
import os
import subprocess

from lib import build, tlc, trace
from lib.common import Broken, log

MON_CFG = """CONSTANT Dev = {%s}
CONSTANT Check = {"%s"}
INIT Init
NEXT Next
CONSTRAINT Progress
INVARIANT Report
POSTCONDITION Accepted
CHECK_DEADLOCK FALSE
"""

MC_CFG = """CONSTANTS NProd = %d NRec = %d QMax = %d BMax = %d NFlush = %d NShut = %d Budget = %d Variant = "%s" Dev = {%s} Hist = FALSE defaultInitValue = 0
SPECIFICATION %s
%s
"""

BATCH_DEVS = ["batch-uncapped-when-ticket-pending", "batch-size-read-twice"]


def _q(names):
    return ",".join('"%s"' % n for n in sorted(names))


def write_cfg(ctx, name, text):
    p = ctx.rundir.file(name)
    with open(p, "w") as f:
        f.write(text)
    return p


def run_harness(exe, args, timeout=3000):
    p = subprocess.run([exe] + [str(a) for a in args], stdout=subprocess.PIPE, stderr=subprocess.PIPE,
                       text=True, errors="replace", timeout=timeout)
    return p.returncode, p.stdout.splitlines(), p.stderr


def explore(ctx, exe, runs):
    """runs: list of arg lists (after the binary name).  Returns (lines, abnormal) where abnormal is a
    list of (args, rc, last_partial_execution_lines) for stuck (3) / crashed (4, signal) runs."""
    lines, abnormal = [], []
    with cf.ThreadPoolExecutor(max_workers=16) as ex:
        futs = [(a, ex.submit(run_harness, exe, a)) for a in runs]
        for a, f in futs:
            rc, out, err = f.result()
            out = [ln for ln in out if ln.startswith("{")]
            if rc == 3 or rc == 4 or rc < 0:
                last = max([i for i, ln in enumerate(out) if '"e":"Cfg"' in ln] or [0])
                abnormal.append((a, rc, out[last:]))
                out = out[:last]
            elif rc != 0:
                raise Broken("harness failed rc=%s args=%s: %s" % (rc, a, err[-2000:]))
            for ln in out:
                if '"e":"Summary"' in ln:
                    continue
                if '"e":"DfsComplete"' in ln:
                    ctx.extra.setdefault("dfs_complete", []).append({"args": a[1:], "executions": json.loads(ln)["executions"]})
                    continue
                lines.append(ln)
    return lines, abnormal


HARNESS_OF = {"batch": ("batch", "batch.cc"), "provider": ("provider", "provider.cc"), "periodic reader": ("reader", "reader.cc")}


def report_abnormal(ctx, abnormal, what, only_if=None):
    for a, rc, out in abnormal:
        ev = []
        for x in out[-80:]:
            try:
                ev.append(json.loads(x))
            except Exception:
                ev.append(x)
        if only_if and not only_if(ev):
            continue
        kind = "got stuck (deadlock, or livelock under the fair schedule: a call did not return)" if rc == 3 \
            else "crashed (rc=%s)" % rc
        ctx.violation("%s: real execution %s; harness args=%s" % (what, kind, a),
                      {"args": a, "harness": HARNESS_OF.get(what, (what, what + ".cc")), "events": ev})


def validate(ctx, prop, lines, what, devs=()):
    """Validate Level-A logs with BatchMonitor restricted to the clauses of `prop`.  Deviations listed as
    known for this property are allowed to the monitor and reported as KNOWN-FINDING; anything else
    the monitor cannot explain is a VIOLATION."""
    allowed = [d for d in devs if d in ctx.known_devs()]
    cfg = write_cfg(ctx, "mon-%s.cfg" % what, MON_CFG % (_q(allowed), prop))
    res = trace.validate(ctx, "BatchMonitor", cfg, lines, parallel=12, chunk=3000, tag=what)
    ctx.extra["executions_validated_" + what] = res["executions"]
    ctx.extra["events_validated_" + what] = res["events"]
    for d in sorted(res["devused"]):
        ctx.deviation(d, "%s: %d execution(s) of the real processor are explainable only through deviation %s" % (
            what, res["devexecs"], d), {"deviation": d})
    for rj in res["rejected"]:
        ev, at = rj["events"], rj["at"]
        ctx.violation("%s: BatchMonitor (clauses of %s) rejects a real execution at event %d: %s" % (
            what, prop, at, json.dumps(ev[at]) if at < len(ev) else "?"),
            {"monitor": "BatchMonitor", "check": prop, "dev": allowed, "events": ev, "at": at})
    if lines:
        ex0 = trace.split_executions(lines)[0]
        ctx.sample({"kind": "real %s execution validated by BatchMonitor" % what, "events": [json.loads(x) for x in ex0[:16]]})
    return res


def batch_runs(ctx, kinds=("span", "log"), focus=None):
    """Exploration plan: random + PCT over scenarios drawn from the seed, delay-bounded DFS on tiny
    fixed scenarios.  scenario = Q,B,np,nr,nf,ns,lat,fto,post,freeze,expfail,destroy"""
    thorough = ctx.tier == "thorough"
    s = ctx.seed
    n = 8000 if thorough else 2500
    runs = []
    for k in kinds:
        for i in range(4 if thorough else 2):
            runs.append(["explore", k, "random", n, s + 10 * i])
            runs.append(["explore", k, "pct", n, s + 10 * i + 1])
        fixed = ["2,1,1,2,1,1,1,0,1,0,0,0", "1,1,2,1,1,1,0,3,0,0,0,0", "2,2,2,1,0,2,1,0,1,0,0,0", "2,1,2,1,0,1,0,0,0,1,0,0",
                 "2,1,1,2,1,0,0,1,0,0,0,1"]
        if focus == "C02":
            # two flushers + failing exporter results; racing shutdowns; an exporter whose own ForceFlush
            # always reports failure (expfail = 2) with an untimed flush followed by Shutdown
            fixed += ["1,1,1,1,2,1,0,0,1,0,1,0", "2,1,1,1,1,2,1,2,1,0,0,0", "2,1,1,2,1,1,1,0,1,0,2,0", "2,2,1,1,1,1,0,2,0,0,2,1"]
        if focus == "C03":
            fixed += ["3,2,2,2,1,1,1,0,0,0,0,0", "3,2,3,1,0,1,0,0,0,0,0,0"]
        for i, sc in enumerate(fixed):
            # delay bound 2 multiplies the number of executions by ~100: thorough tier, first scenarios only
            runs.append(["explore", k, "dfs", 10 ** 7, s, sc, 2 if (thorough and i < 3) else 1])
        # scenario families with a fixed shape under random scheduling (deeper in one corner)
        for sc in fixed[:3] + ([fixed[-2], fixed[-1]] if focus == "C02" else []):
            runs.append(["explore", k, "random", n // 2, s + 77, sc])
        # a slow exporter (8 scheduling points inside Export) widens the windows in which producers and
        # ForceFlush callers interleave with one export cycle: overlapping flushers, backlog > one batch
        slow = ["3,1,1,3,2,1,8,3,0,0,0,0", "4,1,2,2,2,1,8,3,0,0,0,0", "4,2,2,3,2,1,8,0,1,0,0,0"]
        for sc in slow if focus in ("C02", "C01") else slow[:1]:
            runs.append(["explore", k, "random", n // 2, s + 78, sc])
            runs.append(["explore", k, "pct", n // 2, s + 79, sc])
        if focus in ("C01", "C02"):
            # Shutdown with a finite / zero timeout and a slow exporter with a backlog of several batches: the
            # queue is drained and the exporter shut down whatever the timeout (13th field = Shutdown timeout class)
            for sc in ["3,1,1,3,0,1,8,0,0,0,0,0,1", "4,1,2,2,1,1,8,3,0,0,0,0,2", "3,1,1,3,0,2,8,0,1,0,0,0,3"]:
                runs.append(["explore", k, "random", n // 4, s + 82, sc])
                runs.append(["explore", k, "pct", n // 4, s + 83, sc])
        if focus == "C01":
            # production goes on while and after two flushers overlap on a slow exporter, with a tiny queue:
            # "never lost when at most max_queue_size records are produced between two completed flushes"
            # (BatchMonitor: a ForceFlush that returned true has emptied the queue of its snapshot - `flushed`)
            for sc in ["2,1,2,4,2,1,8,0,0,0,0,0", "3,1,1,6,2,1,8,0,0,0,0,0", "2,2,2,5,2,1,4,3,0,0,0,0"]:
                runs.append(["explore", k, "random", n // 2, s + 80, sc])
                runs.append(["explore", k, "pct", n // 2, s + 81, sc])
    return runs


def model_check_batch(ctx, invariants, expect_violation_with_devs=None, live=True, with_devs=False):
    """TLC on the Level-B model.  Ideal (Dev = {}) must satisfy `invariants`; the as-implemented
    variant (Dev = known devs) must satisfy them too unless listed in expect_violation_with_devs."""
    thorough = ctx.tier == "thorough"
    inv_line = "INVARIANTS " + " ".join(invariants)
    shapes = [(1, 1, 1, 1, 1, 1, 99), (2, 1, 2, 1, 0, 1, 99)]
    if thorough:
        shapes += [(1, 2, 2, 1, 1, 1, 99), (1, 1, 1, 1, 2, 1, 99), (2, 1, 1, 1, 1, 1, 1)]
    small = shapes[:2]
    for variant in ("span", "log"):
        for (np_, nr, q, b, nf, ns, bud) in shapes:
            # Dev = {} is the code as it is now (both deviations were repaired by a fix: commit); the
            # historical variants are kept as named deviations and re-checked (small shapes, span) in the
            # thorough tier of C03
            for devs in ([], BATCH_DEVS):
                if devs and not (with_devs and thorough and variant == "span" and (np_, nr, q, b, nf, ns, bud) in small):
                    continue
                if variant == "log" and thorough and (np_, nr, q, b, nf, ns, bud) not in small + shapes[2:3]:
                    continue
                c = write_cfg(ctx, "mc.cfg", MC_CFG % (np_, nr, q, b, nf, ns, bud, variant, _q(devs), "Spec", inv_line))
                r = tlc.tlc("BatchProcessor", c, rundir=ctx.rundir.path, workers=12, timeout_s=1200 if thorough else 420,
                            xmx="20g", coverage=False, tag="mcb")
                name = "BatchProcessor %s P%dx%d Q%d B%d F%d S%d budget%d Dev=%s" % (variant, np_, nr, q, b, nf, ns, bud, "asimpl" if devs else "{}")
                ctx.add_tlc(name, r)
                if r.status == "timeout":
                    continue
                if r.status == "invariant":
                    if devs and expect_violation_with_devs and r.violated in expect_violation_with_devs:
                        ctx.extra.setdefault("model_confirms_deviation", []).append({"cfg": name, "invariant": r.violated})
                        continue
                    ctx.extra.setdefault("model_violations", []).append({"cfg": name, "invariant": r.violated})
                    continue
                tlc.must_ok(r, name)
    if live:
        c = write_cfg(ctx, "mcl.cfg", MC_CFG % (1 if thorough else 0, 1, 1, 1, 1, 1, 1, "span", "", "Spec",
                                                 "PROPERTY Termination2\nCHECK_DEADLOCK FALSE"))
        r = tlc.tlc("BatchProcessor", c, rundir=ctx.rundir.path, workers=12, timeout_s=900, xmx="20g", tag="mclive", deadlock=True)
        ctx.add_tlc("BatchProcessor liveness: every ForceFlush/Shutdown returns (WF, tiny config)", r)
        if r.status == "temporal":
            ctx.extra.setdefault("model_violations", []).append({"cfg": "liveness", "invariant": "Termination2"})
        elif r.status not in ("ok", "timeout"):
            tlc.must_ok(r, "BatchProcessor liveness")


GEN_CFG = """CONSTANTS NProd = %d NRec = %d QMax = %d BMax = %d NFlush = %d NShut = %d Budget = %d Variant = "%s" Dev = {} Hist = TRUE defaultInitValue = 0
SPECIFICATION Spec
INVARIANTS EmitLog
"""


def model_vs_monitor(ctx):
    """Over-strictness guard for the Level-A monitor: behaviours of the Level-B model (random walks of
    BatchProcessor.tla with its event log recorded) are fed to BatchMonitor.tla with ALL clauses enabled.
    The model satisfies the properties (TLC, above), so a rejection means the monitor demands more than
    the design gives (or the model's event export is wrong): a broken check, never a violation."""
    thorough = ctx.tier == "thorough"
    lines = []
    n_logs = 0
    for (np_, nr, q, b, nf, ns, bud, variant) in [(2, 2, 2, 1, 1, 1, 99, "span"), (2, 2, 1, 1, 2, 2, 1, "log"), (3, 1, 2, 2, 1, 1, 99, "span"),
                                                  (1, 3, 3, 2, 2, 1, 2, "log")]:
        c = write_cfg(ctx, "gen.cfg", GEN_CFG % (np_, nr, q, b, nf, ns, bud, variant))
        r = tlc.tlc("BatchProcessor", c, rundir=ctx.rundir.path, workers=4, timeout_s=600,
                    simulate={"num": 300 if thorough else 20, "depth": 600}, seed=ctx.seed + 3, tag="gen")
        if r.status != "ok":
            raise Broken("BatchProcessor log generation failed: %s" % r.status)
        ctx.add_tlc("BatchProcessor %s log generation (simulate) P%dx%d Q%d B%d F%d S%d" % (variant, np_, nr, q, b, nf, ns), r, complete=True)
        seen = set()
        cap = 1500 if thorough else 150
        for raw in r.printed_raw("BEH"):
            if raw in seen:
                continue
            seen.add(raw)
            if len(seen) > cap:
                break
            ev = json.loads(tlc._unescape(raw[1:-1]))
            lines.append(json.dumps({"e": "Cfg", "kind": variant, "Q": q, "B": b, "np": np_, "nr": nr, "nf": nf, "ns": ns,
                                     "src": "BatchProcessor.tla"}, separators=(",", ":")))
            lines.extend(json.dumps(e, separators=(",", ":")) for e in ev)
            lines.append(json.dumps({"e": "End", "live": 0}, separators=(",", ":")))
            n_logs += 1
    if n_logs < 20:
        raise Broken("too few model behaviours generated (%d)" % n_logs)
    cfg = write_cfg(ctx, "mon-model.cfg", MON_CFG % ("", 'C01","C02","C03'))
    saved = ctx.traces
    res = trace.validate(ctx, "BatchMonitor", cfg, lines, parallel=4, chunk=500, tag="modelA")
    ctx.traces = saved            # model behaviours are not executions of the implementation
    ctx.extra["levelB_behaviours_accepted_by_levelA_monitor"] = res["accepted"]
    if res["rejected"]:
        rj = res["rejected"][0]
        raise Broken("BatchMonitor rejects a behaviour of the Level-B model at event %d: %s" % (
            rj["at"], json.dumps(rj["events"][max(0, rj["at"] - 6):rj["at"] + 1])))


def generic_replay(ctx, path):
    rep = json.load(open(path))["replay"]
    if "monitor" not in rep and "args" in rep and "harness" in rep:
        # a stuck / crashed execution: the engine is deterministic, re-run the same harness arguments
        name, src = rep["harness"]
        exe = build.harness(name, [src], "shim")
        lines, abnormal = explore(ctx, exe, [rep["args"]])
        what = [k for k, v in HARNESS_OF.items() if v[0] == name]
        report_abnormal(ctx, abnormal, what[0] if what else name)
        ctx.traces += 1
        ctx.sample({"kind": "re-run of a stuck/crashed execution", "args": rep["args"], "abnormal": len(abnormal)})
        return
    if "events" not in rep or "monitor" not in rep:
        raise Broken("replay file has no event log; re-run the check with the recorded seed/args: %s" % rep.get("args"))
    lines = [json.dumps(e) for e in rep["events"]]
    cfg = write_cfg(ctx, "replay.cfg", MON_CFG % (_q(rep.get("dev", [])), rep.get("check", ctx.pid)))
    res = trace.validate(ctx, rep["monitor"], cfg, lines, parallel=1, tag="replay")
    for rj in res["rejected"]:
        ctx.violation("replayed log rejected by %s at event %d" % (rep["monitor"], rj["at"]),
                      {"monitor": rep["monitor"], "check": rep.get("check"), "dev": rep.get("dev", []),
                       "events": rj["events"], "at": rj["at"]})
    ctx.sample({"kind": "replayed violation log", "events": rep["events"][:10]})
