"""C08 -- metric series are keyed by attribute-set value; filters and limits lose nothing.

1. TLC, exhaustive, spec/AttrSetKeyMC.tla: every pair of attribute sequences (length <= 3) and every
   filter: "same series" <=> equal as key-to-value maps, order irrelevant, duplicates last-wins,
   filter = restriction.  The same run prints (sequence, filter) |-> Canon; harness/c08_attrs.cc replays the
   table on the real FilteredOrderedAttributeMap / AttributesProcessor / AttributesHashMap under several
   seeded concretisations (all value types, adversarial key names): projection = Canon, operator== <=>
   same Canon, equal Canon => equal hash, series table = grouping by Canon.
2. TLC, exhaustive, spec/MetricsSync.tla with filters and cardinality limits (Limit 2/3, "default" 4): the
   repaired design keeps every table and every report within the limit, folds only when needed and conserves
   the total, for delta and cumulative readers, over every iteration order of the tables; with the deviations
   of the unchanged tree every broken clause goes through a listed deviation.
3. spec -> code / code -> spec: TLC behaviours (witnesses for every rare step incl. "cumulative merge while
   the overflow series exists", one behaviour per distinct state reached by a Collect within small bounds, random walks, shortest counterexamples of
   the as-implemented model) and long random histories (explicit limits 2..10 through SyncMetricStorage,
   random allow-lists through views, 2100+ distinct sets over several cycles against the default limit
   2000) are executed on the real code; every event log is validated by spec/MetricsSyncTrace.tla, which
   leaves open WHICH sets are folded.  Only a monitor rejection / table mismatch / crash is a VIOLATION.
"""
import hashlib
import json
import random

from lib import build, hrun
from lib import metrics_sync as M
from lib import tlc as T
from lib.common import Broken, log

LEVEL = "model_checking"


def _t(ctx, what):
    ctx.extra.setdefault("phase_wall_s", {})[what] = ctx.timer.s()
    log("phase done:", what, ctx.timer.s())
MY_DEVS = [M.D4, M.D6]

ASK_CFG = """CONSTANTS AKeys = {%s}  AVals = {%s}  AMaxLen = %d
INIT AInit
NEXT ANext
INVARIANTS KeyedByValue OrderIrrelevant LastWins FilterIsRestriction CanonIsMap Emit
"""


def attr_set_key(ctx):
    """Clause 1: series identity as a pure function."""
    thorough = ctx.tier == "thorough"
    keys, vals, ln = ("1, 2, 3", "1, 2", 3) if thorough else ("1, 2", "1, 2", 3)
    c = ctx.rundir.file("ask.cfg")
    with open(c, "w") as f:
        f.write(ASK_CFG % (keys, vals, ln))
    r = T.tlc("AttrSetKeyMC", c, rundir=ctx.rundir.path, workers=4, timeout_s=900, tag="ask")
    ctx.add_tlc("AttrSetKeyMC keys={%s} vals={%s} len<=%d" % (keys, vals, ln), r)
    if r.status == "invariant":
        raise Broken("AttrSetKey: the spec's own formulations disagree (%s)\n%s" % (r.violated, r.trace_text[:2000]))
    T.must_ok(r, "AttrSetKeyMC")
    table = {}
    for row in r.printed("BEH"):
        table[json.dumps([row["s"], sorted(row["f"])])] = row
    rows = [table[k] for k in sorted(table)]
    if len(rows) < 100:
        raise Broken("AttrSetKeyMC printed only %d table rows (vacuity)" % len(rows))
    if not any(len(x["c"]) < len(x["s"]) for x in rows) or not any(x["f"] == [0] for x in rows):
        raise Broken("AttrSetKeyMC table has no filtered / duplicate rows (vacuity)")
    path = ctx.rundir.file("ask-table.ndjson")
    with open(path, "w") as f:
        for row in rows:
            f.write(json.dumps(row) + "\n")
    exe = build.harness("c08_attrs", ["c08_attrs.cc"], "asan")
    nconc = 12 if thorough else 5
    res = hrun.run_harness(exe, [path, ctx.seed, nconc], timeout=900)
    out = res.json()
    if res.crashed:
        ctx.violation("the real attribute-map code crashed on a TLC-generated (sequence, filter) table: %s" % res.err[-1500:],
                      {"attr_table": rows[:50], "stderr": res.err[-3000:]})
        return
    if res.rc != 0 or not out or not out[-1].get("summary"):
        raise Broken("c08_attrs failed rc=%s: %s" % (res.rc, res.err[-2000:]))
    summ = out[-1]
    for m in out[:-1][:5]:
        ctx.violation("series identity: %s" % json.dumps(m)[:700], {"attr_case": m, "seed": ctx.seed, "nconc": nconc})
    ctx.extra["attr_table_rows"] = len(rows)
    ctx.extra["attr_pairs_compared_on_real_code"] = summ["pairs"]
    ctx.extra["attr_concretisations"] = summ["concretisations"]
    ctx.evaluations += len(rows) * nconc
    ctx.traces += len(rows)          # table rows replayed on the real classes
    for row in rows:
        ctx.distinct.add("ask:" + json.dumps([row["s"], row["f"]]))
    ctx.sample({"kind": "(sequence, filter) |-> Canon row replayed on FilteredOrderedAttributeMap", "row": rows[len(rows) // 2]})


def _ideal(thorough):
    a = 5 if thorough else 4
    return [
        M.ModelCfg("T_dc", "F_k1", "AS_filt", maxadd=3, maxcol=3, amounts="AM_1"),      # first: run with -coverage
        M.ModelCfg("T_c", "F_all", "AS_four", limit=3, deflimit=4, maxadd=a, maxcol=3, amounts="AM_1"),
        M.ModelCfg("T_d", "F_all", "AS_four", limit=3, deflimit=4, maxadd=a + 1, maxcol=3, amounts="AM_1"),
        M.ModelCfg("T_dc", "F_all", "AS_three", limit=2, deflimit=4, maxadd=4 if thorough else 3, maxcol=3,
                   amounts="AM_12" if thorough else "AM_1"),
        M.ModelCfg("T_c", "F_all", "AS_three", limit=3, deflimit=4, maxadd=4, maxcol=2, amounts="AM_1", allorders=True),
        M.ModelCfg("T_c", "F_all", "AS_five", limit=4, deflimit=4, maxadd=5, maxcol=2, amounts="AM_1"),
    ] + ([M.ModelCfg("T_ddc", "F_all", "AS_four", limit=3, deflimit=4, maxadd=4, maxcol=4, amounts="AM_1"),
          M.ModelCfg("T_dc", "F_k2_k1", "AS_filt", limit=3, deflimit=4, maxadd=4, maxcol=3, amounts="AM_1")] if thorough else [])


def _asimpl(thorough):
    return [
        M.ModelCfg("T_c", "F_all", "AS_five", limit=3, deflimit=4, maxadd=5, maxcol=3 if thorough else 2, amounts="AM_1", dev=MY_DEVS),
        M.ModelCfg("T_dc", "F_all", "AS_four", limit=2, deflimit=4, maxadd=4 if thorough else 3, maxcol=3, amounts="AM_1", dev=MY_DEVS),
        M.ModelCfg("T_c", "F_all", "AS_five", limit=4, deflimit=4, maxadd=5, maxcol=2, amounts="AM_1", dev=MY_DEVS),
    ]


def generate(ctx):
    thorough = ctx.tier == "thorough"
    jobs = []
    w_c = M.ModelCfg("T_c", "F_all", "AS_five", limit=3, deflimit=4, maxadd=6, maxcol=3, amounts="AM_1")
    w_dc = M.ModelCfg("T_dc", "F_all", "AS_four", limit=2, deflimit=4, maxadd=5, maxcol=4, amounts="AM_12")
    w_f = M.ModelCfg("T_dc", "F_k1", "AS_filt", maxadd=3, maxcol=3, amounts="AM_1")
    jobs += [M.witness_job(w_c, w) for w in ("WitFoldOut", "WitCumMergeOvf")]
    jobs += [M.witness_job(w_dc, w) for w in ("WitFoldOut", "WitStash2", "WitCumMergeOvf")]
    jobs += [M.witness_job(w_f, w) for w in ("WitFiltered", "WitDupKey")]
    asimpl = _asimpl(thorough)
    jobs += [M.witness_job(mc, "WitBad") for mc in asimpl]
    nwit = len(jobs)
    small = [
        M.ModelCfg("T_c", "F_all", "AS_four", limit=3, deflimit=4, maxadd=4, maxcol=2, amounts="AM_1"),
        M.ModelCfg("T_dc", "F_all", "AS_three", limit=2, deflimit=4, maxadd=3, maxcol=2, amounts="AM_1"),
        M.ModelCfg("T_d", "F_k1", "AS_filt", maxadd=2, maxcol=2, amounts="AM_1"),
        M.ModelCfg("T_c", "F_none", "AS_filt", maxadd=2, maxcol=2, amounts="AM_1"),
    ]
    jobs += [M.bfs_job(mc, limit=3000 if thorough else 300, seed=ctx.seed) for mc in small]
    # random walks, deeper (the model costs ~1.5 ms per successor state, -simulate computes all of them)
    a, c = (12, 6) if thorough else (8, 5)
    deep = [
        M.ModelCfg("T_c", "F_all", "AS_five", limit=3, deflimit=4, maxadd=a, maxcol=c, amounts="AM_12"),
        M.ModelCfg("T_ddc", "F_all", "AS_five", limit=3, deflimit=4, maxadd=a, maxcol=c + 2, amounts="AM_12"),
        M.ModelCfg("T_dc", "F_all", "AS_four", limit=2, deflimit=4, maxadd=a, maxcol=c, amounts="AM_12"),
        M.ModelCfg("T_dc", "F_k12", "AS_filt", maxadd=a, maxcol=c, amounts="AM_12"),
        M.ModelCfg("T_d", "F_all", "AS_five", limit=4, deflimit=4, maxadd=a, maxcol=c, amounts="AM_12"),
    ]
    jobs += [M.sim_job(mc, num=150 if thorough else 24, depth=a + c + 3, seed=ctx.seed * 103 + i) for i, mc in enumerate(deep)]
    behs = M.run_jobs(ctx, jobs, parallel=4)
    ctx.extra["witness_behaviours"] = sum(1 for b in behs if b["src"].startswith("Wit"))
    if ctx.extra["witness_behaviours"] != nwit:
        raise Broken("a witness run printed no behaviour")
    ctx.extra["bfs_behaviours"] = sum(1 for b in behs if b["src"] == "bfs")
    ctx.extra["simulated_behaviours"] = sum(1 for b in behs if b["src"] == "simulate")
    return behs


def _real_program(b, x, rng):
    """A model behaviour as a program for the real code.  Limit = DefLimit in the model means "no explicit
    limit": such behaviours run through the public API (the real default, 2000, is never reached by them)
    unless the model's default limit itself matters (folding at Limit = DefLimit = 4): those are executed
    through SyncMetricStorage with the explicit limit 4."""
    p = M.program_from_behaviour(b, x, rng)
    mc = b["mc"]
    if mc.limit == mc.deflimit and mc.limit < 50:
        p["mode"], p["limit"] = "storage", mc.limit
    return p


def random_programs(ctx, x0):
    thorough = ctx.tier == "thorough"
    rng = random.Random(ctx.seed * 6007 + 3)
    progs, x = [], x0
    for _ in range(600 if thorough else 80):         # explicit limits through SyncMetricStorage
        nr = rng.choice([1, 1, 2, 2, 3])
        progs.append(M.random_program(rng, x, mode="storage", temps=[rng.choice(["delta", "cum"]) for _ in range(nr)],
                                      filters=[rng.choice([[0], [0], [1, 2], [1]])], limit=rng.choice([2, 3, 3, 4, 5, 8, 10]),
                                      handles=1, nops=rng.randrange(60, 301), nsets=rng.randrange(5, 26), nkeys=3, nvals=4,
                                      p_collect=rng.choice([0.05, 0.15, 0.3]), mono=rng.random() < 0.8))
        x += 1
    for _ in range(400 if thorough else 50):         # every allow-list, key orders, duplicates (public API, views)
        nr = rng.choice([1, 2, 2, 3])
        allow = sorted(rng.sample([1, 2, 3, 4], rng.randrange(0, 5)))
        progs.append(M.random_program(rng, x, mode="api", temps=[rng.choice(["delta", "cum"]) for _ in range(nr)],
                                      filters=[allow if rng.random() < 0.85 else [0]], handles=1, nops=rng.randrange(80, 301),
                                      nsets=rng.randrange(10, 21), nkeys=4, nvals=3, p_collect=rng.choice([0.05, 0.15])))
        x += 1
    # the default limit 2000: 2100+ distinct sets over several collection cycles
    shapes = [["cum"], ["delta"], ["delta", "cum"]] + ([["cum", "cum"], ["delta", "delta", "cum"], ["cum"], ["delta", "cum"], ["cum"]] if thorough else [])
    for temps in shapes:
        cycles = rng.choice([3, 4]) if thorough else 2
        nsets = rng.randrange(2100, 2300)
        ops = [{"e": "Create"}]
        order = list(range(1, nsets + 1))
        for c in range(cycles):
            rng.shuffle(order)
            for i in order[:rng.randrange(2001, nsets + 1)]:
                attrs = [[1, i]] if i % 7 else [[2, 1], [1, i]]
                ops.append({"e": "Add", "h": 1, "attrs": attrs, "v": rng.randrange(1, 4)})
                if rng.random() < 0.0005:
                    ops.append({"e": "Collect", "r": rng.randrange(1, len(temps) + 1)})
            for r in range(1, len(temps) + 1):
                ops.append({"e": "Collect", "r": r})
        p = {"x": x, "mode": "api", "temps": temps, "filters": [[0]], "limit": M.REAL_DEFLIMIT, "ops": ops, "src": "random-default-limit"}
        p.update(M.concretisation(rng, True))
        p["vf"] = rng.choice([0, 2, 3, 6])        # families that have > 2000 distinct values
        progs.append(p)
        x += 1
    return progs


def _key(p):
    return hashlib.sha1(json.dumps([p["mode"], p["temps"], p["filters"], p["limit"], p["ops"]], sort_keys=True).encode()).hexdigest()


def execute_and_validate(ctx, exe, programs, tag, chunk_events=30000):
    byx = M.run_programs(ctx, exe, programs, tag)
    res = M.validate(ctx, byx, MY_DEVS, checktime=False, tag=tag, parallel=4, chunk_events=chunk_events)
    M.classify(ctx, res, programs, "C08 " + tag)
    for p in programs:
        ctx.evaluations += 1
        if any(o["e"] == "Add" for o in p["ops"]) and any(o["e"] == "Collect" for o in p["ops"]):
            ctx.distinct.add(_key(p))
    return res


def run(ctx):
    thorough = ctx.tier == "thorough"
    ctx.assumptions += [
        "series identity: abstract keys/values are concretised through the table in harness/c06_common.h (all attribute value types incl. arrays; keys NUL-terminated because the filter reads key.data() -- C19's finding F12)",
        "values of different C++ types are never 'equal' abstract values (the statement does not say whether int32 1 = int64 1)",
        "explicit cardinality limits are only reachable through the SyncMetricStorage constructor at this version; the public API is used for the default limit 2000 and for views with allow-lists",
        "which attribute sets are folded into the overflow series is left open (the statement does not say); demanded: series count <= limit, one overflow series, own series <= recorded (monotonic), exact total, folding only when >= limit distinct sets occurred in the reader's window",
        "exhaustive TLC results are for the stated small constants (limits 2..4, <= 5 attribute sets, <= 6 Adds, <= 3 Collects, <= 3 readers)",
    ]
    ctx.extra["rule"] = ("states/transitions: TLC on AttrSetKeyMC.tla and MetricsSync.tla (exhaustive configs, witness and generation runs) + "
                         "monitor runs; traces_validated: (sequence, filter) table rows replayed on the real attribute-map classes + real "
                         "executions validated by MetricsSyncTrace.tla; distinct_nontrivial: distinct table rows + distinct (mode, readers, "
                         "filter, limit, operation sequence) histories containing an Add and a Collect")
    attr_set_key(ctx)
    _t(ctx, "series identity (AttrSetKeyMC + c08_attrs)")
    exe = build.harness("c06_sync", ["c06_sync.cc"], "asan")
    _t(ctx, "build")
    M.model_check(ctx, _ideal(thorough) + _asimpl(thorough), workers=4 if thorough else 3, parallel=3 if thorough else 2,
                  timeout_s=2400 if thorough else 900)
    _t(ctx, "model checking")
    behs = generate(ctx)
    _t(ctx, "behaviour generation")
    M.check_model_against_monitor(ctx, [b for b in behs if not b["mc"].dev], [], "ideal")
    M.check_model_against_monitor(ctx, [b for b in behs if b["mc"].dev], MY_DEVS, "asimpl")
    _t(ctx, "model behaviours accepted by the monitor")
    rng = random.Random(ctx.seed * 37 + 11)
    nconc = 4 if thorough else 2
    programs, x = [], 0
    for b in behs:
        for _ in range(nconc if b["src"] != "bfs" else 1):
            x += 1
            programs.append(_real_program(b, x, rng))
    res = execute_and_validate(ctx, exe, programs, "beh")
    ctx.extra["behaviours_executed"] = len(programs)
    _t(ctx, "behaviours executed + validated")
    ctx.sample({"kind": "TLC behaviour executed on the real SyncMetricStorage (program)", "src": programs[0]["src"],
                "limit": programs[0]["limit"], "temps": programs[0]["temps"], "ops": programs[0]["ops"][:12]})
    rp = random_programs(ctx, x + 1)
    res2 = execute_and_validate(ctx, exe, rp, "rnd", chunk_events=12000)
    ctx.extra["random_histories_executed"] = len(rp)
    _t(ctx, "random histories executed + validated")
    ctx.extra["random_history_events"] = res2["events"]
    ctx.extra["default_limit_histories"] = sum(1 for p in rp if p["src"] == "random-default-limit")
    ctx.extra["executions_using_a_deviation"] = len(res["devs"]) + len(res2["devs"])
    ctx.sample({"kind": "random history with an explicit limit (first operations)", "limit": rp[0]["limit"],
                "temps": rp[0]["temps"], "filters": rp[0]["filters"], "ops": rp[0]["ops"][:10]})


def replay(ctx, path):
    rep = json.load(open(path))["replay"]
    if "attr_case" in rep:
        ctx.tier = "quick"
        attr_set_key(ctx)
        return
    prog = rep.get("program")
    if not prog:
        raise Broken("replay file has no program")
    exe = build.harness("c06_sync", ["c06_sync.cc"], "asan")
    byx = M.run_programs(ctx, exe, [prog], "replay")
    res = M.validate(ctx, byx, MY_DEVS, checktime=False, tag="replay", parallel=1)
    M.classify(ctx, res, [prog], "C08 replay")
    ctx.sample({"kind": "replayed history", "ops": prog["ops"][:12]})
