"""C05 - new spans get correct identity, parentage, flags and trace state.

1. TLC, exhaustive on the bounded state graph of spec/SpanIdentity.tla (API-level reference machine:
   entities with symbolic ids, per-thread active-span stacks, every sampler answer): state invariants
   SameTraceAsParent / RootHasNoParent / FreshSpanId / FlagsLevel1Only / SampledIsDecision /
   DroppedNeverExported and the action properties StartRules (precedence explicit SpanContext >
   explicit Context > active span, root marker, trace-state rule, decision) and ThreadsIsolated.
   Ideal (Dev = {}) and AsImplemented (Dev = listed known findings).
2. spec -> code: behaviours printed by TLC (all behaviours of length <= 2 over every sampler x parent
   mode x remote flag/form, one behaviour per distinct abstract state to depth 3-4, random walks of 12
   operations on 3 threads, one witness per rare condition) are stepped through the real SDK tracer
   (harness/c05_identity.cc, ASan+UBSan) with a counting IdGenerator and again with the real
   RandomIdGenerator; after every step Span::GetContext()/IsRecording()/GetCurrentSpan() on every
   thread and the SpanData identity at the exporter are compared with the expectation TLC computed.
3. code -> spec: random programs of 30-80 operations on 3 threads are run on the real tracer, logged
   with ids abstracted to first-appearance ranks, and validated by spec/SpanIdentityTrace.tla.
"""
import concurrent.futures as cf
import json
import os
import re

from lib import build, hrun, spantv, tlc, trace
from lib.common import Broken, log

LEVEL = "model_checking"
MODULE = "SpanIdentity"
DEV_INHERIT = "sampled-flag-inherited-from-parent"
ALL_DEVS = {DEV_INHERIT}
ALL_S = ["on", "off", "pb_on", "pb_off", "r0", "r1", "rmid", "c_DROP_n", "c_DROP_0", "c_DROP_2",
         "c_RO_n", "c_RO_0", "c_RO_2", "c_RS_n", "c_RS_0", "c_RS_2"]
ALL_F = [0, 1, 2, 3, 255]
ALL_FORMS = ["valid", "zero", "notrace", "nospan"]
INVS = ("TypeOK StackOK SameTraceAsParent RootHasNoParent FreshSpanId FlagsLevel1Only SampledIsDecision "
        "DroppedNeverExported OnlyListedDeviations")
PROPS = "PROPERTIES ThreadsIsolated StartRules ReleaseUnwindsOnlyAbove"
ACTIONS = ["MakeRemote", "DoStart", "DoWith", "DoRelease", "DoEnd"]
WITNESSES = ["Inherit", "InheritRO", "RootOverActive", "RootAndSpan", "ScOverActive", "CtxOverActive",
             "InvalidScFallsBack", "EmptyCtxFallsBack", "NoopParent", "SamplerTS", "ParentTS", "GrandChild",
             "EndedParent", "CrossThread", "OutOfOrderThenImplicit", "StaleThenImplicit", "CrossReleaseThenImplicit"]
CFG = """CONSTANTS NThr = %d  MaxEnt = %d  MaxRemote = %d  MaxDepth = %d  MaxOps = %d
          Samplers = {%s}
          RemFlags = {%s}  RemForms = {%s}
          Dev = {%s}  Hist = %s
INIT %s
NEXT %s
VIEW %s
INVARIANTS %s
%s
"""
_RE_COV = re.compile(r"^<(\w+) line \d+, col \d+ to line \d+, col \d+ of module \w+[^>]*>: (\d+):(\d+)", re.M)


def _q(xs):
    return ", ".join('"%s"' % x for x in xs)


def _cfg(ctx, name, shape, samplers, flags, forms, dev=(), hist=False, nxt="Next", view="ViewState",
         invs=INVS, props=PROPS, init="Init"):
    nthr, ment, mrem, mdep, mops = shape
    p = ctx.rundir.file(name)
    with open(p, "w") as f:
        f.write(CFG % (nthr, ment, mrem, mdep, mops, _q(samplers), ", ".join(map(str, flags)), _q(forms),
                       _q(sorted(dev)), "TRUE" if hist else "FALSE", init, nxt, view, invs, props))
    return p


def model_check(ctx, known):
    thorough = ctx.tier == "thorough"
    s4 = ["on", "off", "pb_on", "c_RO_2"]
    s5 = ["off", "pb_off", "rmid", "c_RS_0", "c_DROP_n"]
    # MaxOps = 60 is never reached: the graphs are the COMPLETE finite state spaces for the other bounds
    # (and their sizes do not depend on TLC's multi-worker BFS order)
    runs = [  # (name, shape, samplers, flags, forms, coverage)
        ("1thr-ent3-depth2", (1, 3, 1, 2, 60), s4, [0, 1, 255], ["valid", "zero"], True),
        ("2thr-ent2-all-samplers", (2, 2, 1, 1, 60), ALL_S, ALL_F if thorough else [0, 1, 255],
         ALL_FORMS if thorough else ["valid", "zero"], False),
        ("1thr-ent2-depth3-scopes", (1, 2, 0, 3, 60), ["on", "off"], [1], ["valid"], False),
    ]
    if thorough:
        # (2 threads x stack depth 2 x >= 2 entities has 10^7 states with freely destroyable scopes: only 1 entity there)
        runs += [
            ("2thr-ent3-depth1", (2, 3, 1, 1, 60), s4, [0, 1, 255], ["valid", "zero"], False),
            ("2thr-ent1-depth2-scopes", (2, 1, 0, 2, 60), ["on", "off"], [1], ["valid"], False),
            ("1thr-ent3-all-samplers", (1, 3, 1, 1, 60), ALL_S, [0, 1, 255], ["valid", "zero"], False),
            ("1thr-ent3-depth3-scopes", (1, 3, 1, 3, 60), ["on", "off"], [1], ["valid"], False),
            ("2thr-ent3-2remotes", (2, 3, 2, 1, 60), s5, [0, 3], ["valid", "nospan"], False),
            ("1thr-ent4", (1, 4, 1, 1, 60), ["off", "pb_on", "c_RO_2"], [1, 255], ["valid", "zero"], False),
        ]
    fams = [("ideal", set())] + ([("as-implemented", known)] if known else [])
    jobs = []
    for fam, dev in fams:
        for (name, shape, ss, fl, fo, cov) in runs:
            if fam != "ideal" and name not in (("2thr-ent2-all-samplers",) if not thorough else
                                               ("1thr-ent3-depth2", "2thr-ent2-all-samplers", "2thr-ent3-depth1",
                                                "2thr-ent1-depth2-scopes")):
                continue
            c = _cfg(ctx, "mc-%s-%s.cfg" % (fam, name), shape, ss, fl, fo, dev=dev)
            jobs.append((fam, name, c, cov and fam == "ideal"))

    def one(j):
        fam, name, c, cov = j
        return j, tlc.tlc(MODULE, c, rundir=ctx.rundir.path, workers=4, timeout_s=1500 if thorough else 150,
                          coverage=cov, xmx="6g", tag="mc-%s-%s" % (fam, name))
    with cf.ThreadPoolExecutor(max_workers=3) as ex:
        for (fam, name, c, cov), r in ex.map(one, jobs):
            ctx.add_tlc("%s %s" % (fam, name), r)
            if r.status == "timeout":
                log("C05: MC config %s/%s timed out (bounded, not exhaustive)" % (fam, name))
                continue
            if r.status in ("invariant", "temporal"):
                raise Broken("the SPEC violates its own property (%s, %s, violated=%s):\n%s" % (
                    fam, name, r.violated, r.trace_text[:3000]))
            tlc.must_ok(r, "SpanIdentity model checking %s/%s" % (fam, name))
            if cov:
                seen = {m.group(1): int(m.group(3)) for m in _RE_COV.finditer(r.out)}
                for a in ACTIONS:
                    if seen.get(a, 0) == 0:
                        raise Broken("vacuity: action %s never taken in SpanIdentity (%s)" % (a, seen))
                ctx.extra["mc_action_transitions"] = {a: seen.get(a, 0) for a in ACTIONS}


def _strip_prefixes(behs):
    keys = [json.dumps(b, sort_keys=True) for b in behs]
    pref = set()
    for b in behs:
        for k in range(1, len(b)):
            pref.add(json.dumps(b[:k], sort_keys=True))
    out, seen = [], set()
    for b, k in zip(behs, keys):
        if k in pref or k in seen:
            continue
        seen.add(k)
        out.append(b)
    return out


def generate(ctx, known):
    thorough = ctx.tier == "thorough"
    fams = [("ideal", set())] + ([("as-implemented", known)] if known else [])
    behs = []
    stats = {}

    def add(fam, src, bs):
        bs = _strip_prefixes(bs)
        stats["%s/%s" % (fam, src)] = len(bs)
        for b in bs:
            behs.append({"id": len(behs), "fam": fam, "src": src, "steps": b})
    jobs = []
    for fam, dev in fams:
        # (a) all behaviours of length <= 2: every (first op) x (start with every sampler and mode)
        c = _cfg(ctx, "g1-%s.cfg" % fam, (1, 3, 1, 1, 2), ALL_S, ALL_F, ALL_FORMS, dev=dev, hist=True, view="View",
                 invs="EmitAll", props="")
        if thorough or fam == "ideal":
            jobs.append((fam, "all-depth2", c, None))
        # (b) one behaviour per distinct abstract state, 2 threads
        if thorough or fam == "ideal":
            shape = (2, 3, 1, 1, 4) if thorough else (2, 3, 1, 1, 3)
            fl, fo = [0, 1, 255], ["valid", "zero", "nospan"]
            c = _cfg(ctx, "g2-%s.cfg" % fam, shape, ALL_S, fl, fo, dev=dev, hist=True, view="ViewState", invs="EmitAll",
                     props="")
            jobs.append((fam, "state-cover", c, None))
        # (c) random walks: 12 operations, 3 threads, 6 entities
        c = _cfg(ctx, "g3-%s.cfg" % fam, (3, 6, 2, 3, 12), ALL_S, ALL_F, ALL_FORMS, dev=dev, hist=True, nxt="NextGen",
                 view="View", invs="EmitDone", props="")
        jobs.append((fam, "random-walk", c, {"num": 1500 if thorough else 100, "depth": 15}))

    def gen(j):
        fam, src, c, sim = j
        return j, tlc.tlc(MODULE, c, rundir=ctx.rundir.path, workers=4 if sim else 1, timeout_s=1200, simulate=sim,
                          seed=(ctx.seed * 7 + 3) if sim else None, tag="gen-%s-%s" % (fam, src))   # BFS: 1 worker = deterministic
    ideal_keys = set()
    with cf.ThreadPoolExecutor(max_workers=3) as ex:
        for (fam, src, c, sim), r in ex.map(gen, jobs):
            tlc.must_ok(r, "generation %s/%s" % (fam, src))
            if not sim:
                ctx.add_tlc("generate %s (%s)" % (src, fam), r)
            bs = r.printed("BEH")
            if fam == "ideal":
                ideal_keys.update(json.dumps(b, sort_keys=True) for b in bs)
            else:   # the as-implemented family repeats every behaviour that never meets a deviation
                bs = [b for b in bs if json.dumps(b, sort_keys=True) not in ideal_keys]
            add(fam, src, bs)
    # (d) witnesses of rare conditions: one BFS prints a shortest behaviour per condition (ideal family)
    wjobs = [("w1", (1, 3, 1, 1, 4), ["on", "off", "c_RO_0"], [1, 255], ["valid", "zero"]),
             ("w2", (2, 3, 0, 1, 5), ["on"], [1], ["valid"]),
             # scopes R > B > C on one thread, B destroyed before C while R is alive, then an implicit-parent start
             ("w3", (1, 2, 0, 3, 7), ["on"], [1], ["valid"]),
             # a Scope created on thread 1 destroyed on thread 2, which has its own active span
             ("w4", (2, 2, 0, 1, 5), ["on"], [1], ["valid"])]

    def wit(j):
        name, shape, ss, fl, fo = j
        c = _cfg(ctx, "%s.cfg" % name, shape, ss, fl, fo, dev=set(), hist=True, view="ViewW", invs="WitAll", props="",
                 init="InitW")
        return tlc.tlc(MODULE, c, rundir=ctx.rundir.path, workers=1, timeout_s=600, tag=name, xmx="3g")
    wl = {}
    with cf.ThreadPoolExecutor(max_workers=4) as ex:
        for r in ex.map(wit, wjobs):
            tlc.must_ok(r, "witness generation")
            ctx.add_tlc("witness run", r)
            for o in r.printed("BEH"):
                if o["w"] not in wl:
                    wl[o["w"]] = len(o["steps"])
                    behs.append({"id": len(behs), "fam": "ideal", "src": "Wit" + o["w"], "steps": o["steps"]})
    missing = [w for w in WITNESSES if w not in wl]
    if missing:
        raise Broken("witness conditions not reachable in the model (vacuity): %s" % missing)
    ctx.extra["witness_lengths"] = wl
    ctx.extra["behaviours_generated"] = stats
    return behs


def _run(exe, args, timeout):
    h = hrun.run_harness(exe, args, timeout=timeout)
    return h


def replay_behs(ctx, exe, behs, idgen, tag):
    """Returns (problems, summary).  A crash of the real code is reported as a violation."""
    path = ctx.rundir.file("beh-%s.ndjson" % tag)
    with open(path, "w") as f:
        for b in behs:
            f.write(json.dumps({"id": b["id"], "steps": b["steps"]}) + "\n")
    mode = "fork" if idgen == "fork" else "replay"
    args = [mode, path, ctx.seed] + ([idgen] if mode == "replay" else [])
    h = _run(exe, args, 1500)
    out = h.json()
    summ = [o for o in out if o.get("summary")]
    if h.crashed or h.timed_out or not summ:
        if h.rc in (2,) and not h.crashed:
            raise Broken("c05 harness failed rc=%s: %s" % (h.rc, h.err[-2000:]))
        # find the behaviour: verbose re-run prints the id before each behaviour
        hv = hrun.run_harness(exe, args + ["verbose"], timeout=1500)
        ids = [o["at"] for o in hv.json() if "at" in o]
        bad = ids[-1] if ids else None
        b = next((x for x in behs if x["id"] == bad), None)
        ctx.violation("real code crashed / hung (rc=%s) while replaying a TLC behaviour (src=%s, idgen=%s): %s" % (
            h.rc, b and b["src"], idgen, h.err[-600:]), {"behaviour": b, "idgen": idgen, "seed": ctx.seed,
                                                        "stderr": h.err[-3000:]})
        return [o for o in out if "beh" in o], {"behaviours": len(ids), "steps": 0, "starts": 0}
    return [o for o in out if "beh" in o], summ[0]


def classify(ctx, behs, problems, idgen):
    byid = {b["id"]: b for b in behs}
    trunc = 0
    shown = 0
    for o in problems:
        b = byid[o["beh"]]
        rep = {"behaviour": b, "idgen": idgen, "seed": ctx.seed, "problem": o}
        step = o.get("got", {}).get("step")
        where = "step %s of a %s behaviour (%s, idgen=%s)" % (step, b["fam"], b["src"], idgen)
        if o["kind"] == "alt" and o["dev"]:
            st = b["steps"][step] if isinstance(step, int) and step < len(b["steps"]) else {}
            ctx.deviation(o["dev"], "%s: StartSpan(sampler=%s, mode=%s) -> context %s" % (
                where, st.get("s"), json.dumps(st.get("m")), json.dumps(o.get("got"))), rep)
            trunc += 1
        elif o["kind"] == "alt":
            trunc += 1      # the code took the other branch of a don't-care band; the model follows it elsewhere
        else:
            if shown < 6:      # every mismatch is a violation; list the first few, count the rest
                ctx.violation("%s: %s; observed %s" % (where, o["what"], json.dumps(o.get("got"))), rep)
            shown += 1
    if shown > 6:
        ctx.extra["violations_not_listed_" + idgen] = shown - 6
    return trunc


def canary(ctx, exe, behs):
    """Binding check: corrupt one expected field of a behaviour -> the replayer must reject it."""
    pick = None
    for b in behs:
        if b["src"] == "WitScOverActive":
            pick = b
    if pick is None:
        raise Broken("canary: witness behaviour missing")
    n = 0
    for field, val in (("flags", None), ("ts", None), ("trace", 977), ("parent", None)):
        steps = json.loads(json.dumps(pick["steps"]))
        st = [s for s in steps if s["op"] == "start"][-1]
        if field == "flags":
            st["exp"]["flags"] = 1 - st["exp"]["flags"]
        elif field == "ts":
            st["exp"]["ts"] = (st["exp"]["ts"] + 1) % 3
        elif field == "parent":
            # a wrong parent span id inside the same trace is visible only at the exporter
            others = [s["exp"]["span"] for s in steps if s["op"] == "start" and s is not st] + \
                     [s["span"] for s in steps if s["op"] == "remote" and s["span"]]
            cand = [x for x in others if x != st["exp"]["parent"]]
            if not cand:
                continue
            st["exp"]["parent"] = cand[0]
            st["exp"]["rec"] = st["exp"]["rec"]
        else:
            st["exp"][field] = val
        st["alts"] = []
        probs, _ = replay_behs(ctx, exe, [{"id": 0, "fam": "canary", "src": "canary", "steps": steps}], "counter", "canary")
        if not any(p["kind"] == "mismatch" for p in probs):
            raise Broken("canary: a behaviour with corrupted expectation `%s` was NOT rejected by the replayer" % field)
        n += 1
    ctx.extra["canary_corruptions_rejected"] = n


def coverage_stats(ctx, behs):
    combos, starts = set(), 0
    for b in behs:
        ents = {}
        for s in b["steps"]:
            if s["op"] == "remote":
                ents[s["e"]] = ("remote", s["flags"], s["form"])
            elif s["op"] == "start":
                starts += 1
                ents[s["e"]] = ("sdk" if s["exp"]["rec"] else "noop", s["exp"]["flags"], "valid")
                m = s["m"]
                combos.add((s["s"], m["type"], m["root"], ents.get(m["e"], ("-",))[0:2], len(s["alts"])))
    ctx.extra["replay_start_steps"] = starts
    ctx.extra["replay_distinct_start_situations"] = len(combos)
    need = {(s, t) for s in ALL_S for t in ("none", "sc", "sc0", "ctx")}
    have = {(c[0], c[1]) for c in combos}
    if need - have:
        raise Broken("vacuity: sampler x parent-mode combinations never replayed: %s" % sorted(need - have)[:8])


def record_and_validate(ctx, exe, known):
    """code -> spec: random programs on the real tracer, validated by SpanIdentityTrace.tla."""
    thorough = ctx.tier == "thorough"
    n = 600 if thorough else 80
    lines = []
    summ = {}
    # two recorder runs: counting IdGenerator (all samplers), and the real RandomIdGenerator with fork().  In both
    # the OS thread behind a model thread may FINISH and be replaced (thread-per-operation / sometimes / never),
    # and ids are ranked over the whole run: the trace spec demands every fresh id to outrank all earlier ones.
    for args in (["record", n, ctx.seed, 3, 80, "counter"], ["record", n, ctx.seed + 1000, 3, 80, "random", "fork"]):
        h = hrun.run_harness(exe, args, timeout=900)
        if h.crashed:
            ctx.violation("real code crashed while running a random program (record mode %s, seed %d): %s" % (
                args[5], ctx.seed, h.err[-600:]), {"mode": "record", "seed": ctx.seed, "n": n, "stderr": h.err[-3000:],
                                                  "args": args})
            return
        if h.rc != 0:
            raise Broken("c05 record failed rc=%s: %s" % (h.rc, h.err[-2000:]))
        m = re.search(r"record-summary os_threads_created=(\d+) os_threads_finished=(\d+) forks=(\d+) distinct_ids=(\d+)", h.err)
        if not m:
            raise Broken("c05 record: no summary line")
        summ[args[5]] = {"os_threads_created": int(m.group(1)), "os_threads_finished": int(m.group(2)),
                         "forks": int(m.group(3)), "distinct_ids": int(m.group(4))}
        if int(m.group(2)) < n or (args[5] == "random" and int(m.group(3)) == 0):
            raise Broken("vacuity: recorder exercised no finished/re-created OS threads or no fork(): %s" % summ)
        lines += [ln for ln in h.lines if ln.startswith("{")]
    ctx.extra["recorder"] = summ
    cfgp = ctx.rundir.file("tv.cfg")
    with open(cfgp, "w") as f:
        f.write("CONSTANTS NThr = 3 MaxEnt = 1000 MaxRemote = 1000 MaxDepth = 1000 MaxOps = 100000\n"
                "  Samplers = {%s}\n  RemFlags = {%s} RemForms = {%s}\n  Dev = {%s} Hist = FALSE\n"
                "INIT TInit\nNEXT TNext\nCONSTRAINT Progress\nINVARIANT Report\nPOSTCONDITION Accepted\n"
                "CHECK_DEADLOCK FALSE\n" % (_q(ALL_S), ", ".join(map(str, ALL_F)), _q(ALL_FORMS), _q(sorted(known))))
    res = spantv.validate(ctx, "SpanIdentityTrace", cfgp, lines, chunk=60 if thorough else 40, parallel=4, tag="c05tv",
                          timeout_s=900, max_rejects=2)
    ctx.extra["programs_validated"] = res["executions"]
    ctx.extra["program_events_validated"] = res["events"]
    ctx.extra["trace_validation_devused"] = sorted(res["devused"])
    for d in sorted(res["devused"]):
        # accepted only through a listed deviation (the trace spec was given Dev = known)
        ctx.deviation(d, "random program on the real tracer is a behaviour of SpanIdentity only with deviation %s" % d,
                      {"mode": "record", "seed": ctx.seed, "n": n})
    for rj in res["rejected"][:3]:
        ev, at = rj["events"], rj["at"]
        ctx.violation("SpanIdentityTrace rejects a real execution at event %d: %s" % (
            at, json.dumps(ev[at]) if at < len(ev) else "?"), {"monitor": "SpanIdentityTrace", "events": ev, "at": at,
                                                             "dev": sorted(known)})
    if lines:
        ex0 = trace.split_executions(lines)[0]
        ctx.sample({"kind": "random program on the real tracer, validated by SpanIdentityTrace", "events":
                    [json.loads(x) for x in ex0[:10]]})
        if not ctx.violations:
            # binding check, code -> spec direction: one corrupted logged field must make the trace spec reject
            evs = [json.loads(x) for x in ex0]
            st = next((e for e in evs if e["e"] == "start"), None)
            if st is not None:
                st["got"]["ts"] = (st["got"]["ts"] + 1) % 3
                r2 = spantv.validate(ctx, "SpanIdentityTrace", cfgp, [json.dumps(e) for e in evs], parallel=1, tag="c05can")
                ctx.traces -= 1
                if not r2["rejected"]:
                    raise Broken("canary: a log with a corrupted trace state was ACCEPTED by SpanIdentityTrace")
                ctx.extra["trace_canary_rejected_at_event"] = r2["rejected"][0]["at"]
    return res


def run(ctx):
    known = ctx.known_devs() & ALL_DEVS
    ctx.assumptions += [
        "ids are symbolic in the spec; the replayer binds them to concrete ids on first sight and demands injectivity ('fresh' = non-zero, never seen before, issued by the configured generator)",
        "concretisation table in harness/c05_identity.cc / design_notes/C05.md (samplers, remote forms, trace-state headers, tcls via byte 7 of the trace id)",
        "TLC results are exhaustive for the stated bounds only (<= 2 threads x <= 3-4 entities x stack depth <= 2); larger trees are sampled by random walks / random programs",
        "threads are real OS threads stepped one API call at a time (no data races are provoked here)",
    ]
    ctx.extra["rule"] = ("states/transitions: TLC (model checking + generation + trace validation). traces_validated: TLC behaviours "
                         "replayed on the real tracer (each with the counting and the random id generator) + random programs validated "
                         "by the trace spec. distinct_nontrivial: distinct behaviours/programs containing at least one StartSpan")
    exe = build.harness("c05_identity", ["c05_identity.cc"], "asan")
    log("C05: harness built at %.0fs" % ctx.timer.s())
    model_check(ctx, known)
    log("C05: model checking done at %.0fs" % ctx.timer.s())
    behs = generate(ctx, known)
    log("C05: %d behaviours generated at %.0fs" % (len(behs), ctx.timer.s()))
    coverage_stats(ctx, behs)
    # ---- spec -> code -----------------------------------------------------------------------------
    probs, summ = replay_behs(ctx, exe, behs, "counter", "counter")
    t1 = classify(ctx, behs, probs, "counter")
    nornd = [b for b in behs if not any(s.get("s") == "rmid" for s in b["steps"])]
    k = 3 if ctx.tier == "quick" else 4     # the random generator replays a sample of the two big covers
    nornd = [b for b in nornd if b["src"] not in ("all-depth2", "state-cover") or b["id"] % k == ctx.seed % k]
    probs2, summ2 = replay_behs(ctx, exe, nornd, "random", "random")
    t2 = classify(ctx, nornd, probs2, "random")
    single = [b for b in behs if b["src"] in ("all-depth2",)][:: 40 if ctx.tier == "quick" else 8]
    probs3, summ3 = replay_behs(ctx, exe, single, "fork", "fork")
    classify(ctx, single, probs3, "fork")
    if not ctx.violations:          # (on a tree that already violates the property a canary proves nothing)
        canary(ctx, exe, behs)
    ctx.traces += summ.get("behaviours", 0) + summ2.get("behaviours", 0) + summ3.get("behaviours", 0)
    ctx.extra["replayed_counter_idgen"] = summ
    ctx.extra["replayed_random_idgen"] = summ2
    if summ2.get("os_threads_finished", 1) == 0:
        raise Broken("vacuity: the RandomIdGenerator replay never let an OS thread finish and be replaced")
    ctx.extra["replayed_fork"] = summ3
    ctx.extra["behaviours_truncated_at_alternative"] = t1 + t2
    for b in behs:
        if any(s["op"] == "start" for s in b["steps"]):
            ctx.distinct.add(json.dumps(b["steps"], sort_keys=True))
    for src in ("WitRootOverActive", "random-walk"):
        b = next((x for x in behs if x["src"] == src), None)
        if b:
            ctx.sample({"kind": "TLC behaviour replayed on the real tracer (%s)" % src, "steps": b["steps"][:8]})
    log("C05: replay done at %.0fs" % ctx.timer.s())
    # ---- code -> spec -----------------------------------------------------------------------------
    record_and_validate(ctx, exe, known)
    ctx.evaluations = ctx.traces


def replay(ctx, path):
    rep = json.load(open(path))["replay"]
    exe = build.harness("c05_identity", ["c05_identity.cc"], "asan")
    if rep.get("monitor"):
        lines = [json.dumps(e) for e in rep["events"]]
        cfgp = ctx.rundir.file("tv.cfg")
        with open(cfgp, "w") as f:
            f.write("CONSTANTS NThr = 3 MaxEnt = 1000 MaxRemote = 1000 MaxDepth = 1000 MaxOps = 100000\n"
                    "  Samplers = {%s}\n  RemFlags = {%s} RemForms = {%s}\n  Dev = {%s} Hist = FALSE\n"
                    "INIT TInit\nNEXT TNext\nCONSTRAINT Progress\nINVARIANT Report\nPOSTCONDITION Accepted\n"
                    "CHECK_DEADLOCK FALSE\n" % (_q(ALL_S), ", ".join(map(str, ALL_F)), _q(ALL_FORMS), _q(rep.get("dev", []))))
        res = trace.validate(ctx, "SpanIdentityTrace", cfgp, lines, parallel=1, tag="replay")
        for rj in res["rejected"]:
            ctx.violation("replayed log rejected at event %d" % rj["at"], rep)
        ctx.sample({"kind": "replayed log", "events": rep["events"][:8]})
        return
    if rep.get("mode") == "record" and rep.get("args"):
        h = hrun.run_harness(exe, rep["args"], timeout=900)
        ctx.traces += 1
        ctx.sample({"kind": "re-run of the recorder batch that crashed", "args": rep["args"]})
        if h.crashed or h.timed_out:
            ctx.violation("re-run: real code crashed again (rc=%s): %s" % (h.rc, h.err[-600:]), rep)
        return
    b = rep.get("behaviour")
    if not b:
        raise Broken("replay file has no behaviour; re-run the check with the recorded seed")
    ctx.seed = rep.get("seed", ctx.seed)
    idgen = rep.get("idgen", "counter")
    # with the real RandomIdGenerator freshness is demanded over the whole harness process (all thread
    # generations): the behaviour is repeated so that finished and re-created OS threads occur again
    bs = [b] if idgen != "random" else [dict(b, id=b["id"] + k) for k in range(40)]
    probs, summ = replay_behs(ctx, exe, bs, idgen, "replay")
    ctx.traces += len(bs)
    ctx.sample({"kind": "replayed behaviour", "steps": b["steps"][:8]})
    classify(ctx, bs, probs, idgen)
