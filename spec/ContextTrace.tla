---------------------------- MODULE ContextTrace ----------------------------
(***************************************************************************)
(* Trace validation for C10 (code -> spec): accepts an ndjson log of real  *)
(* executions of harness/c10_context.cc `record` iff every execution is a  *)
(* behaviour of Context.tla whose observable projection after EVERY step   *)
(* equals what was logged.                                                 *)
(* Events (one line each; the merged log of several OS threads that run    *)
(* concurrently, in the order of a ticket taken when the call returned):   *)
(*   Cfg(nt, nk)                       new execution                       *)
(*   SetValue(t, p, k, v, n)           n = id given to the new context     *)
(*   SetValues(t, p, m = [[k,v]..], n)                                     *)
(*   Attach(t, c, tk)                  tk = id given to the new token      *)
(*   Detach(t, tk, c, ok)              token object tk (created for c)     *)
(*   TokenDtor(t, tk, c)               the thread destroys token object tk *)
(*   ScopeEnter(t, s, n)  ScopeExit(t, c)                                  *)
(*   Drop(t, c)                        the thread drops its handle to c    *)
(* every event also carries the caller's observations after the call:      *)
(*   cur, curn  RuntimeContext::GetCurrent(): id of the (curn) LIVE handle(s) *)
(*              it compares equal to (0, 0 when its handle was dropped)    *)
(*   cv         RuntimeContext::GetValue(k) for every key k                *)
(*   span       Tracer::GetCurrentSpan()                                   *)
(*   d          the re-read GetValue/HasKey table of every context the     *)
(*              thread holds a handle to, delta-encoded: [ctx, key, value] for every   *)
(*              answer that differs from the one logged before.  Contexts  *)
(*              are immutable, so d must be exactly the row of the context *)
(*              created by this very step.                                 *)
(***************************************************************************)
EXTENDS Context, IOUtils

TraceLog == ndJsonDeserialize(IOEnv.TRACE)

VARIABLES l, nk, nexec,
          agg    \* coverage only: per rare condition (Context!flags), the number of executions showing it
tvars == <<vars, l, nk, nexec, agg>>

AllFlags == {"shadow", "sibling", "emptymap", "shadowmap", "deep", "reattach", "foreign", "foreign_xthread",
             "empty_tok", "ooo", "dup", "dup_ooo", "ooo_deep", "ooo_deep2", "nested_scope", "scope_ooo",
             "scope_restores_span", "scope_exit_destroys", "drop_child_first", "drop_leaf_of_chain", "drop_parent_first",
             "drop_middle", "drop_attached", "unwind_to_small", "regrow", "ooo_after_regrow", "clear_key", "clear_span_key",
             "clear_key_map", "stale_token_after_reuse", "stale_token_freed_by_pop", "stale_detach", "stale_dtor",
             "stale_scope_exit", "drop_with_token_alive", "dtor_detaches", "dtor_xthread"}
Merge(a, fl) == [f \in AllFlags |-> a[f] + IF f \in fl THEN 1 ELSE 0]

Ev == TraceLog[l]
Is(e) == l <= Len(TraceLog) /\ Ev.e = e /\ l' = l + 1

TInit == /\ TLCSet(1, 0)
         /\ Init /\ l = 1 /\ nk = 0 /\ nexec = 0 /\ agg = [f \in AllFlags |-> 0]

TCfg == /\ Is("Cfg")
        /\ Ev.nt + 1 <= NT /\ Ev.nk <= NK
        /\ nk' = Ev.nk /\ nexec' = nexec + 1 /\ agg' = Merge(agg, flags.f)
        /\ val' = <<>> /\ origin' = <<>> /\ stack' = [t \in Threads |-> <<>>]
        /\ tok' = <<>> /\ scopes' = {} /\ live' = {} /\ phase' = [t \in Threads |-> 0]
        /\ last' = NoOp /\ flags' = NoFlags /\ hist' = <<>>

\* observations common to every event
ObsOK(created) ==
  /\ Ev.t \in Threads
  /\ LET c == Cur(stack', Ev.t) IN
     /\ IF c = 0 \/ c \in live' THEN Ev.cur = c /\ Ev.curn = 1 ELSE Ev.cur = 0 /\ Ev.curn = 0
     /\ Len(Ev.cv) = nk /\ \A k \in 1..nk : Ev.cv[k] = Value(val', c, k)
  /\ Ev.span = CurSpan(val', stack', Ev.t)
  /\ IF created = 0 THEN Ev.d = <<>>
     ELSE /\ Len(Ev.d) = nk
          /\ \A k \in 1..nk : Ev.d[k] = <<created, k, val'[created][k]>>
  \* keys the harness does not use are never bound
  /\ created # 0 => \A k \in (nk + 1)..NK : val'[created][k] = 0

TSetValue == /\ Is("SetValue")
             /\ Ev.k \in 1..nk
             /\ SetValue(Ev.t, Ev.p, Ev.k, Ev.v)
             /\ Ev.n = Len(val')
             /\ ObsOK(Ev.n)
             /\ UNCHANGED <<nk, nexec, agg>>

MapOf(m) == [k \in Keys |-> IF \E i \in 1..Len(m) : m[i][1] = k
                             THEN m[CHOOSE i \in 1..Len(m) : m[i][1] = k][2] ELSE 0]
TSetValues == /\ Is("SetValues")
              /\ \A i \in 1..Len(Ev.m) : Ev.m[i][1] \in 1..nk /\ Ev.m[i][2] \in Val
              /\ \A i, j \in 1..Len(Ev.m) : i # j => Ev.m[i][1] # Ev.m[j][1]
              /\ SetValues(Ev.t, Ev.p, MapOf(Ev.m))
              /\ Ev.n = Len(val')
              /\ ObsOK(Ev.n)
              /\ UNCHANGED <<nk, nexec, agg>>

TAttach == /\ Is("Attach")
           /\ Attach(Ev.t, Ev.c)
           /\ Ev.tk = Len(tok')
           /\ ObsOK(0)
           /\ UNCHANGED <<nk, nexec, agg>>

TDetach == /\ Is("Detach")
           /\ Ev.tk \in LiveToks /\ tok[Ev.tk] = Ev.c
           /\ Detach(Ev.t, Ev.tk)
           /\ (last'.ok = 2 \/ last'.ok = Ev.ok)
           /\ ObsOK(0)
           /\ UNCHANGED <<nk, nexec, agg>>

TTokenDtor == /\ Is("TokenDtor")
              /\ Ev.tk \in LiveToks /\ tok[Ev.tk] = Ev.c
              /\ DestroyToken(Ev.t, Ev.tk)
              /\ ObsOK(0)
              /\ UNCHANGED <<nk, nexec, agg>>

TScopeEnter == /\ Is("ScopeEnter")
               /\ ScopeEnter(Ev.t, Ev.s)
               /\ Ev.n = Len(val')
               /\ ObsOK(Ev.n)
               /\ UNCHANGED <<nk, nexec, agg>>

TScopeExit == /\ Is("ScopeExit")
              /\ ScopeExit(Ev.t, Ev.c)
              /\ ObsOK(0)
              /\ UNCHANGED <<nk, nexec, agg>>

TDrop == /\ Is("Drop")
         /\ DropContext(Ev.t, Ev.c)
         /\ ObsOK(0)
         /\ UNCHANGED <<nk, nexec, agg>>

TNext == TDrop \/ TCfg \/ TSetValue \/ TSetValues \/ TAttach \/ TDetach \/ TTokenDtor \/ TScopeEnter \/ TScopeExit
TSpec == TInit /\ [][TNext]_tvars

Progress == TLCSet(1, IF l > TLCGet(1) THEN l ELSE TLCGet(1))
Accepted == IF TLCGet(1) = Len(TraceLog) + 1 THEN TRUE
            ELSE PrintT(<<"REJECTED_AT", TLCGet(1)>>) /\ FALSE
Report == (l = Len(TraceLog) + 1) => /\ PrintT(<<"STATS", ToJson(Merge(agg, flags.f))>>)
                                     /\ PrintT(<<"ACCEPTED", nexec>>)
=============================================================================
