CONSTANTS NThr = 2 Rounds = 2 FastIter = 2 UseTry = TRUE Hist = FALSE
SPECIFICATION FairSpec
INVARIANTS MutualExclusion
PROPERTY Termination
CHECK_DEADLOCK FALSE
