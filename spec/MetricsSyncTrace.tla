-------------------------- MODULE MetricsSyncTrace --------------------------
(***************************************************************************)
(* Property-level monitor (trace spec) for C06 and C08: it accepts exactly *)
(* the observable histories of the synchronous metrics pipeline that the   *)
(* two property statements allow.  Nothing in it mirrors how the SDK is    *)
(* built; the state is what the statements talk about:                     *)
(*   cum[vw][a]      everything recorded for stream vw / attribute set a   *)
(*                   since SDK start (all handles of the instrument)       *)
(*   pend[r][vw][a]  what was recorded since reader r's last collection    *)
(*   lastPt[r][vw]   rank of r's last collection that delivered points     *)
(*   cols[r]         ranks of r's collections so far (0 = SDK start)       *)
(* Events (one ndjson line each; harness/c06_sync.cc writes them):         *)
(*   Cfg(x, mode, temps, filters, limit, mono)  new execution              *)
(*   AddReader(t)               a reader of temporality t is registered    *)
(*                              in the middle of the history ("late")      *)
(*   ShutdownReader(r)          reader r alone was shut down               *)
(*                              (MetricReader::Shutdown on it; the         *)
(*                              provider and the other readers go on)      *)
(*   Create(h)                  h-th handle for the one instrument         *)
(*   Add(h, attrs, v, hid)      attrs = caller's (key,value) sequence,     *)
(*                              hid[vw] = id of FilteredOrderedAttributeMap *)
(*                              ::GetHash() of the filtered set            *)
(*   Collect(r, k, streams)     k-th collection of the execution, by       *)
(*                              reader r; streams = the MetricData         *)
(*                              delivered: [vw, t, start, end, pts], pts = *)
(*                              [a (pairs), v, o (is the overflow series)] *)
(* Timestamps are ranks: 0 = SDK start, k = the k-th collection.           *)
(*                                                                         *)
(* What the statements leave open is left open here:                       *)
(*  - a series whose value is 0 may be reported or omitted; a MetricData   *)
(*    without points equals no MetricData;                                 *)
(*  - a delta interval may start at any earlier collection of the same     *)
(*    reader that is not before its last delivered point for the stream    *)
(*    (abutting, never overlapping, every measurement inside);             *)
(*  - WHICH attribute sets are folded into the overflow series once more   *)
(*    distinct sets occurred than the limit leaves room for: only the      *)
(*    number of series, the own series never exceeding what was recorded   *)
(*    for them (monotonic instruments) and the exact total are demanded.   *)
(*                                                                         *)
(*  - what a LATE reader is handed for measurements recorded around its    *)
(*    registration (MeterProvider::AddMetricReader documents that it may   *)
(*    miss in-flight data): its values and the start of its first delta    *)
(*    interval are not examined; its later intervals must abut, cumulative *)
(*    points start at SDK start.  The readers that were there before keep  *)
(*    every clause (values, abutting intervals) across the registration.   *)
(*                                                                         *)
(*  - what a reader is handed AFTER IT WAS SHUT DOWN (the SDK lets it      *)
(*    collect, with a warning): not examined at all.  Every other reader   *)
(*    keeps every clause for all measurements - those recorded before the  *)
(*    shutdown, whoever collected in between, as well as those after it.   *)
(*                                                                         *)
(* Known defects of the unchanged tree are alternative acceptance          *)
(* conditions guarded by their name in Dev (see known_findings.d/C06.txt,  *)
(* C08.txt); using one is reported through devUsed / "DEV" lines.          *)
(***************************************************************************)
EXTENDS AttrSetKey, IOUtils

CONSTANTS Dev,        \* deviation names currently listed as known for the property being checked
          DefLimit,   \* kAggregationCardinalityLimit (2000; the model's DefLimit when model behaviours are fed in)
          CheckTime   \* BOOLEAN: check the intervals (C06); C08 says nothing about timestamps

TraceLog == ndJsonDeserialize(IOEnv.TRACE)

D1 == "delta-fastpath-start-at-sdk-start"
D2 == "dup-handle-orphans-storage"
D3 == "multi-view-last-wins"
D4 == "explicit-limit-lost-after-first-interval"
D6 == "merge-overwrites-overflow-at-default-limit"

VARIABLES l, cfg, nh, ncol, cum, ctot, pend, ptot, lastPt, cols, tw, hids, late, down, devUsed, nexec

vars == <<l, cfg, nh, ncol, cum, ctot, pend, ptot, lastPt, cols, tw, hids, late, down, devUsed, nexec>>

Ev == TraceLog[l]
Is(e) == l <= Len(TraceLog) /\ Ev.e = e /\ l' = l + 1

Views   == 1..Len(cfg.filters)
Readers == 1..Len(cfg.temps)
NV      == Len(cfg.filters)
FSet(vw) == {cfg.filters[vw][i] : i \in 1..Len(cfg.filters[vw])}
Empty == [x \in {} |-> 0]
Bump(m, a, v) == IF a \in DOMAIN m THEN [m EXCEPT ![a] = @ + v] ELSE m @@ (a :> v)
Twin == D2 \in Dev /\ cfg.mode = "api"

EmptyTwin(nr, nv) == [cum  |-> [vw \in 1..nv |-> Empty], ctot |-> [vw \in 1..nv |-> 0],
                      pend |-> [r \in 1..nr |-> [vw \in 1..nv |-> Empty]],
                      ptot |-> [r \in 1..nr |-> [vw \in 1..nv |-> 0]]]

Init == /\ TLCSet(1, 0)
        /\ l = 1 /\ nexec = 0 /\ devUsed = {}
        /\ cfg = [x |-> 0, mode |-> "none", temps |-> <<>>, filters |-> <<>>, limit |-> 0, mono |-> TRUE]
        /\ nh = 0 /\ ncol = 0 /\ cum = <<>> /\ ctot = <<>> /\ pend = <<>> /\ ptot = <<>>
        /\ lastPt = <<>> /\ cols = <<>> /\ tw = <<>> /\ hids = Empty /\ late = {} /\ down = {}

TCfg == /\ Is("Cfg")
        /\ Ev.mode \in {"api", "storage"}
        /\ Len(Ev.temps) >= 1 /\ Len(Ev.filters) >= 1 /\ Ev.limit >= 2
        /\ \A r \in 1..Len(Ev.temps) : Ev.temps[r] \in {"delta", "cum"}
        /\ cfg' = [x |-> Ev.x, mode |-> Ev.mode, temps |-> Ev.temps, filters |-> Ev.filters,
                   limit |-> Ev.limit, mono |-> Ev.mono]
        /\ LET nr == Len(Ev.temps)  nv == Len(Ev.filters) IN
           /\ cum' = [vw \in 1..nv |-> Empty] /\ ctot' = [vw \in 1..nv |-> 0]
           /\ pend' = [r \in 1..nr |-> [vw \in 1..nv |-> Empty]]
           /\ ptot' = [r \in 1..nr |-> [vw \in 1..nv |-> 0]]
           /\ lastPt' = [r \in 1..nr |-> [vw \in 1..nv |-> 0]]
           /\ cols' = [r \in 1..nr |-> {0}]
        /\ nh' = 0 /\ ncol' = 0 /\ tw' = <<>> /\ hids' = Empty /\ late' = {} /\ down' = {}
        /\ nexec' = nexec + 1
        /\ UNCHANGED devUsed

TCreate == /\ Is("Create")
           /\ Ev.h = nh + 1
           /\ nh' = nh + 1
           /\ tw' = IF Twin THEN Append(tw, EmptyTwin(Len(cfg.temps), NV)) ELSE tw
           /\ UNCHANGED <<cfg, ncol, cum, ctot, pend, ptot, lastPt, cols, hids, late, down, devUsed, nexec>>

\* a reader registered after the history has begun: a fresh window, remembered as late
TAddReader == /\ Is("AddReader")
              /\ Ev.t \in {"delta", "cum"}
              /\ cfg' = [cfg EXCEPT !.temps = Append(@, Ev.t)]
              /\ pend' = Append(pend, [vw \in Views |-> Empty])
              /\ ptot' = Append(ptot, [vw \in Views |-> 0])
              /\ lastPt' = Append(lastPt, [vw \in Views |-> 0])
              /\ cols' = Append(cols, {0})
              /\ late' = late \cup {Len(cfg.temps) + 1}
              /\ tw' = [h \in 1..Len(tw) |-> [tw[h] EXCEPT !.pend = Append(@, [vw \in Views |-> Empty]),
                                                            !.ptot = Append(@, [vw \in Views |-> 0])]]
              /\ UNCHANGED <<nh, ncol, cum, ctot, hids, down, devUsed, nexec>>

\* one reader is shut down on its own: from now on nothing is said about what IT is handed; nothing else
\* changes - in particular every other reader's window keeps what was recorded since ITS last collection
TShutdownReader == /\ Is("ShutdownReader")
                   /\ Ev.r \in Readers /\ Ev.r \notin down
                   /\ down' = down \cup {Ev.r}
                   /\ UNCHANGED <<cfg, nh, ncol, cum, ctot, pend, ptot, lastPt, cols, tw, hids, late, devUsed, nexec>>

(* ---- Add: every view stream of the instrument, every reader's window ---- *)
TAdd == /\ Is("Add")
        /\ Ev.h \in 1..nh
        /\ cfg.mono => Ev.v >= 0
        /\ LET A == [vw \in Views |-> Canon(Ev.attrs, FSet(vw))]
               v == Ev.v
           IN
           /\ cum'  = [vw \in Views |-> Bump(cum[vw], A[vw], v)]
           /\ ctot' = [vw \in Views |-> ctot[vw] + v]
           /\ pend' = [r \in Readers |-> [vw \in Views |-> Bump(pend[r][vw], A[vw], v)]]
           /\ ptot' = [r \in Readers |-> [vw \in Views |-> ptot[r][vw] + v]]
           /\ tw' = IF ~Twin THEN tw
                    ELSE [tw EXCEPT ![Ev.h] =
                            [cum  |-> [vw \in Views |-> Bump(@.cum[vw], A[vw], v)],
                             ctot |-> [vw \in Views |-> @.ctot[vw] + v],
                             pend |-> [r \in Readers |-> [vw \in Views |-> Bump(@.pend[r][vw], A[vw], v)]],
                             ptot |-> [r \in Readers |-> [vw \in Views |-> @.ptot[r][vw] + v]]]]
           \* "equal sets always hash equally"
           /\ Len(Ev.hid) = NV
           /\ \A vw \in Views : A[vw] \in DOMAIN hids => hids[A[vw]] = Ev.hid[vw]
           /\ \A vw, vx \in Views : A[vw] = A[vx] => Ev.hid[vw] = Ev.hid[vx]
           /\ hids' = LET new == {A[vw] : vw \in Views} \ DOMAIN hids IN
                      hids @@ [a \in new |-> Ev.hid[CHOOSE vw \in Views : A[vw] = a]]
        /\ UNCHANGED <<cfg, nh, ncol, lastPt, cols, late, down, devUsed, nexec>>

(* ---- the relation between the points of one MetricData and a window ---- *)
ASet(a) == {<<a[i][1], a[i][2]>> : i \in 1..Len(a)}
NoDupKeys(a) == \A i, j \in 1..Len(a) : i # j => a[i][1] # a[j][1]
Own(P) == {i \in 1..Len(P) : ~P[i].o}
Ovf(P) == {i \in 1..Len(P) : P[i].o}
RECURSIVE SumRange(_, _, _)
SumRange(P, lo, hi) == IF lo > hi THEN 0
                       ELSE IF lo = hi THEN P[lo].v
                       ELSE LET mid == (lo + hi) \div 2 IN SumRange(P, lo, mid) + SumRange(P, mid + 1, hi)
SumV(P) == SumRange(P, 1, Len(P))

\* one point per series, at most one overflow series
WellFormed(P) == /\ Cardinality(Ovf(P)) <= 1
                 /\ \A i \in Own(P) : NoDupKeys(P[i].a)
                 /\ Cardinality({ASet(P[i].a) : i \in Own(P)}) = Cardinality(Own(P))
\* no folding: the points are exactly the window (zero-valued series optional)
Exact(P, R) == /\ Ovf(P) = {}
               /\ \A i \in 1..Len(P) : LET a == ASet(P[i].a) IN a \in DOMAIN R /\ P[i].v = R[a]
               /\ {a \in DOMAIN R : R[a] # 0} \subseteq {ASet(P[i].a) : i \in 1..Len(P)}
\* folding: own series are real ones and never exceed what was recorded for them, the total is exact
Folded(P, R, T, exactTotal) ==
               /\ \A i \in Own(P) : LET a == ASet(P[i].a) IN
                                    a \in DOMAIN R /\ (cfg.mono => (P[i].v >= 0 /\ P[i].v <= R[a]))
               /\ IF exactTotal THEN SumV(P) = T
                                ELSE cfg.mono /\ SumV(P) <= T /\ (\A i \in 1..Len(P) : P[i].v >= 0)
Rel(P, R, T, bound, exactTotal) ==
   /\ WellFormed(P)
   /\ Len(P) <= bound
   /\ \/ Exact(P, R)
      \* folding is legitimate only when more distinct sets occurred than limit-1 own series + overflow
      \/ Cardinality(DOMAIN R) >= cfg.limit /\ Folded(P, R, T, exactTotal)

(* ---- Collect ------------------------------------------------------------ *)
NonEmpty(S) == SelectSeq(S, LAMBDA s : Len(s.pts) > 0)
StreamOf(S, vw) == LET I == {i \in 1..Len(S) : S[i].vw = vw} IN
                   IF I = {} THEN [vw |-> vw, t |-> "none", start |-> 0, end |-> 0, pts |-> <<>>]
                   ELSE S[CHOOSE i \in I : TRUE]

\* the sets of deviations under which the points of stream vw are acceptable for reader r
ValueWays(r, vw, P) ==
  IF r \in late \/ r \in down THEN {{}} ELSE
  LET delta == cfg.temps[r] = "delta"
      R  == IF delta THEN pend[r][vw] ELSE cum[vw]
      T  == IF delta THEN ptot[r][vw] ELSE ctot[vw]
      base == {D \in SUBSET (Dev \cap {D4, D6}) :
                 /\ (D4 \in D) => (ncol >= 1 /\ cfg.limit < DefLimit)
                 /\ (D6 \in D) => (Cardinality(DOMAIN R) >= DefLimit - 1)
                 /\ Rel(P, R, T, IF D4 \in D THEN DefLimit ELSE cfg.limit, D6 \notin D)}
      twin == IF Twin /\ nh >= 2
                THEN LET tR == IF delta THEN tw[nh].pend[r][vw] ELSE tw[nh].cum[vw]
                         tT == IF delta THEN tw[nh].ptot[r][vw] ELSE tw[nh].ctot[vw]
                     IN IF Rel(P, tR, tT, cfg.limit, TRUE) THEN {{D2}} ELSE {}
                ELSE {}
      absent == IF D3 \in Dev /\ cfg.mode = "api" /\ vw < NV /\ P = <<>> THEN {{D3}} ELSE {}
  IN base \cup twin \cup absent

Best(W) == IF {} \in W THEN {} ELSE CHOOSE D \in W : \A E \in W : Cardinality(D) <= Cardinality(E)

\* the sets of deviations under which the interval of a delivered (non-empty) stream is acceptable
TimeWays(r, vw, s, k, vdev) ==
  IF s.pts = <<>> \/ ~CheckTime \/ r \in down THEN {{}}
  ELSE IF s.end # k \/ s.t # cfg.temps[r] THEN {}
  ELSE IF cfg.temps[r] = "cum" THEN (IF s.start = 0 THEN {{}} ELSE {})
  ELSE IF r \in late /\ lastPt[r][vw] = 0 THEN {{}}        \* first interval of a late reader: open
  ELSE IF s.start \in cols[r] /\ s.start >= lastPt[r][vw] THEN {{}}
  ELSE IF Twin /\ nh >= 2 /\ s.start \in cols[r] THEN {{D2}}   \* the replacing storage starts afresh
  ELSE IF D1 \in Dev /\ Len(cfg.temps) = 1 /\ s.start = 0 THEN {{D1}}
  ELSE {}

TCollect ==
  /\ Is("Collect")
  /\ Ev.r \in Readers
  /\ Ev.k = ncol + 1
  /\ LET S == NonEmpty(Ev.streams)
         r == Ev.r
         k == Ev.k
     IN
     /\ \A i \in 1..Len(S) : S[i].vw \in Views                                   \* no invented stream
     /\ \A i, j \in 1..Len(S) : i # j => S[i].vw # S[j].vw                       \* one MetricData per stream
     /\ LET VW == [vw \in Views |-> ValueWays(r, vw, StreamOf(S, vw).pts)]
            VD == [vw \in Views |-> IF VW[vw] = {} THEN {} ELSE Best(VW[vw])]
            TW == [vw \in Views |-> TimeWays(r, vw, StreamOf(S, vw), k, VD[vw])]
            used == UNION {VD[vw] \cup (IF TW[vw] = {} THEN {} ELSE Best(TW[vw])) : vw \in Views}
        IN
        /\ \A vw \in Views : VW[vw] # {} /\ TW[vw] # {}
        /\ devUsed' = devUsed \cup used
        /\ (used # {}) => PrintT(<<"DEV", ToJson([x |-> cfg.x, used |-> used, l |-> l])>>)
     /\ lastPt' = [lastPt EXCEPT ![r] = [vw \in Views |-> IF StreamOf(S, vw).pts # <<>> THEN k ELSE @[vw]]]
     /\ cols' = [cols EXCEPT ![r] = @ \cup {k}]
     /\ pend' = [pend EXCEPT ![r] = [vw \in Views |-> Empty]]
     /\ ptot' = [ptot EXCEPT ![r] = [vw \in Views |-> 0]]
     /\ tw' = IF Twin /\ nh >= 1
                THEN [tw EXCEPT ![nh].pend[r] = [vw \in Views |-> Empty], ![nh].ptot[r] = [vw \in Views |-> 0]]
                ELSE tw
     /\ ncol' = k
  /\ UNCHANGED <<cfg, nh, cum, ctot, hids, late, down, nexec>>

Next == TCfg \/ TCreate \/ TAddReader \/ TShutdownReader \/ TAdd \/ TCollect

Spec == Init /\ [][Next]_vars

Progress == TLCSet(1, IF l > TLCGet(1) THEN l ELSE TLCGet(1))
\* POSTCONDITION: the whole log was consumed; otherwise print the 1-based index of the first
\* event that no action of the monitor could consume
Accepted == IF TLCGet(1) = Len(TraceLog) + 1 THEN TRUE
            ELSE PrintT(<<"REJECTED_AT", TLCGet(1)>>) /\ FALSE
Report == (l = Len(TraceLog) + 1) => (PrintT(<<"ACCEPTED", nexec>>) /\ PrintT(<<"DEVUSED", devUsed>>))
=============================================================================
