\* behaviour generation (use with -simulate num=N -depth 64): random walks, every step with exp/alts;
\* boundary codes are rank + BOff (fillers below 0 / above MaxRank make the long lists)
CONSTANTS MaxRank = 6
  BoundSets = {{}, {65}, {67}, {69}, {65, 67}, {65, 69}, {67, 69}, {65, 67, 69}, {64}, {64, 65}, {64, 65, 67, 69}, {66, 67}, {67, 70}, {64, 65, 66, 67, 69, 70}, {58, 59, 60, 61, 62, 63, 65, 67, 69, 71, 72, 73, 74, 75, 76, 77}, {65, 71, 72, 73, 74, 75, 76, 77, 78, 79, 80, 81, 82, 83, 84, 85, 86}, {48, 49, 50, 51, 52, 53, 54, 55, 56, 57, 58, 59, 60, 61, 62, 63, 69}, {56, 57, 58, 59, 60, 61, 62, 63, 65, 67, 71, 72, 73, 74, 75, 76, 77, 78}, {50, 51, 52, 53, 54, 55, 56, 57, 58, 59, 60, 61, 62, 63, 64, 65, 67, 69, 71, 72, 73, 74, 75, 76, 77, 78, 79, 80, 81, 82, 83, 84}, {14, 15, 16, 17, 18, 19, 20, 21, 22, 23, 24, 25, 26, 27, 28, 29, 30, 31, 32, 33, 34, 35, 36, 37, 38, 39, 40, 41, 42, 43, 44, 45, 46, 47, 48, 49, 50, 51, 52, 53, 54, 55, 56, 57, 58, 59, 60, 61, 62, 63, 67, 71, 72, 73, 74, 75, 76, 77, 78, 79, 80, 81, 82, 83, 84, 85, 86, 87, 88, 89, 90, 91, 92, 93, 94, 95, 96, 97, 98, 99, 100, 101, 102, 103, 104, 105, 106, 107, 108, 109, 110, 111, 112, 113, 114, 115, 116, 117, 118, 119, 120}, {6, 7, 8, 9, 10, 11, 12, 13, 14, 15, 16, 17, 18, 19, 20, 21, 22, 23, 24, 25, 26, 27, 28, 29, 30, 31, 32, 33, 34, 35, 36, 37, 38, 39, 40, 41, 42, 43, 44, 45, 46, 47, 48, 49, 50, 51, 52, 53, 54, 55, 56, 57, 58, 59, 60, 61, 62, 63, 64, 65, 66, 67, 69, 70, 71, 72, 73, 74, 75, 76, 77, 78, 79, 80, 81, 82, 83, 84, 85, 86, 87, 88, 89, 90, 91, 92, 93, 94, 95, 96, 97, 98, 99, 100, 101, 102, 103, 104, 105, 106, 107, 108, 109, 110, 111, 112, 113, 114, 115, 116, 117, 118, 119, 120, 121, 122, 123, 124, 125, 126}} BOff = 64
  Tables = {"D_small", "D_tiny", "D_huge", "D_frac", "I_small", "I_frac", "I_huge"}
  MMChoices = {TRUE, FALSE}
  Mode = "pipe" NSlots = 3 NKeys = 2 ReaderCfgs = {1, 2, 11, 12, 21, 22}
  MaxAgg = 20 MaxOps = 10 Balanced = TRUE Hist = TRUE
  Dev = {"double-max-sentinel-dbl-min", "long-value-rounded-onto-boundary", "diff-sum-not-computed"}
INIT Init
NEXT Next
VIEW View

INVARIANTS EmitAll
