\* behaviour generation (use with -simulate num=N -depth 64): random walks, every step with exp/alts
CONSTANTS MaxRank = 6
  BoundSets = {{}, {1}, {3}, {5}, {1,3}, {1,5}, {3,5}, {1,3,5}, {0}, {0,1}, {0,1,3,5}, {2,3}, {3,6}, {0,1,2,3,5,6}}
  Tables = {"D_small", "D_tiny", "D_huge", "D_frac", "I_small", "I_frac", "I_huge"}
  MMChoices = {TRUE, FALSE}
  Mode = "pipe" NSlots = 3 NKeys = 2 ReaderCfgs = {1, 2, 11, 12, 21, 22}
  MaxAgg = 20 MaxOps = 10 Balanced = TRUE Hist = TRUE
  Dev = {"double-max-sentinel-dbl-min", "long-value-rounded-onto-boundary", "diff-sum-not-computed"}
INIT Init
NEXT Next
VIEW View

INVARIANTS EmitAll
