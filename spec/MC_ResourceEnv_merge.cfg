\* C18, quick-tier configuration 'merge-triples' (tools/props/C18.py generates this and the other configurations at run time)
CONSTANTS
 Dev = {}
 Hist = FALSE
 Mode = "pairs"
 Keys = {"service.name", "k1"}
 Vals = {"s1", "i1"}
 EKeys = {}
 SVals = {}
 Urls = {"u1", "u2"}
 TokKinds = {}
 MaxTok = 0
 SvcKinds = {"unset"}
 MaxPool = 2
 MaxProv = 0
 MaxSteps = 0
 DefUrls = {""}
 DefExtras = {{}}
 EnvUrls = {""}
 RdKinds = {}
 RdPres = {}
 RdBodies = {}
 RdSufs = {}
 RdTb = {}
 RdErr = {}
INIT Init
NEXT Next
VIEW View
INVARIANTS MergePrecedence MergeEmptyIdentity MergeIdempotent MergeAssociative
