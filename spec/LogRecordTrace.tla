--------------------------- MODULE LogRecordTrace ---------------------------
(***************************************************************************)
(* Trace validation for C13 (code -> spec): accepts an ndjson log of       *)
(* harness/c13_logrecord.cc `record` (seeded random programs over larger   *)
(* domains than the generated behaviours: 12 attribute keys, long          *)
(* histories) iff every execution is a behaviour of LogRecord.tla and the  *)
(* records that reached every processor's exporter after each call are the *)
(* ones the spec delivers there - with the values the ideal demands, or,   *)
(* where a named deviation of Dev applies, the deviation's values (noted   *)
(* in `tdev`, reported at acceptance as DEVUSED).                          *)
(* Events: Cfg(pipe, res, b, x)  ScopeEnter(t, s, id)  ScopeExit(t, id)          *)
(*   Create(t, lg, r)  Set(t, r, a)  BeginEmit(t, via, lg, r)  Arg(t, a)   *)
(*   AddProc(kind)  EndEmit(t, got)  Flush(got)       got[p] = snapshots read at the      *)
(*   exporter of processor p since the previous event (batch: since the    *)
(*   previous flush), a = [k, v, nm, m].                                   *)
(***************************************************************************)
EXTENDS LogRecord, IOUtils

TraceLog == ndJsonDeserialize(IOEnv.TRACE)

VARIABLES l, nexec, tdev, nexp,
          xid     \* <<b, x>> of the Cfg event: names the current execution in DEVUSED
tvars == <<vars, l, nexec, tdev, nexp, xid>>

Ev == TraceLog[l]
Is(e) == l <= Len(TraceLog) /\ Ev.e = e /\ l' = l + 1
Kinds == {"simple", "batch", "hold"}

TInit == /\ TLCSet(1, 0)
         /\ pipe = <<"simple">> /\ res = 1
         /\ spans = [t \in Threads |-> <<>>] /\ scopeIds = [t \in Threads |-> {}] /\ nscope = 0
         /\ recs = <<>> /\ cur = [t \in Threads |-> Idle]
         /\ pending = <<<<>>>> /\ exported = <<<<>>>> /\ maybe = <<{}>> /\ nadd = 0
         /\ nflush = 0 /\ nnull = 0 /\ crashed = FALSE /\ devUsed = {}
         /\ last = NoOp /\ flags = {} /\ hist = <<>>
         /\ l = 1 /\ nexec = 0 /\ tdev = {} /\ nexp = 0 /\ xid = <<0, 0>>

TCfg == /\ Is("Cfg")
        /\ Len(Ev.pipe) \in 0..3 /\ \A p \in 1..Len(Ev.pipe) : Ev.pipe[p] \in Kinds
        /\ pipe' = Ev.pipe /\ res' = Ev.res
        /\ spans' = [t \in Threads |-> <<>>] /\ scopeIds' = [t \in Threads |-> {}] /\ nscope' = 0
        /\ recs' = <<>> /\ cur' = [t \in Threads |-> Idle]
        /\ pending' = [p \in 1..Len(Ev.pipe) |-> <<>>] /\ exported' = [p \in 1..Len(Ev.pipe) |-> <<>>]
        /\ maybe' = [p \in 1..Len(Ev.pipe) |-> {}] /\ nadd' = 0
        /\ nflush' = 0 /\ nnull' = 0 /\ crashed' = FALSE /\ devUsed' = {}
        /\ last' = NoOp /\ flags' = {} /\ hist' = <<>>
        /\ nexec' = nexec + 1 /\ xid' = <<Ev.b, Ev.x>> /\ UNCHANGED <<tdev, nexp>>

Same == UNCHANGED <<nexec, tdev, nexp, xid>>

TScopeEnter == Is("ScopeEnter") /\ ScopeEnter(Ev.t, Ev.s) /\ Ev.id = nscope' /\ Same
TScopeExit  == Is("ScopeExit") /\ ScopeExit(Ev.t, Ev.id) /\ Same
TCreate     == Is("Create") /\ Create(Ev.t, Ev.lg) /\ Ev.r = Len(recs') /\ Same
TSet        == Is("Set") /\ Set(Ev.t, Ev.r, Ev.a) /\ Same
TBeginEmit  == /\ Is("BeginEmit")
               /\ CASE Ev.via = "rec"  -> BeginEmitRec(Ev.t, Ev.r)
                    [] Ev.via = "new"  -> BeginEmitNew(Ev.t, Ev.lg) /\ Ev.r = Len(recs')
                    [] Ev.via = "null" -> BeginEmitNull(Ev.t, Ev.lg)
                    [] OTHER -> FALSE
               /\ Same
TArg        == Is("Arg") /\ Arg(Ev.t, Ev.a) /\ Same
TAddProc    == Is("AddProc") /\ AddProc(Ev.kind) /\ Same

\* one observed snapshot g against the ideal x and the aliasing deviation's y
Soft(gv, xv) == xv = 0 \/ gv = xv                    \* never supplied: the statement does not pin it down
Val(gv, xv, yv) == gv = xv \/ (AliasDev /\ gv = yv)
SnapOK(g, x, y) ==
  /\ g.r = x.r /\ g.lg = x.lg /\ g.res = x.res /\ g.tid = x.tid /\ g.sid = x.sid /\ g.fl = x.fl
  /\ Soft(g.sev, x.sev) /\ Soft(g.ts, x.ts)
  /\ (x.evid # 0 => g.evid = x.evid /\ g.evname = x.evname)
  /\ (x.body # 0 => Val(g.body, x.body, y.body))
  /\ g.extra = 0 /\ Len(g.attrs) = NAK
  /\ \A k \in 1..NAK : Val(g.attrs[k], x.attrs[k], y.attrs[k])
Deviates(g, x) == (x.body # 0 /\ g.body # x.body) \/ \E k \in 1..NAK : g.attrs[k] # x.attrs[k]
\* X / Y: what must arrive (ideal / aliased); O / OD: what may additionally arrive, at most once, at a
\* processor that was added after the record had been created
GotOK(got, X, Y, O, OD) ==
  /\ Len(got) = Len(pipe)
  /\ \A p \in Procs :
       /\ \A i, j \in 1..Len(got[p]) : i # j => got[p][i].r # got[p][j].r
       /\ \A i \in 1..Len(X[p]) : \E j \in 1..Len(got[p]) : SnapOK(got[p][j], X[p][i], Y[p][i])
       /\ \A j \in 1..Len(got[p]) :
            \/ \E i \in 1..Len(X[p]) : got[p][j].r = X[p][i].r
            \/ \E i \in 1..Len(O[p]) : SnapOK(got[p][j], O[p][i], OD[p][i])
GotDev(got, X) ==
  IF \E p \in Procs : \E i \in 1..Len(X[p]) : \E j \in 1..Len(got[p]) :
        got[p][j].r = X[p][i].r /\ Deviates(got[p][j], X[p][i])
  THEN {<<"log-record-aliases-caller-buffers", xid[1], xid[2]>>} ELSE {}
NGot(got) == LET RECURSIVE S(_)
                 S(p) == IF p = 0 THEN 0 ELSE Len(got[p]) + S(p - 1)
             IN S(Len(got))

TEndEmit == /\ Is("EndEmit")
            /\ cur[Ev.t].mode # "idle"
            \* (`= TRUE`: evaluate as a plain boolean; TLC would otherwise split every \/ and \E into branches)
            /\ GotOK(Ev.got, Deliver(Ev.t, FALSE), Deliver(Ev.t, TRUE), DeliverOpt(Ev.t, FALSE), DeliverOpt(Ev.t, TRUE)) = TRUE
            /\ tdev' = tdev \cup GotDev(Ev.got, Deliver(Ev.t, FALSE))
            /\ nexp' = nexp + NGot(Ev.got)
            /\ EndEmit(Ev.t)
            /\ UNCHANGED <<nexec, xid>>
TFlush == /\ Is("Flush")
          /\ GotOK(Ev.got, Drain(FALSE), Drain(TRUE), DrainOpt(FALSE), DrainOpt(TRUE)) = TRUE
          /\ tdev' = tdev \cup GotDev(Ev.got, Drain(FALSE))
          /\ nexp' = nexp + NGot(Ev.got)
          /\ Flush
          /\ UNCHANGED <<nexec, xid>>

TNext == TAddProc \/ TCfg \/ TScopeEnter \/ TScopeExit \/ TCreate \/ TSet \/ TBeginEmit \/ TArg \/ TEndEmit \/ TFlush
TSpec == TInit /\ [][TNext]_tvars

Progress == TLCSet(1, IF l > TLCGet(1) THEN l ELSE TLCGet(1))
Accepted == IF TLCGet(1) = Len(TraceLog) + 1 THEN TRUE
            ELSE PrintT(<<"REJECTED_AT", TLCGet(1)>>) /\ FALSE
Report == (l = Len(TraceLog) + 1) => /\ PrintT(<<"STATS", ToJson([exported |-> nexp, executions |-> nexec])>>)
                                     /\ PrintT(<<"DEVUSED", ToJson(tdev)>>)
                                     /\ PrintT(<<"ACCEPTED", nexec>>)
=============================================================================
