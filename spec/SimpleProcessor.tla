--------------------------- MODULE SimpleProcessor ---------------------------
(***************************************************************************)
(* Level B model of SimpleSpanProcessor / SimpleLogRecordProcessor:       *)
(* OnEnd/OnEmit from N threads -> SpinLockMutex (SpinLock.tla abstracted  *)
(* to its atomic exchange / store) -> exporter Export; Shutdown through a *)
(* test_and_set latch -> exporter Shutdown once; ForceFlush -> exporter   *)
(* ForceFlush (no lock).                                                   *)
(* Properties (C03/C02): no two Exports overlap on the exporter; the      *)
(* exporter is shut down at most once however many threads call Shutdown. *)
(***************************************************************************)
EXTENDS Naturals, FiniteSets, TLC

CONSTANTS NThr, NRec, NShut

Thr  == 1..NThr
Shut == (NThr + 1)..(NThr + NShut)
VARIABLES flag, latch, pc, left, inExport, overlap, expSD, exported
vars == <<flag, latch, pc, left, inExport, overlap, expSD, exported>>

Init == /\ flag = FALSE /\ latch = FALSE
        /\ pc = [t \in Thr \cup Shut |-> "idle"]
        /\ left = [t \in Thr |-> NRec]
        /\ inExport = {} /\ overlap = FALSE /\ expSD = 0 /\ exported = 0

\* lock(): exchange(true) until it returns false (spinning abstracted: retry while held)
Lock(t) == /\ t \in Thr /\ pc[t] = "idle" /\ left[t] > 0
           /\ ~flag /\ flag' = TRUE
           /\ pc' = [pc EXCEPT ![t] = "locked"]
           /\ UNCHANGED <<latch, left, inExport, overlap, expSD, exported>>
ExpBegin(t) == /\ t \in Thr /\ pc[t] = "locked"
               /\ overlap' = (overlap \/ inExport # {})
               /\ inExport' = inExport \cup {t}
               /\ exported' = exported + 1
               /\ pc' = [pc EXCEPT ![t] = "exporting"]
               /\ UNCHANGED <<flag, latch, left, expSD>>
ExpEnd(t) == /\ t \in Thr /\ pc[t] = "exporting"
             /\ inExport' = inExport \ {t}
             /\ pc' = [pc EXCEPT ![t] = "unlock"]
             /\ UNCHANGED <<flag, latch, left, overlap, expSD, exported>>
Unlock(t) == /\ t \in Thr /\ pc[t] = "unlock"
             /\ flag' = FALSE
             /\ left' = [left EXCEPT ![t] = left[t] - 1]
             /\ pc' = [pc EXCEPT ![t] = "idle"]
             /\ UNCHANGED <<latch, inExport, overlap, expSD, exported>>
\* Shutdown(): if (!latch.test_and_set()) exporter->Shutdown()
TestAndSet(t) == /\ t \in Shut /\ pc[t] = "idle"
                 /\ latch' = TRUE
                 /\ pc' = [pc EXCEPT ![t] = IF latch THEN "done" ELSE "sd"]
                 /\ UNCHANGED <<flag, left, inExport, overlap, expSD, exported>>
ExporterShutdown(t) == /\ t \in Shut /\ pc[t] = "sd"
                       /\ expSD' = expSD + 1
                       /\ pc' = [pc EXCEPT ![t] = "done"]
                       /\ UNCHANGED <<flag, latch, left, inExport, overlap, exported>>

Next == \E t \in Thr \cup Shut : Lock(t) \/ ExpBegin(t) \/ ExpEnd(t) \/ Unlock(t) \/ TestAndSet(t) \/ ExporterShutdown(t)
Spec == Init /\ [][Next]_vars

NoOverlap == ~overlap /\ Cardinality(inExport) <= 1
ShutdownOnce == expSD <= 1
AllExported == (\A t \in Thr : left[t] = 0) => exported = NThr * NRec
=============================================================================
