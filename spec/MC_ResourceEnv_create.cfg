\* C18, quick-tier configuration 'create-all-environments' (tools/props/C18.py generates this and the other configurations at run time)
CONSTANTS
 Dev = {}
 Hist = FALSE
 Mode = "envs"
 Keys = {"service.name", "k1"}
 Vals = {"s1"}
 EKeys = {"service.name", "telemetry.sdk.language"}
 SVals = {"s1", "s2"}
 Urls = {"u1"}
 TokKinds = {"kv", "noeq", "empty", "emptykey", "padkv", "valeq", "emptyval"}
 MaxTok = 2
 SvcKinds = {"unset", "empty", "set"}
 MaxPool = 2
 MaxProv = 0
 MaxSteps = 0
 DefUrls = {"", "ud"}
 DefExtras = {{}}
 EnvUrls = {"", "ue"}
 RdKinds = {}
 RdPres = {}
 RdBodies = {}
 RdSufs = {}
 RdTb = {}
 RdErr = {}
INIT Init
NEXT Next
VIEW View
INVARIANTS CreatePrecedence ServiceNameAlwaysPresent CreateModelOK CreateUrlChain EnvExact EnvNoInvention EnvSomeReading
