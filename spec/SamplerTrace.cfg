CONSTANTS Mode = "trace" Dev = {} Hist = FALSE NMid = 1 NIds = 1 Top = 1
INIT TInit
NEXT TNext
CONSTRAINT Progress
INVARIANT Report
POSTCONDITION Accepted
CHECK_DEADLOCK FALSE
