CONSTANTS NThr = 3 Rounds = 2 FastIter = 2 UseTry = TRUE Hist = FALSE
INIT Init
NEXT Next
VIEW View
INVARIANTS MutualExclusion HeldImpliesFlag TryLockOnlyWhenFree
