\* C09, exhaustive: ideal behaviour (Dev = {}) satisfies every clause on the whole partition
CONSTANTS
  Dev = {}
  TidC = {"rand", "hi64zero", "lo64zero", "one", "max", "zero"}
  SidC = {"rand", "one", "max", "zero"}
  TsC = {"none", "one", "three", "full32"}
  NFlag = 256
  RepFlags = {1, 171}
  MaxFaults = 3
  SweepFaults = 1
  TailBases = {}
  TailPos = 0
  ShortKinds = {}
  ShortLen = 0
INIT Init
NEXT Next
CONSTRAINT Budget
INVARIANTS TypeOK InjectLevel1 InjTokensLevel1 InvalidNeverInjected RoundTrip InvalidNeverInstalled OnlyShape WellFormedAccepted Version00Exact Agree
