\* all triples of strings of length <= 3 (64 000 states): ordering laws incl. transitivity, find/substr soundness
CONSTANTS MaxLen = 3  Hist = FALSE  Depth = 0  Dev = {}  Laws = TRUE  BLen = 3
INIT Init
NEXT Next
INVARIANTS TypeOK Property
