---------------------------- MODULE LockMonitor ----------------------------
(***************************************************************************)
(* Level A monitor (trace spec) for the spin lock clause of C11:          *)
(* at most one holder at a time, try_lock succeeds only on a free lock,   *)
(* every lock() returns (a "Stuck" event is never accepted; every         *)
(* Acquire has its Acquired before End).                                   *)
(***************************************************************************)
EXTENDS Naturals, Sequences, FiniteSets, TLC, Json, IOUtils

TraceLog == ndJsonDeserialize(IOEnv.TRACE)
VARIABLES l, holder, pending, nexec
vars == <<l, holder, pending, nexec>>
Ev == TraceLog[l]
Is(e) == l <= Len(TraceLog) /\ Ev.e = e /\ l' = l + 1

Init == TLCSet(1, 0) /\ l = 1 /\ holder = 0 /\ pending = <<>> /\ nexec = 0

TCfg == Is("Cfg") /\ holder' = 0 /\ pending' = [t \in 1..Ev.nthr |-> "none"] /\ nexec' = nexec + 1
TAcquire == /\ Is("Acquire") /\ pending[Ev.t] = "none" /\ holder # Ev.t
            /\ pending' = [pending EXCEPT ![Ev.t] = Ev.mode] /\ UNCHANGED <<holder, nexec>>
TAcquired == /\ Is("Acquired") /\ pending[Ev.t] # "none"
             /\ IF Ev.ok THEN holder = 0 /\ Ev.occ = 1 /\ holder' = Ev.t      \* free before, sole occupant
                         ELSE pending[Ev.t] = "try" /\ UNCHANGED holder       \* only try_lock may fail
             /\ pending' = [pending EXCEPT ![Ev.t] = "none"] /\ UNCHANGED nexec
TRelease == Is("Release") /\ holder = Ev.t /\ holder' = 0 /\ UNCHANGED <<pending, nexec>>
TEnd == Is("End") /\ holder = 0 /\ (\A t \in DOMAIN pending : pending[t] = "none") /\ UNCHANGED <<holder, pending, nexec>>

Next == TCfg \/ TAcquire \/ TAcquired \/ TRelease \/ TEnd
Progress == TLCSet(1, IF l > TLCGet(1) THEN l ELSE TLCGet(1))
Accepted == IF TLCGet(1) = Len(TraceLog) + 1 THEN TRUE
            ELSE PrintT(<<"REJECTED_AT", TLCGet(1)>>) /\ FALSE
Report == (l = Len(TraceLog) + 1) => PrintT(<<"ACCEPTED", nexec>>)
=============================================================================
