--------------------------- MODULE MetricsAsyncTrace ---------------------------
(***************************************************************************)
(* Trace validation for C17: a log of a real execution (harness            *)
(* c17_async record) is accepted iff it is a behaviour of the PROPERTY     *)
(* level (P) of MetricsAsync - the mechanism variables are frozen.         *)
(* Events (one ndjson line each):                                          *)
(*   Cfg(kinds, temps, cbi, na)   new execution                            *)
(*   Add(c) Rem(c) Destroy(i) Rec(i, a, v)                                 *)
(*   Begin(r)                     reader r starts a collection             *)
(*   Cb(c, rep)                   the SDK invoked callback c, which        *)
(*                                reported rep = <<<<a, v>>, ...>>         *)
(*   End(r, pts)                  what r was given: pts[i] = <<<<a,v>>,..>>*)
(* The configuration comes from the log (any number of instruments,        *)
(* readers, callbacks, attribute sets).                                    *)
(***************************************************************************)
EXTENDS MetricsAsync, IOUtils

TraceLog == ndJsonDeserialize(IOEnv.TRACE)

VARIABLES l, nexec, devUsed
tvars == <<vars, l, nexec, devUsed>>

Ev == TraceLog[l]
Is(e) == l <= Len(TraceLog) /\ Ev.e = e /\ l' = l + 1

\* a JSON list of pairs as a map; the pairs must have distinct keys
Keys(ps) == {ps[j][1] : j \in 1..Len(ps)}
NoDup(ps) == Cardinality(Keys(ps)) = Len(ps)
PairMap(ps) == [a \in Keys(ps) |-> (CHOOSE j \in 1..Len(ps) : ps[j][1] = a)]
ToMap(ps) == [a \in Keys(ps) |-> ps[PairMap(ps)[a]][2]]

Frozen == UNCHANGED <<mvars, lastr, ltot, ncol, nrec, flags, curreps, hist>>

TInit ==
  /\ TLCSet(1, 0)
  /\ l = 1 /\ nexec = 0 /\ devUsed = {}
  /\ kinds = <<>> /\ temps = <<>> /\ cbi = <<>>
  /\ reg = {} /\ alive = {} /\ tot = <<>> /\ given = <<>> /\ gsum = <<>> /\ fresh = <<>>
  /\ cr = 0 /\ todo = {} /\ repnow = <<>>
  /\ lastr = 0 /\ ltot = <<>> /\ cbs = {} /\ mtodo = {} /\ cum = <<>> /\ dlt = <<>> /\ unrep = <<>> /\ lastrep = <<>>
  /\ pushed = <<>> /\ clock = 0 /\ ncol = 0 /\ nrec = 0 /\ flags = {} /\ curreps = <<>> /\ hist = <<>>

TCfg ==
  /\ Is("Cfg")
  /\ kinds' = Ev.kinds /\ temps' = Ev.temps /\ cbi' = Ev.cbi
  /\ \A c \in DOMAIN Ev.cbi : Ev.cbi[c] \in DOMAIN Ev.kinds /\ IsObs(Ev.kinds[Ev.cbi[c]])
  /\ reg' = {} /\ alive' = ObsInstrs(Ev.kinds)
  /\ tot' = [i \in DOMAIN Ev.kinds |-> Empty]
  /\ given' = [r \in DOMAIN Ev.temps |-> [i \in DOMAIN Ev.kinds |-> Empty]]
  /\ gsum' = [r \in DOMAIN Ev.temps |-> [i \in DOMAIN Ev.kinds |-> Empty]]
  /\ fresh' = [r \in DOMAIN Ev.temps |-> [i \in DOMAIN Ev.kinds |-> {}]]
  /\ cr' = 0 /\ todo' = {} /\ repnow' = [i \in DOMAIN Ev.kinds |-> {}]
  /\ nexec' = nexec + 1
  /\ Frozen /\ UNCHANGED devUsed

TAdd     == Is("Add") /\ Ev.c \in Cbs /\ P_Add(Ev.c) /\ Frozen /\ UNCHANGED <<cvars, nexec, devUsed>>
TRem     == Is("Rem") /\ Ev.c \in Cbs /\ P_Rem(Ev.c) /\ Frozen /\ UNCHANGED <<cvars, nexec, devUsed>>
TDestroy == Is("Destroy") /\ Ev.i \in Instrs /\ P_Destroy(Ev.i) /\ Frozen /\ UNCHANGED <<cvars, nexec, devUsed>>
TRec     == Is("Rec") /\ Ev.i \in Instrs /\ P_Rec(Ev.i, Ev.a, Ev.v) /\ Frozen /\ UNCHANGED <<cvars, nexec, devUsed>>
TBegin   == Is("Begin") /\ Ev.r \in Readers /\ P_Begin(Ev.r) /\ Frozen /\ UNCHANGED <<cvars, nexec, devUsed>>

\* a callback the SDK invoked: it must be one that is still owed an invocation in this collection
TCb ==
  /\ Is("Cb")
  /\ "stray" \notin DOMAIN Ev
  /\ Ev.c \in Cbs /\ NoDup(Ev.rep)
  /\ P_Invoke(Ev.c, ToMap(Ev.rep))
  /\ Frozen /\ UNCHANGED <<cvars, nexec, devUsed>>

\* the collection ends: nobody is still owed an invocation, and what the reader got is allowed
TEnd ==
  /\ Is("End")
  /\ Ev.r = cr /\ P_EndOK
  /\ "notes" \notin DOMAIN Ev
  /\ DOMAIN Ev.pts = Instrs
  /\ \A i \in Instrs : NoDup(Ev.pts[i])
  /\ LET o == [i \in Instrs |-> ToMap(Ev.pts[i])]
     IN /\ \A i \in Instrs : Conforms(Want(cr, i), o[i])
        /\ P_End(cr, o)
  /\ Frozen /\ UNCHANGED <<cvars, nexec, devUsed>>

TNext == TCfg \/ TAdd \/ TRem \/ TDestroy \/ TRec \/ TBegin \/ TCb \/ TEnd
TSpec == TInit /\ [][TNext]_tvars

Progress == TLCSet(1, IF l > TLCGet(1) THEN l ELSE TLCGet(1))
\* POSTCONDITION: the whole log was consumed; otherwise print the 1-based index of the first
\* event that no action could consume
Accepted == IF TLCGet(1) = Len(TraceLog) + 1 THEN TRUE
            ELSE PrintT(<<"REJECTED_AT", TLCGet(1)>>) /\ FALSE
Report == (l = Len(TraceLog) + 1) => (PrintT(<<"ACCEPTED", nexec>>) /\ PrintT(<<"DEVUSED", devUsed>>))
=============================================================================
