\* prints every behaviour of 4 operations as JSON (BEH lines) and the rare conditions found (WIT lines)
CONSTANTS NVar = 3  UVars = {}  BVars = {"c"}  NObj = 2  MKind = "none"  Hist = TRUE  Depth = 4
          Dev = {"shared-self-copy-assign-sole-owner"}
INIT Init
NEXT Next
INVARIANTS EmitAll WitAll
