--------------------------- MODULE CircularBuffer ---------------------------
(***************************************************************************)
(* Level B (implementation-shaped) model of                               *)
(*   sdk/include/opentelemetry/sdk/common/circular_buffer.h               *)
(*   sdk/include/opentelemetry/sdk/common/atomic_unique_ptr.h             *)
(* One action per atomic operation of the C++ (measured 1:1 under the     *)
(* scheduler shim with -DNDEBUG):                                          *)
(*   Add      = load(tail) load(head) [full -> return false]              *)
(*              cas_weak(slot[head % cap], null -> elem)                   *)
(*              cas_weak(head, h -> h+1)  [fail -> exchange(slot) undo]    *)
(*   size()   = load(tail) load(head)                                      *)
(*   Consume(n, cb) = load(tail) load(head) (PeekImpl)  fetch_add(tail,n)  *)
(*              then one exchange(slot, null) per element                  *)
(* Producers: a set of threads each adding NElem elements in order.       *)
(* One consumer that repeatedly reads size() and consumes 1..size.        *)
(* Ghost variables carry the property C11 (exactly once, per-producer     *)
(* order, legitimate failure, bounded, no leak).                          *)
(***************************************************************************)
EXTENDS Naturals, Sequences, FiniteSets, TLC, Json

CONSTANTS NProd,        \* number of producers (1..NProd)
          NElem,        \* elements each producer tries to add
          MaxSize,      \* max_size given to the constructor; capacity_ = MaxSize + 1
          SpuriousCAS,  \* BOOLEAN: compare_exchange_weak may fail spuriously
          Hist,         \* BOOLEAN: record the behaviour in `hist` (generation runs only)
          Retry         \* BOOLEAN: a producer whose Add failed retries the same element later

Cap   == MaxSize + 1
Prod  == 1..NProd
Null  == 0
Elem(p, k) == p * 10 + k
ElemP(e) == e \div 10
ElemK(e) == e % 10

VARIABLES head, tail, slot,
          pc, k, lt, lh, held,          \* producers
          cpc, clt, clh, cn, cbase, ci,  \* consumer
          out, res, started, failedCnt, consAtStart, \* ghosts
          flags,                         \* ghost: which rare steps happened (for witnesses)
          hist                           \* behaviour export (hidden by VIEW)

bvars == <<head, tail, slot, pc, k, lt, lh, held, cpc, clt, clh, cn, cbase, ci,
           out, res, started, failedCnt, consAtStart, flags>>
vars  == <<bvars, hist>>

Snap == [head |-> head', tail |-> tail', slot |-> slot']
Rec(t, a, r) == hist' = IF ~Hist THEN hist ELSE Append(hist, [t |-> t, a |-> a, r |-> r, head |-> head', tail |-> tail',
                                      slot |-> [i \in 1..Cap |-> slot'[i - 1]]])
Flag(f) == flags' = flags \cup f

Init ==
  /\ head = 0 /\ tail = 0
  /\ slot = [i \in 0..(Cap - 1) |-> Null]
  /\ pc = [p \in Prod |-> "start"]
  /\ k = [p \in Prod |-> 1]
  /\ lt = [p \in Prod |-> 0] /\ lh = [p \in Prod |-> 0]
  /\ held = [p \in Prod |-> Null]
  /\ cpc = "size_lt" /\ clt = 0 /\ clh = 0 /\ cn = 0 /\ cbase = 0 /\ ci = 0
  /\ out = <<>>
  /\ res = [e \in {} |-> "none"]
  /\ started = 0 /\ failedCnt = 0
  /\ consAtStart = [p \in Prod |-> 0]
  /\ hist = <<>>
  /\ flags = {}

(* ---- producer ------------------------------------------------------- *)
\* ghost step merged with the first load: the call starts, the harness samples consumption_count
PLoadTail(p) ==
  /\ pc[p] \in {"start", "ld_tail"}
  /\ k[p] <= NElem
  /\ IF pc[p] = "start"
       THEN /\ started' = started + 1
            /\ consAtStart' = [consAtStart EXCEPT ![p] = tail]
            /\ held' = [held EXCEPT ![p] = Elem(p, k[p])]
       ELSE UNCHANGED <<started, consAtStart, held>>
  /\ lt' = [lt EXCEPT ![p] = tail]
  /\ pc' = [pc EXCEPT ![p] = "ld_head"]
  /\ UNCHANGED <<head, tail, slot, k, lh, cpc, clt, clh, cn, cbase, ci, out, res, failedCnt>>
  /\ Rec(p, "ld_tail", tail) /\ Flag({})

PLoadHead(p) ==
  /\ pc[p] = "ld_head"
  /\ IF head - lt[p] >= Cap - 1
       THEN \* full: Add returns false, the element stays with the caller
            /\ res' = res @@ (held[p] :> "full")
            /\ failedCnt' = failedCnt + 1
            /\ IF Retry THEN pc' = [pc EXCEPT ![p] = "start"] /\ k' = k
                        ELSE pc' = [pc EXCEPT ![p] = "start"] /\ k' = [k EXCEPT ![p] = k[p] + 1]
            /\ held' = [held EXCEPT ![p] = Null]
            /\ UNCHANGED lh
       ELSE /\ lh' = [lh EXCEPT ![p] = head]
            /\ pc' = [pc EXCEPT ![p] = "swap"]
            /\ UNCHANGED <<res, failedCnt, k, held>>
  /\ UNCHANGED <<head, tail, slot, lt, cpc, clt, clh, cn, cbase, ci, out, started, consAtStart>>
  /\ Rec(p, "ld_head", head) /\ Flag(IF head - lt[p] >= Cap - 1 THEN {"full"} ELSE {})

PSwapIfNull(p) ==
  /\ pc[p] = "swap"
  /\ UNCHANGED <<head, tail, k, lt, lh, cpc, clt, clh, cn, cbase, ci, out, res, started, failedCnt, consAtStart>>
  /\ LET i == lh[p] % Cap IN
     \/ /\ slot[i] = Null
        /\ slot' = [slot EXCEPT ![i] = held[p]]
        /\ held' = [held EXCEPT ![p] = Null]
        /\ pc' = [pc EXCEPT ![p] = "cas_head"]
        /\ Rec(p, "swap", 1) /\ Flag({})
     \/ /\ slot[i] # Null
        /\ pc' = [pc EXCEPT ![p] = "ld_tail"]
        /\ UNCHANGED <<slot, held>>
        /\ Rec(p, "swap", 0) /\ Flag({"busy"})
     \/ /\ SpuriousCAS /\ slot[i] = Null
        /\ pc' = [pc EXCEPT ![p] = "ld_tail"]
        /\ UNCHANGED <<slot, held>>
        /\ Rec(p, "swap", 2) /\ Flag({"spur_swap"})

PCasHead(p) ==
  /\ pc[p] = "cas_head"
  /\ UNCHANGED <<tail, slot, lt, lh, held, cpc, clt, clh, cn, cbase, ci, out, started, failedCnt, consAtStart>>
  /\ \/ /\ head = lh[p]
        /\ head' = head + 1
        /\ res' = res @@ (Elem(p, k[p]) :> "ok")
        /\ k' = [k EXCEPT ![p] = k[p] + 1]
        /\ pc' = [pc EXCEPT ![p] = "start"]
        /\ Rec(p, "cas_head", 1) /\ Flag(IF head + 1 > Cap THEN {"wrap"} ELSE {})
     \/ /\ head # lh[p]
        /\ pc' = [pc EXCEPT ![p] = "undo"]
        /\ UNCHANGED <<head, res, k>>
        /\ Rec(p, "cas_head", 0) /\ Flag({"moved"})
     \/ /\ SpuriousCAS /\ head = lh[p]
        /\ pc' = [pc EXCEPT ![p] = "undo"]
        /\ UNCHANGED <<head, res, k>>
        /\ Rec(p, "cas_head", 2) /\ Flag({"spur_head"})

PUndo(p) ==
  /\ pc[p] = "undo"
  /\ LET i == lh[p] % Cap IN
     /\ held' = [held EXCEPT ![p] = slot[i]]
     /\ slot' = [slot EXCEPT ![i] = Null]
  /\ pc' = [pc EXCEPT ![p] = "ld_tail"]
  /\ UNCHANGED <<head, tail, k, lt, lh, cpc, clt, clh, cn, cbase, ci, out, res, started, failedCnt, consAtStart>>
  /\ Rec(p, "undo", held'[p]) /\ Flag({"undo"})

(* ---- consumer ------------------------------------------------------- *)
CSizeLt ==
  /\ cpc = "size_lt"
  /\ ~((\A p \in Prod : k[p] > NElem /\ pc[p] = "start") /\ head = tail)   \* harness consumer stops here
  /\ clt' = tail /\ cpc' = "size_lh"
  /\ UNCHANGED <<head, tail, slot, pc, k, lt, lh, held, clh, cn, cbase, ci, out, res, started, failedCnt, consAtStart>>
  /\ Rec(0, "size_lt", tail) /\ Flag({})

CSizeLh ==
  /\ cpc = "size_lh"
  /\ clh' = head
  /\ UNCHANGED <<head, tail, slot, pc, k, lt, lh, held, clt, cbase, ci, out, res, started, failedCnt, consAtStart>>
  /\ IF head - clt = 0
       THEN cpc' = "size_lt" /\ cn' = 0 /\ Rec(0, "size_lh", 0) /\ Flag({})
       ELSE \E n \in 1..(head - clt) : cn' = n /\ cpc' = "peek_lt" /\ Rec(0, "size_lh", n) /\ Flag({})

CPeekLt ==
  /\ cpc = "peek_lt"
  /\ cbase' = tail /\ cpc' = "peek_lh"
  /\ UNCHANGED <<head, tail, slot, pc, k, lt, lh, held, clt, clh, cn, ci, out, res, started, failedCnt, consAtStart>>
  /\ Rec(0, "peek_lt", tail) /\ Flag({})

CPeekLh ==
  /\ cpc = "peek_lh"
  /\ cpc' = "adv"
  /\ UNCHANGED <<head, tail, slot, pc, k, lt, lh, held, clt, clh, cn, cbase, ci, out, res, started, failedCnt, consAtStart>>
  /\ Rec(0, "peek_lh", head) /\ Flag({})

CAdv ==
  /\ cpc = "adv"
  /\ tail' = tail + cn
  /\ ci' = 0 /\ cpc' = "clr"
  /\ UNCHANGED <<head, slot, pc, k, lt, lh, held, clt, clh, cn, cbase, out, res, started, failedCnt, consAtStart>>
  /\ Rec(0, "adv", cn) /\ Flag({})

CClr ==
  /\ cpc = "clr"
  /\ UNCHANGED <<head, tail, pc, k, lt, lh, held, clt, clh, cn, cbase, res, started, failedCnt, consAtStart>>
  /\ LET i == (cbase + ci) % Cap IN
     /\ out' = Append(out, slot[i])
     /\ slot' = [slot EXCEPT ![i] = Null]
     /\ Rec(0, "clr", slot[i]) /\ Flag({})
  /\ ci' = ci + 1
  /\ cpc' = IF ci + 1 = cn THEN "size_lt" ELSE "clr"

Next == \/ \E p \in Prod : PLoadTail(p) \/ PLoadHead(p) \/ PSwapIfNull(p) \/ PCasHead(p) \/ PUndo(p)
        \/ CSizeLt \/ CSizeLh \/ CPeekLt \/ CPeekLh \/ CAdv \/ CClr

Spec == Init /\ [][Next]_vars

(* ---- properties (C11) ----------------------------------------------- *)
Range(s) == {s[i] : i \in 1..Len(s)}
ProdDone(p) == k[p] > NElem /\ pc[p] = "start"
Quiescent == (\A p \in Prod : ProdDone(p)) /\ cpc \in {"size_lt", "size_lh"}
Queued == {slot[j % Cap] : j \in tail..(head - 1)}

TypeOK == head \in Nat /\ tail \in Nat /\ tail <= head
Bounded == head - tail <= MaxSize
NoNullConsumed == \A i \in 1..Len(out) : out[i] # Null
NoDup == \A i, j \in 1..Len(out) : i # j => out[i] # out[j]
OnlyOk == \A i \in 1..Len(out) : out[i] \in DOMAIN res /\ res[out[i]] = "ok"
Order == \A i, j \in 1..Len(out) : (i < j /\ ElemP(out[i]) = ElemP(out[j])) => ElemK(out[i]) < ElemK(out[j])
NoLoss == Quiescent => \A e \in DOMAIN res : res[e] = "ok" => (e \in Range(out) \/ e \in Queued)
SlotsMatch == Quiescent => \A i \in 0..(Cap - 1) :
                 (slot[i] # Null) <=> (\E j \in tail..(head - 1) : j % Cap = i)
\* the statement's condition for a legitimate failure, evaluated at the step that decides "full"
FailLegit == \A p \in Prod : (pc[p] = "ld_head" /\ head - lt[p] >= Cap - 1)
                 => (started - failedCnt - 1) - consAtStart[p] >= MaxSize
\* a producer that undoes its swap gets its own element back (never somebody else's, never null)
UndoGetsOwn == \A p \in Prod : pc[p] = "undo" => slot[lh[p] % Cap] = Elem(p, k[p])
HeldOrPlaced == \A p \in Prod : pc[p] \in {"ld_head", "swap", "ld_tail"} => held[p] = Elem(p, k[p])

(* ---- behaviour export ------------------------------------------------ *)
View == bvars
Terminal == \A p \in Prod : ProdDone(p)
EmitAll == (Terminal /\ head = tail /\ cpc = "size_lt") => PrintT(<<"BEH", ToJson(hist)>>)
Finished == Terminal /\ head = tail /\ cpc = "size_lt"
\* witness idiom: print one shortest complete behaviour in which the rare step happened, then stop
Wit(f) == (f \in flags /\ Finished) => (PrintT(<<"BEH", ToJson(hist)>>) /\ FALSE)
WitUndo     == Wit("undo")
WitBusy     == Wit("busy")
WitFull     == Wit("full")
WitMoved    == Wit("moved")
WitSpurSwap == Wit("spur_swap")
WitSpurHead == Wit("spur_head")
WitWrap     == Wit("wrap")
=============================================================================
