---------------------------- MODULE QueueMonitor ----------------------------
(***************************************************************************)
(* Level A (property-level) monitor for C11, written as a trace spec: it  *)
(* accepts exactly the observable event sequences of a bounded            *)
(* multi-producer / single-consumer queue that the property allows.       *)
(* Events (one ndjson line each, in the engine's total order):            *)
(*   Cfg(np, ne, max)            new execution (resets the monitor)       *)
(*   AddCall(p, k, cons)         producer p starts adding its k-th        *)
(*                               element; cons = elements consumed so far *)
(*   AddRet(p, k, ok, kept, null) Add returned; kept: caller still owns   *)
(*                               the element; null: caller's ptr is null  *)
(*   Consume(n, sz, items)       consumer took n after seeing size sz     *)
(*   Destroyed(id, t)            destructor of element id ran on thread t *)
(*   End(live, drained)          all threads joined, buffer destroyed     *)
(*   Stuck                       the engine found a deadlock/livelock     *)
(***************************************************************************)
EXTENDS Naturals, Sequences, FiniteSets, TLC, Json, IOUtils

TraceLog == ndJsonDeserialize(IOEnv.TRACE)

VARIABLES l, max, calls, consAt, started, failed, retOk, retFail, consumed, lastK, destroyed, nexec

vars == <<l, max, calls, consAt, started, failed, retOk, retFail, consumed, lastK, destroyed, nexec>>

Ev == TraceLog[l]
Is(e) == l <= Len(TraceLog) /\ Ev.e = e /\ l' = l + 1
Id(p, k) == p * 10 + k
PofId(e) == e \div 10
KofId(e) == e % 10

Init == /\ TLCSet(1, 0)
        /\ l = 1 /\ max = 0 /\ calls = {} /\ consAt = <<>> /\ started = 0 /\ failed = 0
        /\ retOk = {} /\ retFail = {} /\ consumed = {} /\ lastK = <<>> /\ destroyed = {} /\ nexec = 0

TCfg == /\ Is("Cfg")
        /\ max' = Ev.max /\ calls' = {} /\ consAt' = <<>> /\ started' = 0 /\ failed' = 0
        /\ retOk' = {} /\ retFail' = {} /\ consumed' = {} /\ destroyed' = {}
        /\ lastK' = [p \in 1..Ev.np |-> 0]
        /\ nexec' = nexec + 1

TAddCall == /\ Is("AddCall")
            /\ LET e == Id(Ev.p, Ev.k) IN
               /\ e \notin calls
               /\ Ev.k = 1 + Cardinality({c \in calls : PofId(c) = Ev.p})   \* own order
               /\ calls' = calls \cup {e}
               /\ consAt' = consAt @@ (e :> Ev.cons)
            /\ started' = started + 1
            /\ UNCHANGED <<max, failed, retOk, retFail, consumed, lastK, destroyed, nexec>>

TAddRet == /\ Is("AddRet")
           /\ LET e == Id(Ev.p, Ev.k) IN
              /\ e \in calls /\ e \notin retOk /\ e \notin retFail
              /\ IF Ev.ok
                   THEN /\ ~Ev.kept /\ Ev.null          \* ownership moved into the queue
                        /\ e \notin destroyed \/ e \in consumed
                        /\ retOk' = retOk \cup {e} /\ UNCHANGED <<retFail, failed>>
                   ELSE /\ Ev.kept                       \* a failed Add leaves the element with the caller
                        /\ e \notin consumed /\ e \notin destroyed
                        \* FailLegit: producers started before it finished (not themselves failed),
                        \* minus what was consumed before it started, fill the capacity
                        /\ (started - failed - 1) - consAt[e] >= max
                        /\ retFail' = retFail \cup {e} /\ failed' = failed + 1 /\ UNCHANGED retOk
           /\ UNCHANGED <<max, calls, consAt, started, consumed, lastK, destroyed, nexec>>

RECURSIVE OrderOK(_, _)
OrderOK(items, lk) ==
  IF items = <<>> THEN TRUE
  ELSE LET e == Head(items) IN
       /\ KofId(e) > lk[PofId(e)]
       /\ OrderOK(Tail(items), [lk EXCEPT ![PofId(e)] = KofId(e)])
RECURSIVE Advance(_, _)
Advance(items, lk) ==
  IF items = <<>> THEN lk
  ELSE Advance(Tail(items), [lk EXCEPT ![PofId(Head(items))] = KofId(Head(items))])

TConsume == /\ Is("Consume")
            /\ LET it == Ev.items IN
               /\ Len(it) = Ev.n /\ Ev.n >= 1
               /\ Ev.sz <= max /\ Ev.n <= Ev.sz                      \* bounded
               /\ \A i \in 1..Len(it) : /\ it[i] # 0                 \* never an empty slot
                                        /\ it[i] \in calls           \* only added elements
                                        /\ it[i] \notin retFail      \* never a failed one
                                        /\ it[i] \notin consumed     \* exactly once
                                        /\ it[i] \notin destroyed    \* still alive
               /\ \A i, j \in 1..Len(it) : i # j => it[i] # it[j]
               /\ OrderOK(it, lastK)                                  \* each producer's own order
               /\ consumed' = consumed \cup {it[i] : i \in 1..Len(it)}
               /\ lastK' = Advance(it, lastK)
            /\ UNCHANGED <<max, calls, consAt, started, failed, retOk, retFail, destroyed, nexec>>

TDestroyed == /\ Is("Destroyed")
              /\ Ev.id \in calls
              /\ Ev.id \notin destroyed                               \* never freed twice
              /\ destroyed' = destroyed \cup {Ev.id}
              /\ UNCHANGED <<max, calls, consAt, started, failed, retOk, retFail, consumed, lastK, nexec>>

TEnd == /\ Is("End")
        /\ Ev.live = 0 /\ destroyed = calls                            \* no leak
        /\ Ev.drained => (\A e \in retOk : e \in consumed)             \* every successful Add consumed
        /\ \A e \in consumed : e \in retOk
        /\ calls = retOk \cup retFail
        /\ UNCHANGED <<max, calls, consAt, started, failed, retOk, retFail, consumed, lastK, destroyed, nexec>>

\* "Stuck" is never accepted: the queue operations are wait-free/lock-free for the harness scenarios
Next == TCfg \/ TAddCall \/ TAddRet \/ TConsume \/ TDestroyed \/ TEnd

Spec == Init /\ [][Next]_vars

Progress == TLCSet(1, IF l > TLCGet(1) THEN l ELSE TLCGet(1))
\* POSTCONDITION: the whole log was consumed; otherwise print the 1-based index of the first
\* event that no action of the monitor could consume
Accepted == IF TLCGet(1) = Len(TraceLog) + 1 THEN TRUE
            ELSE PrintT(<<"REJECTED_AT", TLCGet(1)>>) /\ FALSE
Report == (l = Len(TraceLog) + 1) => PrintT(<<"ACCEPTED", nexec>>)
=============================================================================
