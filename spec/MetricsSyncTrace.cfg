\* Example (the checks write this file with Dev = the deviation names of the property being checked):
\*   TRACE=log.ndjson tlc -workers 1 -config MetricsSyncTrace.cfg MetricsSyncTrace.tla
CONSTANTS Dev = {}  DefLimit = 2000  CheckTime = TRUE
INIT Init
NEXT Next
CONSTRAINT Progress
INVARIANT Report
POSTCONDITION Accepted
CHECK_DEADLOCK FALSE
