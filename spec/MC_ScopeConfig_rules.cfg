\* exhaustive: EVERY rule list of <= 3 rules over 5 matchers x {enable, disable}, both defaults,
\* against 5 scope identities (one Get + one Emit per behaviour)
CONSTANTS
  SignalSet <- SignalOne  MatcherSet <- Matchers5  ScopeSet <- Scopes5
  MaxRules = 3  MaxGets = 1  MaxEmits = 1  Dev <- NoDev  Hist = FALSE
INIT Init
NEXT Next
VIEW View
INVARIANTS FirstMatchWins DisabledEmitsNothingOthersUnaffected DifferentlyNamedUnaffected SameArgsSameObject DifferentArgsDifferentObject DevNarrow
