\* the deviation alternatives handed to the replayer are narrow: each one differs from the ideal
\* expectation only in its own situation (all tables; the rounding case needs ranks 3,4 and boundary 3)
CONSTANTS MaxRank = 6
  BoundSets = {{}, {3}, {1,3,5}, {0,5}}
  Tables = {"D_small", "D_tiny", "I_small", "I_huge", "I_frac"}
  MMChoices = {TRUE, FALSE}
  Mode = "direct" NSlots = 2 NKeys = 1 ReaderCfgs = {1}
  MaxAgg = 2 MaxOps = 3 Balanced = FALSE Dev = {} Hist = FALSE
INIT Init
NEXT Next
VIEW View
CONSTRAINT Bound
INVARIANTS TypeOK PointIsSummary DevsAreNarrow DiffAltOnlyAfterDiff
