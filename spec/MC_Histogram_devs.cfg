\* deviation alternatives are narrow (tables D_small, D_tiny, I_huge)
\* (tools/props/C07.py generates the same text; thorough tier uses larger constants)
CONSTANTS MaxRank = 6
  BoundSets = {{3}, {1,3,5}} BOff = 0
  Tables = {"D_small", "D_tiny", "I_huge"}
  MMChoices = {TRUE, FALSE}
  Mode = "direct" NSlots = 2 NKeys = 1 ReaderCfgs = {1}
  MaxAgg = 2 MaxOps = 2 Balanced = FALSE Hist = FALSE
  Dev = {}
INIT Init
NEXT Next
VIEW View
CONSTRAINT Bound
INVARIANTS TypeOK PointIsSummary DevsAreNarrow DiffAltOnlyAfterDiff
