CONSTANTS
  Threads <- T4  ScopeSet <- Scopes2  MaxGets = 1000  Atomic = TRUE
INIT TInit
NEXT TNext
CONSTRAINT Progress
INVARIANTS Report TraceInv
POSTCONDITION Accepted
CHECK_DEADLOCK FALSE
