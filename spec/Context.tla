------------------------------- MODULE Context -------------------------------
(***************************************************************************)
(* Property C10 - contexts are immutable values; the runtime context is a *)
(* per-thread stack with out-of-order detach.                              *)
(*                                                                         *)
(* API-level reference state machine for                                   *)
(*   api/include/opentelemetry/context/context.h          (Context)        *)
(*   api/include/opentelemetry/context/runtime_context.h  (RuntimeContext, *)
(*                                                         Token)          *)
(*   api/include/opentelemetry/trace/scope.h, tracer.h    (Scope,          *)
(*                                                         GetCurrentSpan) *)
(*                                                                         *)
(* Contexts are VALUES: context id c (0 = the empty context) denotes the   *)
(* total function val[c] : Keys -> Val \cup {0} (0 = key absent).          *)
(* SetValue / SetValues create a NEW id; nothing ever changes an old one.  *)
(* A TOKEN is an object of its own: Attach creates token k for context     *)
(* tok[k]; the program may keep it after it was detached, detach it again  *)
(* and destroy it at any later time on any thread (its destructor          *)
(* detaches).  All the API lets a token be compared with is the context it *)
(* was created for, so Detach(token k) matches the MOST RECENT occurrence  *)
(* of the context tok[k] on the calling thread's stack and unwinds         *)
(* everything above it; a token whose context is not on the calling        *)
(* thread's stack (already detached = STALE, or attached by another        *)
(* thread) changes nothing - whatever happened to its context meanwhile:   *)
(* a token does not keep its context nameable, every handle of the context *)
(* may be dropped while the token lives (the real object may then die) and *)
(* contexts created later are DIFFERENT contexts (new ids), so a stale     *)
(* token can never match them.                                             *)
(*                                                                         *)
(* The program holds HANDLES to contexts (`live`).  Dropping a handle        *)
(* (DropContext) may destroy the real object - in any order relative to    *)
(* its parents and children - and must not change what any other context   *)
(* answers: `val` is never touched.  A dropped context may still be on a   *)
(* stack or inside a token; it can no longer be named by the program.      *)
(*                                                                         *)
(* Key 1 is the active-span key ("active_span").  Values 1..NV are plain   *)
(* values, 100+s is span s.                                                *)
(*                                                                         *)
(* Left open on purpose (the statement is silent): the boolean returned    *)
(* by Detach of an empty-context token on an empty stack (ok = 2).         *)
(***************************************************************************)
EXTENDS Integers, Sequences, FiniteSets, TLC, Json

CONSTANTS NT,         \* threads 1..NT
          NK,         \* keys 1..NK   (key 1 = active-span key)
          NV,         \* plain values 1..NV
          NS,         \* spans 1..NS  (as context value: 100 + s)
          MaxCtx,     \* bound on the number of contexts created (SetValue, SetValues and Scope)
          MaxSet,     \* bound on the number of contexts created by SetValue / SetValues
          MaxDepth,   \* bound on the depth of a thread's stack
          MaxMap,     \* SetValues maps bind at most MaxMap keys
          MaxDrop,    \* bound on the number of dropped context handles
          MaxTok,     \* bound on the number of token objects alive at the same time
          SampleToks, \* random walks only (TLC enumerates EVERY successor of every step): > 0 = detach / destroy candidates
                      \* are the newest token object and SampleToks - 1 randomly drawn ones; 0 = every live token object
          WithEmpty,  \* BOOLEAN: the empty ContextValue{} (monostate) can be bound ("clear a key")
          GenDepth,   \* generation runs: length of an exported behaviour
          DeepTarget, \* generation runs: stack depth that sets the flag "deep"
          Hist,       \* BOOLEAN: record behaviour + rare-condition flags (generation runs only)
          KeepFlags,  \* BOOLEAN: record the rare-condition flags only (coverage of trace validation)
          Dev         \* set of named deviations (none is known for C10; Dev = {} is the ideal)

Threads == 1..NT
Keys    == 1..NK
SpanKey == 1
\* Binding a key to the EMPTY ContextValue is a binding like any other: it is the most recent one, so it
\* shadows an older non-empty binding - GetValue answers the empty value and HasKey (documented as
\* "GetValue is not empty") answers false, exactly as for a key that was never bound.
Empty   == 99
Val     == (1..NV) \cup {100 + s : s \in 1..NS} \cup (IF WithEmpty THEN {Empty} ELSE {})
Seen(v) == IF v = Empty THEN 0 ELSE v          \* what GetValue / HasKey make of a bound value
IsSpan(v) == v > 100

VARIABLES val,      \* Seq: val[c] \in [Keys -> Val \cup {0}]   the value of context c
          origin,   \* ghost Seq: origin[c] = [p |-> parent id, m |-> [Keys -> Val \cup {0}], sc |-> made by a Scope]
          stack,    \* [Threads -> Seq([c |-> ctx id, before |-> ctx id current before the Attach])]
          tok,      \* Seq: tok[k] = the context token object k was returned for by Attach; -1 = object destroyed
          scopes,   \* context ids owned by a live trace::Scope
          live,     \* context ids the program still holds a handle to (0, the empty context, always is)
          phase,    \* ghost per thread: 0 start, 1 deep (>= DeepTarget) reached, 2 unwound to <= 3, 3 deep again
          last,     \* the last operation (for the action properties and the export)
          flags,    \* ghost (generation / coverage runs): [f |-> rare conditions seen so far,
                    \*        dn |-> for every context c that became UNREFERENCED (handle dropped and on no stack: only
                    \*               token objects may still know it), [n |-> number of contexts that existed then,
                    \*               pop |-> it happened when its last frame was popped (not when the handle was dropped)]]
          hist      \* behaviour export

bvars == <<val, origin, stack, tok, scopes, live, phase>>
vars  == <<val, origin, stack, tok, scopes, live, phase, last, flags, hist>>

NCtx     == Len(val)
NSet     == Cardinality({c \in 1..Len(val) : ~origin[c].sc})
Ctxs     == 0..NCtx
Value(V, c, k) == IF c = 0 THEN 0 ELSE V[c][k]
Cur(S, t) == IF S[t] = <<>> THEN 0 ELSE S[t][Len(S[t])].c
SpanOf(V, c) == LET v == Value(V, c, SpanKey) IN IF IsSpan(v) THEN v - 100 ELSE 0
CurSpan(V, S, t) == SpanOf(V, Cur(S, t))
Max(S) == CHOOSE x \in S : \A y \in S : y <= x
Occ(S, t, c) == {i \in 1..Len(S[t]) : S[t][i].c = c}

LiveToks == {k \in 1..Len(tok) : tok[k] # -1}
TokBag   == [c \in Ctxs |-> Cardinality({k \in LiveToks : tok[k] = c})]   \* tokens of one context are interchangeable

NoOp == [op |-> "Init", t |-> 0, c |-> 0, k |-> 0, v |-> 0, m |-> <<>>, ok |-> 1, n |-> 0, tk |-> 0,
         stale |-> FALSE]    \* ghost: the FIRST operation of the behaviour that detaches / destroys a stale token or scope

\* the observable projection after a step: what every thread sees as current context / active
\* span, and what EVERY context created so far answers for EVERY key
Obs == [cur  |-> [t \in Threads |-> Cur(stack', t)],
        span |-> [t \in Threads |-> CurSpan(val', stack', t)],
        tab  |-> [c \in 1..Len(val') |-> val'[c]],
        live |-> [c \in 1..Len(val') |-> c \in live']]
Rec(l) == /\ last' = l
          /\ hist' = IF Hist THEN Append(hist, l @@ Obs) ELSE hist
FlagD(f, d) == flags' = IF Hist \/ KeepFlags THEN [f |-> flags.f \cup f, dn |-> d] ELSE flags
Flag(f) == FlagD(f, flags.dn)
NoFlags == [f |-> {}, dn |-> <<>>]
\* contexts among `cands` that the step leaves unreferenced (evaluated AFTER stack' and live' are assigned)
Unref(cands, pop) ==
  LET gone == {c \in cands : /\ c # 0 /\ c \notin DOMAIN flags.dn /\ c \notin live'
                             /\ \A u \in Threads : \A i \in 1..Len(stack'[u]) : stack'[u][i].c # c} IN
  flags.dn @@ [c \in gone |-> [n |-> Len(val'), pop |-> pop]]
\* the contexts of the frames that Detach / ~Token / ~Scope of context c pops on thread t
Popped(t, c) == LET o == {i \in 1..Len(stack[t]) : stack[t][i].c = c} IN
                IF o = {} THEN {}
                ELSE {stack[t][i].c : i \in (CHOOSE x \in o : \A y \in o : y <= x)..Len(stack[t])}

Init == /\ val = <<>> /\ origin = <<>>
        /\ stack = [t \in Threads |-> <<>>]
        /\ tok = <<>> /\ scopes = {} /\ live = {} /\ phase = [t \in Threads |-> 0]
        /\ last = NoOp /\ flags = NoFlags /\ hist = <<>>

Handles == live \cup {0}
\* growth / unwinding cycle of a thread's stack (ghost; only moves when DeepTarget is reachable)
NextPhase(ph, d) == IF ph \in {0, 2} /\ d >= DeepTarget THEN ph + 1
                    ELSE IF ph = 1 /\ d <= 3 THEN 2 ELSE ph
Phase(t) == phase' = [phase EXCEPT ![t] = NextPhase(@, Len(stack'[t]))]
Derive(p, m) == [k \in Keys |-> IF m[k] # 0 THEN Seen(m[k]) ELSE Value(val, p, k)]
MapSeq(m) == [k \in 1..NK |-> m[k]]

(* ---- Context::SetValue / RuntimeContext::SetValue ---------------------- *)
SetValue(t, p, k, v) ==
  /\ NCtx < MaxCtx /\ NSet < MaxSet /\ p \in Handles /\ k \in Keys /\ v \in Val
  /\ LET m == [j \in Keys |-> IF j = k THEN v ELSE 0] IN
     /\ val' = Append(val, Derive(p, m))
     /\ origin' = Append(origin, [p |-> p, m |-> m, sc |-> FALSE])
  /\ live' = live \cup {NCtx + 1}
  /\ UNCHANGED <<stack, tok, scopes, phase>>
  /\ Rec([NoOp EXCEPT !.op = "SetValue", !.t = t, !.c = p, !.k = k, !.v = v, !.n = NCtx + 1])
  /\ Flag((IF Value(val, p, k) # 0 THEN {"shadow"} ELSE {}) \cup
          (IF v = Empty /\ Value(val, p, k) # 0 THEN {"clear_key"} ELSE {}) \cup
          (IF v = Empty /\ k = SpanKey /\ IsSpan(Value(val, p, k)) THEN {"clear_span_key"} ELSE {}) \cup
          (IF p # 0 /\ \E q \in 1..NCtx : q # p /\ origin[q].p = p THEN {"sibling"} ELSE {}))

(* ---- Context::SetValues(map): no duplicate keys inside one map ---------- *)
Maps == {m \in [Keys -> Val \cup {0}] : Cardinality({k \in Keys : m[k] # 0}) <= MaxMap}
SetValues(t, p, m) ==
  /\ NCtx < MaxCtx /\ NSet < MaxSet /\ p \in Handles
  /\ val' = Append(val, Derive(p, m))
  /\ origin' = Append(origin, [p |-> p, m |-> m, sc |-> FALSE])
  /\ live' = live \cup {NCtx + 1}
  /\ UNCHANGED <<stack, tok, scopes, phase>>
  /\ Rec([NoOp EXCEPT !.op = "SetValues", !.t = t, !.c = p, !.m = MapSeq(m), !.n = NCtx + 1])
  /\ Flag((IF \A k \in Keys : m[k] = 0 THEN {"emptymap"} ELSE {}) \cup
          (IF \E k \in Keys : m[k] # 0 /\ Value(val, p, k) # 0 THEN {"shadowmap"} ELSE {}) \cup
          (IF \E k \in Keys : m[k] = Empty /\ Value(val, p, k) # 0 THEN {"clear_key_map"} ELSE {}))

(* ---- RuntimeContext::Attach -------------------------------------------- *)
Attach(t, c) ==
  /\ c \in Handles /\ Len(stack[t]) < MaxDepth /\ Cardinality(LiveToks) < MaxTok
  /\ stack' = [stack EXCEPT ![t] = Append(@, [c |-> c, before |-> Cur(stack, t)])]
  /\ tok' = Append(tok, c)                  \* a new token object; the caller owns it
  /\ Phase(t)
  /\ UNCHANGED <<val, origin, scopes, live>>
  /\ Rec([NoOp EXCEPT !.op = "Attach", !.t = t, !.c = c, !.tk = Len(tok) + 1])
  /\ Flag((IF Len(stack[t]) + 1 >= DeepTarget THEN {"deep"} ELSE {}) \cup
          (IF Occ(stack, t, c) # {} THEN {"reattach"} ELSE {}) \cup
          (IF phase[t] = 2 /\ Len(stack[t]) + 1 >= DeepTarget THEN {"regrow"} ELSE {}))

(* ---- RuntimeContext::Detach(token k), c = tok[k] the context it was created for ---- *)
Unwind(t, c) == IF Occ(stack, t, c) = {} THEN stack
                ELSE [stack EXCEPT ![t] = SubSeq(@, 1, Max(Occ(stack, t, c)) - 1)]
\* a STALE token / scope (its context c is unreferenced: every handle dropped, on no stack, nothing was ever derived
\* from it - the real object is gone) while a context created AFTER that moment is current on the calling thread:
\* it still changes nothing
StaleGone(t, c) == /\ c \in DOMAIN flags.dn /\ stack[t] # <<>>
                   /\ stack[t][Len(stack[t])].c > flags.dn[c].n
                   /\ \A q \in 1..NCtx : origin[q].p # c
StaleOps == {"stale_detach", "stale_dtor", "stale_scope_exit"}
FirstStale(t, c) == (Hist \/ KeepFlags) /\ Occ(stack, t, c) = {} /\ StaleGone(t, c) /\ flags.f \cap StaleOps = {}
DetachFlags(t, c) ==
  LET o == Occ(stack, t, c) IN
  IF o = {} THEN (IF stack[t] # <<>> THEN {"foreign"} ELSE {}) \cup
                 (IF \E u \in Threads : u # t /\ Occ(stack, u, c) # {} THEN {"foreign_xthread"} ELSE {}) \cup
                 (IF c = 0 /\ stack[t] = <<>> THEN {"empty_tok"} ELSE {}) \cup
                 (IF StaleGone(t, c) THEN {"stale_token_after_reuse"} ELSE {}) \cup
                 (IF StaleGone(t, c) /\ flags.dn[c].pop THEN {"stale_token_freed_by_pop"} ELSE {})
  ELSE (IF Max(o) < Len(stack[t]) THEN {"ooo"} ELSE {}) \cup
       (IF Cardinality(o) > 1 THEN {"dup"} ELSE {}) \cup
       (IF Cardinality(o) > 1 /\ Max(o) < Len(stack[t]) THEN {"dup_ooo"} ELSE {}) \cup
       (IF Len(stack[t]) >= 15 /\ Max(o) <= 6 THEN {"ooo_deep"} ELSE {}) \cup
       (IF Len(stack[t]) >= 31 /\ Max(o) <= 14 THEN {"ooo_deep2"} ELSE {}) \cup
       (IF Len(stack[t]) >= 15 /\ Max(o) - 1 <= 3 THEN {"unwind_to_small"} ELSE {}) \cup
       (IF phase[t] = 3 /\ Max(o) < Len(stack[t]) /\ Len(stack[t]) >= 15 /\ Max(o) <= 7 THEN {"ooo_after_regrow"} ELSE {})
Detach(t, k) ==
  /\ k \in LiveToks
  /\ LET c == tok[k] IN
     /\ stack' = Unwind(t, c)
     /\ Phase(t)
     /\ UNCHANGED <<val, origin, tok, scopes, live>>      \* the token object lives on: it may be used again
     /\ Rec([NoOp EXCEPT !.op = "Detach", !.t = t, !.c = c, !.tk = k, !.stale = FirstStale(t, c),
                         !.ok = IF Occ(stack, t, c) # {} THEN 1
                                ELSE IF c = 0 /\ stack[t] = <<>> THEN 2 ELSE 0])
     /\ FlagD(DetachFlags(t, c) \cup (IF StaleGone(t, c) THEN {"stale_detach"} ELSE {}), Unref(Popped(t, c), TRUE))

(* ---- ~Token: the program destroys token object k on thread t; the destructor detaches (no result observable) *)
DestroyToken(t, k) ==
  /\ k \in LiveToks
  /\ LET c == tok[k] IN
     /\ stack' = Unwind(t, c)
     /\ tok' = [tok EXCEPT ![k] = -1]
     /\ Phase(t)
     /\ UNCHANGED <<val, origin, scopes, live>>
     /\ Rec([NoOp EXCEPT !.op = "TokenDtor", !.t = t, !.c = c, !.tk = k, !.ok = 2, !.stale = FirstStale(t, c)])
     /\ FlagD(DetachFlags(t, c) \cup (IF StaleGone(t, c) THEN {"stale_dtor"} ELSE {}) \cup
              (IF Occ(stack, t, c) # {} THEN {"dtor_detaches"} ELSE {}) \cup
              (IF Occ(stack, t, c) = {} /\ \E u \in Threads : u # t /\ Occ(stack, u, c) # {} THEN {"dtor_xthread"} ELSE {}),
              Unref(Popped(t, c), TRUE))

(* ---- trace::Scope(span): Attach(GetCurrent().SetValue(kSpanKey, span)) -- *)
ScopeEnter(t, s) ==
  /\ NCtx < MaxCtx /\ Len(stack[t]) < MaxDepth /\ s \in 1..NS
  /\ LET m == [j \in Keys |-> IF j = SpanKey THEN 100 + s ELSE 0]
         p == Cur(stack, t)
         n == NCtx + 1 IN
     /\ val' = Append(val, Derive(p, m))
     /\ origin' = Append(origin, [p |-> p, m |-> m, sc |-> TRUE])
     /\ stack' = [stack EXCEPT ![t] = Append(@, [c |-> n, before |-> p])]
     /\ scopes' = scopes \cup {n}     \* the Scope keeps its token private: no Detach(n) by hand
     /\ live' = live \cup {n}         \* (the program reads the new context with GetCurrent())
     /\ UNCHANGED tok
     /\ Phase(t)
     /\ Rec([NoOp EXCEPT !.op = "ScopeEnter", !.t = t, !.v = 100 + s, !.n = n])
  /\ Flag((IF SpanOf(val, Cur(stack, t)) # 0 THEN {"nested_scope"} ELSE {}) \cup
          (IF Len(stack[t]) + 1 >= DeepTarget THEN {"deep"} ELSE {}) \cup
          (IF phase[t] = 2 /\ Len(stack[t]) + 1 >= DeepTarget THEN {"regrow"} ELSE {}))

(* ---- ~Scope: the token's destructor detaches (no result observable) ------ *)
ScopeExit(t, c) ==
  /\ c \in scopes
  /\ stack' = Unwind(t, c)
  /\ scopes' = scopes \ {c}
  /\ Phase(t)
  /\ UNCHANGED <<val, origin, tok, live>>
  /\ Rec([NoOp EXCEPT !.op = "ScopeExit", !.t = t, !.c = c, !.ok = 2, !.stale = FirstStale(t, c)])
  /\ FlagD((IF Occ(stack, t, c) # {} /\ Max(Occ(stack, t, c)) < Len(stack[t]) THEN {"scope_ooo"} ELSE {}) \cup
           (IF Occ(stack, t, c) # {} /\ SpanOf(val, stack[t][Max(Occ(stack, t, c))].before) # 0
               THEN {"scope_restores_span"} ELSE {}) \cup
           (IF Occ(stack, t, c) # {} /\ c \notin live THEN {"scope_exit_destroys"} ELSE {}) \cup
           (IF Occ(stack, t, c) = {} /\ StaleGone(t, c) THEN {"stale_scope_exit"} ELSE {}),
           Unref(Popped(t, c), TRUE))

(* ---- the program drops its handle to context c (the object dies when nothing else refers to it) *)
Children(c) == {q \in live : origin[q].p = c}
DropContext(t, c) ==
  /\ c \in live /\ Cardinality((1..NCtx) \ live) < MaxDrop
  /\ live' = live \ {c}
  /\ UNCHANGED <<val, origin, stack, tok, scopes, phase>>
  /\ Rec([NoOp EXCEPT !.op = "Drop", !.t = t, !.c = c])
  /\ FlagD(LET p == origin[c].p
               attached == \E u \in Threads : Occ(stack, u, c) # {} IN
           (IF Children(c) = {} /\ p \in live THEN {"drop_child_first"} ELSE {}) \cup
           (IF ~attached /\ \E k \in LiveToks : tok[k] = c THEN {"drop_with_token_alive"} ELSE {}) \cup
           (IF Children(c) = {} /\ p \in live /\ origin[p].p # 0 /\ ~attached /\ \A k \in LiveToks : tok[k] # c
               THEN {"drop_leaf_of_chain"} ELSE {}) \cup
           (IF Children(c) # {} THEN {"drop_parent_first"} ELSE {}) \cup
           (IF Children(c) # {} /\ p \in live THEN {"drop_middle"} ELSE {}) \cup
           (IF attached THEN {"drop_attached"} ELSE {}),
           Unref({c}, FALSE))

(* ---- generation runs only: a closing no-op step, so that a random walk ends in exactly one ---- *)
(* ---- exported behaviour (observations are still compared after it)                      ---- *)
End == /\ Hist /\ Len(hist) = GenDepth - 1
       /\ UNCHANGED bvars
       /\ Rec([NoOp EXCEPT !.op = "End", !.t = 1])
       /\ Flag({})

DoSetValue   == \E t \in Threads, p \in Ctxs, k \in Keys, v \in Val : SetValue(t, p, k, v)
DoSetValues  == \E t \in Threads, p \in Ctxs, m \in Maps : SetValues(t, p, m)
DoAttach     == \E t \in Threads, c \in Ctxs : Attach(t, c)
TokCands     == IF SampleToks = 0 \/ Cardinality(LiveToks) <= SampleToks THEN LiveToks
                ELSE {Max(LiveToks)} \cup {RandomElement(LiveToks) : i \in 1..(SampleToks - 1)}
DoDetach     == \E t \in Threads, k \in TokCands : Detach(t, k)
DoTokenDtor  == \E t \in Threads, k \in TokCands : DestroyToken(t, k)
DoScopeEnter == \E t \in Threads, s \in 1..NS : ScopeEnter(t, s)
DoScopeExit  == \E t \in Threads, c \in scopes : ScopeExit(t, c)
DoDrop       == \E t \in Threads, c \in live : DropContext(t, c)

Next == DoSetValue \/ DoSetValues \/ DoAttach \/ DoDetach \/ DoTokenDtor \/ DoScopeEnter \/ DoScopeExit \/ DoDrop \/ End
Spec == Init /\ [][Next]_vars

(* ======================= the property C10 ================================ *)
TypeOK == /\ Len(origin) = Len(val)
          /\ \A c \in 1..NCtx : val[c] \in [Keys -> Val \cup {0}] /\ origin[c].p \in 0..(c - 1)
          /\ \A t \in Threads : \A i \in 1..Len(stack[t]) : stack[t][i].c \in Ctxs
          /\ \A k \in 1..Len(tok) : tok[k] \in Ctxs \cup {-1}
          /\ scopes \subseteq Ctxs /\ live \subseteq 1..NCtx

\* "the most recent binding of a key is the one returned": walk the derivation chain
RECURSIVE Chain(_, _)
Chain(c, k) == IF c = 0 THEN 0
               ELSE IF origin[c].m[k] # 0 THEN Seen(origin[c].m[k]) ELSE Chain(origin[c].p, k)
MostRecentBinding == \A c \in 1..NCtx : \A k \in Keys : val[c][k] = Chain(c, k)
\* "new keys shadow older bindings", everything else is inherited from the parent
Shadowing == \A c \in 1..NCtx : \A k \in Keys :
               val[c][k] = IF origin[c].m[k] # 0 THEN Seen(origin[c].m[k]) ELSE Value(val, origin[c].p, k)
\* the stack restores, on Detach, exactly what was current before the matching Attach
StackFrames == \A t \in Threads : \A i \in 1..Len(stack[t]) :
                 stack[t][i].before = IF i = 1 THEN 0 ELSE stack[t][i - 1].c

\* ---- action properties (checked on every transition: PROPERTY [][..]_vars) ----
\* ... also when OTHER contexts (children, parents, siblings) are dropped: DropContext leaves val, the
\* stacks and every other handle alone
Immutable == [][/\ Len(val') >= Len(val)
                /\ \A c \in 1..Len(val) : val'[c] = val[c]
                /\ last'.op = "Drop" => (stack' = stack /\ live' = live \ {last'.c} /\ Len(val') = Len(val))]_vars
AttachMakesCurrent == [][last'.op = "Attach" => Cur(stack', last'.t) = last'.c]_vars
Matched(l) == Occ(stack, l.t, l.c) # {}
DetachRestores ==
  [][(last'.op \in {"Detach", "TokenDtor", "ScopeExit"} /\ Matched(last'))
        => LET t == last'.t
               i == Max(Occ(stack, t, last'.c)) IN
           /\ Cur(stack', t) = stack[t][i].before          \* what was current before the matching Attach
           /\ Len(stack'[t]) = i - 1                        \* everything attached above it is unwound
           /\ \A j \in Occ(stack, t, last'.c) : j <= i      \* most recent occurrence first
           /\ (last'.op = "Detach" => last'.ok = 1)]_vars
\* a foreign token - attached by another thread, or STALE (already detached), whatever happened to its context and
\* whichever contexts were created and attached since - changes nothing, when it is detached and when it is destroyed
ForeignTokenNoOp ==
  [][(last'.op \in {"Detach", "TokenDtor", "ScopeExit"} /\ ~Matched(last'))
        => stack' = stack /\ (last'.op = "Detach" => last'.ok \in {0, 2})]_vars
\* a token object stands for the context it was returned for, all its life; only its destructor ends it; handles
\* and tokens are independent (dropping every handle leaves the tokens alone, a token does not resurrect a handle)
TokenLifetime ==
  [][/\ Len(tok') >= Len(tok)
     /\ \A k \in 1..Len(tok) : tok'[k] = tok[k] \/ (last'.op = "TokenDtor" /\ last'.tk = k /\ tok'[k] = -1)
     /\ last'.op \in {"Detach", "TokenDtor"} => (last'.tk \in LiveToks /\ last'.c = tok[last'.tk] /\ live' = live)
     /\ last'.op = "Attach" => (tok' = Append(tok, last'.c) /\ last'.tk = Len(tok'))
     /\ last'.op \notin {"Attach", "TokenDtor"} => tok' = tok]_vars
ScopeActivates ==
  [][/\ last'.op = "ScopeEnter" => CurSpan(val', stack', last'.t) = last'.v - 100
     /\ (last'.op = "ScopeExit" /\ Matched(last'))
          => CurSpan(val', stack', last'.t) =
               SpanOf(val, stack[last'.t][Max(Occ(stack, last'.t, last'.c))].before)]_vars
ThreadsIsolated ==
  [][\A u \in Threads : u # last'.t => stack'[u] = stack[u]]_vars

(* ======================= behaviour export ================================ *)
View == <<val, origin, stack, TokBag, scopes, live, phase, flags>>
Bound == Len(hist) <= GenDepth
\* (TLC's simulator evaluates invariants on ALL successors of the current state, before it picks
\*  one: printing only after the closing End step gives exactly one line per random walk)
EmitAll == (Len(hist) = GenDepth /\ last.op = "End") => PrintT(<<"BEH", ToJson(hist)>>)
\* generation bias: build a deep stack first (crosses the 2/6/14/30/62 reallocation steps of the
\* real thread-local array), only then allow detaching
DeepFirst == ("deep" \notin flags.f) => last'.op \in {"Attach", "ScopeEnter", "SetValue", "SetValues"}
\* grow beyond DeepTarget, unwind to <= 3, grow beyond DeepTarget again, then anything (shrink-after-growth)
Grow == {"Attach", "ScopeEnter", "SetValue", "SetValues", "End"}
DeepCycle == LET t == last'.t IN
             (last'.op # "End") =>
               /\ phase[t] \in {0, 2} => last'.op \in Grow
               /\ phase[t] = 1 => last'.op \in {"Detach", "TokenDtor", "ScopeExit", "Drop"}
Closing == (Len(hist) = GenDepth - 1) => last'.op = "End"
\* every abstract state (small domain) in which a STALE token / scope is detached or destroyed, each with a shortest
\* behaviour leading to it: EmitStale as invariant, StopAtStale as action constraint (nothing follows the stale operation)
StaleView   == <<val, origin, stack, TokBag, scopes, live, flags.dn, flags.f \cap StaleOps>>
EmitStale   == last.stale => PrintT(<<"BEH", ToJson(hist)>>)
StopAtStale == flags.f \cap StaleOps = {}
Wit(f) == (f \in flags.f) => (PrintT(<<"BEH", ToJson(hist)>>) /\ FALSE)
WitShadow       == Wit("shadow")
WitSibling      == Wit("sibling")
WitEmptyMap     == Wit("emptymap")
WitShadowMap    == Wit("shadowmap")
WitClearKey     == Wit("clear_key")
WitClearSpanKey == Wit("clear_span_key")
WitClearKeyMap  == Wit("clear_key_map")
WitReattach     == Wit("reattach")
WitForeign      == Wit("foreign")
WitForeignX     == Wit("foreign_xthread")
WitEmptyTok     == Wit("empty_tok")
WitStaleDetach  == Wit("stale_detach")
WitStaleDtor    == Wit("stale_dtor")
WitStaleScope   == Wit("stale_scope_exit")
WitStalePop     == Wit("stale_token_freed_by_pop")
WitDropTokAlive == Wit("drop_with_token_alive")
WitDtorDetaches == Wit("dtor_detaches")
WitDtorX        == Wit("dtor_xthread")
WitOoo          == Wit("ooo")
WitDup          == Wit("dup")
WitDupOoo       == Wit("dup_ooo")
WitOooDeep      == Wit("ooo_deep")
WitOooDeep2     == Wit("ooo_deep2")
WitNestedScope  == Wit("nested_scope")
WitScopeOoo     == Wit("scope_ooo")
WitScopeRestore == Wit("scope_restores_span")
WitScopeDestroy == Wit("scope_exit_destroys")
WitDropChild    == Wit("drop_child_first")
WitDropLeaf     == Wit("drop_leaf_of_chain")
WitDropParent   == Wit("drop_parent_first")
WitDropMiddle   == Wit("drop_middle")
WitDropAttached == Wit("drop_attached")
WitUnwindSmall  == Wit("unwind_to_small")
WitRegrow       == Wit("regrow")
WitOooRegrow    == Wit("ooo_after_regrow")
=============================================================================
