\* Example: the design of the unchanged tree (all five deviations); every broken clause goes through one.
CONSTANTS
  Temps <- T_c
  InitReaders = 1
  Filters <- F_all
  AttrSeqs <- AS_five
  Limit = 3
  DefLimit = 4
  MaxHandles = 1
  Amounts <- AM_1
  MaxAdd = 5
  MaxCollect = 2
  MaxShutdown = 0
  AllOrders = FALSE
  Dev = {"delta-fastpath-start-at-sdk-start", "dup-handle-orphans-storage", "multi-view-last-wins", "explicit-limit-lost-after-first-interval", "merge-overwrites-overflow-at-default-limit"}
  Hist = FALSE
INIT Init
NEXT Next
VIEW View
INVARIANTS TypeOK OnlyListedDeviations
