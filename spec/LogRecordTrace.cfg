\* trace validation for C13; tools/props/C13.py generates the same file with Dev = the deviations currently listed as known
CONSTANTS NT = 3  NS = 6  PipeNames = {"s"}  NRes = 3
          MaxRecs = 1000000  MaxSets = 1000000  MaxArgs = 3  MaxFlush = 1000000  MaxNull = 1000000  MaxAdd = 1000000  LgSet = {1, 2, 3}
          MaxScope = 1000000  MaxNest = 3
          NSev = 6  NBody = 20  NTs = 20  NId = 5  NFl = 3  NAK = 12  NAV = 20  MaxMap = 12  NEv = 10  NName = 5
          GenDepth = 0  Hist = FALSE
          Dev = {"log-record-aliases-caller-buffers", "eventid-without-name-crashes"}
INIT TInit
NEXT TNext
CONSTRAINT Progress
INVARIANT Report
POSTCONDITION Accepted
CHECK_DEADLOCK FALSE
