CONSTANTS NI = 2  NR = 2  NC = 2  NA = 2
          KindSet = {"ocounter", "ogauge"}  TempSet = {"d", "c"}
          VC = {0, 1, 3}  VSP = {0, 2}  VSN = {1}
          MaxCol = 3  MaxRec = 0  Hist = FALSE  Ties = FALSE  Dev = {}
INIT Init
NEXT Next
VIEW View
INVARIANTS TypeOK EachCallbackOncePerCollection RemovedNeverInvoked OutAllowed
           CumulativeGetsReportedTotal DeltaIsDifferenceFromOwnLast GaugeIsLatest
