\* hand-runnable copy of the quick configuration `conv-2readers` (tools/props/C17.py generates all cfgs):
\*   tlc -deadlock -workers 4 -config MC_MetricsAsync.cfg MetricsAsync.tla
CONSTANTS NI = 1 NR = 2 NC = 1 NA = 2 RichA = 1
 KindSet = {"ocounter", "oupdown", "ogauge"} TempSet = {"d", "c"} VC = {1, 3} VSP = {2} VSN = {1}
 MaxCol = 3 MaxRec = 0 MaxLen = 0 Hist = FALSE Ties = FALSE Dev = {} WitSet = {}
INIT Init
NEXT Next
VIEW View
INVARIANTS TypeOK EachCallbackOncePerCollection RemovedNeverInvoked OutAllowed CumulativeGetsReportedTotal DeltaIsDifferenceFromOwnLast GaugeIsLatest

