----------------------------- MODULE Composite -----------------------------
(***************************************************************************)
(* C15 - CompositePropagator                                               *)
(*   api/include/opentelemetry/context/propagation/composite_propagator.h  *)
(* over every ORDERED subset of the built-in propagators                   *)
(*   tc  HttpTraceContext   (traceparent, tracestate)                      *)
(*   bag BaggagePropagator  (baggage)                                      *)
(*   b3  B3Propagator       (b3)                                           *)
(*   b3m B3PropagatorMultiHeader (X-B3-TraceId, X-B3-SpanId, X-B3-Sampled) *)
(*   jg  JaegerPropagator   (uber-trace-id)                                *)
(*                                                                         *)
(* Inject  = every configured part wrote its headers (in order; the parts  *)
(*           own disjoint header names), nothing else is written.          *)
(* Extract = left fold of the context through all parts in order.          *)
(*                                                                         *)
(* The parts are abstract: a trace part that UNDERSTANDS a valid header of  *)
(* the carrier installs the span context carried by that header (tcS, b3sS, *)
(* b3xS, jgS: different identities); absent / invalid headers leave the     *)
(* context as it is (pinned by C09/C16); bag installs the baggage of the    *)
(* header when valid.  The carrier is NOT assumed to come from the same     *)
(* composite's Inject: every wire format is present/absent independently of *)
(* the configured parts.  Both B3 parts understand BOTH B3 formats (C16:    *)
(* the single b3 header takes precedence over X-B3-x headers), although each      *)
(* injects - and lists in Fields() - only its own.  The one carrier shape   *)
(* whose reading C16 leaves open (b3 invalid, X-B3-x valid) is not used.    *)
(***************************************************************************)
EXTENDS Naturals, Sequences, FiniteSets, TLC, Json

CONSTANTS Hist,   \* BOOLEAN
          Menu    \* "inject" | "extract"

Parts == {"tc", "bag", "b3", "b3m", "jg"}
Perms(n) == {s \in [1..n -> Parts] : \A i, j \in 1..n : i # j => s[i] # s[j]}
Orders == UNION {Perms(n) : n \in 0..5}
Range(s) == {s[i] : i \in 1..Len(s)}

(* ---- extract ------------------------------------------------------------ *)
Status == {"absent", "valid", "invalid"}
\* header groups of the carrier: traceparent(+tracestate), b3 (single), X-B3-x (multi), uber-trace-id, baggage
Groups == {"tc", "b3s", "b3x", "jg", "bag"}
\* which identity a part takes from the carrier ("none": nothing it understands is valid)
B3Sees(car) == IF car["b3s"] # "absent" THEN (IF car["b3s"] = "valid" THEN "b3sS" ELSE "none")
               ELSE IF car["b3x"] = "valid" THEN "b3xS" ELSE "none"
Sees(p, car) == CASE p \in {"b3", "b3m"} -> B3Sees(car)
                  [] p = "tc"  -> IF car["tc"] = "valid" THEN "tcS" ELSE "none"
                  [] p = "jg"  -> IF car["jg"] = "valid" THEN "jgS" ELSE "none"
                  [] p = "bag" -> IF car["bag"] = "valid" THEN "hdrB" ELSE "none"
PartExtract(p, car, ctx) ==
  IF Sees(p, car) = "none" THEN ctx
  ELSE IF p = "bag" THEN [ctx EXCEPT !.bag = "hdrB"] ELSE [ctx EXCEPT !.span = Sees(p, car)]
RECURSIVE FoldExtract(_, _, _, _)
FoldExtract(parts, i, car, ctx) ==
  IF i > Len(parts) THEN ctx ELSE FoldExtract(parts, i + 1, car, PartExtract(parts[i], car, ctx))
CompositeExtract(parts, car, ctx) == FoldExtract(parts, 1, car, ctx)

Carriers == {c \in [Groups -> Status] : ~(c["b3s"] = "invalid" /\ c["b3x"] = "valid")}
Ctx0s == {[span |-> "none", bag |-> "none"], [span |-> "S0", bag |-> "B0"]}

(* ---- inject ------------------------------------------------------------- *)
InjCtxs == {[span |-> s, ts |-> t, bag |-> b] : s \in {"valid", "none"}, t \in BOOLEAN, b \in BOOLEAN}
PartWrites(p, c) ==
  CASE p = "bag" -> IF c.bag THEN {"baggage"} ELSE {}
    [] c.span # "valid" -> {}
    [] p = "tc"  -> {"traceparent"} \cup (IF c.ts THEN {"tracestate"} ELSE {})
    [] p = "b3"  -> {"b3"}
    [] p = "b3m" -> {"X-B3-TraceId", "X-B3-SpanId", "X-B3-Sampled"}
    [] p = "jg"  -> {"uber-trace-id"}
RECURSIVE FoldInject(_, _, _, _)
\* the carrier maps a header name to the part that wrote it last
FoldInject(parts, i, c, car) ==
  IF i > Len(parts) THEN car
  ELSE FoldInject(parts, i + 1, c,
                  [h \in DOMAIN car \cup PartWrites(parts[i], c) |->
                     IF h \in PartWrites(parts[i], c) THEN parts[i] ELSE car[h]])
CompositeInject(parts, c) == FoldInject(parts, 1, c, [h \in {} |-> "none"])

VARIABLES sc, hist
vars == <<sc, hist>>

ExtractRec(parts, car, c0) ==
  [op |-> "extract", parts |-> parts, car |-> car, ctx0 |-> c0, exp |-> CompositeExtract(parts, car, c0)]
InjectRec(parts, c) ==
  LET car == CompositeInject(parts, c)
      hs == DOMAIN car
  IN [op |-> "inject", parts |-> parts, ctx |-> c,
      exp |-> [h \in hs |-> car[h]]]

Init ==
  IF Menu = "extract"
    THEN \E parts \in Orders : \E car \in Carriers : \E c0 \in Ctx0s :
           /\ sc = ExtractRec(parts, car, c0)
           /\ hist = IF Hist THEN <<sc>> ELSE <<>>
    ELSE \E parts \in Orders : \E c \in InjCtxs :
           /\ (c.span = "none" => ~c.ts)
           /\ sc = InjectRec(parts, c)
           /\ hist = IF Hist THEN <<sc>> ELSE <<>>
Next == FALSE /\ UNCHANGED vars
Spec == Init /\ [][Next]_vars

(* ---- laws ---------------------------------------------------------------- *)
\* the last configured trace part that understands a valid header decides the span; earlier ones are overwritten
ValidIdx(parts, car, S) == {i \in 1..Len(parts) : parts[i] \in S /\ Sees(parts[i], car) # "none"}
TraceParts == {"tc", "b3", "b3m", "jg"}
MaxI(S) == CHOOSE x \in S : \A y \in S : x >= y
LastValidWins == sc.op = "extract" =>
  LET vi == ValidIdx(sc.parts, sc.car, TraceParts) IN
  /\ sc.exp.span = IF vi = {} THEN sc.ctx0.span ELSE Sees(sc.parts[MaxI(vi)], sc.car)
  /\ sc.exp.bag = IF ValidIdx(sc.parts, sc.car, {"bag"}) = {} THEN sc.ctx0.bag ELSE "hdrB"
\* a part is applied to every header it understands, not only to the ones it injects itself: a lone B3 part
\* (either one) facing the OTHER B3 format alone installs that identity
CrossFormatApplied == (sc.op = "extract" /\ Len(sc.parts) = 1 /\ sc.parts[1] \in {"b3", "b3m"}) =>
  /\ (sc.car["b3s"] = "absent" /\ sc.car["b3x"] = "valid") => sc.exp.span = "b3xS"
  /\ sc.car["b3s"] = "valid" => sc.exp.span = "b3sS"
EmptyIsIdentity == (sc.op = "extract" /\ sc.parts = <<>>) => sc.exp = sc.ctx0
\* nothing valid for the configured parts: the caller's context comes back
NothingValidUntouched == (sc.op = "extract" /\ \A i \in 1..Len(sc.parts) : Sees(sc.parts[i], sc.car) = "none")
                            => sc.exp = sc.ctx0
\* inject: exactly the union of what the parts write, each header owned by a configured part
EveryPartWrote == sc.op = "inject" =>
  /\ DOMAIN sc.exp = UNION {PartWrites(p, sc.ctx) : p \in Range(sc.parts)}
  /\ \A h \in DOMAIN sc.exp : sc.exp[h] \in Range(sc.parts) /\ h \in PartWrites(sc.exp[h], sc.ctx)
\* teeth: the order of the parts is observable (expected to be VIOLATED: two trace parts, both valid)
OrderIrrelevant == sc.op = "extract" => sc.exp = CompositeExtract([i \in 1..Len(sc.parts) |-> sc.parts[Len(sc.parts) + 1 - i]],
                                                                    sc.car, sc.ctx0)

View == sc
EmitAll == PrintT(<<"BEH", ToJson(hist)>>)
=============================================================================
