--------------------------- MODULE ProviderMonitor ---------------------------
(***************************************************************************)
(* Level A monitor (trace spec) for the provider level of C02 / C03 (and  *)
(* the per-exporter exactly-once clause shared with C01/C04):             *)
(* TracerProvider / LoggerProvider -> multi processor -> children (batch  *)
(* "B" or simple "S" processors), each child with its own exporter x.     *)
(*                                                                         *)
(*  Cfg(kinds)            new execution; kinds[x] in {"B","S"}            *)
(*  EndCall(p,s) EndRet   span End() / EmitLogRecord call and return      *)
(*  XBegin(x,batch) XEnd(x)  exporter x: Export begins / returns          *)
(*  XFF(x) XSD(x)         exporter x: ForceFlush / Shutdown invoked       *)
(*  FFCall(f) FFRet(f,r)  provider ForceFlush                             *)
(*  SDCall(s) SDRet(s)    provider Shutdown (or destruction)              *)
(*  End                   everything joined and destroyed                 *)
(* Queues are sized so that nothing is dropped in these scenarios.        *)
(***************************************************************************)
EXTENDS Integers, Sequences, FiniteSets, TLC, Json, IOUtils

CONSTANTS Dev, Check

TraceLog == ndJsonDeserialize(IOEnv.TRACE)

VARIABLES l, kinds, started, ended, exported, inExp, ffSnap, ffOK, sdCalled, sdSnap, sdRet, expSD,
          devUsed, devExecs, usedHere, nexec
vars == <<l, kinds, started, ended, exported, inExp, ffSnap, ffOK, sdCalled, sdSnap, sdRet, expSD,
          devUsed, devExecs, usedHere, nexec>>

Ev == TraceLog[l]
Is(e) == l <= Len(TraceLog) /\ Ev.e = e /\ l' = l + 1
On(prop, cond) == (prop \in Check) => cond
Id(p, s) == p * 100 + s
X == DOMAIN kinds

Init == /\ TLCSet(1, 0)
        /\ l = 1 /\ kinds = <<>> /\ started = {} /\ ended = {} /\ exported = <<>> /\ inExp = <<>>
        /\ ffSnap = <<>> /\ ffOK = <<>> /\ sdCalled = FALSE /\ sdSnap = {} /\ sdRet = FALSE /\ expSD = <<>>
        /\ devUsed = {} /\ devExecs = 0 /\ usedHere = FALSE /\ nexec = 0

TCfg == /\ Is("Cfg")
        /\ kinds' = Ev.kinds
        /\ started' = {} /\ ended' = {}
        /\ exported' = [x \in 1..Len(Ev.kinds) |-> {}]
        /\ inExp' = [x \in 1..Len(Ev.kinds) |-> FALSE]
        /\ expSD' = [x \in 1..Len(Ev.kinds) |-> 0]
        /\ ffSnap' = <<>> /\ ffOK' = <<>> /\ sdCalled' = FALSE /\ sdSnap' = {} /\ sdRet' = FALSE
        /\ usedHere' = FALSE /\ nexec' = nexec + 1
        /\ UNCHANGED <<devUsed, devExecs>>

TEndCall == /\ Is("EndCall") /\ Id(Ev.p, Ev.s) \notin started
            /\ started' = started \cup {Id(Ev.p, Ev.s)}
            /\ UNCHANGED <<kinds, ended, exported, inExp, ffSnap, ffOK, sdCalled, sdSnap, sdRet, expSD, devUsed, devExecs, usedHere, nexec>>

TEndRet == /\ Is("EndRet") /\ Id(Ev.p, Ev.s) \in started
           /\ ended' = ended \cup {Id(Ev.p, Ev.s)}
           \* a simple processor exports inside the call (unless the provider was already shut down)
           /\ UNCHANGED <<kinds, started, exported, inExp, ffSnap, ffOK, sdCalled, sdSnap, sdRet, expSD, devUsed, devExecs, usedHere, nexec>>

TXBegin ==
  /\ Is("XBegin") /\ Ev.x \in X
  /\ On("C03", ~inExp[Ev.x])                                      \* one Export at a time per exporter
  /\ On("C02", kinds[Ev.x] = "B" => ~sdRet)                        \* batch: no exporter call after Shutdown returned
  /\ LET b == Ev.batch IN
     /\ On("C03", Len(b) >= 1)
     /\ \A i \in 1..Len(b) : b[i] \in started
     /\ On("C01", \A i \in 1..Len(b) : b[i] \notin exported[Ev.x])  \* exactly once per exporter
     /\ On("C01", \A i, j \in 1..Len(b) : i # j => b[i] # b[j])
     /\ exported' = [exported EXCEPT ![Ev.x] = @ \cup {b[i] : i \in 1..Len(b)}]
  /\ inExp' = [inExp EXCEPT ![Ev.x] = TRUE]
  /\ UNCHANGED <<kinds, started, ended, ffSnap, ffOK, sdCalled, sdSnap, sdRet, expSD, devUsed, devExecs, usedHere, nexec>>

TXEnd == /\ Is("XEnd") /\ Ev.x \in X
         /\ inExp' = [inExp EXCEPT ![Ev.x] = FALSE]
         /\ UNCHANGED <<kinds, started, ended, exported, ffSnap, ffOK, sdCalled, sdSnap, sdRet, expSD, devUsed, devExecs, usedHere, nexec>>

\* exporter x flushed: it completes, for x, every pending provider flush whose snapshot x has exported
TXFF == /\ Is("XFF") /\ Ev.x \in X
        /\ On("C02", kinds[Ev.x] = "B" => ~sdRet)
        /\ ffOK' = [f \in DOMAIN ffOK |-> IF ffSnap[f] \subseteq exported[Ev.x] THEN ffOK[f] \cup {Ev.x} ELSE ffOK[f]]
        /\ UNCHANGED <<kinds, started, ended, exported, inExp, ffSnap, sdCalled, sdSnap, sdRet, expSD, devUsed, devExecs, usedHere, nexec>>

TXSD == /\ Is("XSD") /\ Ev.x \in X
        /\ On("C02", expSD[Ev.x] = 0)                                \* shut down exactly once
        /\ On("C02", kinds[Ev.x] = "B" => ~sdRet)
        /\ expSD' = [expSD EXCEPT ![Ev.x] = @ + 1]
        /\ UNCHANGED <<kinds, started, ended, exported, inExp, ffSnap, ffOK, sdCalled, sdSnap, sdRet, devUsed, devExecs, usedHere, nexec>>

TFFCall == /\ Is("FFCall") /\ Ev.f \notin DOMAIN ffSnap
           /\ ffSnap' = ffSnap @@ (Ev.f :> ended)
           /\ ffOK' = ffOK @@ (Ev.f :> {})
           /\ UNCHANGED <<kinds, started, ended, exported, inExp, sdCalled, sdSnap, sdRet, expSD, devUsed, devExecs, usedHere, nexec>>

MultiIgnores == "multi-span-forceflush-ignores-children"   \* F2: MultiSpanProcessor::ForceFlush `result |= ...`

\* provider ForceFlush returned true => every child's exporter has exported everything ended before
\* the call began and was flushed afterwards
TFFRet == /\ Is("FFRet") /\ Ev.f \in DOMAIN ffOK
          /\ \/ /\ On("C02", Ev.r => ffOK[Ev.f] = X)
                /\ UNCHANGED <<devUsed, devExecs, usedHere>>
             \/ /\ "C02" \in Check /\ Ev.r /\ ffOK[Ev.f] # X /\ MultiIgnores \in Dev
                /\ devUsed' = devUsed \cup {MultiIgnores}
                /\ devExecs' = IF usedHere THEN devExecs ELSE devExecs + 1
                /\ usedHere' = TRUE
          /\ UNCHANGED <<kinds, started, ended, exported, inExp, ffSnap, ffOK, sdCalled, sdSnap, sdRet, expSD, nexec>>

TSDCall == /\ Is("SDCall")
           /\ sdSnap' = IF sdCalled THEN sdSnap ELSE ended
           /\ sdCalled' = TRUE
           /\ UNCHANGED <<kinds, started, ended, exported, inExp, ffSnap, ffOK, sdRet, expSD, devUsed, devExecs, usedHere, nexec>>

TSDRet == /\ Is("SDRet") /\ sdCalled
          /\ On("C02", \A x \in X : sdSnap \subseteq exported[x])     \* everything produced before it exported
          \* (the statement promises this for batch processors; a simple processor's latch lets a
          \*  second concurrent Shutdown return while the first caller is still shutting the exporter down)
          /\ On("C02", \A x \in X : kinds[x] = "B" => expSD[x] = 1)
          /\ On("C02", \A x \in X : kinds[x] = "B" => ~inExp[x])
          /\ sdRet' = TRUE
          /\ UNCHANGED <<kinds, started, ended, exported, inExp, ffSnap, ffOK, sdCalled, sdSnap, expSD, devUsed, devExecs, usedHere, nexec>>

TEnd == /\ Is("End") /\ started = ended /\ sdRet /\ (\A x \in X : ~inExp[x])
        /\ UNCHANGED <<kinds, started, ended, exported, inExp, ffSnap, ffOK, sdCalled, sdSnap, sdRet, expSD, devUsed, devExecs, usedHere, nexec>>

Next == TCfg \/ TEndCall \/ TEndRet \/ TXBegin \/ TXEnd \/ TXFF \/ TXSD \/ TFFCall \/ TFFRet \/ TSDCall \/ TSDRet \/ TEnd

Progress == TLCSet(1, IF l > TLCGet(1) THEN l ELSE TLCGet(1))
Accepted == IF TLCGet(1) = Len(TraceLog) + 1 THEN TRUE
            ELSE PrintT(<<"REJECTED_AT", TLCGet(1)>>) /\ FALSE
Report == (l = Len(TraceLog) + 1) =>
            (PrintT(<<"ACCEPTED", nexec>>) /\ PrintT(<<"DEVUSED", devUsed>>) /\ PrintT(<<"DEVEXECS", devExecs>>))
=============================================================================
