------------------------------ MODULE LogRecord ------------------------------
(***************************************************************************)
(* Property C13 - an exported log record carries what was emitted,         *)
(* correlated with the active span.                                        *)
(*                                                                         *)
(* API-level reference state machine for                                   *)
(*   api/include/opentelemetry/logs/logger.h, logger_type_traits.h         *)
(*        (EmitLogRecord(args...) = left-to-right fold of typed setters)   *)
(*   sdk/src/logs/logger.cc            (CreateLogRecord / EmitLogRecord)   *)
(*   sdk/src/logs/read_write_log_record.cc, multi_recordable.cc,           *)
(*   multi_log_record_processor.cc, simple_/batch_log_record_processor.cc  *)
(*                                                                         *)
(* A record is created on a thread (identity copied from that thread's     *)
(* active span), receives arguments through direct setters and through the *)
(* argument list of EmitLogRecord, and is then handed to every processor   *)
(* of the pipeline: "simple" exports inside Emit, "batch" at the next      *)
(* ForceFlush, "hold" is a simple processor whose exporter keeps the       *)
(* record and reads it after Emit returned.                                *)
(*                                                                         *)
(* Caller-buffer discipline: every string / array argument lives in a      *)
(* caller buffer that is overwritten right after the API call it was       *)
(* passed to returns.  Ideal (Dev = {}): the record holds the values given *)
(* at emit time, whatever happens to the buffers.                          *)
(*                                                                         *)
(* Named deviations (what the unchanged tree does):                        *)
(*   log-record-aliases-caller-buffers  body / attribute values that have  *)
(*       caller storage are read through the caller's (dead) buffer when   *)
(*       the export happens after the call returned: the exported value is *)
(*       Junk.                                                             *)
(*   eventid-without-name-crashes  an EventId argument constructed without *)
(*       a name makes EmitLogRecord(args...) crash (strlen(nullptr)).      *)
(*                                                                         *)
(* Abstract values.  Body / attribute values 1..N: ODD values have caller  *)
(* storage (strings, arrays), EVEN values are scalars.  Identity: span s   *)
(* has trace id s, span id s, flags s % 4 (span 0 = a span with an invalid *)
(* context, all zero); explicit identity i is trace/span id 10 + i, flags  *)
(* 1 + i % 3 (flag value 0 = byte 00, 1..3 = arbitrary bytes).  Field value 0 = never supplied (the statement says nothing  *)
(* about it: not compared), for attributes 0 = key absent (compared).      *)
(***************************************************************************)
EXTENDS Naturals, Sequences, FiniteSets, TLC, Json

CONSTANTS NT,         \* threads 1..NT  (thread 0 = the harness main thread, only flushes)
          NS,         \* spans 0..NS
          PipeNames,  \* which processor pipelines Init may choose (names of PipeTable)
          NRes,       \* resources 1..NRes (given to the provider)
          MaxRecs, MaxSets, MaxArgs, MaxFlush,
          MaxNull,    \* EmitLogRecord calls with a null record per behaviour
          MaxAdd,     \* LoggerProvider::AddProcessor calls per behaviour (pipeline length stays <= 3)
          LgSet,      \* loggers in use (subset of 1..3)
          MaxScope,   \* Scope objects created per behaviour
          MaxNest,    \* nesting depth of active spans per thread
          NSev, NBody, NTs, NId, NFl, NAK, NAV, MaxMap, NEv, NName,
          GenDepth, Hist,
          Dev

PipeTable == [e   |-> <<>>,
              s   |-> <<"simple">>,           b   |-> <<"batch">>,           h  |-> <<"hold">>,
              sb  |-> <<"simple", "batch">>,  bs  |-> <<"batch", "simple">>,  bb |-> <<"batch", "batch">>,
              sbh |-> <<"simple", "batch", "hold">>, bhs |-> <<"batch", "hold", "simple">>]
Pipelines == {PipeTable[n] : n \in PipeNames}
AliasDev == "log-record-aliases-caller-buffers" \in Dev
CrashDev == "eventid-without-name-crashes" \in Dev
Junk     == 99
Threads  == 1..NT
Loggers  == LgSet             \* 1, 2: enabled, different instrumentation scopes; 3: disabled by the ScopeConfigurator
Disabled(lg) == lg = 3
AttrKeys == 1..NAK
Stor(v)  == v % 2 = 1         \* the value lives in a caller buffer

VARIABLES pipe, res,          \* configuration, chosen in Init
          spans,              \* [Threads -> Seq([id, s])]   active-span stack (Scope objects, innermost last)
          scopeIds,           \* live Scope objects: [Threads -> set of ids]
          nscope,             \* ids handed out so far
          recs,               \* Seq of records
          cur,                \* [Threads -> the EmitLogRecord call in progress]
          pending,            \* [1..Len(pipe) -> Seq of record ids]   queued in a batch processor
          exported,           \* [1..Len(pipe) -> Seq of snapshots]    what reached the exporter
          maybe,              \* [1..Len(pipe) -> set of record ids]   queued-or-not in a batch processor that was ADDED
                              \*                                       after the record had been created (left open)
          nadd,
          nflush, nnull, crashed, devUsed,
          last, flags, hist

bvars == <<pipe, res, spans, scopeIds, nscope, recs, cur, pending, exported, maybe, nadd, nflush, nnull, crashed, devUsed>>
vars  == <<bvars, last, flags, hist>>

Procs == 1..Len(pipe)
Idle  == [mode |-> "idle", r |-> 0, lg |-> 0, args |-> <<>>]

(* ---- arguments ---------------------------------------------------------- *)
NoArg == [k |-> "none", v |-> 0, nm |-> 0, m |-> <<>>]
IdVals == IF NId = 0 THEN {} ELSE 0..NId      \* 0: SpanContext::GetInvalid() / TraceId() / SpanId()
FlVals == IF NFl = 0 THEN {} ELSE 0..NFl      \* 0: TraceFlags()
AttrMaps == {m \in [AttrKeys -> 0..NAV] : Cardinality({k \in AttrKeys : m[k] # 0}) <= MaxMap}
Args == {[NoArg EXCEPT !.k = "sev", !.v = v] : v \in 1..NSev}
   \cup {[NoArg EXCEPT !.k = "body", !.v = v] : v \in 1..NBody}
   \cup {[NoArg EXCEPT !.k = "ts", !.v = v] : v \in 1..NTs}
   \cup {[NoArg EXCEPT !.k = "ctx", !.v = v] : v \in IdVals}
   \cup {[NoArg EXCEPT !.k = "sid", !.v = v] : v \in IdVals}
   \cup {[NoArg EXCEPT !.k = "tid", !.v = v] : v \in IdVals}
   \cup {[NoArg EXCEPT !.k = "flags", !.v = v] : v \in FlVals}
   \cup {[NoArg EXCEPT !.k = "attrs", !.m = m] : m \in AttrMaps}
   \cup {[NoArg EXCEPT !.k = "event", !.v = v, !.nm = n] : v \in 1..NEv, n \in 0..NName}

\* the same set as a predicate (trace validation: membership without enumerating Args)
IsArg(a) ==
  CASE a.k = "sev"   -> a.v \in 1..NSev /\ a.nm = 0 /\ a.m = <<>>
    [] a.k = "body"  -> a.v \in 1..NBody /\ a.nm = 0 /\ a.m = <<>>
    [] a.k = "ts"    -> a.v \in 1..NTs /\ a.nm = 0 /\ a.m = <<>>
    [] a.k \in {"ctx", "sid", "tid"} -> a.v \in IdVals /\ a.nm = 0 /\ a.m = <<>>
    [] a.k = "flags" -> a.v \in FlVals /\ a.nm = 0 /\ a.m = <<>>
    [] a.k = "attrs" -> /\ a.v = 0 /\ a.nm = 0 /\ DOMAIN a.m = AttrKeys
                        /\ \A k \in AttrKeys : a.m[k] \in 0..NAV
                        /\ Cardinality({k \in AttrKeys : a.m[k] # 0}) <= MaxMap
    [] a.k = "event" -> a.v \in 1..NEv /\ a.nm \in 0..NName /\ a.m = <<>>
    [] OTHER -> FALSE

SpanTid(s) == s
SpanFl(s)  == s % 4            \* abstract flag values 0..3: 0 = the zero byte, 1..3 = three arbitrary bytes
ExplId(i)  == IF i = 0 THEN 0 ELSE 10 + i     \* explicit identity 0 = all-zero ids / default flags: it still WINS
ExplFl(i)  == IF i = 0 THEN 0 ELSE (i + 1) % 4
ActiveSpan(t) == IF spans[t] = <<>> THEN 0 ELSE spans[t][Len(spans[t])].s

F(v, dead) == [v |-> v, dead |-> dead]          \* v = 0: never supplied / key absent
NewRec(t, lg) ==
  [lg |-> lg, t |-> t, st |-> "open", noop |-> Disabled(lg),
   sev |-> 0, body |-> F(0, FALSE), ts |-> 0, evid |-> 0, evname |-> 0,
   tid |-> SpanTid(ActiveSpan(t)), sid |-> SpanTid(ActiveSpan(t)), fl |-> SpanFl(ActiveSpan(t)),
   attrs |-> [k \in AttrKeys |-> F(0, FALSE)], nset |-> 0,
   np |-> Len(pipe),                                  \* processors configured when the record was created
   span0 |-> ActiveSpan(t), args |-> <<>>]           \* ghosts: what was active at creation, every argument in order

\* the incremental fold: one typed setter.  `dead`: the argument's buffers are already overwritten
\* when the next step happens (direct setter) / still alive during the enclosing Emit call
Apply(rc, a, dead) ==
  LET r2 == [rc EXCEPT !.args = Append(@, a)] IN
  IF rc.noop THEN r2
  ELSE CASE a.k = "sev"   -> [r2 EXCEPT !.sev = a.v]
         [] a.k = "body"  -> [r2 EXCEPT !.body = F(a.v, dead)]
         [] a.k = "ts"    -> [r2 EXCEPT !.ts = a.v]
         [] a.k = "ctx"   -> [r2 EXCEPT !.tid = ExplId(a.v), !.sid = ExplId(a.v), !.fl = ExplFl(a.v)]
         [] a.k = "sid"   -> [r2 EXCEPT !.sid = ExplId(a.v)]
         [] a.k = "tid"   -> [r2 EXCEPT !.tid = ExplId(a.v)]
         [] a.k = "flags" -> [r2 EXCEPT !.fl = a.v]
         [] a.k = "attrs" -> [r2 EXCEPT !.attrs = [k \in AttrKeys |-> IF a.m[k] # 0 THEN F(a.m[k], dead) ELSE @[k]]]
         [] a.k = "event" -> [r2 EXCEPT !.evid = a.v, !.evname = a.nm]
         [] OTHER -> r2

Kill(f) == IF f.v = 0 THEN f ELSE F(f.v, TRUE)
KillAll(rc) == [rc EXCEPT !.body = Kill(@), !.attrs = [k \in AttrKeys |-> Kill(@[k])]]

\* what an exporter reads
Read(f, alias) == IF f.v = 0 THEN 0 ELSE IF alias /\ f.dead /\ Stor(f.v) THEN Junk ELSE f.v
Snapshot(r, rc, alias) ==
  [r |-> r, lg |-> rc.lg, res |-> res, sev |-> rc.sev, body |-> Read(rc.body, alias), ts |-> rc.ts,
   evid |-> rc.evid, evname |-> rc.evname, tid |-> rc.tid, sid |-> rc.sid, fl |-> rc.fl,
   attrs |-> [k \in 1..NAK |-> Read(rc.attrs[k], alias)]]

NoOp == [op |-> "Init", t |-> 0, r |-> 0, lg |-> 0, s |-> 0, via |-> "", a |-> NoArg, args |-> <<>>,
         mayCrash |-> FALSE]
\* expectations of a step: per processor, the snapshots that reach its exporter in this step,
\* as the ideal demands (exp) and as the aliasing deviation would produce them (expDev)
NoExp == [p \in Procs |-> <<>>]
\* opt / optDev: snapshots that MAY additionally (at most once each) show up at a processor that was added
\* after the record had been created - the statement does not say whether such a processor gets it
RecO(l, e, d, o, od) == /\ last' = l
                        /\ hist' = IF Hist THEN Append(hist, l @@ [exp |-> e, expDev |-> d, opt |-> o, optDev |-> od]) ELSE hist
Rec(l, e, d) == RecO(l, e, d, NoExp, NoExp)
Flag(f) == flags' = IF Hist THEN flags \cup f ELSE flags

Init == /\ pipe \in Pipelines /\ res \in 1..NRes
        /\ spans = [t \in Threads |-> <<>>] /\ scopeIds = [t \in Threads |-> {}] /\ nscope = 0
        /\ recs = <<>> /\ cur = [t \in Threads |-> Idle]
        /\ pending = [p \in Procs |-> <<>>] /\ exported = [p \in Procs |-> <<>>]
        /\ maybe = [p \in Procs |-> {}] /\ nadd = 0
        /\ nflush = 0 /\ nnull = 0 /\ crashed = FALSE /\ devUsed = {}
        /\ last = NoOp /\ flags = {}
        /\ hist = IF Hist THEN <<NoOp @@ [pipe |-> pipe, res |-> res, exp |-> NoExp, expDev |-> NoExp, opt |-> NoExp, optDev |-> NoExp]>>
               ELSE <<>>

Alive == ~crashed

(* ---- trace::Scope on the calling thread ---------------------------------- *)
ScopeEnter(t, s) ==
  /\ Alive /\ cur[t].mode = "idle" /\ nscope < MaxScope /\ Len(spans[t]) < MaxNest /\ s \in 0..NS
  /\ spans' = [spans EXCEPT ![t] = Append(@, [id |-> nscope + 1, s |-> s])]
  /\ scopeIds' = [scopeIds EXCEPT ![t] = @ \cup {nscope + 1}]
  /\ nscope' = nscope + 1
  /\ UNCHANGED <<pipe, res, recs, cur, pending, exported, maybe, nadd, nflush, nnull, crashed, devUsed>>
  /\ Rec([NoOp EXCEPT !.op = "ScopeEnter", !.t = t, !.s = s, !.r = nscope + 1], NoExp, NoExp)
  /\ Flag({})

\* ~Scope: LIFO, or out of order (unwinds what was entered after it; later releases are no-ops)
ScopeExit(t, id) ==
  /\ Alive /\ cur[t].mode = "idle" /\ id \in scopeIds[t]
  /\ LET o == {i \in 1..Len(spans[t]) : spans[t][i].id = id} IN
     spans' = IF o = {} THEN spans ELSE [spans EXCEPT ![t] = SubSeq(@, 1, (CHOOSE i \in o : TRUE) - 1)]
  /\ scopeIds' = [scopeIds EXCEPT ![t] = @ \ {id}]
  /\ UNCHANGED <<pipe, res, nscope, recs, cur, pending, exported, maybe, nadd, nflush, nnull, crashed, devUsed>>
  /\ Rec([NoOp EXCEPT !.op = "ScopeExit", !.t = t, !.r = id], NoExp, NoExp)
  /\ Flag({})

(* ---- Logger::CreateLogRecord --------------------------------------------- *)
CreateFlags(t) == (IF Len(spans[t]) >= 2 THEN {"nested_span"} ELSE {}) \cup
                  (IF spans[t] # <<>> /\ ActiveSpan(t) = 0 THEN {"invalid_span"} ELSE {}) \cup
                  (IF \E u \in Threads : u # t /\ ActiveSpan(u) # 0 /\ ActiveSpan(t) # 0 /\ ActiveSpan(u) # ActiveSpan(t)
                      THEN {"two_threads_spans"} ELSE {})
Create(t, lg) ==
  /\ Alive /\ cur[t].mode = "idle" /\ Len(recs) < MaxRecs /\ lg \in Loggers
  /\ recs' = Append(recs, NewRec(t, lg))
  /\ UNCHANGED <<pipe, res, spans, scopeIds, nscope, cur, pending, exported, maybe, nadd, nflush, nnull, crashed, devUsed>>
  /\ Rec([NoOp EXCEPT !.op = "Create", !.t = t, !.r = Len(recs) + 1, !.lg = lg], NoExp, NoExp)
  /\ Flag(CreateFlags(t))

(* ---- a direct setter on an open record (LogRecord::SetBody, ...) ---------- *)
ApplyFlags(rc, a) ==
  (IF a.k = "attrs" /\ \E k \in AttrKeys : a.m[k] # 0 /\ rc.attrs[k].v # 0 THEN {"attr_overwrite"} ELSE {}) \cup
  (IF a.k = "body" /\ rc.body.v # 0 THEN {"body_twice"} ELSE {}) \cup
  (IF a.k = "ctx" /\ rc.span0 # 0 THEN {"explicit_over_span"} ELSE {}) \cup
  (IF a.k \in {"sid", "tid", "flags"} /\ rc.span0 # 0 THEN {"partial_identity"} ELSE {}) \cup
  (IF a.k \in {"ctx", "sid", "tid"} /\ a.v = 0 /\ rc.span0 # 0 THEN {"explicit_zero_id_over_span"} ELSE {}) \cup
  (IF ((a.k = "flags" /\ a.v = 0) \/ (a.k = "ctx" /\ a.v # 0 /\ ExplFl(a.v) = 0)) /\ SpanFl(rc.span0) # 0
      THEN {"explicit_zero_flags_over_span"} ELSE {}) \cup
  (IF a.k = "attrs" /\ \A k \in AttrKeys : a.m[k] = 0 THEN {"empty_attrs"} ELSE {})
Set(t, r, a) ==
  /\ Alive /\ cur[t].mode = "idle" /\ r \in 1..Len(recs) /\ IsArg(a)
  /\ recs[r].t = t /\ recs[r].st = "open" /\ recs[r].nset < MaxSets
  /\ recs' = [recs EXCEPT ![r] = [Apply(@, a, TRUE) EXCEPT !.nset = @ + 1]]
  /\ UNCHANGED <<pipe, res, spans, scopeIds, nscope, cur, pending, exported, maybe, nadd, nflush, nnull, crashed, devUsed>>
  /\ Rec([NoOp EXCEPT !.op = "Set", !.t = t, !.r = r, !.a = a], NoExp, NoExp)
  /\ Flag(ApplyFlags(recs[r], a) \cup (IF a.k = "event" /\ a.nm = 0 THEN {"event_noname_setter"} ELSE {}))

(* ---- EmitLogRecord: the call starts ...                                     *)
(*      via = "rec"  : logger->EmitLogRecord(std::move(record), args...)       *)
(*      via = "new"  : logger->EmitLogRecord(args...)  (creates the record)    *)
(*      via = "null" : logger->EmitLogRecord(unique_ptr<LogRecord>{}, args...) *)
BeginEmitRec(t, r) ==
  /\ Alive /\ cur[t].mode = "idle" /\ r \in 1..Len(recs)
  /\ recs[r].t = t /\ recs[r].st = "open"
  /\ recs' = [recs EXCEPT ![r].st = "emitting"]
  /\ cur' = [cur EXCEPT ![t] = [mode |-> "rec", r |-> r, lg |-> recs[r].lg, args |-> <<>>]]
  /\ UNCHANGED <<pipe, res, spans, scopeIds, nscope, pending, exported, maybe, nadd, nflush, nnull, crashed, devUsed>>
  /\ Rec([NoOp EXCEPT !.op = "BeginEmit", !.t = t, !.r = r, !.lg = recs[r].lg, !.via = "rec"], NoExp, NoExp)
  /\ Flag(IF recs[r].span0 # ActiveSpan(t) THEN {"scope_changed_before_emit"} ELSE {})

BeginEmitNew(t, lg) ==
  /\ Alive /\ cur[t].mode = "idle" /\ Len(recs) < MaxRecs /\ lg \in Loggers
  /\ recs' = Append(recs, [NewRec(t, lg) EXCEPT !.st = "emitting"])
  /\ cur' = [cur EXCEPT ![t] = [mode |-> "new", r |-> Len(recs) + 1, lg |-> lg, args |-> <<>>]]
  /\ UNCHANGED <<pipe, res, spans, scopeIds, nscope, pending, exported, maybe, nadd, nflush, nnull, crashed, devUsed>>
  /\ Rec([NoOp EXCEPT !.op = "BeginEmit", !.t = t, !.r = Len(recs) + 1, !.lg = lg, !.via = "new"], NoExp, NoExp)
  /\ Flag(CreateFlags(t))

BeginEmitNull(t, lg) ==
  /\ Alive /\ cur[t].mode = "idle" /\ lg \in Loggers /\ nnull < MaxNull
  /\ cur' = [cur EXCEPT ![t] = [mode |-> "null", r |-> 0, lg |-> lg, args |-> <<>>]]
  /\ nnull' = nnull + 1
  /\ UNCHANGED <<pipe, res, spans, scopeIds, nscope, recs, pending, exported, maybe, nadd, nflush, crashed, devUsed>>
  /\ Rec([NoOp EXCEPT !.op = "BeginEmit", !.t = t, !.lg = lg, !.via = "null"], NoExp, NoExp)
  /\ Flag({})

(* ---- ... the next argument of the pack is folded in (left to right) ...     *)
Arg(t, a) ==
  /\ Alive /\ cur[t].mode # "idle" /\ Len(cur[t].args) < MaxArgs /\ IsArg(a)
  /\ cur' = [cur EXCEPT ![t].args = Append(@, a)]
  /\ recs' = IF cur[t].mode = "null" THEN recs ELSE [recs EXCEPT ![cur[t].r] = Apply(@, a, FALSE)]
  /\ UNCHANGED <<pipe, res, spans, scopeIds, nscope, pending, exported, maybe, nadd, nflush, nnull, crashed, devUsed>>
  /\ Rec([NoOp EXCEPT !.op = "Arg", !.t = t, !.r = cur[t].r, !.a = a], NoExp, NoExp)
  /\ Flag(IF cur[t].mode = "null" THEN {} ELSE ApplyFlags(recs[cur[t].r], a))

(* ---- ... and the record goes to every processor; then the caller's buffers die *)
HasNamelessEvent(args) == \E i \in 1..Len(args) : args[i].k = "event" /\ args[i].nm = 0
Deliver(t, alias) ==
  \* per processor: what its exporter receives during this Emit call
  LET c == cur[t] IN
  [p \in Procs |->
     IF c.mode = "null" \/ recs[c.r].noop \/ p > recs[c.r].np THEN <<>>
     ELSE IF pipe[p] = "simple" THEN <<Snapshot(c.r, recs[c.r], alias)>>
     ELSE IF pipe[p] = "hold" THEN <<Snapshot(c.r, KillAll(recs[c.r]), alias)>>
     ELSE <<>>]
DeliverOpt(t, alias) ==
  \* processors added after the record was created: they may or may not get it (at most once)
  LET c == cur[t] IN
  [p \in Procs |->
     IF c.mode = "null" \/ recs[c.r].noop \/ p <= recs[c.r].np THEN <<>>
     ELSE IF pipe[p] = "simple" THEN <<Snapshot(c.r, recs[c.r], alias)>>
     ELSE IF pipe[p] = "hold" THEN <<Snapshot(c.r, KillAll(recs[c.r]), alias)>>
     ELSE <<>>]
EndEmit(t) ==
  /\ Alive /\ cur[t].mode # "idle"
  /\ LET c == cur[t]
         real == c.mode # "null" /\ ~recs[c.r].noop
         boom == CrashDev /\ HasNamelessEvent(c.args) IN
     /\ cur' = [cur EXCEPT ![t] = Idle]
     /\ recs' = IF c.mode = "null" THEN recs ELSE [recs EXCEPT ![c.r] = [KillAll(@) EXCEPT !.st = IF boom THEN "lost" ELSE "done"]]
     /\ crashed' = boom
     /\ exported' = IF boom THEN exported ELSE [p \in Procs |-> exported[p] \o Deliver(t, AliasDev)[p]]
     /\ pending' = IF boom \/ ~real THEN pending
                   ELSE [p \in Procs |-> IF pipe[p] = "batch" /\ p <= recs[c.r].np THEN Append(pending[p], c.r) ELSE pending[p]]
     /\ maybe' = IF boom \/ ~real THEN maybe
                 ELSE [p \in Procs |-> IF pipe[p] = "batch" /\ p > recs[c.r].np THEN maybe[p] \cup {c.r} ELSE maybe[p]]
     /\ devUsed' = devUsed \cup (IF boom THEN {"eventid-without-name-crashes"} ELSE {})
                           \cup (IF ~boom /\ AliasDev /\ Deliver(t, TRUE) # Deliver(t, FALSE)
                                    THEN {"log-record-aliases-caller-buffers"} ELSE {})
     /\ UNCHANGED <<pipe, res, spans, scopeIds, nscope, nflush, nnull, nadd>>
     /\ RecO([NoOp EXCEPT !.op = "EndEmit", !.t = t, !.r = c.r, !.lg = c.lg, !.via = c.mode, !.args = c.args,
                          !.mayCrash = HasNamelessEvent(c.args)],
             Deliver(t, FALSE), Deliver(t, TRUE), DeliverOpt(t, FALSE), DeliverOpt(t, TRUE))
     /\ Flag((IF Deliver(t, TRUE) # Deliver(t, FALSE) THEN {"alias_sync"} ELSE {}) \cup
             (IF c.mode = "null" THEN {"null_emit"} ELSE {}) \cup
             (IF c.mode # "null" /\ recs[c.r].noop THEN {"disabled_emit"} ELSE {}) \cup
             (IF HasNamelessEvent(c.args) THEN {"event_noname_arg"} ELSE {}) \cup
             (IF real /\ Len(pipe) >= 3 THEN {"multi3"} ELSE {}) \cup
             (IF real /\ recs[c.r].np < Len(pipe) THEN {"emit_after_addproc"} ELSE {}) \cup
             (IF real /\ recs[c.r].np = 0 /\ Len(pipe) = 1 THEN {"emit_after_add_0_1"} ELSE {}) \cup
             (IF real /\ recs[c.r].np = 1 /\ Len(pipe) = 2 THEN {"emit_after_add_1_2"} ELSE {}) \cup
             (IF real /\ nadd > 0 /\ recs[c.r].np = Len(pipe) THEN {"late_proc_gets_later_record"} ELSE {}) \cup
             (IF real /\ Len(c.args) = MaxArgs /\ recs[c.r].nset > 0 THEN {"setters_and_args"} ELSE {}))

(* ---- LoggerProvider::ForceFlush: batch processors export what is queued ---- *)
Drain(alias) == [p \in Procs |-> [i \in 1..Len(pending[p]) |-> Snapshot(pending[p][i], recs[pending[p][i]], alias)]]
SetToSeq(S) == LET RECURSIVE Q(_)
                   Q(T) == IF T = {} THEN <<>> ELSE LET x == CHOOSE y \in T : \A z \in T : y <= z IN <<x>> \o Q(T \ {x})
               IN Q(S)
DrainOpt(alias) == [p \in Procs |-> [i \in 1..Cardinality(maybe[p]) |->
                                        Snapshot(SetToSeq(maybe[p])[i], recs[SetToSeq(maybe[p])[i]], alias)]]
Flush ==
  /\ Alive /\ (nflush < MaxFlush \/ (Hist /\ Len(hist) >= GenDepth - 1))    \* (the closing flush is free)
  /\ exported' = [p \in Procs |-> exported[p] \o Drain(AliasDev)[p]]
  /\ pending' = [p \in Procs |-> <<>>]
  /\ maybe' = [p \in Procs |-> {}]
  /\ nflush' = nflush + 1
  /\ devUsed' = devUsed \cup (IF AliasDev /\ Drain(TRUE) # Drain(FALSE) THEN {"log-record-aliases-caller-buffers"} ELSE {})
  /\ UNCHANGED <<pipe, res, spans, scopeIds, nscope, recs, cur, nnull, crashed, nadd>>
  /\ RecO([NoOp EXCEPT !.op = "Flush"], Drain(FALSE), Drain(TRUE), DrainOpt(FALSE), DrainOpt(TRUE))
  /\ Flag((IF Drain(TRUE) # Drain(FALSE) THEN {"alias_deferred"} ELSE {}) \cup
          (IF \E p \in Procs : Len(pending[p]) >= 2 THEN {"flush_many"} ELSE {}))

(* ---- LoggerProvider::AddProcessor: later records go to it too; records created before keep their ---- *)
(* ---- processors (and must survive); whether the new processor also gets those is left open      ---- *)
AddProc(kind) ==
  /\ Alive /\ nadd < MaxAdd /\ Len(pipe) < 3 /\ kind \in {"simple", "batch", "hold"}
  /\ pipe' = Append(pipe, kind)
  /\ pending' = Append(pending, <<>>) /\ exported' = Append(exported, <<>>) /\ maybe' = Append(maybe, {})
  /\ nadd' = nadd + 1
  /\ UNCHANGED <<res, spans, scopeIds, nscope, recs, cur, nflush, nnull, crashed, devUsed>>
  /\ LET E == [p \in 1..(Len(pipe) + 1) |-> <<>>] IN
     RecO([NoOp EXCEPT !.op = "AddProc", !.via = kind], E, E, E, E)
  /\ Flag(IF \E r \in 1..Len(recs) : recs[r].st \in {"open", "emitting"} /\ ~recs[r].noop THEN {"addproc_with_open_record"} ELSE {})
DoAddProc      == \E kind \in {"simple", "batch", "hold"} : AddProc(kind)

DoScopeEnter   == \E t \in Threads, s \in 0..NS : ScopeEnter(t, s)
DoScopeExit    == \E t \in Threads : \E id \in scopeIds[t] : ScopeExit(t, id)
DoCreate       == \E t \in Threads, lg \in Loggers : Create(t, lg)
DoSet          == \E t \in Threads : \E r \in 1..Len(recs) : \E a \in Args : Set(t, r, a)
DoBeginEmitRec == \E t \in Threads : \E r \in 1..Len(recs) : BeginEmitRec(t, r)
DoBeginEmitNew == \E t \in Threads, lg \in Loggers : BeginEmitNew(t, lg)
DoBeginEmitNull == \E t \in Threads, lg \in Loggers : BeginEmitNull(t, lg)
DoArg          == \E t \in Threads : \E a \in Args : Arg(t, a)
DoEndEmit      == \E t \in Threads : EndEmit(t)

Next == DoScopeEnter \/ DoScopeExit \/ DoCreate \/ DoSet \/ DoBeginEmitRec \/ DoBeginEmitNew \/ DoBeginEmitNull
        \/ DoArg \/ DoEndEmit \/ Flush \/ DoAddProc
Spec == Init /\ [][Next]_vars

(* ========================= the property C13 =============================== *)
\* the declarative reading of "what was supplied": the LAST argument that speaks about a field
LastIdx(args, K) == LET I == {i \in 1..Len(args) : args[i].k \in K} IN
                    IF I = {} THEN 0 ELSE CHOOSE i \in I : \A j \in I : j <= i
LastAttr(args, k) == LET I == {i \in 1..Len(args) : args[i].k = "attrs" /\ args[i].m[k] # 0} IN
                     IF I = {} THEN 0 ELSE args[CHOOSE i \in I : \A j \in I : j <= i].m[k]
Want(r) ==
  LET rc == recs[r]
      A == rc.args
      V(K) == IF LastIdx(A, K) = 0 THEN 0 ELSE A[LastIdx(A, K)].v
      it == LastIdx(A, {"ctx", "tid"})
      is == LastIdx(A, {"ctx", "sid"})
      if == LastIdx(A, {"ctx", "flags"}) IN
  [r |-> r, lg |-> rc.lg, res |-> res, sev |-> V({"sev"}), body |-> V({"body"}), ts |-> V({"ts"}),
   evid |-> V({"event"}),
   evname |-> IF LastIdx(A, {"event"}) = 0 THEN 0 ELSE A[LastIdx(A, {"event"})].nm,
   \* explicit identity wins, component by component; otherwise the span active at creation; else zero
   tid |-> IF it = 0 THEN SpanTid(rc.span0) ELSE ExplId(A[it].v),
   sid |-> IF is = 0 THEN SpanTid(rc.span0) ELSE ExplId(A[is].v),
   fl  |-> IF if = 0 THEN SpanFl(rc.span0) ELSE IF A[if].k = "ctx" THEN ExplFl(A[if].v) ELSE A[if].v,
   attrs |-> [k \in 1..NAK |-> LastAttr(A, k)]]

ExportedEqualsEmitted ==
  \A p \in Procs : \A i \in 1..Len(exported[p]) : exported[p][i] = Want(exported[p][i].r)
Count(sq, r) == Cardinality({i \in 1..Len(sq) : sq[i] = r})
CountX(sq, r) == Cardinality({i \in 1..Len(sq) : sq[i].r = r})
ExactlyOncePerProcessor ==
  \A p \in Procs : \A r \in 1..Len(recs) :
    LET n == CountX(exported[p], r) + Count(pending[p], r) IN
    IF p > recs[r].np THEN n = 0            \* added later: open (tracked in `maybe` / opt, at most once)
    ELSE IF recs[r].st \in {"done", "lost"} /\ ~recs[r].noop      \* "lost": the emitting call crashed (deviation)
      THEN n = 1 /\ (pipe[p] # "batch" => CountX(exported[p], r) = 1)
    ELSE n = 0
CorrelationRule ==
  \A p \in Procs : \A i \in 1..Len(exported[p]) :
    LET e == exported[p][i]
        rc == recs[e.r] IN
    (\A j \in 1..Len(rc.args) : rc.args[j].k \notin {"ctx", "tid", "sid", "flags"})
       => e.tid = SpanTid(rc.span0) /\ e.sid = SpanTid(rc.span0) /\ e.fl = SpanFl(rc.span0)
DisabledEmitsNothing ==
  \A p \in Procs : /\ \A i \in 1..Len(exported[p]) : ~recs[exported[p][i].r].noop
                   /\ \A i \in 1..Len(pending[p]) : ~recs[pending[p][i]].noop
TypeOK == /\ \A a \in Args : IsArg(a)
          /\ \A p \in Procs : \A i \in 1..Len(pending[p]) : pending[p][i] \in 1..Len(recs)
          /\ \A t \in Threads : cur[t].mode \in {"idle", "rec", "new", "null"}
\* AsImplemented (Dev = the known deviations): every way of breaking the property goes through one
AsImplemented == (ExportedEqualsEmitted /\ ExactlyOncePerProcessor) \/ devUsed # {}
\* action properties
NullIgnored == [][(last'.op = "EndEmit" /\ last'.via = "null") => exported' = exported /\ pending' = pending]_vars
FlushExportsAll == [][last'.op = "Flush" => \A p \in Procs : pending'[p] = <<>>]_vars
OnlyEmitExports == [][last'.op \notin {"EndEmit", "Flush"} =>
                         /\ \A p \in Procs : exported'[p] = exported[p] /\ pending'[p] = pending[p]
                         /\ \A p \in (Len(pipe) + 1)..Len(pipe') : exported'[p] = <<>> /\ pending'[p] = <<>>]_vars

(* ========================= behaviour export =============================== *)
View == <<bvars, flags>>
Bound == Len(hist) <= GenDepth
\* a behaviour ends with a Flush made by the closing step, so that nothing is left queued
Closing == (Len(hist) >= GenDepth - 1) => last'.op = "Flush"
\* generation only: most random walks stay away from the argument that kills the process in the unchanged
\* tree (the rest of such a behaviour cannot be replayed); the witness and one walk shape keep it
NoNamelessArg == ~(last'.op = "Arg" /\ last'.a.k = "event" /\ last'.a.nm = 0)
EmitAll == (Len(hist) = GenDepth /\ last.op = "Flush") => PrintT(<<"BEH", ToJson(hist)>>)
Wit(f) == (f \in flags /\ last.op = "Flush") => (PrintT(<<"BEH", ToJson(hist)>>) /\ FALSE)
WitAliasSync     == Wit("alias_sync")
WitAliasDeferred == Wit("alias_deferred")
WitNull          == Wit("null_emit")
WitDisabled      == Wit("disabled_emit")
WitNoNameArg     == Wit("event_noname_arg")
WitNoNameSetter  == Wit("event_noname_setter")
WitMulti3        == Wit("multi3")
WitSettersArgs   == Wit("setters_and_args")
WitNested        == Wit("nested_span")
WitInvalidSpan   == Wit("invalid_span")
WitTwoThreads    == Wit("two_threads_spans")
WitScopeChanged  == Wit("scope_changed_before_emit")
WitAttrOverwrite == Wit("attr_overwrite")
WitBodyTwice     == Wit("body_twice")
WitExplicit      == Wit("explicit_over_span")
WitPartial       == Wit("partial_identity")
WitEmptyAttrs    == Wit("empty_attrs")
WitFlushMany     == Wit("flush_many")
WitZeroId        == Wit("explicit_zero_id_over_span")
WitZeroFlags     == Wit("explicit_zero_flags_over_span")
WitAddProc       == Wit("emit_after_addproc")
WitAdd01         == Wit("emit_after_add_0_1")
WitAdd12         == Wit("emit_after_add_1_2")
WitLateLater     == Wit("late_proc_gets_later_record")
=============================================================================
