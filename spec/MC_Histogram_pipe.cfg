\* exhaustive: every boundary list within {1,3,5}, every multiset of <= 4 recorded values from ranks 0..6,
\* every split over <= 3 collections, one reader of either temporality
CONSTANTS MaxRank = 6
  BoundSets = {{}, {1}, {3}, {5}, {1,3}, {1,5}, {3,5}, {1,3,5}}
  Tables = {"D_small"}
  MMChoices = {TRUE}
  Mode = "pipe" NSlots = 1 NKeys = 1 ReaderCfgs = {1, 2}
  MaxAgg = 4 MaxOps = 3 Balanced = FALSE Dev = {} Hist = FALSE
INIT Init
NEXT Next
VIEW View
CONSTRAINT Bound
INVARIANTS TypeOK BucketsPartition EveryValueInOneBucket PointIsSummary ReadersAgree
