\* pipe 1 reader (delta|cumulative), ranks 0..6, every boundary list within {1,3,5}, <=3 values, <=3 collections
\* (tools/props/C07.py generates the same text; thorough tier uses larger constants)
CONSTANTS MaxRank = 6
  BoundSets = {{}, {1}, {3}, {5}, {1,3}, {1,5}, {3,5}, {1,3,5}} BOff = 0
  Tables = {"D_small"}
  MMChoices = {TRUE}
  Mode = "pipe" NSlots = 2 NKeys = 1 ReaderCfgs = {1, 2}
  MaxAgg = 3 MaxOps = 3 Balanced = FALSE Hist = FALSE
  Dev = {}
INIT Init
NEXT Next
VIEW View
CONSTRAINT Bound
INVARIANTS TypeOK BucketsPartition BucketRule EveryValueInOneBucket SumExact MinMaxExact PointIsSummary ReadersAgree
