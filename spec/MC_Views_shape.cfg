\* exhaustive: one matching / non-matching view with EVERY shape (name x description x aggregation x
\* attribute filter) x every instrument type x every attribute-key set
CONSTANTS
  TypeSet <- TypesAll   PatSet <- Pats2   UnitSelSet <- UnitSelAny   MSelSet <- MSelAny   ShapeSet <- ShapesAll
  INameSet <- IName1   IUnitSet <- IUnit1   MeterSet <- Meter1   AttrSet <- AttrsAll
  MaxViews = 1  MaxInst = 1  Hist = FALSE
INIT Init
NEXT Next
VIEW View
INVARIANTS ExactlyMatching OnlyViewShapes MeterIdentityExact DefaultWhenNoMatch DevNarrow
