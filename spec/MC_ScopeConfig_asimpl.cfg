\* as implemented: with the listed deviation allowed, identity breaks ONLY as the deviation says
CONSTANTS
  SignalSet <- SignalsAll  MatcherSet <- Matchers3  ScopeSet <- Scopes3
  MaxRules = 2  MaxGets = 3  MaxEmits = 2  Dev <- AllDevs  Hist = FALSE
INIT Init
NEXT Next
VIEW View
INVARIANTS FirstMatchWins DisabledEmitsNothingOthersUnaffected DifferentlyNamedUnaffected SameArgsSameObject DifferentArgsDifferentObject DevNarrow
