\* C10 exhaustive: one thread, two contexts, every detach / token-destruction order on stacks up to depth 7 (crosses the 2 -> 6 -> 14
\* reallocation steps of the real array)
CONSTANTS NT = 1  NK = 1  NV = 1  NS = 1  MaxCtx = 1  MaxSet = 1  MaxDepth = 7  MaxMap = 1  MaxDrop = 0  MaxTok = 8  SampleToks = 0  WithEmpty = FALSE
          GenDepth = 0  DeepTarget = 99  Hist = FALSE  KeepFlags = FALSE  Dev = {}
INIT Init
NEXT Next
VIEW View
INVARIANTS TypeOK MostRecentBinding Shadowing StackFrames
PROPERTIES Immutable AttachMakesCurrent DetachRestores ForeignTokenNoOp TokenLifetime ScopeActivates ThreadsIsolated
