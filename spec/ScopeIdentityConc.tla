-------------------------- MODULE ScopeIdentityConc --------------------------
(***************************************************************************)
(* C19, third clause, identity part, for CONCURRENT requests: "requesting  *)
(* the same name/version/schema/attributes returns the same tracer, meter  *)
(* or logger" - the property quantifies over schedules, so it must hold    *)
(* when several threads ask a provider at the same time, in particular     *)
(* when the FIRST requests for one scope race.                             *)
(*                                                                         *)
(* Reference machine of one provider (kind = trace | metrics | logs; the   *)
(* three behave alike) used by threads:                                    *)
(*   Call(t, sc)   thread t enters Get{Tracer,Meter,Logger}(sc)            *)
(*   Lin(t)        the request takes effect, ATOMICALLY: the object        *)
(*                 registered for sc, or a new one that is registered      *)
(*   Ret(t)        the call returns that object                            *)
(* Only the outcome is demanded: WHERE between call and return the request *)
(* takes effect, which locks are held and for how long is left open.       *)
(* Property (every reachable state = every interleaving): any two returned *)
(* objects are the same object iff the requested identities are equal.     *)
(*                                                                         *)
(* Atomic = FALSE replaces Lin by Lookup(t) / Insert(t) (look the scope up,*)
(* later register a new object when the lookup missed, without looking     *)
(* again).  It is NOT what the property allows; it only serves as the      *)
(* vacuity guard of the model: with it TLC must find two racing first      *)
(* requests that return different objects for one identity.                *)
(***************************************************************************)
EXTENDS Naturals, Sequences, FiniteSets, TLC

CONSTANTS Threads,     \* thread ids
          ScopeSet,    \* identities [name, version, schema, attr] requested
          MaxGets,     \* Get calls per thread
          Atomic       \* BOOLEAN, see above

Sc(n, v, s, a) == [name |-> n, version |-> v, schema |-> s, attr |-> a]
NoScope == Sc("?", "?", "?", "?")

VARIABLES kind,     \* which provider (fixed by Init / the Cfg event)
          objs,     \* registry: sequence of [scope, obj] in registration order (a faulty registry may hold duplicates)
          nobj,     \* objects created so far
          pc,       \* thread -> "idle" | "called" | "missed" | "got"
          arg,      \* thread -> scope of the call in progress
          res,      \* thread -> object the call in progress will return
          done,     \* thread -> calls completed
          rets      \* set of [scope, obj]: what completed calls returned
vars == <<kind, objs, nobj, pc, arg, res, done, rets>>

Kinds == {"trace", "metrics", "logs"}
Init == /\ kind \in Kinds
        /\ objs = <<>> /\ nobj = 0
        /\ pc = [t \in Threads |-> "idle"] /\ arg = [t \in Threads |-> NoScope]
        /\ res = [t \in Threads |-> 0] /\ done = [t \in Threads |-> 0]
        /\ rets = {}

Registered(sc) == {j \in 1..Len(objs) : objs[j].scope = sc}
First(S) == CHOOSE j \in S : \A k \in S : j <= k

Call(t, sc) ==
  /\ pc[t] = "idle" /\ done[t] < MaxGets
  /\ pc' = [pc EXCEPT ![t] = "called"] /\ arg' = [arg EXCEPT ![t] = sc]
  /\ UNCHANGED <<kind, objs, nobj, res, done, rets>>

\* lookup-or-create in one step
Lin(t) ==
  /\ Atomic /\ pc[t] = "called"
  /\ LET r == Registered(arg[t]) IN
     IF r # {} THEN /\ res' = [res EXCEPT ![t] = objs[First(r)].obj]
                    /\ UNCHANGED <<objs, nobj>>
               ELSE /\ res' = [res EXCEPT ![t] = nobj + 1]
                    /\ nobj' = nobj + 1
                    /\ objs' = Append(objs, [scope |-> arg[t], obj |-> nobj + 1])
  /\ pc' = [pc EXCEPT ![t] = "got"]
  /\ UNCHANGED <<kind, arg, done, rets>>

\* (vacuity guard only) lookup and registration as two steps
Lookup(t) ==
  /\ ~Atomic /\ pc[t] = "called"
  /\ LET r == Registered(arg[t]) IN
     IF r # {} THEN /\ res' = [res EXCEPT ![t] = objs[First(r)].obj]
                    /\ pc' = [pc EXCEPT ![t] = "got"]
               ELSE /\ pc' = [pc EXCEPT ![t] = "missed"] /\ UNCHANGED res
  /\ UNCHANGED <<kind, objs, nobj, arg, done, rets>>
Insert(t) ==
  /\ ~Atomic /\ pc[t] = "missed"
  /\ res' = [res EXCEPT ![t] = nobj + 1] /\ nobj' = nobj + 1
  /\ objs' = Append(objs, [scope |-> arg[t], obj |-> nobj + 1])
  /\ pc' = [pc EXCEPT ![t] = "got"]
  /\ UNCHANGED <<kind, arg, done, rets>>

Ret(t) ==
  /\ pc[t] = "got"
  /\ rets' = rets \cup {[scope |-> arg[t], obj |-> res[t]]}
  /\ pc' = [pc EXCEPT ![t] = "idle"] /\ done' = [done EXCEPT ![t] = @ + 1]
  /\ UNCHANGED <<kind, objs, nobj, arg, res>>

SomeCall   == \E t \in Threads, sc \in ScopeSet : Call(t, sc)
SomeLin    == \E t \in Threads : Lin(t)
SomeLookup == \E t \in Threads : Lookup(t)
SomeInsert == \E t \in Threads : Insert(t)
SomeRet    == \E t \in Threads : Ret(t)
Next == SomeCall \/ SomeLin \/ SomeLookup \/ SomeInsert \/ SomeRet
Spec == Init /\ [][Next]_vars

(* ---- the property --------------------------------------------------------- *)
\* the same name/version/schema/attributes -> the same object, whoever asked and whenever
SameIdentitySameObject == \A a, b \in rets : a.scope = b.scope => a.obj = b.obj
\* different name/version/schema/attributes -> different objects
DifferentIdentityDifferentObject == \A a, b \in rets : a.scope # b.scope => a.obj # b.obj
\* the provider keeps one object per identity
RegistryOnePerIdentity == \A j, k \in 1..Len(objs) : (objs[j].scope = objs[k].scope) <=> (j = k)
\* a first request raced: two calls for one identity in progress, neither has taken effect yet
RacingFirst == \E s, t \in Threads : s # t /\ pc[s] = "called" /\ pc[t] = "called" /\ arg[s] = arg[t]
                                       /\ Registered(arg[s]) = {}
NoRacingFirst == ~RacingFirst      \* witness: must be VIOLATED (the race is in the schedule space)

(* ---- named domains --------------------------------------------------------- *)
SA  == Sc("A", "1.0", "s", "")
SAv == Sc("A", "2.0", "s", "")     \* differs in the version only
SAs == Sc("A", "1.0", "t", "")     \* differs in the schema url only
SB  == Sc("B", "1.0", "s", "")     \* differs in the name only
SN  == Sc("", "1.0", "s", "")      \* no name
SAe == Sc("A", "", "", "")         \* no version, no schema url
Scopes2 == {SA, SAv}
Scopes3 == {SA, SAs, SN}
Scopes4 == {SA, SAv, SN, SAe}
T2 == {1, 2}
T3 == {1, 2, 3}
T4 == {1, 2, 3, 4}
=============================================================================
