\* C09, the tail family (short / truncated / over-long traceparent and tracestate values), quick-tier constants
\* (tools/props/C09.py writes its own copy per tier and adds EmitAll = the behaviour export)
CONSTANTS
  Dev = {}
  TidC = {"rand"}
  SidC = {"rand"}
  TsC = {"none"}
  NFlag = 256
  RepFlags = {1}
  MaxFaults = 0
  SweepFaults = 0
  TailBases = {"v00", "hi", "hiext", "ts3"}
  TailPos = 2
  ShortKinds = {"tp", "ts"}
  ShortLen = 2
INIT InitTail
NEXT Next
INVARIANTS TypeOK TailTypeOK TailAcceptDocumented TailTruncatedRejected TailEmptyIsAbsent TailAnchored TailTsNeverBlocks TailTsExactOnlySimple
