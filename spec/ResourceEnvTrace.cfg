CONSTANTS
 Dev = {"uint-stale-erange", "float-stale-erange", "uint-negative-wraps", "duration-digits-overflow", "duration-unit-overflow", "create-nonstring-exe-name-throws"}
 Hist = FALSE Mode = "trace" Keys = {} Vals = {} EKeys = {} SVals = {} Urls = {} TokKinds = {} MaxTok = 0 SvcKinds = {}
 MaxPool = 0 MaxProv = 0 MaxSteps = 0 DefUrls = {} DefExtras = {} EnvUrls = {} RdKinds = {} RdPres = {} RdBodies = {} RdSufs = {} RdTb = {} RdErr = {}
INIT TInit
NEXT TNext
CONSTRAINT Progress
INVARIANT Report
POSTCONDITION Accepted
CHECK_DEADLOCK FALSE
