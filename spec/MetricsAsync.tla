------------------------------ MODULE MetricsAsync ------------------------------
(***************************************************************************)
(* C17 - gauges report the latest value; observable instruments' callbacks *)
(* are read exactly once per collection; cumulative/delta conversion of    *)
(* observed totals per reader.                                             *)
(*                                                                         *)
(* Two layers in one module.                                               *)
(*                                                                         *)
(* P (property level) - the abstract state the property talks about:       *)
(*   reg     callbacks currently registered                                *)
(*   alive   observable instruments whose handle still exists              *)
(*   tot[i]  attribute set -> the most recently reported total / observed  *)
(*           or recorded value of instrument i                             *)
(*   given[r][i]  attribute set -> the total as of what delta reader r was *)
(*           last given (absent = nothing given yet = 0)                   *)
(*   fresh[r][i]  sets of a synchronous gauge recorded since r's last      *)
(*           collection                                                    *)
(*   cr/todo/repnow  the collection in progress (reader, callbacks still   *)
(*           to be invoked, sets reported in this collection)              *)
(*   What a reader may be given is `Want` + `Conforms`; everything the     *)
(*   statement leaves open is optional there (see Conforms).               *)
(*                                                                         *)
(* M (mechanism) - a reference state machine of the SDK's design           *)
(*   (ObservableRegistry::Observe, AsyncMetricStorage::Record with         *)
(*   Aggregation::Diff, SyncMetricStorage for the gauge,                   *)
(*   TemporalMetricStorage::buildMetrics with its single-delta-reader fast *)
(*   path, LastValue merge by sample time).  TLC checks on the whole       *)
(*   bounded state graph that what M hands to every reader is allowed by   *)
(*   P (invariants below).  Alarms on the real code come ONLY from P: the  *)
(*   replayer compares with `want`, the trace spec (MetricsAsyncTrace)     *)
(*   uses the P actions alone.                                             *)
(*                                                                         *)
(* Instruments 1..NI with kinds chosen in Init from KindSet; readers 1..NR *)
(* with temporalities from TempSet; callbacks 1..NC, callback c belongs to *)
(* observable instrument cbi[c]; attribute sets 1..NA.                     *)
(***************************************************************************)
EXTENDS Integers, Sequences, FiniteSets, TLC, Json

CONSTANTS NI, NR, NC, NA,
          KindSet,        \* subset of {"ocounter","oupdown","ogauge","sgauge"}
          TempSet,        \* subset of {"d","c"}
          RichA,          \* attribute sets 1..RichA take every value below, the others only the value 1
          VC,             \* totals an observable counter may report (non-negative)
          VSP, VSN,       \* the other kinds may report/record VSP and the negatives of VSN
                          \* (a cfg file cannot contain a negative number)
          MaxCol,         \* bound: collections
          MaxRec,         \* bound: synchronous gauge Record calls
          MaxLen,         \* bound on Len(hist) for the all-behaviours BFS export (CONSTRAINT HistBound)
          WitSet,         \* names of the rare conditions a witness run looks for (see WitProbe)
          Hist,           \* BOOLEAN: record the behaviour in `hist` (generation runs)
          Ties,           \* BOOLEAN: two samples may carry the same time (the assumption is Ties = FALSE)
          Dev             \* set of deviation names (ideal behaviour: {}).  No deviation of the unchanged tree is
                          \* known for C17, so no disjunct is guarded by it yet; it is the hook of CONVENTIONS section 2

AS      == 1..NA

IsSum(k)   == k \in {"ocounter", "oupdown"}
IsGauge(k) == k \in {"ogauge", "sgauge"}
IsObs(k)   == k # "sgauge"
VS         == VSP \cup {0 - n : n \in VSN}
ValsOf(k)  == IF k = "ocounter" THEN VC ELSE VS
ValsFor(k, a) == IF a <= RichA THEN ValsOf(k) ELSE {1}

VARIABLES kinds, temps, cbi,                              \* configuration (constant after Init)
          reg, alive, tot, given, fresh, cr, todo, repnow, \* P
          gsum,                                            \* P ghost: sum of the deltas given to r
          lastr, ltot,                                     \* reader of / totals at the last finished collection (generation runs only)
          cbs, mtodo, cum, dlt, unrep, lastrep, pushed, clock, \* M
          ncol, nrec,                                      \* bounds
          flags,                                           \* rare conditions seen (generation runs only)
          curreps, hist                                    \* behaviour export (hidden by VIEW)

\* (the trace spec takes the configuration from the log, so the index sets are read off the state)
Instrs  == DOMAIN kinds
Readers == DOMAIN temps
Cbs     == DOMAIN cbi

cvars == <<kinds, temps, cbi>>
pvars == <<reg, alive, tot, given, fresh, cr, todo, repnow, gsum>>
ovars == <<lastr, ltot>>
mvars == <<cbs, mtodo, cum, dlt, unrep, lastrep, pushed, clock>>
bvars == <<cvars, pvars, ovars, mvars, ncol, nrec, flags>>
vars  == <<bvars, curreps, hist>>

Empty == <<>>                                       \* the empty map
Get0(m, a) == IF a \in DOMAIN m THEN m[a] ELSE 0
Over(new, old) == [a \in DOMAIN new \cup DOMAIN old |-> IF a \in DOMAIN new THEN new[a] ELSE old[a]]

(* ======================= P: what the property demands ======================= *)
DeltaSum(r, i) == IsSum(kinds[i]) /\ temps[r] = "d"

\* What reader r may be given for instrument i at the end of the collection in progress.
\*   v     the value, if a point for the set is delivered
\*   must  the point has to be there: the set was reported in THIS collection (observable), or
\*         recorded since r's previous collection (synchronous gauge)
Want(r, i) ==
  [a \in DOMAIN tot[i] |->
     [v    |-> IF DeltaSum(r, i) THEN tot[i][a] - Get0(given[r][i], a) ELSE tot[i][a],
      must |-> IF kinds[i] = "sgauge" THEN a \in fresh[r][i] ELSE a \in repnow[i]]]

\* o : attribute set -> delivered value.  Left open on purpose (the statement is silent):
\*   whether a set NOT reported in this collection is delivered at all (a cumulative reader may keep
\*   repeating the last total, a delta reader may or may not flush a pending difference; a gauge
\*   may or may not repeat a value); if it is delivered the value is pinned down.
\*   Order of points, timestamps, descriptors: not looked at.
Conforms(w, o) ==
  /\ DOMAIN o \subseteq DOMAIN w
  /\ \A a \in DOMAIN o : o[a] = w[a].v
  /\ \A a \in DOMAIN w : w[a].must => a \in DOMAIN o

P_Add(c) ==
  /\ cr = 0 /\ c \notin reg /\ cbi[c] \in alive
  /\ reg' = reg \cup {c}
  /\ UNCHANGED <<alive, tot, given, fresh, cr, todo, repnow, gsum>>

P_Rem(c) ==                                     \* removing a callback that is not registered is a no-op
  /\ cr = 0 /\ cbi[c] \in alive
  /\ reg' = reg \ {c}
  /\ UNCHANGED <<alive, tot, given, fresh, cr, todo, repnow, gsum>>

P_Destroy(i) ==
  /\ cr = 0 /\ i \in alive
  /\ alive' = alive \ {i}
  /\ reg' = {c \in reg : cbi[c] # i}
  /\ UNCHANGED <<tot, given, fresh, cr, todo, repnow, gsum>>

P_Rec(i, a, v) ==
  /\ cr = 0 /\ kinds[i] = "sgauge"
  /\ tot' = [tot EXCEPT ![i] = Over(a :> v, @)]
  /\ fresh' = [q \in Readers |-> [fresh[q] EXCEPT ![i] = @ \cup {a}]]
  /\ UNCHANGED <<reg, alive, given, cr, todo, repnow, gsum>>

P_Begin(r) ==
  /\ cr = 0
  /\ cr' = r /\ todo' = reg /\ repnow' = [i \in Instrs |-> {}]
  /\ UNCHANGED <<reg, alive, tot, given, fresh, gsum>>

\* every callback registered when the collection started is invoked exactly once: it has to be in
\* `todo` to be invoked and `todo` has to be empty for the collection to end
P_InvokeOK(c) == cr # 0 /\ c \in todo
P_InvokeUpd(c, rep) ==
  /\ DOMAIN rep \cap repnow[cbi[c]] = {}       \* assumption: callbacks of one instrument report disjoint sets
  /\ todo' = todo \ {c}
  /\ tot' = [tot EXCEPT ![cbi[c]] = Over(rep, @)]
  /\ repnow' = [repnow EXCEPT ![cbi[c]] = @ \cup DOMAIN rep]
  /\ UNCHANGED <<reg, alive, given, fresh, cr, gsum>>
P_Invoke(c, rep) == P_InvokeOK(c) /\ P_InvokeUpd(c, rep)

\* o[i] = what reader r was actually given for instrument i
P_EndOK == todo = {}
P_End(r, o) ==
  /\ cr = r
  /\ cr' = 0
  /\ given' = [given EXCEPT ![r] = [i \in Instrs |->
                 IF DeltaSum(r, i)
                   THEN [a \in DOMAIN given[r][i] \cup DOMAIN o[i] |->
                           IF a \in DOMAIN o[i] THEN Get0(tot[i], a) ELSE given[r][i][a]]
                   ELSE given[r][i]]]
  /\ gsum' = [gsum EXCEPT ![r] = [i \in Instrs |->
                 IF DeltaSum(r, i)
                   THEN [a \in DOMAIN gsum[r][i] \cup DOMAIN o[i] |-> Get0(gsum[r][i], a) + Get0(o[i], a)]
                   ELSE gsum[r][i]]]
  /\ fresh' = [fresh EXCEPT ![r] = [i \in Instrs |-> {}]]
  /\ UNCHANGED <<reg, alive, tot, todo, repnow>>

(* ======================= M: the mechanism ======================= *)
MDefault == [v |-> 0, ts |-> 0]                 \* a fresh aggregation (sample time 0 < every real one)
\* Aggregation::Diff / Merge.  LastValue: the operand with the LATER sample time; on equal times Diff
\* takes `next`, Merge takes `delta` (its argument)
MDiff(k, prev, next) == IF IsSum(k) THEN [v |-> next.v - prev.v, ts |-> 0]
                        ELSE IF prev.ts > next.ts THEN prev ELSE next
MMerge(k, self, d)   == IF IsSum(k) THEN [v |-> self.v + d.v, ts |-> 0]
                        ELSE IF self.ts > d.ts THEN self ELSE d

Tick == clock' \in (IF Ties THEN {clock, clock + 1} ELSE {clock + 1})

\* ObservableRegistry: callbacks_ (a record is the triple callback/state/instrument = c)
M_Add(c)     == cbs' = cbs \cup {c}
M_Rem(c)     == cbs' = cbs \ {c}                         \* remove_if(all three fields equal)
M_Destroy(i) == cbs' = {c \in cbs : cbi[c] # i}          \* ~ObservableInstrument -> CleanupCallback(this)
M_Begin      == mtodo' = cbs                              \* Meter::Collect -> Observe iterates callbacks_

\* ObservableRegistry::Observe, one callback: AsyncMetricStorage::Record
M_Invoke(c, rep) ==
  LET i == cbi[c]
      k == kinds[i]
      New(a) == [v |-> rep[a], ts |-> IF IsGauge(k) THEN clock' ELSE 0]
  IN /\ IF IsGauge(k) /\ DOMAIN rep # {} THEN Tick ELSE clock' = clock
     /\ cum' = [cum EXCEPT ![i] = [a \in DOMAIN rep \cup DOMAIN @ |-> IF a \in DOMAIN rep THEN New(a) ELSE @[a]]]
     /\ dlt' = [dlt EXCEPT ![i] = [a \in DOMAIN rep \cup DOMAIN @ |->
                  IF a \in DOMAIN rep
                    THEN IF a \in DOMAIN cum[i] THEN MDiff(k, cum[i][a], New(a)) ELSE New(a)
                    ELSE @[a]]]
     /\ mtodo' = mtodo \ {c}
     /\ UNCHANGED <<cbs, unrep, lastrep, pushed>>

\* Gauge::Record -> SyncMetricStorage: GetOrSetDefault(attrs)->Aggregate(v)
M_Rec(i, a, v) ==
  /\ Tick
  /\ dlt' = [dlt EXCEPT ![i] = Over(a :> [v |-> v, ts |-> clock'], @)]
  /\ UNCHANGED <<cbs, mtodo, cum, unrep, lastrep, pushed>>

RECURSIVE MergeList(_, _, _)
MergeList(k, acc, list) ==
  IF list = <<>> THEN acc
  ELSE LET m == Head(list)
           acc2 == [a \in DOMAIN acc \cup DOMAIN m |->
                      IF a \in DOMAIN m
                        THEN IF a \in DOMAIN acc THEN MMerge(k, acc[a], m[a]) ELSE MMerge(k, MDefault, m[a])
                        ELSE acc[a]]
       IN MergeList(k, acc2, Tail(list))

ValsOnly(m) == [a \in DOMAIN m |-> m[a].v]

\* MetricStorage::Collect -> TemporalMetricStorage::buildMetrics for one storage and reader r.
\* (MetricCollector::GetAggregationTemporality: a synchronous Gauge is always collected cumulatively.)
MCollect(i, r) ==
  LET k == kinds[i]
      d == dlt[i]
      temp == IF k = "sgauge" THEN "c" ELSE temps[r]
  IN IF NR = 1 /\ temp = "d"
       THEN \* fast path: the delta map is the result
            [out |-> ValsOnly(d), unrep |-> unrep[i], lastrep |-> lastrep[i], pushed |-> pushed[i]]
       ELSE LET u1 == IF DOMAIN d # {} THEN [q \in Readers |-> Append(unrep[i][q], d)] ELSE unrep[i]
                p1 == pushed[i] \/ DOMAIN d # {}
            IN IF ~p1 THEN [out |-> Empty, unrep |-> u1, lastrep |-> lastrep[i], pushed |-> p1]
               ELSE LET merged == MergeList(k, Empty, u1[r])
                        lr == lastrep[i][r]
                        fin == IF lr.has /\ temp = "c"
                                 THEN [a \in DOMAIN merged \cup DOMAIN lr.m |->
                                         IF a \in DOMAIN lr.m
                                           THEN IF a \in DOMAIN merged THEN MMerge(k, merged[a], lr.m[a])
                                                                       ELSE MMerge(k, MDefault, lr.m[a])
                                           ELSE merged[a]]
                                 ELSE merged
                    IN [out |-> ValsOnly(fin), unrep |-> [u1 EXCEPT ![r] = <<>>],
                        lastrep |-> [lastrep[i] EXCEPT ![r] = [has |-> TRUE, m |-> fin]], pushed |-> p1]

M_End(r) ==
  LET res == [i \in Instrs |-> MCollect(i, r)]
  IN /\ dlt' = [i \in Instrs |-> Empty]
     /\ unrep' = [i \in Instrs |-> res[i].unrep]
     /\ lastrep' = [i \in Instrs |-> res[i].lastrep]
     /\ pushed' = [i \in Instrs |-> res[i].pushed]
     /\ UNCHANGED <<cbs, mtodo, cum, clock>>
MOut(r) == [i \in Instrs |-> MCollect(i, r).out]

(* ======================= the full specification ======================= *)
Rec(e) == hist' = IF Hist THEN Append(hist, e) ELSE hist
F(s) == <<s>>                                       \* flags are tuples: <<name>> or <<name, ids...>>
Flag(f) == flags' = IF Hist THEN flags \cup f ELSE flags
If(b, s) == IF b THEN {F(s)} ELSE {}

\* maps as JSON arrays (ToJson of a function whose domain is not 1..n is an object)
SeqOf(S, G(_)) == [j \in 1..Cardinality(S) |-> G(CHOOSE x \in S : Cardinality({y \in S : y < x}) = j - 1)]
MapSeq(m) == SeqOf(DOMAIN m, LAMBDA a : [a |-> a, v |-> m[a]])

ObsInstrs(ks) == {i \in DOMAIN ks : IsObs(ks[i])}

Init ==
  /\ kinds \in [1..NI -> KindSet]
  /\ temps \in [1..NR -> TempSet]
  /\ cbi \in [1..NC -> ObsInstrs(kinds)]
  /\ reg = {} /\ alive = ObsInstrs(kinds)
  /\ tot = [i \in Instrs |-> Empty]
  /\ given = [r \in Readers |-> [i \in Instrs |-> Empty]]
  /\ gsum = [r \in Readers |-> [i \in Instrs |-> Empty]]
  /\ fresh = [r \in Readers |-> [i \in Instrs |-> {}]]
  /\ cr = 0 /\ todo = {} /\ repnow = [i \in Instrs |-> {}]
  /\ lastr = 0 /\ ltot = <<>>
  /\ cbs = {} /\ mtodo = {}
  /\ cum = [i \in Instrs |-> Empty] /\ dlt = [i \in Instrs |-> Empty]
  /\ unrep = [i \in Instrs |-> [r \in Readers |-> <<>>]]
  /\ lastrep = [i \in Instrs |-> [r \in Readers |-> [has |-> FALSE, m |-> Empty]]]
  /\ pushed = [i \in Instrs |-> FALSE]
  /\ clock = 0 /\ ncol = 0 /\ nrec = 0 /\ flags = {}
  /\ \A k \in 11..40 : TLCSet(k, 0)                     \* registers of VacProbe / WitProbe
  /\ curreps = [c \in Cbs |-> Empty]
  /\ hist = IF Hist THEN <<[op |-> "Cfg", kinds |-> kinds, temps |-> temps, cbi |-> cbi, na |-> NA]>> ELSE <<>>

Idle == cr = 0 /\ ncol < MaxCol
MRest == <<mtodo, cum, dlt, unrep, lastrep, pushed, clock>>

AddCallback(c) ==
  /\ Idle /\ P_Add(c) /\ M_Add(c)
  /\ UNCHANGED <<cvars, ovars, MRest, ncol, nrec, curreps>>
  /\ Rec([op |-> "Add", c |-> c])
  /\ Flag(IF <<"rem", c>> \in flags THEN {<<"readd", c>>} ELSE {})

RemoveCallback(c) ==
  /\ Idle /\ P_Rem(c) /\ M_Rem(c)
  /\ UNCHANGED <<cvars, ovars, MRest, ncol, nrec, curreps>>
  /\ Rec([op |-> "Rem", c |-> c])
  /\ Flag(IF c \in reg THEN {<<"rem", c>>} ELSE {F("rem_noop")})

DestroyInstrument(i) ==
  /\ Idle /\ P_Destroy(i) /\ M_Destroy(i)
  /\ UNCHANGED <<cvars, ovars, MRest, ncol, nrec, curreps>>
  /\ Rec([op |-> "Destroy", i |-> i])
  /\ Flag(If(\E c \in reg : cbi[c] = i, "destroyed_with_cb"))

GaugeRecord(i, a, v) ==
  /\ Idle /\ nrec < MaxRec /\ P_Rec(i, a, v) /\ M_Rec(i, a, v)
  /\ nrec' = nrec + 1
  /\ UNCHANGED <<cvars, ovars, ncol, curreps>>
  /\ Rec([op |-> "Rec", i |-> i, a |-> a, v |-> v])
  /\ Flag(If(a \in DOMAIN dlt[i], "sg_overwrite"))

BeginCollect(r) ==
  /\ Idle /\ P_Begin(r) /\ M_Begin
  /\ ncol' = ncol + 1
  /\ curreps' = [c \in Cbs |-> Empty]
  /\ UNCHANGED <<cvars, ovars, cbs, cum, dlt, unrep, lastrep, pushed, clock, nrec, flags, hist>>

\* M decides who is invoked (the smallest pending entry of its registry: the order is immaterial -
\* reports of one instrument are disjoint, P does not depend on it, the trace spec accepts any
\* order); P only records whether that was allowed
Invoke(rep) ==
  /\ cr # 0 /\ mtodo # {}
  /\ LET c == CHOOSE x \in mtodo : \A y \in mtodo : x <= y
     IN /\ \A a \in DOMAIN rep : rep[a] \in ValsFor(kinds[cbi[c]], a)
        /\ P_InvokeUpd(c, rep) /\ M_Invoke(c, rep)
        /\ curreps' = [curreps EXCEPT ![c] = rep]
        /\ Flag(If(<<"readd", c>> \in flags, "readd_invoked")
                \cup If(\E a \in DOMAIN rep : <<"gone", cbi[c], a>> \in flags, "reappear")
                \cup If(DOMAIN rep # {} /\ repnow[cbi[c]] # {}, "two_cb_one_instr"))
  /\ UNCHANGED <<cvars, ovars, ncol, nrec, hist>>

EndFlags(r, w, o) ==
  UNION {
    If(\E c \in Cbs : <<"rem", c>> \in flags /\ c \notin reg /\ \E c2 \in reg : cbi[c2] = cbi[c], "collect_after_rem"),
    If(F("destroyed_with_cb") \in flags /\ reg # {}, "collect_after_destroy"),
    If(\E i \in Instrs : DeltaSum(r, i) /\ \E a \in DOMAIN w[i] : w[i][a].v < 0 /\ a \in DOMAIN given[r][i], "neg_delta"),
    If(\E i \in Instrs : DeltaSum(r, i) /\ \E a \in DOMAIN w[i] : w[i][a].v = 0 /\ w[i][a].must /\ a \in DOMAIN given[r][i], "zero_delta"),
    If(\E i \in Instrs : DeltaSum(r, i) /\ \E a \in DOMAIN w[i] : ~w[i][a].must /\ w[i][a].v # 0 /\ a \in DOMAIN o[i],
       "delta_flush_unreported"),
    {<<"gone", p[1], p[2]>> : p \in {q \in Instrs \X AS : IsObs(kinds[q[1]]) /\ q[2] \in DOMAIN tot[q[1]] /\ q[2] \notin repnow[q[1]]}},
    \* own last total G, another reader was handed L # G in between, now T # L: the delta must be T - G
    If(lastr \notin {0, r} /\ \E i \in Instrs : DeltaSum(r, i) /\ \E a \in repnow[i] :
          a \in DOMAIN given[r][i] /\ a \in DOMAIN ltot[i] /\ ltot[i][a] # given[r][i][a] /\ ltot[i][a] # tot[i][a], "interleaved"),
    \* r's first delivery after another reader was handed L # 0: it must be the whole total
    If(lastr \notin {0, r} /\ \E i \in Instrs : DeltaSum(r, i) /\ \E a \in repnow[i] :
          a \notin DOMAIN given[r][i] /\ a \in DOMAIN ltot[i] /\ ltot[i][a] # 0 /\ tot[i][a] # ltot[i][a], "first_after_other"),
    If(\E i \in Instrs : kinds[i] = "ogauge" /\ temps[r] = "c" /\ \E a \in DOMAIN o[i] : a \notin repnow[i], "gauge_stale_cum"),
    If(\E i \in Instrs : kinds[i] = "sgauge" /\ \E a \in DOMAIN o[i] : a \notin fresh[r][i], "sgauge_stale"),
    If(NR = 1 /\ temps[1] = "d" /\ \E i \in Instrs : DOMAIN o[i] # {}, "fastpath")
  }

EndCollect(r) ==
  LET o == MOut(r)
      w == [i \in Instrs |-> Want(r, i)]
  IN /\ cr = r /\ mtodo = {}
     /\ P_End(r, o) /\ M_End(r)
     /\ lastr' = (IF Hist THEN r ELSE lastr) /\ ltot' = (IF Hist THEN tot ELSE ltot)
     /\ UNCHANGED <<cvars, ncol, nrec, curreps>>
     /\ Rec([op |-> "Collect", r |-> r,
             reps |-> [c \in Cbs |-> MapSeq(curreps[c])],
             inv |-> [c \in Cbs |-> IF c \in reg THEN 1 ELSE 0],
             want |-> [i \in Instrs |-> SeqOf(DOMAIN w[i], LAMBDA a :
                         [a |-> a, v |-> w[i][a].v, must |-> w[i][a].must, asm |-> a \in DOMAIN o[i]])]])
     /\ Flag(EndFlags(r, w, o))

\* one named definition per action (coverage / vacuity guard)
DoAdd     == \E c \in Cbs : AddCallback(c)
DoRem     == \E c \in Cbs : RemoveCallback(c)
DoDestroy == \E i \in Instrs : DestroyInstrument(i)
DoRec     == \E i \in Instrs, a \in AS : \E v \in ValsFor("sgauge", a) : GaugeRecord(i, a, v)
DoBegin   == \E r \in Readers : BeginCollect(r)
DoInvoke  == \E S \in SUBSET AS : \E rep \in [S -> VC \cup VS \cup {1}] : Invoke(rep)
DoEnd     == \E r \in Readers : EndCollect(r)

Next == DoAdd \/ DoRem \/ DoDestroy \/ DoRec \/ DoBegin \/ DoInvoke \/ DoEnd
Spec == Init /\ [][Next]_vars

(* ======================= the property, clause by clause ======================= *)
\* The clauses are state predicates on the state in which a collection is about to end (every
\* callback has run): what M is going to hand to reader `cr` is compared with P.
PreEnd == cr # 0 /\ mtodo = {}
O(i) == MCollect(i, cr).out

TypeOK ==
  /\ reg \subseteq Cbs /\ alive \subseteq Instrs /\ cr \in 0..NR /\ todo \subseteq reg
  /\ \A c \in reg : cbi[c] \in alive

\* at each collection every registered callback is invoked exactly once: the invocations M still
\* owes are exactly those P still demands (nobody missed, nobody twice) ...
EachCallbackOncePerCollection == (cr # 0) => (mtodo = todo)
\* ... and a removed callback (or one whose instrument was destroyed) never again
RemovedNeverInvoked == (cbs = reg) /\ (\A c \in mtodo : c \in reg /\ cbi[c] \in alive)

\* the mechanism hands out only what the property allows (all value clauses at once)
OutAllowed == PreEnd => \A i \in Instrs : Conforms(Want(cr, i), O(i))

CumulativeGetsReportedTotal ==
  PreEnd => \A i \in Instrs : (IsSum(kinds[i]) /\ temps[cr] = "c") =>
     /\ \A a \in repnow[i] : a \in DOMAIN O(i)
     /\ \A a \in DOMAIN O(i) : a \in DOMAIN tot[i] /\ O(i)[a] = tot[i][a]

\* each delta is the difference from what that same reader was last given (given[r] is touched by
\* r's own collections only, so other readers' collections cannot matter), and the deltas handed to
\* a reader add up to the total as of its last delivery
DeltaIsDifferenceFromOwnLast ==
  /\ \A r \in Readers, i \in Instrs : DeltaSum(r, i) =>
       /\ DOMAIN gsum[r][i] = DOMAIN given[r][i]
       /\ \A a \in DOMAIN given[r][i] : gsum[r][i][a] = given[r][i][a]
  /\ PreEnd => \A i \in Instrs : DeltaSum(cr, i) =>
       /\ \A a \in repnow[i] : a \in DOMAIN O(i)
       /\ \A a \in DOMAIN O(i) : a \in DOMAIN tot[i] /\ O(i)[a] = tot[i][a] - Get0(given[cr][i], a)

GaugeIsLatest ==
  PreEnd => \A i \in Instrs : IsGauge(kinds[i]) =>
     /\ \A a \in DOMAIN O(i) : a \in DOMAIN tot[i] /\ O(i)[a] = tot[i][a]
     /\ \A a \in (IF kinds[i] = "sgauge" THEN fresh[cr][i] ELSE repnow[i]) : a \in DOMAIN O(i)

(* vacuity guard: the antecedents of the clauses are reachable.  Run with ONE worker on a small
   configuration: VacProbe is an always-true "invariant" that notes which conditions were seen,
   VacReport (POSTCONDITION) prints them. *)
VacConds == <<
  \* 1 a cumulative reader's second-or-later delivery of a total reported now
  PreEnd /\ \E i \in Instrs : IsSum(kinds[i]) /\ temps[cr] = "c" /\ repnow[i] # {} /\ lastrep[i][cr].has,
  \* 2 a delta reader is given a non-zero difference from its own previous delivery
  PreEnd /\ \E i \in Instrs : DeltaSum(cr, i) /\ \E a \in repnow[i] : a \in DOMAIN given[cr][i] /\ tot[i][a] # given[cr][i][a],
  \* 3 the same while another reader's delivery lies in between (totals as of the two differ)
  PreEnd /\ \E i \in Instrs : DeltaSum(cr, i) /\ \E a \in repnow[i], q \in Readers :
              q # cr /\ DeltaSum(q, i) /\ a \in DOMAIN given[cr][i] /\ a \in DOMAIN given[q][i] /\ given[q][i][a] # given[cr][i][a],
  \* 4 an observable gauge reports a value different from the one before
  PreEnd /\ \E i \in Instrs : kinds[i] = "ogauge" /\ \E a \in repnow[i] : a \in DOMAIN O(i) /\ lastrep[i][cr].has /\ a \in DOMAIN lastrep[i][cr].m /\ lastrep[i][cr].m[a].v # tot[i][a],
  \* 5 a synchronous gauge recorded since the reader's last collection
  PreEnd /\ \E i \in Instrs : kinds[i] = "sgauge" /\ fresh[cr][i] # {},
  \* 6 callbacks are being invoked while another one of a live instrument is not registered
  cr # 0 /\ todo # {} /\ \E c \in Cbs : c \notin reg /\ cbi[c] \in alive,
  \* 7 a collection while a destroyed instrument's callback exists
  cr # 0 /\ \E c \in Cbs : cbi[c] \notin alive,
  \* 8 a set that was reported earlier is not reported in this collection
  PreEnd /\ \E i \in Instrs : IsObs(kinds[i]) /\ DOMAIN tot[i] \ repnow[i] # {} >>
NVac == 8
VacProbe == \A k \in 1..NVac : VacConds[k] => TLCSet(10 + k, 1)
VacReport == PrintT(<<"VAC", ToJson([k \in 1..NVac |-> TLCGet(10 + k)])>>)

(* ======================= behaviour export ======================= *)
View == bvars
\* all-behaviours export: the history is part of the state identity, bounded by HistBound
ViewH == vars
HistBound == Len(hist) < MaxLen \/ cr # 0
JustEnded == cr = 0 /\ Len(hist) > 1 /\ hist[Len(hist)].op = "Collect"
\* complete behaviours (the MaxCol-th collection has finished; nothing is enabled afterwards)
EmitAll == (JustEnded /\ ncol = MaxCol) => PrintT(<<"BEH", ToJson(hist)>>)
\* all-behaviours BFS: print the maximal ones (the bound is reached right after a collection)
EmitLast == (JustEnded /\ Len(hist) >= MaxLen) => PrintT(<<"BEH", ToJson(hist)>>)
\* shaping of RANDOM WALKS only (ACTION_CONSTRAINT of the simulate cfg; never used when model checking):
\* uniform choice among successors would destroy every instrument within a few steps
GenShape ==
  /\ (alive' # alive) => (2 * ncol >= MaxCol /\ Cardinality(alive') + 1 >= Cardinality(ObsInstrs(kinds)))
  /\ (cr = 0 /\ cr' = 0 /\ reg' = reg /\ alive' = alive /\ nrec' = nrec) => F("rem_noop") \notin flags
\* witness idiom: print one shortest behaviour in which the rare condition was seen, then stop
Wit(f) == (F(f) \in flags /\ JustEnded) => (PrintT(<<"BEH", ToJson(hist)>>) /\ FALSE)
\* several conditions in ONE run (one worker: BFS order, i.e. a shortest behaviour for each): print the
\* first behaviour that shows each condition of WitSet, stop (WitDone violated) when all were printed
WitNames == <<"collect_after_rem", "readd_invoked", "collect_after_destroy", "neg_delta", "zero_delta",
              "delta_flush_unreported", "reappear", "interleaved", "first_after_other", "two_cb_one_instr",
              "gauge_stale_cum", "sgauge_stale", "sg_overwrite", "fastpath", "rem_noop">>
WitReg(f) == 20 + (CHOOSE k \in 1..Len(WitNames) : WitNames[k] = f)
WitProbe == \A f \in WitSet : (F(f) \in flags /\ JustEnded /\ TLCGet(WitReg(f)) = 0) =>
               (PrintT(<<"BEH", ToJson([wit |-> f, hist |-> hist])>>) /\ TLCSet(WitReg(f), 1))
WitDone == \E f \in WitSet : TLCGet(WitReg(f)) = 0
WitCollectAfterRem     == Wit("collect_after_rem")
WitReaddInvoked        == Wit("readd_invoked")
WitCollectAfterDestroy == Wit("collect_after_destroy")
WitNegDelta            == Wit("neg_delta")
WitZeroDelta           == Wit("zero_delta")
WitDeltaFlush          == Wit("delta_flush_unreported")
WitReappear            == Wit("reappear")
WitInterleaved         == Wit("interleaved")
WitFirstAfterOther     == Wit("first_after_other")
WitTwoCb               == Wit("two_cb_one_instr")
WitGaugeStaleCum       == Wit("gauge_stale_cum")
WitSgaugeStale         == Wit("sgauge_stale")
WitSgOverwrite         == Wit("sg_overwrite")
WitFastPath            == Wit("fastpath")
WitRemNoop             == Wit("rem_noop")
=============================================================================
