\* reference configuration (tools/props/C05.py generates its configurations from this shape)
CONSTANTS NThr = 2  MaxEnt = 3  MaxRemote = 1  MaxDepth = 1  MaxOps = 6
          Samplers = {"on", "off", "pb_on", "c_RO_2"}
          RemFlags = {0, 1, 255}  RemForms = {"valid", "zero"}
          Dev = {}  Hist = FALSE
INIT Init
NEXT Next
VIEW ViewState
INVARIANTS TypeOK StackOK SameTraceAsParent RootHasNoParent FreshSpanId FlagsLevel1Only SampledIsDecision
           DroppedNeverExported OnlyListedDeviations
PROPERTIES ThreadsIsolated StartRules ReleaseUnwindsOnlyAbove
