------------------------------ MODULE Sampler ------------------------------
(***************************************************************************)
(* C12 - consistent sampling.                                              *)
(*                                                                         *)
(* Part 1 (Mode = "table"): the complete decision table of always-on,      *)
(* always-off, parent-based (nested up to depth 2) over every parent       *)
(* context class and every root sampler ("delegate"), enumerated           *)
(* exhaustively by TLC; every case is printed (BEH) and replayed on the    *)
(* real samplers, directly and through a real Tracer.                      *)
(*                                                                         *)
(* Part 2 (Mode = "ratio"): the trace-id-ratio sampler.  Its numeric       *)
(* threshold cannot be modelled (no reals, 32-bit ints), so the model is   *)
(*     sampled(id, ratio)  ==  T(ratio) # 0  /\  h(id) <= T(ratio)         *)
(* for an UNKNOWN monotone T with T(r) = 0 for r <= 0 and T(r) = Top >=    *)
(* every h for r >= 1, and an ARBITRARY h.  TLC checks over all such T, h  *)
(* of a small domain that the statement's clauses follow (nothing at       *)
(* ratio <= 0, everything at ratio >= 1, nested sampled sets, raising the  *)
(* ratio only adds traces) and the lemma the trace spec relies on          *)
(* (CanonicalExplains).  The binding to the code is code -> spec:          *)
(* SamplerTrace.tla accepts a logged decision matrix of the real sampler   *)
(* iff some admissible (T, h) explains it.                                 *)
(*                                                                         *)
(* Named deviation (Dev = {} is the ideal):                                *)
(*   "tracer-keeps-parent-sampled-flag"  a span started through a Tracer   *)
(*        inherits the parent's sampled flag even when the sampler's       *)
(*        decision is not RECORD_AND_SAMPLE                                *)
(***************************************************************************)
EXTENDS Integers, Sequences, FiniteSets, TLC, Json

CONSTANTS Mode,     \* "table" | "ratio"
          Dev,      \* deviation names for which an alternative expectation is emitted
          Hist,     \* BOOLEAN: print every case (generation run)
          NMid,     \* ratio part: number of ratios strictly between 0 and 1
          NIds,     \* ratio part: number of trace ids
          Top       \* ratio part: thresholds and id hashes range over 0..Top (Top >= 1)

(* ======================= Part 1: decision table ======================== *)
Validity == {"ok", "zero_tid", "zero_sid", "zero_both"}   \* SpanContext::IsValid <=> "ok"
OFlags   == {"none", "random", "all"}                     \* the other 7 bits of the flags byte
TStates  == {"empty", "one", "two"}                       \* parent trace state: no / one / two members
Parents  == [valid : Validity, sampled : BOOLEAN, remote : BOOLEAN, oflags : OFlags, ts : TStates]
\* root samplers: always-on, always-off, a custom one (RECORD_ONLY with its own trace state),
\* ratio <= 0 and ratio >= 1; wrapped in 0..2 ParentBased samplers
Bases    == {"on", "off", "rec", "r0", "r1"}
Samplers == [base : Bases, depth : 0..2]

IsValid(p) == p.valid = "ok"
BaseDecision(b) == CASE b \in {"on", "r1"} -> "RS"       \* RECORD_AND_SAMPLE
                     [] b \in {"off", "r0"} -> "DROP"
                     [] b = "rec" -> "RO"                 \* RECORD_ONLY

\* design: d = decision, ts = whose trace state the result carries ("parent" | "any" = not
\* constrained by the statement), calls = how often the root sampler was consulted
RECURSIVE Dec(_, _)
Dec(s, p) ==
  IF s.depth = 0 THEN [d |-> BaseDecision(s.base), ts |-> "any", calls |-> 1]
  ELSE IF IsValid(p) THEN [d |-> IF p.sampled THEN "RS" ELSE "DROP", ts |-> "parent", calls |-> 0]
  ELSE Dec([s EXCEPT !.depth = @ - 1], p)

\* a span started through a Tracer configured with sampler s and the explicit parent p
TracerSampled(s, p, D) ==
  IF "tracer-keeps-parent-sampled-flag" \in D
    THEN Dec(s, p).d = "RS" \/ (IsValid(p) /\ p.sampled)
    ELSE Dec(s, p).d = "RS"

Case(s, p) ==
  LET r == Dec(s, p) IN
  [s |-> s, p |-> p, d |-> r.d, ts |-> r.ts, calls |-> r.calls,
   tsampled |-> TracerSampled(s, p, {}), tts |-> r.ts,
   alts |-> {[devs |-> S, tsampled |-> TracerSampled(s, p, S)] :
               S \in {X \in (SUBSET Dev) \ {{}} : TracerSampled(s, p, X) # TracerSampled(s, p, {})}}]

(* ========================= Part 2: ratio model ========================= *)
\* sorted ratio columns: one ratio <= 0, NMid ratios in (0,1), one ratio >= 1
Classes == <<"le0">> \o [j \in 1..NMid |-> "mid"] \o <<"ge1">>
NCol == NMid + 2
Ids == 1..NIds
ClassRank(c) == IF c = "le0" THEN 0 ELSE IF c = "mid" THEN 1 ELSE 2
Sorted(rc) == \A j \in 1..(Len(rc) - 1) : ClassRank(rc[j]) <= ClassRank(rc[j + 1])
Admissible(T, rc, top) ==
  /\ \A j \in 1..Len(rc) : /\ rc[j] = "le0" => T[j] = 0
                           /\ rc[j] = "ge1" => T[j] = top
  /\ \A j, k \in 1..Len(rc) : j < k => T[j] <= T[k]
Decide(T, hv, j) == T[j] # 0 /\ hv <= T[j]
\* the canonical thresholds the trace spec uses: strictly increasing on the positive ratios
Canon(rc) == [j \in 1..Len(rc) |-> IF rc[j] = "le0" THEN 0 ELSE j]
CanonTop(rc) == IF \E j \in 1..Len(rc) : rc[j] = "ge1"
                  THEN CHOOSE j \in 1..Len(rc) : rc[j] = "ge1" /\ \A k \in 1..(j - 1) : rc[k] # "ge1"
                  ELSE Len(rc) + 1
\* the canonical hash of a 0/1 decision row: the first sampled column (none: beyond the last)
FirstSampled(d) == IF \E j \in 1..Len(d) : d[j] = 1
                     THEN CHOOSE j \in 1..Len(d) : d[j] = 1 /\ \A k \in 1..(j - 1) : d[k] = 0
                     ELSE Len(d) + 1
\* a logged row is explained by the model
RowExplained(rc, d) ==
  LET hv == FirstSampled(d) IN
  /\ Len(d) = Len(rc)
  /\ hv <= CanonTop(rc)
  /\ \A j \in 1..Len(rc) : (d[j] = 1) <=> Decide(Canon(rc), hv, j)

(* ============================== state ================================== *)
VARIABLES ev, cur,    \* table: ev = a case has been evaluated; cur = that case
          T, h,       \* ratio: the unknown threshold function and id hash
          col, prevS  \* ratio: the configured ratio (column) and the set sampled before it was raised
vars == <<ev, cur, T, h, col, prevS>>

SampledAt(j) == {i \in Ids : Decide(T, h[i], j)}

Init ==
  /\ ev = FALSE
  /\ cur = Case([base |-> "on", depth |-> 0],
                [valid |-> "ok", sampled |-> FALSE, remote |-> FALSE, oflags |-> "none", ts |-> "empty"])
  /\ IF Mode = "ratio"
       THEN /\ T \in {f \in [1..NCol -> 0..Top] : Admissible(f, Classes, Top)}
            /\ h \in [Ids -> 0..Top]
       ELSE T = <<>> /\ h = <<>>
  /\ col = 1 /\ prevS = {}

Eval(s, p) == /\ Mode = "table" /\ ~ev
              /\ cur' = Case(s, p) /\ ev' = TRUE
              /\ UNCHANGED <<T, h, col, prevS>>
EvalA == \E s \in Samplers, p \in Parents : Eval(s, p)

Raise(k) == /\ Mode = "ratio" /\ k > col /\ k <= NCol
            /\ prevS' = SampledAt(col) /\ col' = k
            /\ UNCHANGED <<ev, cur, T, h>>
RaiseA == \E k \in 1..NCol : Raise(k)

Next == EvalA \/ RaiseA
Spec == Init /\ [][Next]_vars

(* ==================== the property (C12), part 1 ======================= *)
Evaluated == ev
\* a valid parent decides: exactly its sampled flag and its trace state, root sampler not consulted
ParentDecides ==
  (Evaluated /\ cur.s.depth > 0 /\ IsValid(cur.p)) =>
     /\ cur.d = (IF cur.p.sampled THEN "RS" ELSE "DROP")
     /\ cur.ts = "parent" /\ cur.calls = 0
\* the root sampler is consulted exactly for spans without a valid parent, and then decides
RootOnlyWithoutParent ==
  Evaluated => /\ (cur.calls = 1) <=> (cur.s.depth = 0 \/ ~IsValid(cur.p))
               /\ cur.calls \in {0, 1}
               /\ cur.calls = 1 => cur.d = BaseDecision(cur.s.base)
AlwaysConstant ==
  (Evaluated /\ cur.s.depth = 0) => /\ cur.s.base = "on" => cur.d = "RS"
                                    /\ cur.s.base = "off" => cur.d = "DROP"
\* local or remote, and the other flag bits, make no difference
LocalRemoteAgnostic ==
  Evaluated => \A r \in BOOLEAN, f \in OFlags :
     LET q == [cur.p EXCEPT !.remote = r, !.oflags = f] IN
     /\ Dec(cur.s, q).d = cur.d /\ Dec(cur.s, q).ts = cur.ts /\ Dec(cur.s, q).calls = cur.calls
\* the sampled flag a Tracer gives the span is the decision
TracerFlagIsDecision == Evaluated => (cur.tsampled <=> cur.d = "RS")
\* all participants agree: under parent-based sampling a child repeats its (valid) parent's flag
ChildAgreesWithParent ==
  (Evaluated /\ cur.s.depth > 0 /\ IsValid(cur.p)) => (cur.tsampled <=> cur.p.sampled)
DevIsNarrow ==
  Evaluated => \A a \in cur.alts :
     /\ a.devs = {"tracer-keeps-parent-sampled-flag"}
     /\ IsValid(cur.p) /\ cur.p.sampled /\ cur.d # "RS" /\ cur.s.depth = 0

(* ==================== the property (C12), part 2 ======================= *)
RatioOn == Mode = "ratio"
ZeroSamplesNothing == RatioOn => \A j \in 1..NCol : Classes[j] = "le0" => SampledAt(j) = {}
OneSamplesAll      == RatioOn => \A j \in 1..NCol : Classes[j] = "ge1" => SampledAt(j) = Ids
Nested             == RatioOn => \A j, k \in 1..NCol : j < k => SampledAt(j) \subseteq SampledAt(k)
RaisingOnlyAdds    == RatioOn => prevS \subseteq SampledAt(col)
\* lemma used by SamplerTrace: whatever admissible (T, h) produced a decision row, the canonical
\* thresholds with the row's first sampled column as hash explain it too
RowOf(i) == [j \in 1..NCol |-> IF Decide(T, h[i], j) THEN 1 ELSE 0]
CanonicalExplains == RatioOn => \A i \in Ids : RowExplained(Classes, RowOf(i))
\* ... and rows that break a clause are not explained (the trace spec is not vacuous)
RejectsBadRows ==
  RatioOn => \A i \in Ids :
    LET d == RowOf(i) IN
    /\ \A j \in 1..NCol : ~RowExplained(Classes, [d EXCEPT ![j] = 1 - d[j]])
         \/ (\* flipping one cell keeps the row monotone and the end columns right
             /\ j \notin {1, NCol}
             /\ \A a, b \in 1..NCol : a < b => [d EXCEPT ![j] = 1 - d[j]][a] <= [d EXCEPT ![j] = 1 - d[j]][b])

(* ========================= behaviour export ============================ *)
EmitCase == (Hist /\ Evaluated) => PrintT(<<"BEH", ToJson(cur)>>)
WitDev == (Evaluated /\ cur.alts # {}) => (PrintT(<<"BEH", ToJson(cur)>>) /\ FALSE)
=============================================================================
