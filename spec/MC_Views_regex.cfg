\* exhaustive: one view whose name selector is a regular expression with ONE operator (alternation,
\* ? + * [..] . \. ^$ {n}) x every name of RxNames; also prints the sweep lines (BEHS)
CONSTANTS
  TypeSet <- Types1   PatSet <- PatsRx   UnitSelSet <- UnitSelAny   MSelSet <- MSelAny   ShapeSet <- Shape1
  INameSet <- INamesRx   IUnitSet <- IUnit1   MeterSet <- Meter1   AttrSet <- Attrs1
  MaxViews = 1  MaxInst = 1  Hist = FALSE
INIT Init
NEXT Next
VIEW View
INVARIANTS ExactlyMatching OnlyViewShapes MeterIdentityExact DefaultWhenNoMatch DevNarrow EmitSweep
