---------------------------- MODULE SpanIdentity ----------------------------
(***************************************************************************)
(* C05 - identity, parentage, flags and trace state of new spans.         *)
(* API-level reference state machine of                                   *)
(*   sdk/src/trace/tracer.cc  Tracer::StartSpan  (parent resolution, ids, *)
(*   flags, trace state), api trace/scope.h + tracer.h (WithActiveSpan,   *)
(*   GetCurrentSpan: a per-thread stack of active spans), span End/export.*)
(*                                                                         *)
(* Entities (`ents`, 1-based, in creation order) are everything that can  *)
(* act as a parent: "sdk" (recording span), "noop" (dropped span that     *)
(* still carries a valid context), "remote" (a DefaultSpan wrapping a     *)
(* SpanContext that arrived from elsewhere, valid or not).  Trace ids and *)
(* span ids are SYMBOLIC: positive naturals, 0 = the all-zero invalid id; *)
(* "fresh" = a value never used before (parameters ft/fs of StartSpan:    *)
(* the model checker passes the counter `nid`, the trace spec passes the  *)
(* ranks observed on the real code and checks they are unused).           *)
(*                                                                         *)
(* The statement, clause by clause:                                       *)
(*  Parents(t,m)   precedence  explicit SpanContext > explicit Context >   *)
(*                 active span of the calling thread; root marker;        *)
(*                 a Context that is root-marked AND holds a valid span   *)
(*                 is left open (either reading is accepted)              *)
(*  Result         same trace / parent span id / fresh span id; new trace *)
(*                 without parent; flags = sampled bit only, equal to the *)
(*                 sampler's decision; trace state = sampler's if given   *)
(*                 else parent's (empty without parent); recorded iff the *)
(*                 decision is not DROP                                    *)
(*  stack/live     "the span active on the calling thread": WithActiveSpan *)
(*                 pushes a frame and creates a Scope; Scopes may be      *)
(*                 destroyed in ANY order on ANY thread: unwinding down   *)
(*                 to the scope's frame if it is on the caller's stack,   *)
(*                 otherwise no effect (alive scopes keep their spans     *)
(*                 active)                                                *)
(*  End            exported: "yes" for RECORD_AND_SAMPLE, "no" for        *)
(*                 dropped spans, "any" for RECORD_ONLY (statement silent)*)
(* Ghosts: `ls` (how the last span was started), `actor`, `devUsed`.     *)
(* Dev: named deviations of the unchanged tree (CONVENTIONS 2).           *)
(***************************************************************************)
EXTENDS Naturals, Sequences, FiniteSets, TLC, Json

CONSTANTS NThr,       \* threads 1..NThr, each with its own active-span stack
          MaxEnt,     \* bound on entities
          MaxRemote,  \* bound on remote parents
          MaxDepth,   \* bound on the depth of each active-span stack
          MaxOps,     \* bound on operations
          Samplers,   \* subset of AllSamplers
          RemFlags,   \* subset of {0,1,2,3,255}: trace flags of remote parents
          RemForms,   \* subset of {"valid","zero","notrace","nospan"}
          Dev,        \* set of deviation names the model may take
          Hist        \* BOOLEAN: record behaviours

VARIABLES ents,
          stack,   \* per thread: sequence of frames [sc |-> scope id, e |-> entity] (WithActiveSpan pushes one)
          live,    \* scope ids whose Scope object the application still holds (may be destroyed in ANY order,
                   \* on ANY thread)
          rm,      \* ghost (generation only): kinds of non-LIFO releases that happened
          nid, ops, nrem, devUsed,
          actor,   \* ghost: thread of the last action (0: none)
          ls,      \* ghost: how the most recent span was started (mode, active parent, sampler answer)
          lastop, hist

bvars == <<ents, stack, live, nid, ops, nrem, devUsed, actor, ls>>
vars  == <<bvars, rm, lastop, hist>>

Thr   == 1..NThr
NoTS  == 9           \* "the sampler returned no trace state"
DevInherit == "sampled-flag-inherited-from-parent"
AllDevs == {DevInherit}

AllSamplers == {"on", "off", "pb_on", "pb_off", "r0", "r1", "rmid",
                "c_DROP_n", "c_DROP_0", "c_DROP_2", "c_RO_n", "c_RO_0", "c_RO_2",
                "c_RS_n", "c_RS_0", "c_RS_2"}

Last(s) == s[Len(s)]
Active(t) == IF stack[t] = <<>> THEN 0 ELSE Last(stack[t]).e
ValidE(e) == e # 0 /\ ents[e].trace # 0 /\ ents[e].span # 0
ActiveParent(t) == IF ValidE(Active(t)) THEN Active(t) ELSE 0
PSampled(p) == p # 0 /\ ents[p].flags % 2 = 1

(* ---- the samplers (their documented decisions; trace state they return) *)
Dec(s, p, tc) ==
  LET cls == IF p # 0 THEN ents[p].tcls ELSE tc IN
  CASE s = "on"  -> "RS"
    [] s = "off" -> "DROP"
    [] s = "pb_on"  -> IF p # 0 THEN (IF PSampled(p) THEN "RS" ELSE "DROP") ELSE "RS"
    [] s = "pb_off" -> IF p # 0 THEN (IF PSampled(p) THEN "RS" ELSE "DROP") ELSE "DROP"
    [] s = "r0" -> "DROP"
    [] s = "r1" -> "RS"
    [] s = "rmid" -> IF cls = "lo" THEN "RS" ELSE "DROP"
    [] s \in {"c_DROP_n", "c_DROP_0", "c_DROP_2"} -> "DROP"
    [] s \in {"c_RO_n", "c_RO_0", "c_RO_2"} -> "RO"
    [] s \in {"c_RS_n", "c_RS_0", "c_RS_2"} -> "RS"
\* built-in samplers hand back the parent's trace state (or none): same effect as "not given"
STs(s) == CASE s \in {"c_DROP_0", "c_RO_0", "c_RS_0"} -> 0
            [] s \in {"c_DROP_2", "c_RO_2", "c_RS_2"} -> 2
            [] OTHER -> NoTS

(* ---- parent resolution -------------------------------------------------- *)
Modes == [type : {"none", "sc0"}, e : {0}, root : {FALSE}]
         \cup [type : {"sc"}, e : 1..Len(ents), root : {FALSE}]
         \cup [type : {"ctx"}, e : 0..Len(ents), root : BOOLEAN]

Parents(t, m) ==
  CASE m.type \in {"none", "sc0"} -> {ActiveParent(t)}
    [] m.type = "sc"  -> IF ValidE(m.e) THEN {m.e} ELSE {ActiveParent(t)}
    [] m.type = "ctx" -> IF ValidE(m.e) THEN (IF m.root THEN {m.e, 0} ELSE {m.e})
                         ELSE IF m.root THEN {0} ELSE {ActiveParent(t)}

Result(p, s, tc, ft, fs, inherit) ==
  LET d == Dec(s, p, tc) IN
  [trace  |-> IF p # 0 THEN ents[p].trace ELSE ft,
   span   |-> fs,
   parent |-> IF p # 0 THEN ents[p].span ELSE 0,
   flags  |-> IF d = "RS" \/ (inherit /\ PSampled(p)) THEN 1 ELSE 0,
   ts     |-> IF STs(s) # NoTS THEN STs(s) ELSE IF p # 0 THEN ents[p].ts ELSE 0,
   rec    |-> d # "DROP"]

Outcomes(t, s, m, tc, ft, fs) ==
  {[res |-> Result(p, s, tc, ft, fs, FALSE), p |-> p, dev |-> ""] : p \in Parents(t, m)}
  \cup {[res |-> Result(p, s, tc, ft, fs, TRUE), p |-> p, dev |-> DevInherit] :
          p \in {q \in Parents(t, m) : PSampled(q) /\ Dec(s, q, tc) # "RS"}}

CurOf(stk, es) == [t \in Thr |-> IF stk[t] = <<>> THEN 0 ELSE Last(stk[t]).e]
Rec(r) == /\ hist' = IF Hist THEN Append(hist, r @@ [cur |-> CurOf(stack', ents')]) ELSE hist

Init ==
  /\ ents = <<>> /\ stack = [t \in Thr |-> <<>>] /\ live = {} /\ rm = {} /\ nid = 1 /\ ops = 0 /\ nrem = 0
  /\ devUsed = {} /\ actor = 0 /\ ls = <<>> /\ lastop = <<>> /\ hist = <<>>

(* ---- actions --------------------------------------------------------- *)
MakeRemote(fl, ts, form, tc, ft, fs) ==
  /\ Len(ents) < MaxEnt /\ nrem < MaxRemote /\ ops < MaxOps
  /\ UNCHANGED <<stack, live, rm, devUsed, ls>>
  /\ ents' = Append(ents, [kind |-> "remote",
                           trace |-> IF form \in {"valid", "nospan"} THEN ft ELSE 0,
                           span  |-> IF form \in {"valid", "notrace"} THEN fs ELSE 0,
                           parent |-> 0, flags |-> fl, ts |-> ts, dec |-> "", tcls |-> tc,
                           ended |-> FALSE, exported |-> "no"])
  /\ nid' = nid + 2 /\ ops' = ops + 1 /\ nrem' = nrem + 1 /\ actor' = 0
  /\ lastop' = <<"remote", fl, ts, form>>
  /\ Rec([op |-> "remote", e |-> Len(ents) + 1, flags |-> fl, ts |-> ts, form |-> form, tcls |-> tc,
          trace |-> ents'[Len(ents) + 1].trace, span |-> ents'[Len(ents) + 1].span])

StartSpan(t, s, m, tc, ft, fs) ==
  /\ Len(ents) < MaxEnt /\ ops < MaxOps
  /\ UNCHANGED <<stack, live, rm, nrem>>
  /\ \E o \in Outcomes(t, s, m, tc, ft, fs) :
       /\ o.dev = "" \/ o.dev \in Dev
       /\ ents' = Append(ents, [kind |-> IF o.res.rec THEN "sdk" ELSE "noop",
                                trace |-> o.res.trace, span |-> o.res.span, parent |-> o.res.parent,
                                flags |-> o.res.flags, ts |-> o.res.ts, dec |-> Dec(s, o.p, tc),
                                tcls |-> IF o.p # 0 THEN ents[o.p].tcls ELSE tc,
                                ended |-> FALSE, exported |-> "no"])
       /\ ls' = [e |-> Len(ents) + 1, m |-> m, act |-> ActiveParent(t), p |-> o.p, s |-> s,
                 dec |-> Dec(s, o.p, tc), sts |-> STs(s), dev |-> o.dev]
       /\ devUsed' = IF o.dev = "" THEN devUsed ELSE devUsed \cup {o.dev}
       /\ Rec([op |-> "start", t |-> t, s |-> s, m |-> m, tcls |-> tc, e |-> Len(ents) + 1,
               exp |-> o.res, dev |-> o.dev,
               onEnd |-> IF Dec(s, o.p, tc) = "RS" THEN "yes" ELSE IF Dec(s, o.p, tc) = "RO" THEN "any" ELSE "no",
               alts |-> {[res |-> a.res, dev |-> a.dev] : a \in Outcomes(t, s, m, tc, ft, fs) \ {o}}])
  /\ nid' = nid + 2 /\ ops' = ops + 1 /\ actor' = t
  /\ lastop' = <<"start", t, s, m>>

FrameIds == UNION {{stack[t][i].sc : i \in 1..Len(stack[t])} : t \in Thr}
MaxLive  == NThr * MaxDepth
\* model checking / generation name a new scope by the smallest unused id (canonical); the trace spec
\* passes the recorder's own id
NewScope == CHOOSE n \in 1..(2 * MaxLive + 1) : /\ n \notin live \cup FrameIds
                                               /\ \A k \in 1..(n - 1) : k \in live \cup FrameIds

\* Tracer::WithActiveSpan(span) on thread t: a Scope object sc now exists, its frame is on top of t's stack
WithActive(t, e, sc) ==
  /\ e \in 1..Len(ents) /\ Len(stack[t]) < MaxDepth /\ Cardinality(live) < MaxLive /\ ops < MaxOps
  /\ sc # 0 /\ sc \notin live \cup FrameIds
  /\ UNCHANGED <<ents, nid, nrem, devUsed, ls, rm>>
  /\ stack' = [stack EXCEPT ![t] = Append(@, [sc |-> sc, e |-> e])]
  /\ live' = live \cup {sc}
  /\ ops' = ops + 1 /\ actor' = t /\ lastop' = <<"with", t, e>>
  /\ Rec([op |-> "with", t |-> t, e |-> e, sc |-> sc])

\* Thread t destroys the Scope object sc - ANY live scope, in ANY order, created on ANY thread.
\* If its frame is on t's stack, the stack is unwound down to and including that frame (everything attached
\* above it goes too).  If its frame is not on t's stack (already unwound by an earlier out-of-order
\* release, or attached on another thread) NOTHING changes: spans whose Scope is alive stay active.
ReleaseScope(t, sc) ==
  /\ sc \in live /\ ops < MaxOps
  /\ UNCHANGED <<ents, nid, nrem, devUsed, ls>>
  /\ live' = live \ {sc}
  /\ LET P == {i \in 1..Len(stack[t]) : stack[t][i].sc = sc} IN
     /\ stack' = IF P = {} THEN stack
                 ELSE [stack EXCEPT ![t] = SubSeq(@, 1, (CHOOSE i \in P : TRUE) - 1)]
     /\ rm' = IF ~Hist THEN rm
              ELSE rm \cup (IF P # {} /\ P # {Len(stack[t])} THEN {"ooo"} ELSE {})
                      \cup (IF P = {} /\ stack[t] # <<>> THEN {"stale"} ELSE {})
                      \cup (IF P = {} /\ stack[t] # <<>> /\ \E u \in Thr \ {t} : \E i \in 1..Len(stack[u]) : stack[u][i].sc = sc
                           THEN {"cross"} ELSE {})
  /\ ops' = ops + 1 /\ actor' = t /\ lastop' = <<"release", t, sc>>
  /\ Rec([op |-> "release", t |-> t, sc |-> sc])

EndSpan(t, e) ==
  /\ e \in 1..Len(ents) /\ ~ents[e].ended /\ ents[e].kind # "remote" /\ ops < MaxOps
  /\ UNCHANGED <<stack, live, rm, nid, nrem, devUsed, ls>>
  /\ ents' = [ents EXCEPT ![e].ended = TRUE,
                          ![e].exported = IF ents[e].dec = "RS" THEN "yes"
                                          ELSE IF ents[e].dec = "RO" THEN "any" ELSE "no"]
  /\ ops' = ops + 1 /\ actor' = t /\ lastop' = <<"end", t, e>>
  /\ Rec([op |-> "end", t |-> t, e |-> e, exported |-> ents'[e].exported])

TCs(t, s, m) == IF s = "rmid" /\ 0 \in Parents(t, m) THEN {"lo", "hi"} ELSE {"lo"}

DoRemote  == \E fl \in RemFlags, ts \in {0, 1}, form \in RemForms,
                tc \in (IF "rmid" \in Samplers THEN {"lo", "hi"} ELSE {"lo"}) :
                MakeRemote(fl, ts, form, tc, nid, nid + 1)
DoStart   == \E t \in Thr, s \in Samplers, m \in Modes : \E tc \in TCs(t, s, m) :
                StartSpan(t, s, m, tc, nid, nid + 1)
DoWith    == \E t \in Thr, e \in 1..Len(ents) : WithActive(t, e, NewScope)
DoRelease == \E t \in Thr, sc \in live : ReleaseScope(t, sc)
DoEnd     == \E t \in Thr, e \in 1..Len(ents) : EndSpan(t, e)

Next == DoRemote \/ DoStart \/ DoWith \/ DoRelease \/ DoEnd
\* generation by random walks: TLC evaluates "invariants" on EVERY candidate successor, so the walk is
\* closed by one deterministic step and only that step prints (EmitDone)
Finish == /\ ops = MaxOps /\ lastop # <<"finish">> /\ lastop' = <<"finish">>
          /\ UNCHANGED <<bvars, rm, hist>>
NextGen == Next \/ Finish
Spec == Init /\ [][Next]_vars

(* ---- the property ------------------------------------------------------ *)
(* State invariants speak about every entity created so far; the clauses  *)
(* about HOW a span was started (precedence, sampler decision, trace      *)
(* state) are action properties over the ghost `ls` written by StartSpan: *)
(* TLC evaluates them on EVERY transition, also into states seen before.  *)
Started == {e \in 1..Len(ents) : ents[e].kind # "remote"}
Earlier(e) == 1..(e - 1)
ParentsOf(e) == {f \in Earlier(e) : ents[f].span # 0 /\ ents[f].trace # 0 /\ ents[f].span = ents[e].parent}
TypeOK == /\ \A e \in 1..Len(ents) : ents[e].flags \in 0..255 /\ ents[e].ts \in 0..2
          /\ \A t \in Thr : Len(stack[t]) <= MaxDepth
\* a span with a parent continues the parent's trace and records the parent's span id
SameTraceAsParent == \A e \in Started : ents[e].parent # 0 =>
                        /\ Cardinality(ParentsOf(e)) = 1
                        /\ \A f \in ParentsOf(e) : ents[e].trace = ents[f].trace
\* without a parent: a trace id nobody had before
RootHasNoParent == \A e \in Started : ents[e].parent = 0 => \A f \in Earlier(e) : ents[f].trace # ents[e].trace
\* every started span (recorded or not) has a valid context with a span id nobody else has
FreshSpanId == \A e \in Started :
                        /\ ents[e].span # 0 /\ ents[e].trace # 0
                        /\ \A f \in 1..Len(ents) : f # e => ents[f].span # ents[e].span
                        /\ \A f \in 1..Len(ents) : ents[f].trace # ents[e].span
FlagsLevel1Only == \A e \in Started : ents[e].flags \in {0, 1}
SampledIsDecision == devUsed = {} => \A e \in Started : (ents[e].flags = 1) <=> (ents[e].dec = "RS")
DroppedNeverExported == \A e \in 1..Len(ents) :
   /\ ents[e].exported \in {"yes", "any"} => (ents[e].kind = "sdk" /\ ents[e].ended)
   /\ (ents[e].kind = "noop") <=> (ents[e].kind # "remote" /\ ents[e].dec = "DROP")
\* every way of breaking the flag clause goes through a listed deviation
OnlyListedDeviations == devUsed \subseteq Dev

JustStarted == Len(ents') = Len(ents) + 1 /\ ents'[Len(ents')].kind # "remote"
\* explicit SpanContext > explicit Context > active span; root marker  (old state: ents, stack)
PrecedenceA ==
   JustStarted =>
   LET m == ls'.m
       pp == ls'.p
       okE == m.e # 0 /\ ents[m.e].trace # 0 /\ ents[m.e].span # 0
       act == ls'.act
       n == ents'[Len(ents')] IN
   /\ act = (IF actor' \in Thr /\ stack[actor'] # <<>> /\ ents[Last(stack[actor']).e].trace # 0
                                /\ ents[Last(stack[actor']).e].span # 0 THEN Last(stack[actor']).e ELSE 0)
   /\ (m.type = "sc" /\ okE) => pp = m.e
   /\ (m.type = "ctx" /\ okE /\ ~m.root) => pp = m.e
   /\ (m.type = "ctx" /\ okE /\ m.root) => pp \in {m.e, 0}
   /\ (m.type = "ctx" /\ ~okE /\ m.root) => pp = 0
   /\ ((m.type \in {"none", "sc0"}) \/ (m.type \in {"sc", "ctx"} /\ ~okE /\ ~m.root)) => pp = act
   /\ pp # 0 => (n.trace = ents[pp].trace /\ n.parent = ents[pp].span)
   /\ pp = 0 => n.parent = 0
TraceStateA ==
   JustStarted =>
   LET n == ents'[Len(ents')] IN
   n.ts = IF ls'.sts # NoTS THEN ls'.sts ELSE IF ls'.p # 0 THEN ents[ls'.p].ts ELSE 0
DecisionA ==
   JustStarted =>
   LET n == ents'[Len(ents')] IN
   /\ n.dec = ls'.dec
   /\ (n.kind = "sdk") <=> (ls'.dec # "DROP")
   /\ ls'.dev = "" => ((n.flags = 1) <=> (ls'.dec = "RS"))
   /\ ls'.dev # "" => ls'.dev \in Dev
StartRules == [][PrecedenceA /\ TraceStateA /\ DecisionA]_vars
\* a thread's stack changes only by that thread's own WithActiveSpan / scope release
ThreadsIsolated == [][\A t \in Thr : stack'[t] # stack[t] => actor' = t]_vars
\* a release never removes the frame of a scope that is still alive unless that frame lies above the released one
ReleaseUnwindsOnlyAbove ==
  [][\A t \in Thr : \A i \in 1..Len(stack[t]) :
        (stack[t][i].sc \in live' /\ \A j \in 1..i : stack[t][j].sc \in live')
           => (Len(stack'[t]) >= i /\ stack'[t][i] = stack[t][i])]_vars
\* the stack discipline itself
StackOK == /\ \A t \in Thr : \A i, j \in 1..Len(stack[t]) : i # j => stack[t][i].sc # stack[t][j].sc
           /\ \A t, u \in Thr : t # u => \A i \in 1..Len(stack[t]) : \A j \in 1..Len(stack[u]) : stack[t][i].sc # stack[u][j].sc
           /\ Cardinality(live) <= MaxLive

(* ---- behaviour export ------------------------------------------------ *)
View == <<ents, stack, live, nrem, devUsed, lastop>>
\* ops/nid/actor are functions of the path, not of the abstract state: kept out of the fingerprint
ViewState == <<ents, stack, live, nrem, devUsed>>
\* witness runs look at the ghosts: they must be part of the fingerprint there
ViewW == <<ents, stack, live, nrem, devUsed, lastop, ls, rm>>
EmitAll == (hist # <<>>) => PrintT(<<"BEH", ToJson(hist)>>)
EmitDone == (lastop = <<"finish">>) => PrintT(<<"BEH", ToJson(hist)>>)
LastE == ents[Len(ents)]
IsStart == Len(ents) > 0 /\ LastE.kind # "remote" /\ lastop # <<>> /\ lastop[1] = "start" /\ ls # <<>> /\ ls.e = Len(ents)
\* rare conditions that must be replayed on every run
C_Inherit   == IsStart /\ ls.p # 0 /\ ents[ls.p].flags % 2 = 1 /\ ls.dec = "DROP"
C_InheritRO == IsStart /\ ls.p # 0 /\ ents[ls.p].flags = 255 /\ ls.dec = "RO"
C_RootOverActive == IsStart /\ ls.m.type = "ctx" /\ ls.m.root /\ ls.act # 0 /\ ls.p = 0 /\ ls.m.e = 0
C_RootAndSpan == IsStart /\ ls.m.type = "ctx" /\ ls.m.root /\ ls.m.e # 0 /\ ls.p # 0
C_ScOverActive == IsStart /\ ls.m.type = "sc" /\ ls.act # 0 /\ ls.p # ls.act /\ ls.p # 0
C_CtxOverActive == IsStart /\ ls.m.type = "ctx" /\ ls.act # 0 /\ ls.p # ls.act /\ ls.p # 0
C_InvalidScFallsBack == IsStart /\ ls.m.type = "sc" /\ ls.p = ls.act /\ ls.act # 0 /\ ls.m.e # ls.act
C_EmptyCtxFallsBack == IsStart /\ ls.m.type = "ctx" /\ ls.m.e = 0 /\ ~ls.m.root /\ ls.p # 0
C_NoopParent == IsStart /\ ls.p # 0 /\ ents[ls.p].kind = "noop"
C_SamplerTS == IsStart /\ ls.p # 0 /\ ents[ls.p].ts = 1 /\ ls.sts = 0
C_ParentTS == IsStart /\ ls.p # 0 /\ ents[ls.p].ts = 1 /\ ls.sts = NoTS /\ ls.dec = "DROP"
C_GrandChild == IsStart /\ ls.p # 0 /\ ents[ls.p].parent # 0 /\ ents[ls.p].kind # "remote"
C_EndedParent == IsStart /\ ls.p # 0 /\ ents[ls.p].ended
C_CrossThread == IsStart /\ NThr > 1 /\ ls.act # 0 /\ Active(2) # 0 /\ Active(1) # 0 /\ Active(1) # Active(2)
                   /\ lastop[2] = 2
\* non-LIFO scope destruction, then a StartSpan with the implicit parent while an enclosing scope is alive
C_OutOfOrderThenImplicit == IsStart /\ ls.m.type = "none" /\ ls.act # 0 /\ "ooo" \in rm
C_StaleThenImplicit == IsStart /\ ls.m.type = "none" /\ ls.act # 0 /\ "stale" \in rm /\ "ooo" \in rm
C_CrossReleaseThenImplicit == IsStart /\ ls.m.type = "none" /\ ls.act # 0 /\ "cross" \in rm
WitNames == <<"Inherit", "InheritRO", "RootOverActive", "RootAndSpan", "ScOverActive", "CtxOverActive",
              "InvalidScFallsBack", "EmptyCtxFallsBack", "NoopParent", "SamplerTS", "ParentTS", "GrandChild",
              "EndedParent", "CrossThread", "OutOfOrderThenImplicit", "StaleThenImplicit",
              "CrossReleaseThenImplicit">>
WitConds == <<C_Inherit, C_InheritRO, C_RootOverActive, C_RootAndSpan, C_ScOverActive, C_CtxOverActive,
              C_InvalidScFallsBack, C_EmptyCtxFallsBack, C_NoopParent, C_SamplerTS, C_ParentTS, C_GrandChild,
              C_EndedParent, C_CrossThread, C_OutOfOrderThenImplicit, C_StaleThenImplicit,
              C_CrossReleaseThenImplicit>>
\* one BFS run (workers = 1) prints a SHORTEST behaviour for every condition, once (TLC registers 1..Len(WitNames))
InitW == Init /\ \A i \in 1..Len(WitNames) : TLCSet(i, 0)
WitAll == \A i \in 1..Len(WitNames) :
            (TLCGet(i) = 0 /\ WitConds[i]) =>
               (TLCSet(i, 1) /\ PrintT(<<"BEH", ToJson([w |-> WitNames[i], steps |-> hist])>>))
=============================================================================
