--------------------------- MODULE NostdStringView ---------------------------
(***************************************************************************)
(* C20, string_view machine: the contract of std::string_view (which       *)
(* nostd::string_view must follow) over byte strings of length <= MaxLen   *)
(* over the alphabet 0..2, where 0 stands for the NUL byte and the order   *)
(* 0 < 1 < 2 is the order of the concrete bytes AS UNSIGNED CHAR           *)
(* (char_traits<char>::lt).                                                *)
(*                                                                         *)
(* State: two views a and b (their contents).  Actions: a := a.substr(pos, *)
(* n) (or the call throws std::out_of_range and a is unchanged), swap of   *)
(* the two views.  After every step the whole observer suite of the public *)
(* interface is projected (Obs): size/empty/bytes, compare and the         *)
(* relational operators against b, find(ch,pos) for every ch and pos,      *)
(* substr(pos,n) for every pos and n, compare(pos,n,b), and whether        *)
(* std::hash must agree.                                                   *)
(*                                                                         *)
(* Positions/counts: 0..MaxLen+1 are themselves; BIG stands for the class  *)
(* "far beyond every size" (npos, npos-1, 2^63, 2^32+1 ... chosen by the   *)
(* concretiser).  NPOS is the result "not found" and must be exactly       *)
(* string_view::npos.                                                      *)
(***************************************************************************)
EXTENDS Naturals, Sequences, FiniteSets, TLC, Json

CONSTANTS MaxLen, Hist, Depth, Dev,
          Laws,     \* BOOLEAN: add a third string c for the transitivity law (model checking)
          BLen      \* generation: initial b ranges over the strings of length <= BLen

Alpha == 0..2
BIG   == 99
NPOS  == 99
Str   == UNION {[1..k -> Alpha] : k \in 0..MaxLen}
PosDom == (0..(MaxLen + 1)) \cup {BIG}
PosSeq == [i \in 1..(MaxLen + 3) |-> IF i = MaxLen + 3 THEN BIG ELSE i - 1]   \* PosDom in order
Min(x, y) == IF x < y THEN x ELSE y

NWit == 5          \* number of witness conditions (section "behaviour export")
VARIABLES a, b, c, hist
vars == <<a, b, c, hist>>

(* ---- the contract ([string.view]) -------------------------------------- *)
Diff(s, t) == {i \in 1..Min(Len(s), Len(t)) : s[i] # t[i]}
\* sign of s.compare(t): "lt" negative, "eq" zero, "gt" positive
Cmp(s, t) ==
  IF Diff(s, t) # {}
    THEN LET i == CHOOSE i \in Diff(s, t) : \A j \in Diff(s, t) : i <= j
         IN IF s[i] < t[i] THEN "lt" ELSE "gt"
    ELSE IF Len(s) < Len(t) THEN "lt" ELSE IF Len(s) > Len(t) THEN "gt" ELSE "eq"

\* s.find(ch, pos): index of the first ch at or after pos, else npos
Hits(s, ch, pos) == {i \in 0..(Len(s) - 1) : i >= pos /\ s[i + 1] = ch}
Find(s, ch, pos) ==
  IF Hits(s, ch, pos) = {} THEN NPOS
  ELSE CHOOSE i \in Hits(s, ch, pos) : \A j \in Hits(s, ch, pos) : i <= j

\* s.substr(pos, n): throws std::out_of_range iff pos > size(); else the rcount = min(n, size - pos)
\* bytes starting at pos
Throws(s, pos) == pos > Len(s)
Substr(s, pos, n) == SubSeq(s, pos + 1, pos + Min(n, Len(s) - pos))

B(x) == IF x THEN "T" ELSE "F"
\* result of substr as an observer: the bytes, or <<NPOS>> for "throws std::out_of_range"
SubRes(s, pos, n) == IF Throws(s, pos) THEN <<NPOS>> ELSE Substr(s, pos, n)
Cmp3(s, pos, n, t) == IF Throws(s, pos) THEN "throws" ELSE Cmp(Substr(s, pos, n), t)

(* ---- observer suite ------------------------------------------------------ *)
NP == MaxLen + 3
Obs(s, t) ==
  [a    |-> s, b |-> t,
   size |-> Len(s), empty |-> B(Len(s) = 0),
   cmp  |-> Cmp(s, t), rcmp |-> Cmp(t, s),
   eq   |-> B(s = t), ne |-> B(s # t),
   lt   |-> B(Cmp(s, t) = "lt"), gt |-> B(Cmp(s, t) = "gt"),
   heq  |-> IF s = t THEN "must" ELSE "any",          \* hash(a) = hash(b) demanded iff a == b
   find |-> [ch \in 1..3 |-> [p \in 1..NP |-> Find(s, ch - 1, PosSeq[p])]],
   sub  |-> [p \in 1..NP |-> [n \in 1..NP |-> SubRes(s, PosSeq[p], PosSeq[n])]],
   cmp3 |-> [p \in 1..NP |-> [n \in 1..NP |-> Cmp3(s, PosSeq[p], PosSeq[n], t)]]]

Go == ~Hist \/ Len(hist) < Depth + 1
Rec(op, pos, n, thr) ==
  hist' = IF ~Hist THEN hist
          ELSE Append(hist, [op |-> op, pos |-> pos, n |-> n, throws |-> B(thr), exp |-> Obs(a', b')])

Init == /\ a \in Str /\ b \in {s \in Str : Len(s) <= BLen}
        /\ c \in (IF Laws THEN Str ELSE {<<>>})
        /\ \A i \in 1..NWit : TLCSet(i, 0)
        /\ hist = IF Hist THEN <<[op |-> "init", pos |-> 0, n |-> 0, throws |-> "F", exp |-> Obs(a, b)]>> ELSE <<>>

SubstrA(pos, n) ==
  /\ Go
  /\ a' = IF Throws(a, pos) THEN a ELSE Substr(a, pos, n)
  /\ UNCHANGED <<b, c>>
  /\ Rec("substr", pos, n, Throws(a, pos))

SwapAB ==
  /\ Go
  /\ a' = b /\ b' = a /\ UNCHANGED c
  /\ Rec("swap", 0, 0, FALSE)

Next == \/ \E pos \in PosDom, n \in PosDom : SubstrA(pos, n)
        \/ SwapAB

Spec == Init /\ [][Next]_vars

(* ---- laws of the contract (checked by TLC over the whole domain) --------- *)
IsPrefix(s, t) == Len(s) <= Len(t) /\ SubSeq(t, 1, Len(s)) = s
TypeOK == a \in Str /\ b \in Str /\ c \in Str
CmpAntisym == /\ (Cmp(a, b) = "lt") <=> (Cmp(b, a) = "gt")
              /\ (Cmp(a, b) = "eq") <=> (a = b)
              /\ Cmp(a, a) = "eq"
CmpPrefix  == (IsPrefix(a, b) /\ a # b) => Cmp(a, b) = "lt"
CmpTrans   == Laws => ((Cmp(a, b) = "lt" /\ Cmp(b, c) = "lt") => Cmp(a, c) = "lt")
CmpFirstDiff == \A i \in 1..Min(Len(a), Len(b)) :
                  (SubSeq(a, 1, i - 1) = SubSeq(b, 1, i - 1) /\ a[i] < b[i]) => Cmp(a, b) = "lt"
FindSound == \A ch \in Alpha, pos \in PosDom :
               LET r == Find(a, ch, pos) IN
               IF r = NPOS THEN \A i \in 0..(Len(a) - 1) : i >= pos => a[i + 1] # ch
               ELSE /\ r >= pos /\ r < Len(a) /\ a[r + 1] = ch
                    /\ \A i \in 0..(Len(a) - 1) : (i >= pos /\ i < r) => a[i + 1] # ch
SubstrSound == \A pos \in PosDom, n \in PosDom :
                 IF pos > Len(a) THEN Throws(a, pos)
                 ELSE LET r == Substr(a, pos, n) IN
                      /\ ~Throws(a, pos)
                      /\ Len(r) = Min(n, Len(a) - pos)
                      /\ \A i \in 1..Len(r) : r[i] = a[pos + i]
                      /\ r \in Str
Property == CmpAntisym /\ CmpPrefix /\ CmpTrans /\ CmpFirstDiff /\ FindSound /\ SubstrSound

(* ---- behaviour export ---------------------------------------------------- *)
\* hist[1] is the "init" entry (the initial pair and its projection); Depth counts the operations
EmitAll == (Hist /\ Len(hist) = Depth + 1) => PrintT(<<"BEH", ToJson([steps |-> hist])>>)
Last == hist[Len(hist)]
HasLast == Hist /\ Len(hist) > 1
\* rare conditions that must be in the replay set of every run: each is reported once (per worker)
\* from the path-enumeration run itself; the check is broken if one of them is never reported
Wits == <<
  <<"ThrowAtEndPlus1", HasLast /\ Last.op = "substr" /\ Last.throws = "T" /\ Last.pos = Len(a) + 1 /\ Len(a) = MaxLen>>,
  <<"SubstrAtEnd", HasLast /\ Last.op = "substr" /\ Last.throws = "F" /\ Last.pos = MaxLen /\ Len(hist) = 2>>,
  <<"NulFirstInWindow", HasLast /\ Last.op = "substr" /\ Last.pos >= 1 /\ Len(a) = 2 /\ a[1] = 0 /\ a[2] # 0>>,
  <<"WholeOfEmpty", HasLast /\ Last.op = "substr" /\ Last.throws = "F" /\ hist[Len(hist) - 1].exp.size = 0 /\ Last.pos = 0 /\ Last.n = BIG>>,
  <<"BigPosThrows", HasLast /\ Last.op = "substr" /\ Last.throws = "T" /\ Last.pos = BIG>> >>
WitAll == \A i \in 1..NWit : (Wits[i][2] /\ TLCGet(i) = 0) => (PrintT(<<"WIT", Wits[i][1]>>) /\ TLCSet(i, 1))
=============================================================================
