CONSTANTS NThr = 3 NRec = 2 NShut = 2
INIT Init
NEXT Next
INVARIANTS NoOverlap ShutdownOnce AllExported
