--------------------------- MODULE B3JaegerTrace ---------------------------
(***************************************************************************)
(* C16, code -> spec: validates recorded executions of the real B3 / Jaeger*)
(* propagators against the TOKEN-level formulation of B3Jaeger.tla         *)
(* (TokOutcomeB3, TokOutcomeJ).  The harness abstracts every header byte   *)
(* to one token (a 256-entry table) and every id byte to two nibbles;      *)
(* everything else is decided here.                                        *)
(*                                                                         *)
(* Events (one ndjson line each; every event is an execution of its own):  *)
(*  B3  Extract by a B3 propagator: b3, mt, ms, mf = [p, v] (header present*)
(*      and non-empty, its tokens) for b3 / X-B3-TraceId / -SpanId /       *)
(*      -Sampled; x = observable result (out, remote, tid, sid, sampled)   *)
(*  JG  Extract by the Jaeger propagator: h = [p, v] for uber-trace-id; x  *)
(*  RT  Inject of a valid context (tid, sid as nibbles, fl) with format    *)
(*      fmt, then Extract of what was injected: x                          *)
(* An event no rule explains is recorded in `bad` and skipped; `devAt` is  *)
(* the first event that needed each deviation; `kinds` counts what the     *)
(* grammar says about the recorded inputs.                                 *)
(***************************************************************************)
EXTENDS B3Jaeger, IOUtils

TraceLog == ndJsonDeserialize(IOEnv.TRACE)

VARIABLES l, bad, devAt, nexec, kinds
tvars == <<l, bad, devAt, nexec, kinds>>

Ev == TraceLog[l]

XOk(exp, x) ==
  CASE exp.o = "accept" -> /\ x.out = "valid" /\ x.remote
                           /\ x.tid = exp.tid /\ x.sid = exp.sid /\ x.sampled = exp.sampled
    [] exp.o = "reject" -> x.out = "unchanged"
    [] exp.o = "either" -> x.out \in {"unchanged", "valid"}     \* "valid": some context with non-zero ids
Expected(e) == IF e.e = "B3" THEN TokOutcomeB3([b3 |-> e.b3, mt |-> e.mt, ms |-> e.ms, mf |-> e.mf])
               ELSE TokOutcomeJ(e.h)
SameIds(e) == e.x.out = "valid" /\ e.x.remote /\ e.x.tid = e.tid /\ e.x.sid = e.sid
RTIdeal(e) == SameIds(e) /\ e.x.sampled = (e.fl % 2 = 1)
RTDevF11(e) == /\ DevF11 \in Dev /\ e.fmt = "b3m" /\ e.fl % 2 = 1 /\ e.fl % 16 # 1
               /\ SameIds(e) /\ ~e.x.sampled
Explained(e) == IF e.e = "RT" THEN RTIdeal(e) \/ RTDevF11(e) ELSE XOk(Expected(e), e.x)
NeedsDev(e) == IF e.e = "RT" /\ ~RTIdeal(e) /\ RTDevF11(e) THEN {DevF11} ELSE {}
Kind(e) == IF e.e = "RT" THEN "rt-" \o e.fmt ELSE (IF e.e = "B3" THEN "b3-" ELSE "jg-") \o Expected(e).o

TInit == /\ TLCSet(1, 0)
         /\ l = 1 /\ bad = <<>> /\ devAt = [d \in {} |-> 0] /\ nexec = 0
         /\ kinds = [k \in {"rt-b3s", "rt-b3m", "rt-jg", "b3-accept", "b3-either", "b3-reject",
                            "jg-accept", "jg-either", "jg-reject"} |-> 0]
         /\ phase = "trace" /\ fmt = "b3" /\ sc = NoSC /\ car = NoCar /\ res = Rej /\ devUsed = {} /\ tl = NoTail

TStep == /\ l <= Len(TraceLog) /\ l' = l + 1 /\ nexec' = nexec + 1
         /\ IF Explained(Ev)
              THEN /\ bad' = bad
                   /\ devAt' = devAt @@ [d \in NeedsDev(Ev) |-> l]
              ELSE /\ bad' = (IF Len(bad) < 50 THEN Append(bad, l) ELSE bad)
                   /\ devAt' = devAt
         /\ kinds' = [kinds EXCEPT ![Kind(Ev)] = @ + 1]
         /\ UNCHANGED vars

TNext == TStep
TSpec == TInit /\ [][TNext]_<<vars, tvars>>

Progress == TLCSet(1, IF l > TLCGet(1) THEN l ELSE TLCGet(1))
\* POSTCONDITION: the whole log was consumed
Accepted == IF TLCGet(1) = Len(TraceLog) + 1 THEN TRUE
            ELSE PrintT(<<"REJECTED_AT", TLCGet(1)>>) /\ FALSE
Report == (l = Len(TraceLog) + 1) =>
             /\ PrintT(<<"ACCEPTED", nexec>>)
             /\ PrintT(<<"BAD", ToJson(bad)>>)
             /\ PrintT(<<"DEVUSED", ToJson(devAt)>>)
             /\ PrintT(<<"KINDS", ToJson(kinds)>>)
=============================================================================
