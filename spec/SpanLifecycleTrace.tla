------------------------- MODULE SpanLifecycleTrace -------------------------
(***************************************************************************)
(* Trace validation for C04 (code -> spec): a log of operations on a real *)
(* span (harness/c04_span.cc record / c04_conc.cc) is accepted iff it is  *)
(* a behaviour of SpanLifecycle and every observation agrees: IsRecording *)
(* after each call, the number of spans each exporter holds, and what it  *)
(* holds (projected back to abstract ids by the recorder; 999 = a value   *)
(* that is not in the concretisation table; `extra` = attribute keys that *)
(* nobody set).                                                            *)
(* Sequential logs: one event per call.  Concurrent logs (several threads *)
(* on one span): "call"/"ret" events per thread; the call takes effect at *)
(* some point in between (TLin) - TLC searches for a linearisation.       *)
(***************************************************************************)
EXTENDS SpanLifecycle, IOUtils

TraceLog == ndJsonDeserialize(IOEnv.TRACE)

VARIABLES l, nexec, devAll,
          pend      \* concurrent logs: thread -> the call that was logged and has not taken effect yet (or <<>>)
tvars == <<vars, l, nexec, devAll, pend>>

Ev == TraceLog[l]
Is(e) == l <= Len(TraceLog) /\ Ev.e = e /\ l' = l + 1

MatchAttrs(s, g) == \A k \in Keys : g[k] = s[k]
Matches(s, g) ==
  /\ g.name = s.name /\ g.kind = s.kind /\ g.extra = 0
  /\ MatchAttrs(s.attrs, g.attrs)
  /\ Len(g.events) = Len(s.events)
  /\ \A i \in 1..Len(s.events) : /\ g.events[i].name = s.events[i].name
                                 /\ s.events[i].ts # 0 => g.events[i].ts = s.events[i].ts
                                 /\ MatchAttrs(s.events[i].attrs, g.events[i].attrs)
  /\ Len(g.links) = Len(s.links)
  /\ \A i \in 1..Len(s.links) : g.links[i].ctx = s.links[i].ctx /\ MatchAttrs(s.links[i].attrs, g.links[i].attrs)
  /\ \E a \in s.status : a.code = g.status.code /\ (a.desc = 99 \/ a.desc = g.status.desc)
  /\ s.startSys # 0 => g.startSys = s.startSys
  /\ s.dur = 98 => g.durNonNeg
  /\ s.dur \notin {98, 99} => g.dur = s.dur
  /\ g.res = s.res /\ g.scope = s.scope

\* observations attached to an event, against the state AFTER the step
Obs == /\ ("rec" \in DOMAIN Ev) => (Ev.rec = (phase' = "recording"))
       /\ \A p \in PIdx : /\ Ev.cnt[p] >= Len(exported'[p])
                          /\ Ev.cnt[p] <= Len(exported'[p]) + Len(pending'[p])
                          /\ Ev.cnt[p] > 0 => Matches((exported'[p] \o pending'[p])[1], Ev.got[p][1])

Threads == 1..4
TInit == Init /\ l = 1 /\ nexec = 0 /\ devAll = {} /\ pend = [t \in Threads |-> <<>>] /\ TLCSet(1, 0)
Keep == UNCHANGED <<nexec, devAll, pend>>

TCfg == /\ Is("Cfg")
        /\ phase' = "init" /\ name' = 0 /\ kind' = 0 /\ attrs' = NoAttrs /\ events' = <<>> /\ links' = <<>>
        /\ status' = [code |-> "Unset", desc |-> 0] /\ statusO' = [code |-> "Unset", desc |-> 0]
        /\ startSys' = 0 /\ startSteady' = 0 /\ endSteady' = 0 /\ res' = 0 /\ scope' = 0
        /\ exported' = [p \in PIdx |-> <<>>] /\ pending' = [p \in PIdx |-> <<>>]
        /\ ops' = 0 /\ done' = FALSE /\ devUsed' = {} /\ calls' = <<>> /\ marks' = {} /\ lastop' = <<>> /\ hist' = <<>>
        /\ nexec' = nexec + 1 /\ devAll' = devAll \cup devUsed /\ pend' = [t \in Threads |-> <<>>]

Apply(c) == CASE c.op = "set" -> SetAttribute(c.k, c.v)
              [] c.op = "event" -> AddEvent(c.name, c.ovl, c.ts, c.attrs)
              [] c.op = "status" -> SetStatus(c.code, c.desc)
              [] c.op = "name" -> UpdateName(c.name)
              [] c.op = "end" -> End(c.et)
              [] c.op = "release" -> Release
              [] c.op = "flush" -> Flush
              [] c.op = "finish" -> Finish

TStart == Is("start") /\ Start(Ev.name, Ev.kind, Ev.attrs, Ev.links, Ev.ss, Ev.st, Ev.res, Ev.scope) /\ Obs /\ Keep
TOp == /\ l <= Len(TraceLog) /\ Ev.e \in {"set", "event", "status", "name", "end", "release", "flush", "finish"}
       /\ l' = l + 1 /\ Apply(Ev) /\ Obs /\ Keep

\* concurrent logs
TCall == /\ Is("call") /\ pend[Ev.t] = <<>> /\ pend' = [pend EXCEPT ![Ev.t] = Ev]
         /\ UNCHANGED <<vars, nexec, devAll>>
TLin(t) == /\ pend[t] # <<>> /\ ~("lin" \in DOMAIN pend[t])
           /\ Apply(pend[t])
           /\ pend' = [pend EXCEPT ![t] = pend[t] @@ [lin |-> TRUE]]
           /\ UNCHANGED <<l, nexec, devAll>>
TRet == /\ Is("ret") /\ pend[Ev.t] # <<>> /\ "lin" \in DOMAIN pend[Ev.t]
        /\ pend' = [pend EXCEPT ![Ev.t] = <<>>]
        /\ UNCHANGED <<vars, nexec, devAll>>

TNext == TCfg \/ TStart \/ TOp \/ TCall \/ TRet \/ \E t \in Threads : TLin(t)
TSpec == TInit /\ [][TNext]_tvars

Progress == TLCSet(1, IF l > TLCGet(1) THEN l ELSE TLCGet(1))
Accepted == IF TLCGet(1) = Len(TraceLog) + 1 THEN TRUE
            ELSE PrintT(<<"REJECTED_AT", TLCGet(1)>>) /\ FALSE
Report == (l = Len(TraceLog) + 1) => (PrintT(<<"ACCEPTED", nexec>>) /\ PrintT(<<"DEVUSED", devAll \cup devUsed>>))
=============================================================================
