\* exhaustive check of the name slice of the partition (tools/props/C19.py generates the same
\* text for Part = "name" | "unit" | "cross" | "bytes")
CONSTANTS Part = "name"
INIT Init
NEXT Next
INVARIANTS TypeOK StatementName StatementUnit ExactlyValid LayoutFree DevNarrow HandAgrees
