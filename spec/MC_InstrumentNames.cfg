\* exhaustive check of the whole name/unit partition (Part = "name" | "unit" | "cross" | "bytes" select a slice)
CONSTANTS Part = "all"
INIT Init
NEXT Next
INVARIANTS TypeOK StatementName StatementUnit ExactlyValid LayoutFree DevNarrow HandAgrees
