---- MODULE Context_TTrace_1790412606 ----
EXTENDS Context, Sequences, TLCExt, Toolbox, Naturals, TLC

_expression ==
    LET Context_TEExpression == INSTANCE Context_TEExpression
    IN Context_TEExpression!expression
----

_trace ==
    LET Context_TETrace == INSTANCE Context_TETrace
    IN Context_TETrace!trace
----

_inv ==
    ~(
        TLCGet("level") = Len(_TETrace)
        /\
        val = (<<<<1, 0>>, <<1, 0>>, <<1, 0>>>>)
        /\
        hist = (<<[v |-> 1, c |-> 0, k |-> 1, t |-> 1, op |-> "SetValue", m |-> <<>>, ok |-> 1, n |-> 1, cur |-> <<0, 0>>, span |-> <<0, 0>>, tab |-> <<<<1, 0>>>>], [v |-> 1, c |-> 0, k |-> 1, t |-> 1, op |-> "SetValue", m |-> <<>>, ok |-> 1, n |-> 2, cur |-> <<0, 0>>, span |-> <<0, 0>>, tab |-> <<<<1, 0>>, <<1, 0>>>>], [v |-> 1, c |-> 0, k |-> 1, t |-> 1, op |-> "SetValue", m |-> <<>>, ok |-> 1, n |-> 3, cur |-> <<0, 0>>, span |-> <<0, 0>>, tab |-> <<<<1, 0>>, <<1, 0>>, <<1, 0>>>>], [v |-> 0, c |-> 0, k |-> 0, t |-> 1, op |-> "Attach", m |-> <<>>, ok |-> 1, n |-> 0, cur |-> <<0, 0>>, span |-> <<0, 0>>, tab |-> <<<<1, 0>>, <<1, 0>>, <<1, 0>>>>], [v |-> 0, c |-> 0, k |-> 0, t |-> 1, op |-> "Attach", m |-> <<>>, ok |-> 1, n |-> 0, cur |-> <<0, 0>>, span |-> <<0, 0>>, tab |-> <<<<1, 0>>, <<1, 0>>, <<1, 0>>>>], [v |-> 0, c |-> 2, k |-> 0, t |-> 1, op |-> "Attach", m |-> <<>>, ok |-> 1, n |-> 0, cur |-> <<2, 0>>, span |-> <<0, 0>>, tab |-> <<<<1, 0>>, <<1, 0>>, <<1, 0>>>>], [v |-> 0, c |-> 0, k |-> 0, t |-> 1, op |-> "Detach", m |-> <<>>, ok |-> 1, n |-> 0, cur |-> <<0, 0>>, span |-> <<0, 0>>, tab |-> <<<<1, 0>>, <<1, 0>>, <<1, 0>>>>]>>)
        /\
        stack = (<<<<[c |-> 0, before |-> 0]>>, <<>>>>)
        /\
        last = ([v |-> 0, c |-> 0, k |-> 0, t |-> 1, op |-> "Detach", m |-> <<>>, ok |-> 1, n |-> 0])
        /\
        toks = ({0, 2})
        /\
        origin = (<<[sc |-> FALSE, m |-> <<1, 0>>, p |-> 0], [sc |-> FALSE, m |-> <<1, 0>>, p |-> 0], [sc |-> FALSE, m |-> <<1, 0>>, p |-> 0]>>)
        /\
        flags = ({"reattach", "ooo", "dup", "dup_ooo"})
        /\
        scopes = ({})
    )
----

_init ==
    /\ origin = _TETrace[1].origin
    /\ val = _TETrace[1].val
    /\ toks = _TETrace[1].toks
    /\ flags = _TETrace[1].flags
    /\ hist = _TETrace[1].hist
    /\ last = _TETrace[1].last
    /\ scopes = _TETrace[1].scopes
    /\ stack = _TETrace[1].stack
----

_next ==
    /\ \E i,j \in DOMAIN _TETrace:
        /\ \/ /\ j = i + 1
              /\ i = TLCGet("level")
        /\ origin  = _TETrace[i].origin
        /\ origin' = _TETrace[j].origin
        /\ val  = _TETrace[i].val
        /\ val' = _TETrace[j].val
        /\ toks  = _TETrace[i].toks
        /\ toks' = _TETrace[j].toks
        /\ flags  = _TETrace[i].flags
        /\ flags' = _TETrace[j].flags
        /\ hist  = _TETrace[i].hist
        /\ hist' = _TETrace[j].hist
        /\ last  = _TETrace[i].last
        /\ last' = _TETrace[j].last
        /\ scopes  = _TETrace[i].scopes
        /\ scopes' = _TETrace[j].scopes
        /\ stack  = _TETrace[i].stack
        /\ stack' = _TETrace[j].stack

\* Uncomment the ASSUME below to write the states of the error trace
\* to the given file in Json format. Note that you can pass any tuple
\* to `JsonSerialize`. For example, a sub-sequence of _TETrace.
    \* ASSUME
    \*     LET J == INSTANCE Json
    \*         IN J!JsonSerialize("Context_TTrace_1790412606.json", _TETrace)

=============================================================================

 Note that you can extract this module `Context_TEExpression`
  to a dedicated file to reuse `expression` (the module in the 
  dedicated `Context_TEExpression.tla` file takes precedence 
  over the module `Context_TEExpression` below).

---- MODULE Context_TEExpression ----
EXTENDS Context, Sequences, TLCExt, Toolbox, Naturals, TLC

expression == 
    [
        \* To hide variables of the `Context` spec from the error trace,
        \* remove the variables below.  The trace will be written in the order
        \* of the fields of this record.
        origin |-> origin
        ,val |-> val
        ,toks |-> toks
        ,flags |-> flags
        ,hist |-> hist
        ,last |-> last
        ,scopes |-> scopes
        ,stack |-> stack
        
        \* Put additional constant-, state-, and action-level expressions here:
        \* ,_stateNumber |-> _TEPosition
        \* ,_originUnchanged |-> origin = origin'
        
        \* Format the `origin` variable as Json value.
        \* ,_originJson |->
        \*     LET J == INSTANCE Json
        \*     IN J!ToJson(origin)
        
        \* Lastly, you may build expressions over arbitrary sets of states by
        \* leveraging the _TETrace operator.  For example, this is how to
        \* count the number of times a spec variable changed up to the current
        \* state in the trace.
        \* ,_originModCount |->
        \*     LET F[s \in DOMAIN _TETrace] ==
        \*         IF s = 1 THEN 0
        \*         ELSE IF _TETrace[s].origin # _TETrace[s-1].origin
        \*             THEN 1 + F[s-1] ELSE F[s-1]
        \*     IN F[_TEPosition - 1]
    ]

=============================================================================



Parsing and semantic processing can take forever if the trace below is long.
 In this case, it is advised to uncomment the module below to deserialize the
 trace from a generated binary file.

\*
\*---- MODULE Context_TETrace ----
\*EXTENDS Context, IOUtils, TLC
\*
\*trace == IODeserialize("Context_TTrace_1790412606.bin", TRUE)
\*
\*=============================================================================
\*

---- MODULE Context_TETrace ----
EXTENDS Context, TLC

trace == 
    <<
    ([val |-> <<>>,hist |-> <<>>,stack |-> <<<<>>, <<>>>>,last |-> [v |-> 0, c |-> 0, k |-> 0, t |-> 0, op |-> "Init", m |-> <<>>, ok |-> 1, n |-> 0],toks |-> {},origin |-> <<>>,flags |-> {},scopes |-> {}]),
    ([val |-> <<<<1, 0>>>>,hist |-> <<[v |-> 1, c |-> 0, k |-> 1, t |-> 1, op |-> "SetValue", m |-> <<>>, ok |-> 1, n |-> 1, cur |-> <<0, 0>>, span |-> <<0, 0>>, tab |-> <<<<1, 0>>>>]>>,stack |-> <<<<>>, <<>>>>,last |-> [v |-> 1, c |-> 0, k |-> 1, t |-> 1, op |-> "SetValue", m |-> <<>>, ok |-> 1, n |-> 1],toks |-> {},origin |-> <<[sc |-> FALSE, m |-> <<1, 0>>, p |-> 0]>>,flags |-> {},scopes |-> {}]),
    ([val |-> <<<<1, 0>>, <<1, 0>>>>,hist |-> <<[v |-> 1, c |-> 0, k |-> 1, t |-> 1, op |-> "SetValue", m |-> <<>>, ok |-> 1, n |-> 1, cur |-> <<0, 0>>, span |-> <<0, 0>>, tab |-> <<<<1, 0>>>>], [v |-> 1, c |-> 0, k |-> 1, t |-> 1, op |-> "SetValue", m |-> <<>>, ok |-> 1, n |-> 2, cur |-> <<0, 0>>, span |-> <<0, 0>>, tab |-> <<<<1, 0>>, <<1, 0>>>>]>>,stack |-> <<<<>>, <<>>>>,last |-> [v |-> 1, c |-> 0, k |-> 1, t |-> 1, op |-> "SetValue", m |-> <<>>, ok |-> 1, n |-> 2],toks |-> {},origin |-> <<[sc |-> FALSE, m |-> <<1, 0>>, p |-> 0], [sc |-> FALSE, m |-> <<1, 0>>, p |-> 0]>>,flags |-> {},scopes |-> {}]),
    ([val |-> <<<<1, 0>>, <<1, 0>>, <<1, 0>>>>,hist |-> <<[v |-> 1, c |-> 0, k |-> 1, t |-> 1, op |-> "SetValue", m |-> <<>>, ok |-> 1, n |-> 1, cur |-> <<0, 0>>, span |-> <<0, 0>>, tab |-> <<<<1, 0>>>>], [v |-> 1, c |-> 0, k |-> 1, t |-> 1, op |-> "SetValue", m |-> <<>>, ok |-> 1, n |-> 2, cur |-> <<0, 0>>, span |-> <<0, 0>>, tab |-> <<<<1, 0>>, <<1, 0>>>>], [v |-> 1, c |-> 0, k |-> 1, t |-> 1, op |-> "SetValue", m |-> <<>>, ok |-> 1, n |-> 3, cur |-> <<0, 0>>, span |-> <<0, 0>>, tab |-> <<<<1, 0>>, <<1, 0>>, <<1, 0>>>>]>>,stack |-> <<<<>>, <<>>>>,last |-> [v |-> 1, c |-> 0, k |-> 1, t |-> 1, op |-> "SetValue", m |-> <<>>, ok |-> 1, n |-> 3],toks |-> {},origin |-> <<[sc |-> FALSE, m |-> <<1, 0>>, p |-> 0], [sc |-> FALSE, m |-> <<1, 0>>, p |-> 0], [sc |-> FALSE, m |-> <<1, 0>>, p |-> 0]>>,flags |-> {},scopes |-> {}]),
    ([val |-> <<<<1, 0>>, <<1, 0>>, <<1, 0>>>>,hist |-> <<[v |-> 1, c |-> 0, k |-> 1, t |-> 1, op |-> "SetValue", m |-> <<>>, ok |-> 1, n |-> 1, cur |-> <<0, 0>>, span |-> <<0, 0>>, tab |-> <<<<1, 0>>>>], [v |-> 1, c |-> 0, k |-> 1, t |-> 1, op |-> "SetValue", m |-> <<>>, ok |-> 1, n |-> 2, cur |-> <<0, 0>>, span |-> <<0, 0>>, tab |-> <<<<1, 0>>, <<1, 0>>>>], [v |-> 1, c |-> 0, k |-> 1, t |-> 1, op |-> "SetValue", m |-> <<>>, ok |-> 1, n |-> 3, cur |-> <<0, 0>>, span |-> <<0, 0>>, tab |-> <<<<1, 0>>, <<1, 0>>, <<1, 0>>>>], [v |-> 0, c |-> 0, k |-> 0, t |-> 1, op |-> "Attach", m |-> <<>>, ok |-> 1, n |-> 0, cur |-> <<0, 0>>, span |-> <<0, 0>>, tab |-> <<<<1, 0>>, <<1, 0>>, <<1, 0>>>>]>>,stack |-> <<<<[c |-> 0, before |-> 0]>>, <<>>>>,last |-> [v |-> 0, c |-> 0, k |-> 0, t |-> 1, op |-> "Attach", m |-> <<>>, ok |-> 1, n |-> 0],toks |-> {0},origin |-> <<[sc |-> FALSE, m |-> <<1, 0>>, p |-> 0], [sc |-> FALSE, m |-> <<1, 0>>, p |-> 0], [sc |-> FALSE, m |-> <<1, 0>>, p |-> 0]>>,flags |-> {},scopes |-> {}]),
    ([val |-> <<<<1, 0>>, <<1, 0>>, <<1, 0>>>>,hist |-> <<[v |-> 1, c |-> 0, k |-> 1, t |-> 1, op |-> "SetValue", m |-> <<>>, ok |-> 1, n |-> 1, cur |-> <<0, 0>>, span |-> <<0, 0>>, tab |-> <<<<1, 0>>>>], [v |-> 1, c |-> 0, k |-> 1, t |-> 1, op |-> "SetValue", m |-> <<>>, ok |-> 1, n |-> 2, cur |-> <<0, 0>>, span |-> <<0, 0>>, tab |-> <<<<1, 0>>, <<1, 0>>>>], [v |-> 1, c |-> 0, k |-> 1, t |-> 1, op |-> "SetValue", m |-> <<>>, ok |-> 1, n |-> 3, cur |-> <<0, 0>>, span |-> <<0, 0>>, tab |-> <<<<1, 0>>, <<1, 0>>, <<1, 0>>>>], [v |-> 0, c |-> 0, k |-> 0, t |-> 1, op |-> "Attach", m |-> <<>>, ok |-> 1, n |-> 0, cur |-> <<0, 0>>, span |-> <<0, 0>>, tab |-> <<<<1, 0>>, <<1, 0>>, <<1, 0>>>>], [v |-> 0, c |-> 0, k |-> 0, t |-> 1, op |-> "Attach", m |-> <<>>, ok |-> 1, n |-> 0, cur |-> <<0, 0>>, span |-> <<0, 0>>, tab |-> <<<<1, 0>>, <<1, 0>>, <<1, 0>>>>]>>,stack |-> <<<<[c |-> 0, before |-> 0], [c |-> 0, before |-> 0]>>, <<>>>>,last |-> [v |-> 0, c |-> 0, k |-> 0, t |-> 1, op |-> "Attach", m |-> <<>>, ok |-> 1, n |-> 0],toks |-> {0},origin |-> <<[sc |-> FALSE, m |-> <<1, 0>>, p |-> 0], [sc |-> FALSE, m |-> <<1, 0>>, p |-> 0], [sc |-> FALSE, m |-> <<1, 0>>, p |-> 0]>>,flags |-> {"reattach"},scopes |-> {}]),
    ([val |-> <<<<1, 0>>, <<1, 0>>, <<1, 0>>>>,hist |-> <<[v |-> 1, c |-> 0, k |-> 1, t |-> 1, op |-> "SetValue", m |-> <<>>, ok |-> 1, n |-> 1, cur |-> <<0, 0>>, span |-> <<0, 0>>, tab |-> <<<<1, 0>>>>], [v |-> 1, c |-> 0, k |-> 1, t |-> 1, op |-> "SetValue", m |-> <<>>, ok |-> 1, n |-> 2, cur |-> <<0, 0>>, span |-> <<0, 0>>, tab |-> <<<<1, 0>>, <<1, 0>>>>], [v |-> 1, c |-> 0, k |-> 1, t |-> 1, op |-> "SetValue", m |-> <<>>, ok |-> 1, n |-> 3, cur |-> <<0, 0>>, span |-> <<0, 0>>, tab |-> <<<<1, 0>>, <<1, 0>>, <<1, 0>>>>], [v |-> 0, c |-> 0, k |-> 0, t |-> 1, op |-> "Attach", m |-> <<>>, ok |-> 1, n |-> 0, cur |-> <<0, 0>>, span |-> <<0, 0>>, tab |-> <<<<1, 0>>, <<1, 0>>, <<1, 0>>>>], [v |-> 0, c |-> 0, k |-> 0, t |-> 1, op |-> "Attach", m |-> <<>>, ok |-> 1, n |-> 0, cur |-> <<0, 0>>, span |-> <<0, 0>>, tab |-> <<<<1, 0>>, <<1, 0>>, <<1, 0>>>>], [v |-> 0, c |-> 2, k |-> 0, t |-> 1, op |-> "Attach", m |-> <<>>, ok |-> 1, n |-> 0, cur |-> <<2, 0>>, span |-> <<0, 0>>, tab |-> <<<<1, 0>>, <<1, 0>>, <<1, 0>>>>]>>,stack |-> <<<<[c |-> 0, before |-> 0], [c |-> 0, before |-> 0], [c |-> 2, before |-> 0]>>, <<>>>>,last |-> [v |-> 0, c |-> 2, k |-> 0, t |-> 1, op |-> "Attach", m |-> <<>>, ok |-> 1, n |-> 0],toks |-> {0, 2},origin |-> <<[sc |-> FALSE, m |-> <<1, 0>>, p |-> 0], [sc |-> FALSE, m |-> <<1, 0>>, p |-> 0], [sc |-> FALSE, m |-> <<1, 0>>, p |-> 0]>>,flags |-> {"reattach"},scopes |-> {}]),
    ([val |-> <<<<1, 0>>, <<1, 0>>, <<1, 0>>>>,hist |-> <<[v |-> 1, c |-> 0, k |-> 1, t |-> 1, op |-> "SetValue", m |-> <<>>, ok |-> 1, n |-> 1, cur |-> <<0, 0>>, span |-> <<0, 0>>, tab |-> <<<<1, 0>>>>], [v |-> 1, c |-> 0, k |-> 1, t |-> 1, op |-> "SetValue", m |-> <<>>, ok |-> 1, n |-> 2, cur |-> <<0, 0>>, span |-> <<0, 0>>, tab |-> <<<<1, 0>>, <<1, 0>>>>], [v |-> 1, c |-> 0, k |-> 1, t |-> 1, op |-> "SetValue", m |-> <<>>, ok |-> 1, n |-> 3, cur |-> <<0, 0>>, span |-> <<0, 0>>, tab |-> <<<<1, 0>>, <<1, 0>>, <<1, 0>>>>], [v |-> 0, c |-> 0, k |-> 0, t |-> 1, op |-> "Attach", m |-> <<>>, ok |-> 1, n |-> 0, cur |-> <<0, 0>>, span |-> <<0, 0>>, tab |-> <<<<1, 0>>, <<1, 0>>, <<1, 0>>>>], [v |-> 0, c |-> 0, k |-> 0, t |-> 1, op |-> "Attach", m |-> <<>>, ok |-> 1, n |-> 0, cur |-> <<0, 0>>, span |-> <<0, 0>>, tab |-> <<<<1, 0>>, <<1, 0>>, <<1, 0>>>>], [v |-> 0, c |-> 2, k |-> 0, t |-> 1, op |-> "Attach", m |-> <<>>, ok |-> 1, n |-> 0, cur |-> <<2, 0>>, span |-> <<0, 0>>, tab |-> <<<<1, 0>>, <<1, 0>>, <<1, 0>>>>], [v |-> 0, c |-> 0, k |-> 0, t |-> 1, op |-> "Detach", m |-> <<>>, ok |-> 1, n |-> 0, cur |-> <<0, 0>>, span |-> <<0, 0>>, tab |-> <<<<1, 0>>, <<1, 0>>, <<1, 0>>>>]>>,stack |-> <<<<[c |-> 0, before |-> 0]>>, <<>>>>,last |-> [v |-> 0, c |-> 0, k |-> 0, t |-> 1, op |-> "Detach", m |-> <<>>, ok |-> 1, n |-> 0],toks |-> {0, 2},origin |-> <<[sc |-> FALSE, m |-> <<1, 0>>, p |-> 0], [sc |-> FALSE, m |-> <<1, 0>>, p |-> 0], [sc |-> FALSE, m |-> <<1, 0>>, p |-> 0]>>,flags |-> {"reattach", "ooo", "dup", "dup_ooo"},scopes |-> {}])
    >>
----


=============================================================================

---- CONFIG Context_TTrace_1790412606 ----
CONSTANTS
    NT = 2
    NK = 2
    NV = 1
    NS = 2
    MaxCtx = 4
    MaxSet = 3
    MaxDepth = 4
    MaxMap = 2
    GenDepth = 12
    DeepTarget = 99
    Hist = TRUE
    KeepFlags = FALSE
    Dev = { }

INVARIANT
    _inv

CHECK_DEADLOCK
    \* CHECK_DEADLOCK off because of PROPERTY or INVARIANT above.
    FALSE

INIT
    _init

NEXT
    _next

CONSTANT
    _TETrace <- _trace

ALIAS
    _expression
=============================================================================
\* Generated on Sat Sep 26 08:50:23 UTC 2026