\* exhaustive, as implemented (Dev = every modelled deviation); IdealHolds is the Dev = {} result.
\* other shapes: UVars = {} (all shared_ptr), {"a","b","c"} (all unique_ptr), {"a","b"} with BVars = {"b","c"}
CONSTANTS NVar = 3  UVars = {"a"}  BVars = {"c"}  NObj = 2  MKind = "none"  Hist = FALSE  Depth = 0
          Dev = {"shared-self-copy-assign-sole-owner"}
INIT Init
NEXT Next
INVARIANTS TypeOK PropertyOrDev IdealHolds
