------------------------- MODULE MetricsAsyncConcTrace -------------------------
(***************************************************************************)
(* C17, concurrent clause (property-level monitor, trace spec).  Collector *)
(* threads race threads that add / remove callbacks and destroy observable *)
(* instruments (harness/c17_conc.cc under the deterministic scheduler).    *)
(* Events, in the engine's total order ("Call" is logged before the API    *)
(* call starts, "Ret" after it has returned):                              *)
(*   Cfg(cbi)   AddCall(c) AddRet(c)   RemoveCall(c) RemoveRet(c)           *)
(*   DestroyCall(i) DestroyRet(i)   ColCall(k, r) ColRet(k)                 *)
(*   CbInvoked(c, k)   the SDK entered callback c inside collection k      *)
(*   End                                                                   *)
(* Accepted iff                                                            *)
(*  - no callback is entered while it is stably removed: after RemoveRet(c)*)
(*    (or DestroyRet of its instrument) and before the next AddCall(c)     *)
(*    "a removed callback (or one whose instrument was destroyed) is never *)
(*    invoked again" - once RemoveCallback has returned the owner may free *)
(*    the state;                                                           *)
(*  - a callback that is stably registered during a whole collection       *)
(*    (AddRet before ColCall, no RemoveCall/DestroyCall before ColRet) is  *)
(*    entered exactly once in it;                                          *)
(*  - every invocation belongs to a collection in progress.                *)
(* Don't care: how often a collection that overlaps an Add / Remove /      *)
(* Destroy of c enters c (0, 1, ...); which collection runs first; values. *)
(***************************************************************************)
EXTENDS Naturals, Sequences, FiniteSets, TLC, Json, IOUtils

TraceLog == ndJsonDeserialize(IOEnv.TRACE)

VARIABLES l, nexec, cbi, st, open, devUsed
vars == <<l, nexec, cbi, st, open, devUsed>>

Ev == TraceLog[l]
Is(e) == l <= Len(TraceLog) /\ Ev.e = e /\ l' = l + 1
Cbs == DOMAIN cbi
\* st[c]: "out" stably not registered, "adding", "in" stably registered, "removing", "dead" (instrument gone)
Drop(S) == [k \in DOMAIN open |-> [open[k] EXCEPT !.must = @ \ S]]

Init == /\ TLCSet(1, 0)
        /\ l = 1 /\ nexec = 0 /\ cbi = <<>> /\ st = <<>> /\ open = <<>> /\ devUsed = {}

TCfg == /\ Is("Cfg")
        /\ cbi' = Ev.cbi /\ st' = [c \in DOMAIN Ev.cbi |-> "out"] /\ open' = <<>>
        /\ nexec' = nexec + 1 /\ UNCHANGED devUsed

TAddCall == /\ Is("AddCall") /\ Ev.c \in Cbs /\ st[Ev.c] = "out"
            /\ st' = [st EXCEPT ![Ev.c] = "adding"]
            /\ UNCHANGED <<nexec, cbi, open, devUsed>>
TAddRet == /\ Is("AddRet") /\ Ev.c \in Cbs /\ st[Ev.c] = "adding"
           /\ st' = [st EXCEPT ![Ev.c] = "in"]
           /\ UNCHANGED <<nexec, cbi, open, devUsed>>
\* from here on the collections in progress owe c nothing any more
TRemoveCall == /\ Is("RemoveCall") /\ Ev.c \in Cbs /\ st[Ev.c] \in {"in", "out"}
               /\ st' = [st EXCEPT ![Ev.c] = "removing"]
               /\ open' = Drop({Ev.c})
               /\ UNCHANGED <<nexec, cbi, devUsed>>
TRemoveRet == /\ Is("RemoveRet") /\ Ev.c \in Cbs /\ st[Ev.c] = "removing"
              /\ st' = [st EXCEPT ![Ev.c] = "out"]
              /\ UNCHANGED <<nexec, cbi, open, devUsed>>
OnInstr(i) == {c \in Cbs : cbi[c] = i}
TDestroyCall == /\ Is("DestroyCall")
                /\ \A c \in OnInstr(Ev.i) : st[c] \in {"in", "out"}
                /\ st' = [c \in Cbs |-> IF c \in OnInstr(Ev.i) THEN "removing" ELSE st[c]]
                /\ open' = Drop(OnInstr(Ev.i))
                /\ UNCHANGED <<nexec, cbi, devUsed>>
TDestroyRet == /\ Is("DestroyRet")
               /\ \A c \in OnInstr(Ev.i) : st[c] = "removing"
               /\ st' = [c \in Cbs |-> IF c \in OnInstr(Ev.i) THEN "dead" ELSE st[c]]
               /\ UNCHANGED <<nexec, cbi, open, devUsed>>

TColCall == /\ Is("ColCall") /\ Ev.k \notin DOMAIN open
            /\ open' = (Ev.k :> [must |-> {c \in Cbs : st[c] = "in"}, cnt |-> [c \in Cbs |-> 0]]) @@ open
            /\ UNCHANGED <<nexec, cbi, st, devUsed>>

\* the SDK entered callback c: never while c is stably removed, only inside a collection in progress
TCbInvoked == /\ Is("CbInvoked") /\ Ev.c \in Cbs
              /\ st[Ev.c] \notin {"out", "dead"}
              /\ Ev.k \in DOMAIN open
              /\ open' = [open EXCEPT ![Ev.k].cnt[Ev.c] = @ + 1]
              /\ UNCHANGED <<nexec, cbi, st, devUsed>>

\* the collection has returned: every callback that was stably registered all along ran exactly once
TColRet == /\ Is("ColRet") /\ Ev.k \in DOMAIN open
           /\ \A c \in open[Ev.k].must : open[Ev.k].cnt[c] = 1
           /\ open' = [k \in DOMAIN open \ {Ev.k} |-> open[k]]
           /\ UNCHANGED <<nexec, cbi, st, devUsed>>

TEnd == /\ Is("End") /\ DOMAIN open = {}
        /\ UNCHANGED <<nexec, cbi, st, open, devUsed>>

Next == TCfg \/ TAddCall \/ TAddRet \/ TRemoveCall \/ TRemoveRet \/ TDestroyCall \/ TDestroyRet
        \/ TColCall \/ TCbInvoked \/ TColRet \/ TEnd
Spec == Init /\ [][Next]_vars

Progress == TLCSet(1, IF l > TLCGet(1) THEN l ELSE TLCGet(1))
\* POSTCONDITION: the whole log was consumed; otherwise print the 1-based index of the first
\* event that no action could consume
Accepted == IF TLCGet(1) = Len(TraceLog) + 1 THEN TRUE
            ELSE PrintT(<<"REJECTED_AT", TLCGet(1)>>) /\ FALSE
Report == (l = Len(TraceLog) + 1) => (PrintT(<<"ACCEPTED", nexec>>) /\ PrintT(<<"DEVUSED", devUsed>>))
=============================================================================
