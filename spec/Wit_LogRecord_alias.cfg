\* C13 as implemented: with the two named deviations every way of breaking the property goes through one of them
CONSTANTS NT = 1  NS = 1  PipeNames = {"b"}  NRes = 1
          MaxRecs = 1  MaxSets = 1  MaxArgs = 2  MaxFlush = 1  MaxNull = 0  MaxAdd = 0  LgSet = {1}  MaxScope = 1  MaxNest = 1
          NSev = 1  NBody = 2  NTs = 1  NId = 1  NFl = 1  NAK = 1  NAV = 2  MaxMap = 1  NEv = 1  NName = 1
          GenDepth = 0  Hist = FALSE
          Dev = {"log-record-aliases-caller-buffers"}
INIT Init
NEXT Next
VIEW View
INVARIANTS ExportedEqualsEmitted
