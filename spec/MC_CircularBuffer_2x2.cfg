CONSTANTS NProd = 2  NElem = 2  MaxSize = 2  SpuriousCAS = TRUE  Retry = FALSE Hist = FALSE
INIT Init
NEXT Next
VIEW View
INVARIANTS TypeOK Bounded NoNullConsumed NoDup OnlyOk Order NoLoss SlotsMatch FailLegit UndoGetsOwn HeldOrPlaced
