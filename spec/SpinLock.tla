------------------------------ MODULE SpinLock ------------------------------
(***************************************************************************)
(* Level B model of api/include/opentelemetry/common/spin_lock_mutex.h,   *)
(* one action per atomic operation / yield / sleep of the C++:            *)
(*   lock():   exchange(true) -> got it | spin: FastIter x { try_lock() } *)
(*             yield(); try_lock(); sleep_for(1ms); start over             *)
(*   try_lock(): load() -> busy: fail | exchange(true) -> got it / fail   *)
(*   unlock(): store(false)                                                *)
(* Each thread performs Rounds acquisitions, each by lock() or try_lock().*)
(***************************************************************************)
EXTENDS Naturals, Sequences, FiniteSets, TLC, Json

CONSTANTS NThr, Rounds, FastIter, UseTry, Hist

Thr == 1..NThr
VARIABLES flag, pc, i, left, inCS, tryOK, slept, hist
bvars == <<flag, pc, i, left, inCS, tryOK, slept>>
vars == <<bvars, hist>>

Rec(t, a, r) == hist' = IF ~Hist THEN hist ELSE Append(hist, [t |-> t, a |-> a, r |-> r, flag |-> flag', cs |-> Cardinality(inCS')])

Init == /\ flag = FALSE /\ pc = [t \in Thr |-> "idle"] /\ i = [t \in Thr |-> 0]
        /\ left = [t \in Thr |-> Rounds] /\ inCS = {} /\ tryOK = TRUE /\ slept = {} /\ hist = <<>>

Enter(t) == pc' = [pc EXCEPT ![t] = "cs"] /\ inCS' = inCS \cup {t}
KeepSlept == slept' = slept
SpinNext(t) == IF i[t] + 1 < FastIter
                 THEN pc' = [pc EXCEPT ![t] = "spin_load"] /\ i' = [i EXCEPT ![t] = i[t] + 1]
                 ELSE pc' = [pc EXCEPT ![t] = "yield"] /\ i' = [i EXCEPT ![t] = 0]

LockXchg1(t) == /\ pc[t] \in {"idle", "xchg1"} /\ left[t] > 0
                /\ flag' = TRUE
                /\ IF ~flag THEN Enter(t) /\ UNCHANGED i
                            ELSE pc' = [pc EXCEPT ![t] = "spin_load"] /\ i' = [i EXCEPT ![t] = 0] /\ UNCHANGED inCS
                /\ UNCHANGED <<left, tryOK>>
                /\ KeepSlept /\ Rec(t, "xchg1", IF flag THEN 1 ELSE 0)

SpinLoad(t) == /\ pc[t] = "spin_load"
               /\ IF flag THEN SpinNext(t) ELSE pc' = [pc EXCEPT ![t] = "spin_xchg"] /\ UNCHANGED i
               /\ UNCHANGED <<flag, left, inCS, tryOK>>
               /\ KeepSlept /\ Rec(t, "spin_load", IF flag THEN 1 ELSE 0)

SpinXchg(t) == /\ pc[t] = "spin_xchg"
               /\ flag' = TRUE
               /\ IF ~flag THEN Enter(t) /\ UNCHANGED i ELSE SpinNext(t) /\ UNCHANGED inCS
               /\ UNCHANGED <<left, tryOK>>
               /\ KeepSlept /\ Rec(t, "spin_xchg", IF flag THEN 1 ELSE 0)

Yield(t) == /\ pc[t] = "yield" /\ pc' = [pc EXCEPT ![t] = "y_load"]
            /\ UNCHANGED <<flag, i, left, inCS, tryOK>> /\ KeepSlept /\ Rec(t, "yield", 0)

YLoad(t) == /\ pc[t] = "y_load"
            /\ pc' = [pc EXCEPT ![t] = IF flag THEN "sleep" ELSE "y_xchg"]
            /\ UNCHANGED <<flag, i, left, inCS, tryOK>> /\ KeepSlept /\ Rec(t, "y_load", IF flag THEN 1 ELSE 0)

YXchg(t) == /\ pc[t] = "y_xchg"
            /\ flag' = TRUE
            /\ IF ~flag THEN Enter(t) ELSE pc' = [pc EXCEPT ![t] = "sleep"] /\ UNCHANGED inCS
            /\ UNCHANGED <<i, left, tryOK>> /\ KeepSlept /\ Rec(t, "y_xchg", IF flag THEN 1 ELSE 0)

Sleep(t) == /\ pc[t] = "sleep" /\ pc' = [pc EXCEPT ![t] = "sleeping"]
            /\ UNCHANGED <<flag, i, left, inCS, tryOK>> /\ KeepSlept /\ Rec(t, "sleep", 0)

Wake(t) == /\ pc[t] = "sleeping" /\ pc' = [pc EXCEPT ![t] = "xchg1"]
           /\ slept' = slept \cup {t}
           /\ UNCHANGED <<flag, i, left, inCS, tryOK>> /\ Rec(t, "wake", 0)

TryLoad(t) == /\ UseTry /\ pc[t] = "idle" /\ left[t] > 0
              /\ IF flag THEN /\ pc' = pc /\ left' = [left EXCEPT ![t] = left[t] - 1]     \* try_lock() = false
                         ELSE /\ pc' = [pc EXCEPT ![t] = "try_xchg"] /\ UNCHANGED left
              /\ UNCHANGED <<flag, i, inCS, tryOK>> /\ KeepSlept /\ Rec(t, "try_load", IF flag THEN 1 ELSE 0)

TryXchg(t) == /\ pc[t] = "try_xchg"
              /\ flag' = TRUE
              /\ IF ~flag THEN /\ Enter(t) /\ tryOK' = (tryOK /\ inCS = {}) /\ UNCHANGED left
                          ELSE /\ pc' = [pc EXCEPT ![t] = "idle"] /\ left' = [left EXCEPT ![t] = left[t] - 1]
                               /\ UNCHANGED <<inCS, tryOK>>
              /\ UNCHANGED i /\ KeepSlept /\ Rec(t, "try_xchg", IF flag THEN 1 ELSE 0)

\* the harness performs one scheduling point inside the critical section
InCS(t) == /\ pc[t] = "cs" /\ pc' = [pc EXCEPT ![t] = "unlock"]
           /\ UNCHANGED <<flag, i, left, inCS, tryOK>> /\ KeepSlept /\ Rec(t, "incs", 0)

Unlock(t) == /\ pc[t] = "unlock"
             /\ flag' = FALSE /\ inCS' = inCS \ {t}
             /\ left' = [left EXCEPT ![t] = left[t] - 1]
             /\ pc' = [pc EXCEPT ![t] = "idle"]
             /\ UNCHANGED <<i, tryOK>> /\ KeepSlept /\ Rec(t, "unlock", 0)

Step(t) == \/ LockXchg1(t) \/ SpinLoad(t) \/ SpinXchg(t) \/ Yield(t) \/ YLoad(t) \/ YXchg(t)
           \/ Sleep(t) \/ Wake(t) \/ TryLoad(t) \/ TryXchg(t) \/ InCS(t) \/ Unlock(t)
Next == \E t \in Thr : Step(t)
Spec == Init /\ [][Next]_vars
FairSpec == Spec /\ \A t \in Thr : WF_vars(Step(t))

MutualExclusion == Cardinality(inCS) <= 1
HeldImpliesFlag == inCS # {} => flag
TryLockOnlyWhenFree == tryOK
AllDone == \A t \in Thr : left[t] = 0 /\ pc[t] = "idle"
\* every lock() returns (all threads finish all their rounds) under weak fairness per thread
Termination == <>AllDone

View == bvars
Finished == AllDone
EmitAll == Finished => PrintT(<<"BEH", ToJson(hist)>>)
WitSleep == ~(\E t \in Thr : pc[t] = "sleeping") \/ (PrintT(<<"BEH", ToJson(hist)>>) /\ FALSE)
\* a waiter that slept, woke up and failed its first exchange again while the lock is still held
WitSecondRound == ~(\E t \in Thr : t \in slept /\ pc[t] = "spin_load" /\ i[t] = 1) \/ (PrintT(<<"BEH", ToJson(hist)>>) /\ FALSE)
WitTryFail2 == ~(\E t \in Thr : pc[t] = "try_xchg" /\ flag) \/ (PrintT(<<"BEH", ToJson(hist)>>) /\ FALSE)
=============================================================================
