\* vacuity guard: with lookup and registration as two steps TLC must find racing first requests that
\* return different objects for one identity (SameIdentitySameObject VIOLATED)
CONSTANTS
  Threads <- T2  ScopeSet <- Scopes2  MaxGets = 1  Atomic = FALSE
INIT Init
NEXT Next
INVARIANTS SameIdentitySameObject
