\* MaxLen = 3: 594 392 states (about 2.5 min with 4 workers); the quick tier uses MaxLen = 2 (38 244 states)
CONSTANTS MaxLen = 3  Hist = FALSE  Depth = 0  Dev = {}
INIT Init
NEXT Next
INVARIANTS TypeOK Property
