\* Example (tools/props/C06.py, C08.py generate their configurations; see tools/lib/metrics_sync.py):
\*   tlc -config MC_MetricsSync_ideal.cfg MC_MetricsSync.tla
CONSTANTS
  Temps <- T_dc
  InitReaders = 2
  Filters <- F_all
  AttrSeqs <- AS_perm
  Limit = 100
  DefLimit = 100
  MaxHandles = 2
  Amounts <- AM_12
  MaxAdd = 3
  MaxCollect = 3
  MaxShutdown = 0
  AllOrders = FALSE
  Dev = {}
  Hist = FALSE
INIT Init
NEXT Next
VIEW View
INVARIANTS TypeOK DeltaConservation WindowIsPending NothingBroken TableWithinLimit OnlyListedDeviations
