\* exhaustive: one view, EVERY selector (7 name selectors x 3 units x 27 meter selectors) x every instrument
CONSTANTS
  TypeSet <- Types2   PatSet <- PatsAll   UnitSelSet <- UnitSelAll   MSelSet <- MSelsAll   ShapeSet <- Shape1
  INameSet <- INamesAll   IUnitSet <- IUnitsAll   MeterSet <- Meters3   AttrSet <- Attrs1
  MaxViews = 1  MaxInst = 1  Hist = FALSE
INIT Init
NEXT Next
VIEW View
INVARIANTS ExactlyMatching OnlyViewShapes MeterIdentityExact DefaultWhenNoMatch DevNarrow
