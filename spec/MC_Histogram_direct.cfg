\* exhaustive: every boundary list within {1,3,5}, <= 4 recorded values from ranks 0..6 over 3 objects,
\* <= 3 New/Merge/Diff steps, record_min_max on and off
CONSTANTS MaxRank = 6
  BoundSets = {{}, {1}, {3}, {5}, {1,3}, {1,5}, {3,5}, {1,3,5}}
  Tables = {"D_small"}
  MMChoices = {TRUE, FALSE}
  Mode = "direct" NSlots = 3 NKeys = 1 ReaderCfgs = {1}
  MaxAgg = 4 MaxOps = 4 Balanced = FALSE Dev = {} Hist = FALSE
INIT Init
NEXT Next
VIEW View
CONSTRAINT Bound
INVARIANTS TypeOK BucketsPartition BucketRule EveryValueInOneBucket SumExact MinMaxExact PointIsSummary
  MergeIsHomomorphism DiffIsInverse DevsAreNarrow DiffAltOnlyAfterDiff
