\* direct 2 objects, ranks 0..4, every boundary list within {1,3}, <=2 Aggregate, <=4 New/Merge/Diff
\* (tools/props/C07.py generates the same text; thorough tier uses larger constants)
CONSTANTS MaxRank = 4
  BoundSets = {{}, {1}, {3}, {1,3}}
  Tables = {"D_small"}
  MMChoices = {TRUE}
  Mode = "direct" NSlots = 2 NKeys = 1 ReaderCfgs = {1}
  MaxAgg = 2 MaxOps = 4 Balanced = FALSE Hist = FALSE
  Dev = {}
INIT Init
NEXT Next
VIEW View
CONSTRAINT Bound
INVARIANTS TypeOK BucketsPartition BucketRule EveryValueInOneBucket SumExact MinMaxExact PointIsSummary ReadersAgree MergeIsHomomorphism DiffIsInverse DiffAltOnlyAfterDiff
