\* exhaustive: 2 aggregation objects, every boundary list within {1,3} over ranks 0..4, <= 3 Aggregate and
\* <= 4 New/Merge/Diff steps in any order (Merge/Diff results are aggregated into and merged again)
CONSTANTS MaxRank = 4
  BoundSets = {{}, {1}, {3}, {1,3}}
  Tables = {"D_small"}
  MMChoices = {TRUE, FALSE}
  Mode = "direct" NSlots = 2 NKeys = 1 ReaderCfgs = {1}
  MaxAgg = 3 MaxOps = 4 Balanced = FALSE Dev = {} Hist = FALSE
INIT Init
NEXT Next
VIEW View
CONSTRAINT Bound
INVARIANTS TypeOK BucketsPartition BucketRule EveryValueInOneBucket SumExact MinMaxExact PointIsSummary
  MergeIsHomomorphism DiffIsInverse DiffAltOnlyAfterDiff
