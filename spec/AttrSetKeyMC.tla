---------------------------- MODULE AttrSetKeyMC ----------------------------
(***************************************************************************)
(* Exhaustive check of AttrSetKey.tla: TLC enumerates every pair of        *)
(* attribute sequences (length <= AMaxLen over AKeys x AVals) and every    *)
(* filter as the initial states and evaluates, in each, the algebraic      *)
(* facts the statement of C08 lists (order and duplicates make no          *)
(* difference, filter = restriction) against an independent formulation of *)
(* "equal as key-to-value maps".  With the invariant Emit it prints        *)
(* (sequence, filter) |-> Canon for the replay on the real                 *)
(* FilteredOrderedAttributeMap / AttributesHashMap (harness/c08_attrs.cc). *)
(***************************************************************************)
EXTENDS AttrSetKey

CONSTANTS AKeys,      \* set of abstract keys (positive integers)
          AVals,      \* set of abstract values (positive integers)
          AMaxLen     \* longest attribute sequence enumerated

Pairs == AKeys \X AVals
RECURSIVE SeqsUpTo(_)
SeqsUpTo(n) == IF n = 0 THEN {<<>>}
               ELSE LET S == SeqsUpTo(n - 1) IN S \cup {Append(s, p) : s \in {t \in S : Len(t) = n - 1}, p \in Pairs}
AllSeqs == SeqsUpTo(AMaxLen)
AllFilters == (SUBSET AKeys) \cup {{0}}

VARIABLES a, b, f
avars == <<a, b, f>>

AInit == a \in AllSeqs /\ b \in AllSeqs /\ f \in AllFilters
ANext == UNCHANGED avars
ASpec == AInit /\ [][ANext]_avars

NoDupKeys(s) == \A i, j \in 1..Len(s) : i # j => s[i][1] # s[j][1]
IsPerm(s, t) == /\ Len(s) = Len(t)
                /\ \E p \in [1..Len(s) -> 1..Len(s)] :
                      /\ \A i, j \in 1..Len(s) : i # j => p[i] # p[j]
                      /\ \A i \in 1..Len(s) : t[i] = s[p[i]]

\* "exactly when ... equal as key-to-value maps"
KeyedByValue == SameSeries(a, b, f) <=> (AsFn(a, f) = AsFn(b, f))
\* "the order in which the caller lists the keys makes no difference"
OrderIrrelevant == (NoDupKeys(a) /\ IsPerm(a, b)) => SameSeries(a, b, f)
\* "duplicates resolved last-wins"
LastWins == \A p \in Pairs :
               Canon(Append(a, p), f) = IF Allowed(p[1], f)
                                          THEN {q \in Canon(a, f) : q[1] # p[1]} \cup {p}
                                          ELSE Canon(a, f)
\* "after the view's attribute filter has removed the keys it does not allow"
FilterIsRestriction == Canon(a, f) = {q \in Canon(a, {0}) : Allowed(q[1], f)}
\* a canonical set is a function (no key twice) and never the overflow marker
CanonIsMap == /\ \A p, q \in Canon(a, f) : p[1] = q[1] => p = q
              /\ Canon(a, f) # OVF

\* behaviour export: one line per (sequence, filter) with the expected canonical map
Emit == (b = <<>>) => PrintT(<<"BEH", ToJson([s |-> a, f |-> f, c |-> Canon(a, f)])>>)
=============================================================================
