--------------------------- MODULE BatchProcessor ---------------------------
(***************************************************************************)
(* Level B (implementation-shaped) model of                               *)
(*   sdk/src/trace/batch_span_processor.cc   (Variant = "span")           *)
(*   sdk/src/logs/batch_log_record_processor.cc (Variant = "log")         *)
(* One label per visible synchronisation operation: atomic loads/stores,  *)
(* mutex acquire/release, condition-variable block / wake (by notify or   *)
(* by timer), notify_all, thread join.  The lock-free queue is abstracted *)
(* to an atomic bounded FIFO (justified by CircularBuffer.tla, C11).      *)
(*                                                                         *)
(* Lost notifications are representable: a notify only has an effect on   *)
(* threads that are blocked at that moment, and evaluating the wait       *)
(* predicate and starting to block are separate steps.  Timers may always *)
(* fire (wait_for).                                                        *)
(*                                                                         *)
(* Dev (named deviations of the current code, see DESIGN 2.6):            *)
(*  "batch-uncapped-when-ticket-pending"  once any ForceFlush ticket      *)
(*        exists Export() takes the whole queue (F1)                       *)
(*  "batch-size-read-twice"  the uncapped branch reads size() a second    *)
(*        time; producers may add in between (F16)                         *)
(* With Dev = {} the model describes the repaired Export(): one size      *)
(* read, every batch capped, the ticket published once the backlog that   *)
(* was queued when the ticket was read has been exported.                  *)
(***************************************************************************)
EXTENDS Integers, Sequences, FiniteSets, TLC, Json

CONSTANTS NProd, NRec, QMax, BMax, NFlush, NShut, Budget, Variant, Dev,
          Hist   \* BOOLEAN: record the Level-A event log of the behaviour in `evlog` (generation runs only)

Prods    == 1..NProd
Flushers == 11..(10 + NFlush)
Shuts    == 21..(20 + NShut)
Worker   == 0
Inf      == 99     \* Budget = Inf: ForceFlush(timeout = 0 or max) never gives up
Rec(p, s) == p * 100 + s
Min(a, b) == IF a < b THEN a ELSE b
Range(q) == {q[i] : i \in 1..Len(q)}
Flat(bs) == IF bs = <<>> THEN {} ELSE UNION {Range(bs[i]) : i \in 1..Len(bs)}

(* --algorithm BatchProcessor {
variables
  queue = <<>>, isShutdown = FALSE, forceWake = FALSE, pending = 0, notified = 0,
  ffm = -1, shm = -1,                     \* mutex owners (-1 free)
  wWaiting = FALSE, wSignalled = FALSE,    \* worker blocked on cv / woken by notify
  fWaiting = {}, fSignalled = {},          \* flushers blocked on force_flush_cv / woken
  workerDone = FALSE, joined = FALSE,
  \* ghosts ------------------------------------------------------------
  batches = <<>>, inExport = FALSE, overlap = FALSE,
  returned = {},                          \* records whose OnEnd/OnEmit returned
  fate = [r \in {} |-> "x"],
  ffSnap = [f \in Flushers |-> {}], ffOK = [f \in Flushers |-> FALSE], ffRes = [f \in Flushers |-> "none"],
  sdSnap = {}, sdCalled = FALSE, sdReturned = FALSE, expSD = 0, lateCall = FALSE,
  expFF = 0,
  consumed = 0,                           \* records taken out of the queue so far
  evlog = <<>>;                           \* Level-A events of this behaviour (Hist = TRUE only)

define {
  Exported == Flat(batches)
  Accounted(r) == r \in Exported \/ (r \in DOMAIN fate /\ fate[r] \in {"dropped", "discarded"})
}

macro Log(evs) {
  if (Hist) { evlog := evlog \o evs; }
}

macro NotifyWorker() {
  if (wWaiting) { wSignalled := TRUE; }
}

\* ---- BatchSpanProcessor::NotifyCompletion(t) ---------------------------------------------
procedure Notify(nt)
  variables ns = 0;
{
 N_chk:  if (nt > notified) {
 N_ff:     expFF := expFF + 1;                       \* exporter->ForceFlush()
           lateCall := lateCall \/ sdReturned;
           ffOK := [f \in Flushers |-> ffOK[f] \/ (ffRes[f] = "called" /\ \A r \in ffSnap[f] : Accounted(r))];
           Log(<<[e |-> "ExpFF"]>>);
 N_load:   ns := notified;
 N_loop:   while (nt > ns) {
             if (notified = ns) { notified := nt; } else { ns := notified; };
 N_notify:   fSignalled := fSignalled \cup fWaiting;   \* force_flush_cv.notify_all()
             fWaiting := {};
           };
         };
 N_ret:  return;
}

\* ---- BatchSpanProcessor::Export() --------------------------------------------------------------
procedure Export()
  variables t = 0, n = 0, s1 = 0, ft = 0, backlog = 0;
{
 E_ticket: t := pending;
 E_size:   if (Dev = {}) {
             \* repaired code: one size read, always capped; remember the backlog of a new ticket
             s1 := Len(queue);
             if (t > ft) { ft := t; backlog := s1; };
             n := Min(s1, BMax);
           } else if (t # 0 /\ "batch-uncapped-when-ticket-pending" \in Dev) {
             n := Len(queue);
           } else {
             s1 := Len(queue);
             if (s1 >= BMax) { n := BMax; }
             else if ("batch-size-read-twice" \in Dev) {
 E_size2:      n := Len(queue);                        \* second evaluation of buffer_.size()
             } else { n := s1; };
           };
 E_zero:   if (n = 0) {
             call Notify(IF Dev = {} THEN ft ELSE t);
 E_ret:      return;
           };
 E_consume: batches := Append(batches, SubSeq(queue, 1, n));
            queue := SubSeq(queue, n + 1, Len(queue));
            overlap := overlap \/ inExport;
            lateCall := lateCall \/ sdReturned;
            consumed := consumed + n;
            Log(<<[e |-> "ExpBegin", batch |-> batches[Len(batches)]]>>);   \* (batches already holds the new batch)
            inExport := TRUE;
 E_end:     inExport := FALSE;                         \* exporter->Export() returns
            Log(<<[e |-> "ExpEnd"]>>);
            if (Dev = {}) {
              backlog := IF backlog > n THEN backlog - n ELSE 0;
              if (backlog = 0) { call Notify(ft); };
            } else {
              call Notify(t);
            };
 E_again:   goto E_ticket;
}

\* ---- DoBackgroundWork / DrainQueue ---------------------------------------------------------------
fair process (worker = Worker)
  variables lp = 0;
{
 W_pred1: if (forceWake) { goto W_clear; };
 W_pred2: if (queue # <<>>) { goto W_clear; };
 W_block: wWaiting := TRUE; wSignalled := FALSE;
 W_wake:  either { await wSignalled; wWaiting := FALSE; wSignalled := FALSE; goto W_pred1; }
          or     { wWaiting := FALSE; wSignalled := FALSE; };        \* timer: wait_for gives up
 W_clear: forceWake := FALSE;
 W_chk:   if (isShutdown) { goto D_e1; };
 W_export: call Export();
 W_next:  goto W_pred1;
 D_e1:    if (queue # <<>>) { goto D_export; };
 D_e2:    lp := pending;
 D_e3:    if (lp <= notified) { goto W_exit; };
 D_export: call Export();
 D_next:  goto D_e1;
 W_exit:  workerDone := TRUE;
}

\* ---- OnEnd / OnEmit --------------------------------------------------------------------------------
fair process (prod \in Prods)
  variables s = 0, sz = 0;
{
 P_loop: while (s < NRec) {
 P_chk:    if (isShutdown) {
             Log(<<[e |-> "OnEndCall", p |-> self, s |-> s, cons |-> consumed],
                   [e |-> "OnEndRet", p |-> self, s |-> s, fate |-> "discarded", others |-> 0]>>);
             fate := fate @@ (Rec(self, s) :> "discarded");
             returned := returned \cup {Rec(self, s)};
             s := s + 1;
             goto P_loop;
           } else {
             Log(<<[e |-> "OnEndCall", p |-> self, s |-> s, cons |-> consumed]>>);
           };
 P_add:    if (Len(queue) < QMax) {
             queue := Append(queue, Rec(self, s));
           } else {
             Log(<<[e |-> "OnEndRet", p |-> self, s |-> s, fate |-> "dropped", others |-> 0]>>);
             fate := fate @@ (Rec(self, s) :> "dropped");
             returned := returned \cup {Rec(self, s)};
             s := s + 1;
             goto P_loop;
           };
 P_size:   sz := Len(queue);
           if (~(sz >= QMax \div 2 \/ sz >= BMax)) {
             Log(<<[e |-> "OnEndRet", p |-> self, s |-> s, fate |-> "queued", others |-> 0]>>);
             returned := returned \cup {Rec(self, s)};
             s := s + 1;
             goto P_loop;
           };
 P_wake:   if (Variant = "log") { forceWake := TRUE; };
 P_notify: NotifyWorker();
           Log(<<[e |-> "OnEndRet", p |-> self, s |-> s, fate |-> "queued", others |-> 0]>>);
           returned := returned \cup {Rec(self, s)};
           s := s + 1;
         };
}

\* ---- ForceFlush(timeout) ---------------------------------------------------------------------------
fair process (flush \in Flushers)
  variables my = 0, lpf = 0, budget = Budget, res = FALSE, timedout = FALSE;
{
 F_chk:    ffSnap[self] := returned;
           if (isShutdown) {
             ffRes[self] := "false";
             Log(<<[e |-> "FFCall", f |-> self], [e |-> "FFRet", f |-> self, r |-> FALSE]>>);
             goto F_done;
           } else {
             ffRes[self] := "called";
             Log(<<[e |-> "FFCall", f |-> self]>>);
           };
 F_lock:   await ffm = -1; ffm := self;
 F_ticket: pending := pending + 1; my := pending;
 F_loop:   while (~res /\ budget # 0) {
             timedout := FALSE;
 BC1:        if (isShutdown) { res := TRUE; goto F_eval; };
 BC2:        lpf := pending;
 BC3:        if (lpf > notified) {
 BC4:          if (Variant = "span") { forceWake := TRUE; };
 BC5:          NotifyWorker();
             };
 BC6:        if (notified >= my) { res := TRUE; goto F_eval; };
 BC7:        if (timedout) { goto F_eval; };
 F_block:    ffm := -1; fWaiting := fWaiting \cup {self}; fSignalled := fSignalled \ {self};
 F_wake:     either { await self \in fSignalled; fSignalled := fSignalled \ {self}; }
             or     { fWaiting := fWaiting \ {self}; fSignalled := fSignalled \ {self}; timedout := TRUE; };
 F_relock:   await ffm = -1; ffm := self;
             goto BC1;
 F_eval:     if (timedout /\ budget # Inf) { budget := budget - 1; };
           };
 F_ret:    ffRes[self] := IF notified >= my THEN "true" ELSE "false";
           Log(<<[e |-> "FFRet", f |-> self, r |-> (notified >= my)]>>);
           ffm := -1;
 F_done:   skip;
}

\* ---- Shutdown() ----------------------------------------------------------------------------------------
fair process (shut \in Shuts)
  variables already = FALSE;
{
 S_call:   if (~sdCalled) { sdSnap := returned; sdCalled := TRUE; };
           Log(<<[e |-> "SDCall", s |-> self]>>);
 S_lock:   await shm = -1; shm := self;
 S_xchg:   already := isShutdown; isShutdown := TRUE;
 S_join0:  if (~joined) {
 S_wake:     forceWake := TRUE;
 S_notify:   NotifyWorker();
 S_join:     await workerDone; joined := TRUE;
           };
 S_exp:    if (~already) { expSD := expSD + 1; lateCall := lateCall \/ sdReturned; Log(<<[e |-> "ExpSD"]>>); };
 S_ret:    shm := -1; sdReturned := TRUE;
           Log(<<[e |-> "SDRet", s |-> self]>>);
}
} *)
\* BEGIN TRANSLATION
CONSTANT defaultInitValue
VARIABLES pc, queue, isShutdown, forceWake, pending, notified, ffm, shm, 
          wWaiting, wSignalled, fWaiting, fSignalled, workerDone, joined, 
          batches, inExport, overlap, returned, fate, ffSnap, ffOK, ffRes, 
          sdSnap, sdCalled, sdReturned, expSD, lateCall, expFF, consumed, 
          evlog, stack

(* define statement *)
Exported == Flat(batches)
Accounted(r) == r \in Exported \/ (r \in DOMAIN fate /\ fate[r] \in {"dropped", "discarded"})

VARIABLES nt, ns, t, n, s1, ft, backlog, lp, s, sz, my, lpf, budget, res, 
          timedout, already

vars == << pc, queue, isShutdown, forceWake, pending, notified, ffm, shm, 
           wWaiting, wSignalled, fWaiting, fSignalled, workerDone, joined, 
           batches, inExport, overlap, returned, fate, ffSnap, ffOK, ffRes, 
           sdSnap, sdCalled, sdReturned, expSD, lateCall, expFF, consumed, 
           evlog, stack, nt, ns, t, n, s1, ft, backlog, lp, s, sz, my, lpf, 
           budget, res, timedout, already >>

ProcSet == {Worker} \cup (Prods) \cup (Flushers) \cup (Shuts)

Init == (* Global variables *)
        /\ queue = <<>>
        /\ isShutdown = FALSE
        /\ forceWake = FALSE
        /\ pending = 0
        /\ notified = 0
        /\ ffm = -1
        /\ shm = -1
        /\ wWaiting = FALSE
        /\ wSignalled = FALSE
        /\ fWaiting = {}
        /\ fSignalled = {}
        /\ workerDone = FALSE
        /\ joined = FALSE
        /\ batches = <<>>
        /\ inExport = FALSE
        /\ overlap = FALSE
        /\ returned = {}
        /\ fate = [r \in {} |-> "x"]
        /\ ffSnap = [f \in Flushers |-> {}]
        /\ ffOK = [f \in Flushers |-> FALSE]
        /\ ffRes = [f \in Flushers |-> "none"]
        /\ sdSnap = {}
        /\ sdCalled = FALSE
        /\ sdReturned = FALSE
        /\ expSD = 0
        /\ lateCall = FALSE
        /\ expFF = 0
        /\ consumed = 0
        /\ evlog = <<>>
        (* Procedure Notify *)
        /\ nt = [ self \in ProcSet |-> defaultInitValue]
        /\ ns = [ self \in ProcSet |-> 0]
        (* Procedure Export *)
        /\ t = [ self \in ProcSet |-> 0]
        /\ n = [ self \in ProcSet |-> 0]
        /\ s1 = [ self \in ProcSet |-> 0]
        /\ ft = [ self \in ProcSet |-> 0]
        /\ backlog = [ self \in ProcSet |-> 0]
        (* Process worker *)
        /\ lp = 0
        (* Process prod *)
        /\ s = [self \in Prods |-> 0]
        /\ sz = [self \in Prods |-> 0]
        (* Process flush *)
        /\ my = [self \in Flushers |-> 0]
        /\ lpf = [self \in Flushers |-> 0]
        /\ budget = [self \in Flushers |-> Budget]
        /\ res = [self \in Flushers |-> FALSE]
        /\ timedout = [self \in Flushers |-> FALSE]
        (* Process shut *)
        /\ already = [self \in Shuts |-> FALSE]
        /\ stack = [self \in ProcSet |-> << >>]
        /\ pc = [self \in ProcSet |-> CASE self = Worker -> "W_pred1"
                                        [] self \in Prods -> "P_loop"
                                        [] self \in Flushers -> "F_chk"
                                        [] self \in Shuts -> "S_call"]

N_chk(self) == /\ pc[self] = "N_chk"
               /\ IF nt[self] > notified
                     THEN /\ pc' = [pc EXCEPT ![self] = "N_ff"]
                     ELSE /\ pc' = [pc EXCEPT ![self] = "N_ret"]
               /\ UNCHANGED << queue, isShutdown, forceWake, pending, notified, 
                               ffm, shm, wWaiting, wSignalled, fWaiting, 
                               fSignalled, workerDone, joined, batches, 
                               inExport, overlap, returned, fate, ffSnap, ffOK, 
                               ffRes, sdSnap, sdCalled, sdReturned, expSD, 
                               lateCall, expFF, consumed, evlog, stack, nt, ns, 
                               t, n, s1, ft, backlog, lp, s, sz, my, lpf, 
                               budget, res, timedout, already >>

N_ff(self) == /\ pc[self] = "N_ff"
              /\ expFF' = expFF + 1
              /\ lateCall' = (lateCall \/ sdReturned)
              /\ ffOK' = [f \in Flushers |-> ffOK[f] \/ (ffRes[f] = "called" /\ \A r \in ffSnap[f] : Accounted(r))]
              /\ IF Hist
                    THEN /\ evlog' = evlog \o (<<[e |-> "ExpFF"]>>)
                    ELSE /\ TRUE
                         /\ evlog' = evlog
              /\ pc' = [pc EXCEPT ![self] = "N_load"]
              /\ UNCHANGED << queue, isShutdown, forceWake, pending, notified, 
                              ffm, shm, wWaiting, wSignalled, fWaiting, 
                              fSignalled, workerDone, joined, batches, 
                              inExport, overlap, returned, fate, ffSnap, ffRes, 
                              sdSnap, sdCalled, sdReturned, expSD, consumed, 
                              stack, nt, ns, t, n, s1, ft, backlog, lp, s, sz, 
                              my, lpf, budget, res, timedout, already >>

N_load(self) == /\ pc[self] = "N_load"
                /\ ns' = [ns EXCEPT ![self] = notified]
                /\ pc' = [pc EXCEPT ![self] = "N_loop"]
                /\ UNCHANGED << queue, isShutdown, forceWake, pending, 
                                notified, ffm, shm, wWaiting, wSignalled, 
                                fWaiting, fSignalled, workerDone, joined, 
                                batches, inExport, overlap, returned, fate, 
                                ffSnap, ffOK, ffRes, sdSnap, sdCalled, 
                                sdReturned, expSD, lateCall, expFF, consumed, 
                                evlog, stack, nt, t, n, s1, ft, backlog, lp, s, 
                                sz, my, lpf, budget, res, timedout, already >>

N_loop(self) == /\ pc[self] = "N_loop"
                /\ IF nt[self] > ns[self]
                      THEN /\ IF notified = ns[self]
                                 THEN /\ notified' = nt[self]
                                      /\ ns' = ns
                                 ELSE /\ ns' = [ns EXCEPT ![self] = notified]
                                      /\ UNCHANGED notified
                           /\ pc' = [pc EXCEPT ![self] = "N_notify"]
                      ELSE /\ pc' = [pc EXCEPT ![self] = "N_ret"]
                           /\ UNCHANGED << notified, ns >>
                /\ UNCHANGED << queue, isShutdown, forceWake, pending, ffm, 
                                shm, wWaiting, wSignalled, fWaiting, 
                                fSignalled, workerDone, joined, batches, 
                                inExport, overlap, returned, fate, ffSnap, 
                                ffOK, ffRes, sdSnap, sdCalled, sdReturned, 
                                expSD, lateCall, expFF, consumed, evlog, stack, 
                                nt, t, n, s1, ft, backlog, lp, s, sz, my, lpf, 
                                budget, res, timedout, already >>

N_notify(self) == /\ pc[self] = "N_notify"
                  /\ fSignalled' = (fSignalled \cup fWaiting)
                  /\ fWaiting' = {}
                  /\ pc' = [pc EXCEPT ![self] = "N_loop"]
                  /\ UNCHANGED << queue, isShutdown, forceWake, pending, 
                                  notified, ffm, shm, wWaiting, wSignalled, 
                                  workerDone, joined, batches, inExport, 
                                  overlap, returned, fate, ffSnap, ffOK, ffRes, 
                                  sdSnap, sdCalled, sdReturned, expSD, 
                                  lateCall, expFF, consumed, evlog, stack, nt, 
                                  ns, t, n, s1, ft, backlog, lp, s, sz, my, 
                                  lpf, budget, res, timedout, already >>

N_ret(self) == /\ pc[self] = "N_ret"
               /\ pc' = [pc EXCEPT ![self] = Head(stack[self]).pc]
               /\ ns' = [ns EXCEPT ![self] = Head(stack[self]).ns]
               /\ nt' = [nt EXCEPT ![self] = Head(stack[self]).nt]
               /\ stack' = [stack EXCEPT ![self] = Tail(stack[self])]
               /\ UNCHANGED << queue, isShutdown, forceWake, pending, notified, 
                               ffm, shm, wWaiting, wSignalled, fWaiting, 
                               fSignalled, workerDone, joined, batches, 
                               inExport, overlap, returned, fate, ffSnap, ffOK, 
                               ffRes, sdSnap, sdCalled, sdReturned, expSD, 
                               lateCall, expFF, consumed, evlog, t, n, s1, ft, 
                               backlog, lp, s, sz, my, lpf, budget, res, 
                               timedout, already >>

Notify(self) == N_chk(self) \/ N_ff(self) \/ N_load(self) \/ N_loop(self)
                   \/ N_notify(self) \/ N_ret(self)

E_ticket(self) == /\ pc[self] = "E_ticket"
                  /\ t' = [t EXCEPT ![self] = pending]
                  /\ pc' = [pc EXCEPT ![self] = "E_size"]
                  /\ UNCHANGED << queue, isShutdown, forceWake, pending, 
                                  notified, ffm, shm, wWaiting, wSignalled, 
                                  fWaiting, fSignalled, workerDone, joined, 
                                  batches, inExport, overlap, returned, fate, 
                                  ffSnap, ffOK, ffRes, sdSnap, sdCalled, 
                                  sdReturned, expSD, lateCall, expFF, consumed, 
                                  evlog, stack, nt, ns, n, s1, ft, backlog, lp, 
                                  s, sz, my, lpf, budget, res, timedout, 
                                  already >>

E_size(self) == /\ pc[self] = "E_size"
                /\ IF Dev = {}
                      THEN /\ s1' = [s1 EXCEPT ![self] = Len(queue)]
                           /\ IF t[self] > ft[self]
                                 THEN /\ ft' = [ft EXCEPT ![self] = t[self]]
                                      /\ backlog' = [backlog EXCEPT ![self] = s1'[self]]
                                 ELSE /\ TRUE
                                      /\ UNCHANGED << ft, backlog >>
                           /\ n' = [n EXCEPT ![self] = Min(s1'[self], BMax)]
                           /\ pc' = [pc EXCEPT ![self] = "E_zero"]
                      ELSE /\ IF t[self] # 0 /\ "batch-uncapped-when-ticket-pending" \in Dev
                                 THEN /\ n' = [n EXCEPT ![self] = Len(queue)]
                                      /\ pc' = [pc EXCEPT ![self] = "E_zero"]
                                      /\ s1' = s1
                                 ELSE /\ s1' = [s1 EXCEPT ![self] = Len(queue)]
                                      /\ IF s1'[self] >= BMax
                                            THEN /\ n' = [n EXCEPT ![self] = BMax]
                                                 /\ pc' = [pc EXCEPT ![self] = "E_zero"]
                                            ELSE /\ IF "batch-size-read-twice" \in Dev
                                                       THEN /\ pc' = [pc EXCEPT ![self] = "E_size2"]
                                                            /\ n' = n
                                                       ELSE /\ n' = [n EXCEPT ![self] = s1'[self]]
                                                            /\ pc' = [pc EXCEPT ![self] = "E_zero"]
                           /\ UNCHANGED << ft, backlog >>
                /\ UNCHANGED << queue, isShutdown, forceWake, pending, 
                                notified, ffm, shm, wWaiting, wSignalled, 
                                fWaiting, fSignalled, workerDone, joined, 
                                batches, inExport, overlap, returned, fate, 
                                ffSnap, ffOK, ffRes, sdSnap, sdCalled, 
                                sdReturned, expSD, lateCall, expFF, consumed, 
                                evlog, stack, nt, ns, t, lp, s, sz, my, lpf, 
                                budget, res, timedout, already >>

E_size2(self) == /\ pc[self] = "E_size2"
                 /\ n' = [n EXCEPT ![self] = Len(queue)]
                 /\ pc' = [pc EXCEPT ![self] = "E_zero"]
                 /\ UNCHANGED << queue, isShutdown, forceWake, pending, 
                                 notified, ffm, shm, wWaiting, wSignalled, 
                                 fWaiting, fSignalled, workerDone, joined, 
                                 batches, inExport, overlap, returned, fate, 
                                 ffSnap, ffOK, ffRes, sdSnap, sdCalled, 
                                 sdReturned, expSD, lateCall, expFF, consumed, 
                                 evlog, stack, nt, ns, t, s1, ft, backlog, lp, 
                                 s, sz, my, lpf, budget, res, timedout, 
                                 already >>

E_zero(self) == /\ pc[self] = "E_zero"
                /\ IF n[self] = 0
                      THEN /\ /\ nt' = [nt EXCEPT ![self] = IF Dev = {} THEN ft[self] ELSE t[self]]
                              /\ stack' = [stack EXCEPT ![self] = << [ procedure |->  "Notify",
                                                                       pc        |->  "E_ret",
                                                                       ns        |->  ns[self],
                                                                       nt        |->  nt[self] ] >>
                                                                   \o stack[self]]
                           /\ ns' = [ns EXCEPT ![self] = 0]
                           /\ pc' = [pc EXCEPT ![self] = "N_chk"]
                      ELSE /\ pc' = [pc EXCEPT ![self] = "E_consume"]
                           /\ UNCHANGED << stack, nt, ns >>
                /\ UNCHANGED << queue, isShutdown, forceWake, pending, 
                                notified, ffm, shm, wWaiting, wSignalled, 
                                fWaiting, fSignalled, workerDone, joined, 
                                batches, inExport, overlap, returned, fate, 
                                ffSnap, ffOK, ffRes, sdSnap, sdCalled, 
                                sdReturned, expSD, lateCall, expFF, consumed, 
                                evlog, t, n, s1, ft, backlog, lp, s, sz, my, 
                                lpf, budget, res, timedout, already >>

E_ret(self) == /\ pc[self] = "E_ret"
               /\ pc' = [pc EXCEPT ![self] = Head(stack[self]).pc]
               /\ t' = [t EXCEPT ![self] = Head(stack[self]).t]
               /\ n' = [n EXCEPT ![self] = Head(stack[self]).n]
               /\ s1' = [s1 EXCEPT ![self] = Head(stack[self]).s1]
               /\ ft' = [ft EXCEPT ![self] = Head(stack[self]).ft]
               /\ backlog' = [backlog EXCEPT ![self] = Head(stack[self]).backlog]
               /\ stack' = [stack EXCEPT ![self] = Tail(stack[self])]
               /\ UNCHANGED << queue, isShutdown, forceWake, pending, notified, 
                               ffm, shm, wWaiting, wSignalled, fWaiting, 
                               fSignalled, workerDone, joined, batches, 
                               inExport, overlap, returned, fate, ffSnap, ffOK, 
                               ffRes, sdSnap, sdCalled, sdReturned, expSD, 
                               lateCall, expFF, consumed, evlog, nt, ns, lp, s, 
                               sz, my, lpf, budget, res, timedout, already >>

E_consume(self) == /\ pc[self] = "E_consume"
                   /\ batches' = Append(batches, SubSeq(queue, 1, n[self]))
                   /\ queue' = SubSeq(queue, n[self] + 1, Len(queue))
                   /\ overlap' = (overlap \/ inExport)
                   /\ lateCall' = (lateCall \/ sdReturned)
                   /\ consumed' = consumed + n[self]
                   /\ IF Hist
                         THEN /\ evlog' = evlog \o (<<[e |-> "ExpBegin", batch |-> batches'[Len(batches')]]>>)
                         ELSE /\ TRUE
                              /\ evlog' = evlog
                   /\ inExport' = TRUE
                   /\ pc' = [pc EXCEPT ![self] = "E_end"]
                   /\ UNCHANGED << isShutdown, forceWake, pending, notified, 
                                   ffm, shm, wWaiting, wSignalled, fWaiting, 
                                   fSignalled, workerDone, joined, returned, 
                                   fate, ffSnap, ffOK, ffRes, sdSnap, sdCalled, 
                                   sdReturned, expSD, expFF, stack, nt, ns, t, 
                                   n, s1, ft, backlog, lp, s, sz, my, lpf, 
                                   budget, res, timedout, already >>

E_end(self) == /\ pc[self] = "E_end"
               /\ inExport' = FALSE
               /\ IF Hist
                     THEN /\ evlog' = evlog \o (<<[e |-> "ExpEnd"]>>)
                     ELSE /\ TRUE
                          /\ evlog' = evlog
               /\ IF Dev = {}
                     THEN /\ backlog' = [backlog EXCEPT ![self] = IF backlog[self] > n[self] THEN backlog[self] - n[self] ELSE 0]
                          /\ IF backlog'[self] = 0
                                THEN /\ /\ nt' = [nt EXCEPT ![self] = ft[self]]
                                        /\ stack' = [stack EXCEPT ![self] = << [ procedure |->  "Notify",
                                                                                 pc        |->  "E_again",
                                                                                 ns        |->  ns[self],
                                                                                 nt        |->  nt[self] ] >>
                                                                             \o stack[self]]
                                     /\ ns' = [ns EXCEPT ![self] = 0]
                                     /\ pc' = [pc EXCEPT ![self] = "N_chk"]
                                ELSE /\ pc' = [pc EXCEPT ![self] = "E_again"]
                                     /\ UNCHANGED << stack, nt, ns >>
                     ELSE /\ /\ nt' = [nt EXCEPT ![self] = t[self]]
                             /\ stack' = [stack EXCEPT ![self] = << [ procedure |->  "Notify",
                                                                      pc        |->  "E_again",
                                                                      ns        |->  ns[self],
                                                                      nt        |->  nt[self] ] >>
                                                                  \o stack[self]]
                          /\ ns' = [ns EXCEPT ![self] = 0]
                          /\ pc' = [pc EXCEPT ![self] = "N_chk"]
                          /\ UNCHANGED backlog
               /\ UNCHANGED << queue, isShutdown, forceWake, pending, notified, 
                               ffm, shm, wWaiting, wSignalled, fWaiting, 
                               fSignalled, workerDone, joined, batches, 
                               overlap, returned, fate, ffSnap, ffOK, ffRes, 
                               sdSnap, sdCalled, sdReturned, expSD, lateCall, 
                               expFF, consumed, t, n, s1, ft, lp, s, sz, my, 
                               lpf, budget, res, timedout, already >>

E_again(self) == /\ pc[self] = "E_again"
                 /\ pc' = [pc EXCEPT ![self] = "E_ticket"]
                 /\ UNCHANGED << queue, isShutdown, forceWake, pending, 
                                 notified, ffm, shm, wWaiting, wSignalled, 
                                 fWaiting, fSignalled, workerDone, joined, 
                                 batches, inExport, overlap, returned, fate, 
                                 ffSnap, ffOK, ffRes, sdSnap, sdCalled, 
                                 sdReturned, expSD, lateCall, expFF, consumed, 
                                 evlog, stack, nt, ns, t, n, s1, ft, backlog, 
                                 lp, s, sz, my, lpf, budget, res, timedout, 
                                 already >>

Export(self) == E_ticket(self) \/ E_size(self) \/ E_size2(self)
                   \/ E_zero(self) \/ E_ret(self) \/ E_consume(self)
                   \/ E_end(self) \/ E_again(self)

W_pred1 == /\ pc[Worker] = "W_pred1"
           /\ IF forceWake
                 THEN /\ pc' = [pc EXCEPT ![Worker] = "W_clear"]
                 ELSE /\ pc' = [pc EXCEPT ![Worker] = "W_pred2"]
           /\ UNCHANGED << queue, isShutdown, forceWake, pending, notified, 
                           ffm, shm, wWaiting, wSignalled, fWaiting, 
                           fSignalled, workerDone, joined, batches, inExport, 
                           overlap, returned, fate, ffSnap, ffOK, ffRes, 
                           sdSnap, sdCalled, sdReturned, expSD, lateCall, 
                           expFF, consumed, evlog, stack, nt, ns, t, n, s1, ft, 
                           backlog, lp, s, sz, my, lpf, budget, res, timedout, 
                           already >>

W_pred2 == /\ pc[Worker] = "W_pred2"
           /\ IF queue # <<>>
                 THEN /\ pc' = [pc EXCEPT ![Worker] = "W_clear"]
                 ELSE /\ pc' = [pc EXCEPT ![Worker] = "W_block"]
           /\ UNCHANGED << queue, isShutdown, forceWake, pending, notified, 
                           ffm, shm, wWaiting, wSignalled, fWaiting, 
                           fSignalled, workerDone, joined, batches, inExport, 
                           overlap, returned, fate, ffSnap, ffOK, ffRes, 
                           sdSnap, sdCalled, sdReturned, expSD, lateCall, 
                           expFF, consumed, evlog, stack, nt, ns, t, n, s1, ft, 
                           backlog, lp, s, sz, my, lpf, budget, res, timedout, 
                           already >>

W_block == /\ pc[Worker] = "W_block"
           /\ wWaiting' = TRUE
           /\ wSignalled' = FALSE
           /\ pc' = [pc EXCEPT ![Worker] = "W_wake"]
           /\ UNCHANGED << queue, isShutdown, forceWake, pending, notified, 
                           ffm, shm, fWaiting, fSignalled, workerDone, joined, 
                           batches, inExport, overlap, returned, fate, ffSnap, 
                           ffOK, ffRes, sdSnap, sdCalled, sdReturned, expSD, 
                           lateCall, expFF, consumed, evlog, stack, nt, ns, t, 
                           n, s1, ft, backlog, lp, s, sz, my, lpf, budget, res, 
                           timedout, already >>

W_wake == /\ pc[Worker] = "W_wake"
          /\ \/ /\ wSignalled
                /\ wWaiting' = FALSE
                /\ wSignalled' = FALSE
                /\ pc' = [pc EXCEPT ![Worker] = "W_pred1"]
             \/ /\ wWaiting' = FALSE
                /\ wSignalled' = FALSE
                /\ pc' = [pc EXCEPT ![Worker] = "W_clear"]
          /\ UNCHANGED << queue, isShutdown, forceWake, pending, notified, ffm, 
                          shm, fWaiting, fSignalled, workerDone, joined, 
                          batches, inExport, overlap, returned, fate, ffSnap, 
                          ffOK, ffRes, sdSnap, sdCalled, sdReturned, expSD, 
                          lateCall, expFF, consumed, evlog, stack, nt, ns, t, 
                          n, s1, ft, backlog, lp, s, sz, my, lpf, budget, res, 
                          timedout, already >>

W_clear == /\ pc[Worker] = "W_clear"
           /\ forceWake' = FALSE
           /\ pc' = [pc EXCEPT ![Worker] = "W_chk"]
           /\ UNCHANGED << queue, isShutdown, pending, notified, ffm, shm, 
                           wWaiting, wSignalled, fWaiting, fSignalled, 
                           workerDone, joined, batches, inExport, overlap, 
                           returned, fate, ffSnap, ffOK, ffRes, sdSnap, 
                           sdCalled, sdReturned, expSD, lateCall, expFF, 
                           consumed, evlog, stack, nt, ns, t, n, s1, ft, 
                           backlog, lp, s, sz, my, lpf, budget, res, timedout, 
                           already >>

W_chk == /\ pc[Worker] = "W_chk"
         /\ IF isShutdown
               THEN /\ pc' = [pc EXCEPT ![Worker] = "D_e1"]
               ELSE /\ pc' = [pc EXCEPT ![Worker] = "W_export"]
         /\ UNCHANGED << queue, isShutdown, forceWake, pending, notified, ffm, 
                         shm, wWaiting, wSignalled, fWaiting, fSignalled, 
                         workerDone, joined, batches, inExport, overlap, 
                         returned, fate, ffSnap, ffOK, ffRes, sdSnap, sdCalled, 
                         sdReturned, expSD, lateCall, expFF, consumed, evlog, 
                         stack, nt, ns, t, n, s1, ft, backlog, lp, s, sz, my, 
                         lpf, budget, res, timedout, already >>

W_export == /\ pc[Worker] = "W_export"
            /\ stack' = [stack EXCEPT ![Worker] = << [ procedure |->  "Export",
                                                       pc        |->  "W_next",
                                                       t         |->  t[Worker],
                                                       n         |->  n[Worker],
                                                       s1        |->  s1[Worker],
                                                       ft        |->  ft[Worker],
                                                       backlog   |->  backlog[Worker] ] >>
                                                   \o stack[Worker]]
            /\ t' = [t EXCEPT ![Worker] = 0]
            /\ n' = [n EXCEPT ![Worker] = 0]
            /\ s1' = [s1 EXCEPT ![Worker] = 0]
            /\ ft' = [ft EXCEPT ![Worker] = 0]
            /\ backlog' = [backlog EXCEPT ![Worker] = 0]
            /\ pc' = [pc EXCEPT ![Worker] = "E_ticket"]
            /\ UNCHANGED << queue, isShutdown, forceWake, pending, notified, 
                            ffm, shm, wWaiting, wSignalled, fWaiting, 
                            fSignalled, workerDone, joined, batches, inExport, 
                            overlap, returned, fate, ffSnap, ffOK, ffRes, 
                            sdSnap, sdCalled, sdReturned, expSD, lateCall, 
                            expFF, consumed, evlog, nt, ns, lp, s, sz, my, lpf, 
                            budget, res, timedout, already >>

W_next == /\ pc[Worker] = "W_next"
          /\ pc' = [pc EXCEPT ![Worker] = "W_pred1"]
          /\ UNCHANGED << queue, isShutdown, forceWake, pending, notified, ffm, 
                          shm, wWaiting, wSignalled, fWaiting, fSignalled, 
                          workerDone, joined, batches, inExport, overlap, 
                          returned, fate, ffSnap, ffOK, ffRes, sdSnap, 
                          sdCalled, sdReturned, expSD, lateCall, expFF, 
                          consumed, evlog, stack, nt, ns, t, n, s1, ft, 
                          backlog, lp, s, sz, my, lpf, budget, res, timedout, 
                          already >>

D_e1 == /\ pc[Worker] = "D_e1"
        /\ IF queue # <<>>
              THEN /\ pc' = [pc EXCEPT ![Worker] = "D_export"]
              ELSE /\ pc' = [pc EXCEPT ![Worker] = "D_e2"]
        /\ UNCHANGED << queue, isShutdown, forceWake, pending, notified, ffm, 
                        shm, wWaiting, wSignalled, fWaiting, fSignalled, 
                        workerDone, joined, batches, inExport, overlap, 
                        returned, fate, ffSnap, ffOK, ffRes, sdSnap, sdCalled, 
                        sdReturned, expSD, lateCall, expFF, consumed, evlog, 
                        stack, nt, ns, t, n, s1, ft, backlog, lp, s, sz, my, 
                        lpf, budget, res, timedout, already >>

D_e2 == /\ pc[Worker] = "D_e2"
        /\ lp' = pending
        /\ pc' = [pc EXCEPT ![Worker] = "D_e3"]
        /\ UNCHANGED << queue, isShutdown, forceWake, pending, notified, ffm, 
                        shm, wWaiting, wSignalled, fWaiting, fSignalled, 
                        workerDone, joined, batches, inExport, overlap, 
                        returned, fate, ffSnap, ffOK, ffRes, sdSnap, sdCalled, 
                        sdReturned, expSD, lateCall, expFF, consumed, evlog, 
                        stack, nt, ns, t, n, s1, ft, backlog, s, sz, my, lpf, 
                        budget, res, timedout, already >>

D_e3 == /\ pc[Worker] = "D_e3"
        /\ IF lp <= notified
              THEN /\ pc' = [pc EXCEPT ![Worker] = "W_exit"]
              ELSE /\ pc' = [pc EXCEPT ![Worker] = "D_export"]
        /\ UNCHANGED << queue, isShutdown, forceWake, pending, notified, ffm, 
                        shm, wWaiting, wSignalled, fWaiting, fSignalled, 
                        workerDone, joined, batches, inExport, overlap, 
                        returned, fate, ffSnap, ffOK, ffRes, sdSnap, sdCalled, 
                        sdReturned, expSD, lateCall, expFF, consumed, evlog, 
                        stack, nt, ns, t, n, s1, ft, backlog, lp, s, sz, my, 
                        lpf, budget, res, timedout, already >>

D_export == /\ pc[Worker] = "D_export"
            /\ stack' = [stack EXCEPT ![Worker] = << [ procedure |->  "Export",
                                                       pc        |->  "D_next",
                                                       t         |->  t[Worker],
                                                       n         |->  n[Worker],
                                                       s1        |->  s1[Worker],
                                                       ft        |->  ft[Worker],
                                                       backlog   |->  backlog[Worker] ] >>
                                                   \o stack[Worker]]
            /\ t' = [t EXCEPT ![Worker] = 0]
            /\ n' = [n EXCEPT ![Worker] = 0]
            /\ s1' = [s1 EXCEPT ![Worker] = 0]
            /\ ft' = [ft EXCEPT ![Worker] = 0]
            /\ backlog' = [backlog EXCEPT ![Worker] = 0]
            /\ pc' = [pc EXCEPT ![Worker] = "E_ticket"]
            /\ UNCHANGED << queue, isShutdown, forceWake, pending, notified, 
                            ffm, shm, wWaiting, wSignalled, fWaiting, 
                            fSignalled, workerDone, joined, batches, inExport, 
                            overlap, returned, fate, ffSnap, ffOK, ffRes, 
                            sdSnap, sdCalled, sdReturned, expSD, lateCall, 
                            expFF, consumed, evlog, nt, ns, lp, s, sz, my, lpf, 
                            budget, res, timedout, already >>

D_next == /\ pc[Worker] = "D_next"
          /\ pc' = [pc EXCEPT ![Worker] = "D_e1"]
          /\ UNCHANGED << queue, isShutdown, forceWake, pending, notified, ffm, 
                          shm, wWaiting, wSignalled, fWaiting, fSignalled, 
                          workerDone, joined, batches, inExport, overlap, 
                          returned, fate, ffSnap, ffOK, ffRes, sdSnap, 
                          sdCalled, sdReturned, expSD, lateCall, expFF, 
                          consumed, evlog, stack, nt, ns, t, n, s1, ft, 
                          backlog, lp, s, sz, my, lpf, budget, res, timedout, 
                          already >>

W_exit == /\ pc[Worker] = "W_exit"
          /\ workerDone' = TRUE
          /\ pc' = [pc EXCEPT ![Worker] = "Done"]
          /\ UNCHANGED << queue, isShutdown, forceWake, pending, notified, ffm, 
                          shm, wWaiting, wSignalled, fWaiting, fSignalled, 
                          joined, batches, inExport, overlap, returned, fate, 
                          ffSnap, ffOK, ffRes, sdSnap, sdCalled, sdReturned, 
                          expSD, lateCall, expFF, consumed, evlog, stack, nt, 
                          ns, t, n, s1, ft, backlog, lp, s, sz, my, lpf, 
                          budget, res, timedout, already >>

worker == W_pred1 \/ W_pred2 \/ W_block \/ W_wake \/ W_clear \/ W_chk
             \/ W_export \/ W_next \/ D_e1 \/ D_e2 \/ D_e3 \/ D_export
             \/ D_next \/ W_exit

P_loop(self) == /\ pc[self] = "P_loop"
                /\ IF s[self] < NRec
                      THEN /\ pc' = [pc EXCEPT ![self] = "P_chk"]
                      ELSE /\ pc' = [pc EXCEPT ![self] = "Done"]
                /\ UNCHANGED << queue, isShutdown, forceWake, pending, 
                                notified, ffm, shm, wWaiting, wSignalled, 
                                fWaiting, fSignalled, workerDone, joined, 
                                batches, inExport, overlap, returned, fate, 
                                ffSnap, ffOK, ffRes, sdSnap, sdCalled, 
                                sdReturned, expSD, lateCall, expFF, consumed, 
                                evlog, stack, nt, ns, t, n, s1, ft, backlog, 
                                lp, s, sz, my, lpf, budget, res, timedout, 
                                already >>

P_chk(self) == /\ pc[self] = "P_chk"
               /\ IF isShutdown
                     THEN /\ IF Hist
                                THEN /\ evlog' = evlog \o (<<[e |-> "OnEndCall", p |-> self, s |-> s[self], cons |-> consumed],
                                                             [e |-> "OnEndRet", p |-> self, s |-> s[self], fate |-> "discarded", others |-> 0]>>)
                                ELSE /\ TRUE
                                     /\ evlog' = evlog
                          /\ fate' = fate @@ (Rec(self, s[self]) :> "discarded")
                          /\ returned' = (returned \cup {Rec(self, s[self])})
                          /\ s' = [s EXCEPT ![self] = s[self] + 1]
                          /\ pc' = [pc EXCEPT ![self] = "P_loop"]
                     ELSE /\ IF Hist
                                THEN /\ evlog' = evlog \o (<<[e |-> "OnEndCall", p |-> self, s |-> s[self], cons |-> consumed]>>)
                                ELSE /\ TRUE
                                     /\ evlog' = evlog
                          /\ pc' = [pc EXCEPT ![self] = "P_add"]
                          /\ UNCHANGED << returned, fate, s >>
               /\ UNCHANGED << queue, isShutdown, forceWake, pending, notified, 
                               ffm, shm, wWaiting, wSignalled, fWaiting, 
                               fSignalled, workerDone, joined, batches, 
                               inExport, overlap, ffSnap, ffOK, ffRes, sdSnap, 
                               sdCalled, sdReturned, expSD, lateCall, expFF, 
                               consumed, stack, nt, ns, t, n, s1, ft, backlog, 
                               lp, sz, my, lpf, budget, res, timedout, already >>

P_add(self) == /\ pc[self] = "P_add"
               /\ IF Len(queue) < QMax
                     THEN /\ queue' = Append(queue, Rec(self, s[self]))
                          /\ pc' = [pc EXCEPT ![self] = "P_size"]
                          /\ UNCHANGED << returned, fate, evlog, s >>
                     ELSE /\ IF Hist
                                THEN /\ evlog' = evlog \o (<<[e |-> "OnEndRet", p |-> self, s |-> s[self], fate |-> "dropped", others |-> 0]>>)
                                ELSE /\ TRUE
                                     /\ evlog' = evlog
                          /\ fate' = fate @@ (Rec(self, s[self]) :> "dropped")
                          /\ returned' = (returned \cup {Rec(self, s[self])})
                          /\ s' = [s EXCEPT ![self] = s[self] + 1]
                          /\ pc' = [pc EXCEPT ![self] = "P_loop"]
                          /\ queue' = queue
               /\ UNCHANGED << isShutdown, forceWake, pending, notified, ffm, 
                               shm, wWaiting, wSignalled, fWaiting, fSignalled, 
                               workerDone, joined, batches, inExport, overlap, 
                               ffSnap, ffOK, ffRes, sdSnap, sdCalled, 
                               sdReturned, expSD, lateCall, expFF, consumed, 
                               stack, nt, ns, t, n, s1, ft, backlog, lp, sz, 
                               my, lpf, budget, res, timedout, already >>

P_size(self) == /\ pc[self] = "P_size"
                /\ sz' = [sz EXCEPT ![self] = Len(queue)]
                /\ IF ~(sz'[self] >= QMax \div 2 \/ sz'[self] >= BMax)
                      THEN /\ IF Hist
                                 THEN /\ evlog' = evlog \o (<<[e |-> "OnEndRet", p |-> self, s |-> s[self], fate |-> "queued", others |-> 0]>>)
                                 ELSE /\ TRUE
                                      /\ evlog' = evlog
                           /\ returned' = (returned \cup {Rec(self, s[self])})
                           /\ s' = [s EXCEPT ![self] = s[self] + 1]
                           /\ pc' = [pc EXCEPT ![self] = "P_loop"]
                      ELSE /\ pc' = [pc EXCEPT ![self] = "P_wake"]
                           /\ UNCHANGED << returned, evlog, s >>
                /\ UNCHANGED << queue, isShutdown, forceWake, pending, 
                                notified, ffm, shm, wWaiting, wSignalled, 
                                fWaiting, fSignalled, workerDone, joined, 
                                batches, inExport, overlap, fate, ffSnap, ffOK, 
                                ffRes, sdSnap, sdCalled, sdReturned, expSD, 
                                lateCall, expFF, consumed, stack, nt, ns, t, n, 
                                s1, ft, backlog, lp, my, lpf, budget, res, 
                                timedout, already >>

P_wake(self) == /\ pc[self] = "P_wake"
                /\ IF Variant = "log"
                      THEN /\ forceWake' = TRUE
                      ELSE /\ TRUE
                           /\ UNCHANGED forceWake
                /\ pc' = [pc EXCEPT ![self] = "P_notify"]
                /\ UNCHANGED << queue, isShutdown, pending, notified, ffm, shm, 
                                wWaiting, wSignalled, fWaiting, fSignalled, 
                                workerDone, joined, batches, inExport, overlap, 
                                returned, fate, ffSnap, ffOK, ffRes, sdSnap, 
                                sdCalled, sdReturned, expSD, lateCall, expFF, 
                                consumed, evlog, stack, nt, ns, t, n, s1, ft, 
                                backlog, lp, s, sz, my, lpf, budget, res, 
                                timedout, already >>

P_notify(self) == /\ pc[self] = "P_notify"
                  /\ IF wWaiting
                        THEN /\ wSignalled' = TRUE
                        ELSE /\ TRUE
                             /\ UNCHANGED wSignalled
                  /\ IF Hist
                        THEN /\ evlog' = evlog \o (<<[e |-> "OnEndRet", p |-> self, s |-> s[self], fate |-> "queued", others |-> 0]>>)
                        ELSE /\ TRUE
                             /\ evlog' = evlog
                  /\ returned' = (returned \cup {Rec(self, s[self])})
                  /\ s' = [s EXCEPT ![self] = s[self] + 1]
                  /\ pc' = [pc EXCEPT ![self] = "P_loop"]
                  /\ UNCHANGED << queue, isShutdown, forceWake, pending, 
                                  notified, ffm, shm, wWaiting, fWaiting, 
                                  fSignalled, workerDone, joined, batches, 
                                  inExport, overlap, fate, ffSnap, ffOK, ffRes, 
                                  sdSnap, sdCalled, sdReturned, expSD, 
                                  lateCall, expFF, consumed, stack, nt, ns, t, 
                                  n, s1, ft, backlog, lp, sz, my, lpf, budget, 
                                  res, timedout, already >>

prod(self) == P_loop(self) \/ P_chk(self) \/ P_add(self) \/ P_size(self)
                 \/ P_wake(self) \/ P_notify(self)

F_chk(self) == /\ pc[self] = "F_chk"
               /\ ffSnap' = [ffSnap EXCEPT ![self] = returned]
               /\ IF isShutdown
                     THEN /\ ffRes' = [ffRes EXCEPT ![self] = "false"]
                          /\ IF Hist
                                THEN /\ evlog' = evlog \o (<<[e |-> "FFCall", f |-> self], [e |-> "FFRet", f |-> self, r |-> FALSE]>>)
                                ELSE /\ TRUE
                                     /\ evlog' = evlog
                          /\ pc' = [pc EXCEPT ![self] = "F_done"]
                     ELSE /\ ffRes' = [ffRes EXCEPT ![self] = "called"]
                          /\ IF Hist
                                THEN /\ evlog' = evlog \o (<<[e |-> "FFCall", f |-> self]>>)
                                ELSE /\ TRUE
                                     /\ evlog' = evlog
                          /\ pc' = [pc EXCEPT ![self] = "F_lock"]
               /\ UNCHANGED << queue, isShutdown, forceWake, pending, notified, 
                               ffm, shm, wWaiting, wSignalled, fWaiting, 
                               fSignalled, workerDone, joined, batches, 
                               inExport, overlap, returned, fate, ffOK, sdSnap, 
                               sdCalled, sdReturned, expSD, lateCall, expFF, 
                               consumed, stack, nt, ns, t, n, s1, ft, backlog, 
                               lp, s, sz, my, lpf, budget, res, timedout, 
                               already >>

F_lock(self) == /\ pc[self] = "F_lock"
                /\ ffm = -1
                /\ ffm' = self
                /\ pc' = [pc EXCEPT ![self] = "F_ticket"]
                /\ UNCHANGED << queue, isShutdown, forceWake, pending, 
                                notified, shm, wWaiting, wSignalled, fWaiting, 
                                fSignalled, workerDone, joined, batches, 
                                inExport, overlap, returned, fate, ffSnap, 
                                ffOK, ffRes, sdSnap, sdCalled, sdReturned, 
                                expSD, lateCall, expFF, consumed, evlog, stack, 
                                nt, ns, t, n, s1, ft, backlog, lp, s, sz, my, 
                                lpf, budget, res, timedout, already >>

F_ticket(self) == /\ pc[self] = "F_ticket"
                  /\ pending' = pending + 1
                  /\ my' = [my EXCEPT ![self] = pending']
                  /\ pc' = [pc EXCEPT ![self] = "F_loop"]
                  /\ UNCHANGED << queue, isShutdown, forceWake, notified, ffm, 
                                  shm, wWaiting, wSignalled, fWaiting, 
                                  fSignalled, workerDone, joined, batches, 
                                  inExport, overlap, returned, fate, ffSnap, 
                                  ffOK, ffRes, sdSnap, sdCalled, sdReturned, 
                                  expSD, lateCall, expFF, consumed, evlog, 
                                  stack, nt, ns, t, n, s1, ft, backlog, lp, s, 
                                  sz, lpf, budget, res, timedout, already >>

F_loop(self) == /\ pc[self] = "F_loop"
                /\ IF ~res[self] /\ budget[self] # 0
                      THEN /\ timedout' = [timedout EXCEPT ![self] = FALSE]
                           /\ pc' = [pc EXCEPT ![self] = "BC1"]
                      ELSE /\ pc' = [pc EXCEPT ![self] = "F_ret"]
                           /\ UNCHANGED timedout
                /\ UNCHANGED << queue, isShutdown, forceWake, pending, 
                                notified, ffm, shm, wWaiting, wSignalled, 
                                fWaiting, fSignalled, workerDone, joined, 
                                batches, inExport, overlap, returned, fate, 
                                ffSnap, ffOK, ffRes, sdSnap, sdCalled, 
                                sdReturned, expSD, lateCall, expFF, consumed, 
                                evlog, stack, nt, ns, t, n, s1, ft, backlog, 
                                lp, s, sz, my, lpf, budget, res, already >>

BC1(self) == /\ pc[self] = "BC1"
             /\ IF isShutdown
                   THEN /\ res' = [res EXCEPT ![self] = TRUE]
                        /\ pc' = [pc EXCEPT ![self] = "F_eval"]
                   ELSE /\ pc' = [pc EXCEPT ![self] = "BC2"]
                        /\ res' = res
             /\ UNCHANGED << queue, isShutdown, forceWake, pending, notified, 
                             ffm, shm, wWaiting, wSignalled, fWaiting, 
                             fSignalled, workerDone, joined, batches, inExport, 
                             overlap, returned, fate, ffSnap, ffOK, ffRes, 
                             sdSnap, sdCalled, sdReturned, expSD, lateCall, 
                             expFF, consumed, evlog, stack, nt, ns, t, n, s1, 
                             ft, backlog, lp, s, sz, my, lpf, budget, timedout, 
                             already >>

BC2(self) == /\ pc[self] = "BC2"
             /\ lpf' = [lpf EXCEPT ![self] = pending]
             /\ pc' = [pc EXCEPT ![self] = "BC3"]
             /\ UNCHANGED << queue, isShutdown, forceWake, pending, notified, 
                             ffm, shm, wWaiting, wSignalled, fWaiting, 
                             fSignalled, workerDone, joined, batches, inExport, 
                             overlap, returned, fate, ffSnap, ffOK, ffRes, 
                             sdSnap, sdCalled, sdReturned, expSD, lateCall, 
                             expFF, consumed, evlog, stack, nt, ns, t, n, s1, 
                             ft, backlog, lp, s, sz, my, budget, res, timedout, 
                             already >>

BC3(self) == /\ pc[self] = "BC3"
             /\ IF lpf[self] > notified
                   THEN /\ pc' = [pc EXCEPT ![self] = "BC4"]
                   ELSE /\ pc' = [pc EXCEPT ![self] = "BC6"]
             /\ UNCHANGED << queue, isShutdown, forceWake, pending, notified, 
                             ffm, shm, wWaiting, wSignalled, fWaiting, 
                             fSignalled, workerDone, joined, batches, inExport, 
                             overlap, returned, fate, ffSnap, ffOK, ffRes, 
                             sdSnap, sdCalled, sdReturned, expSD, lateCall, 
                             expFF, consumed, evlog, stack, nt, ns, t, n, s1, 
                             ft, backlog, lp, s, sz, my, lpf, budget, res, 
                             timedout, already >>

BC4(self) == /\ pc[self] = "BC4"
             /\ IF Variant = "span"
                   THEN /\ forceWake' = TRUE
                   ELSE /\ TRUE
                        /\ UNCHANGED forceWake
             /\ pc' = [pc EXCEPT ![self] = "BC5"]
             /\ UNCHANGED << queue, isShutdown, pending, notified, ffm, shm, 
                             wWaiting, wSignalled, fWaiting, fSignalled, 
                             workerDone, joined, batches, inExport, overlap, 
                             returned, fate, ffSnap, ffOK, ffRes, sdSnap, 
                             sdCalled, sdReturned, expSD, lateCall, expFF, 
                             consumed, evlog, stack, nt, ns, t, n, s1, ft, 
                             backlog, lp, s, sz, my, lpf, budget, res, 
                             timedout, already >>

BC5(self) == /\ pc[self] = "BC5"
             /\ IF wWaiting
                   THEN /\ wSignalled' = TRUE
                   ELSE /\ TRUE
                        /\ UNCHANGED wSignalled
             /\ pc' = [pc EXCEPT ![self] = "BC6"]
             /\ UNCHANGED << queue, isShutdown, forceWake, pending, notified, 
                             ffm, shm, wWaiting, fWaiting, fSignalled, 
                             workerDone, joined, batches, inExport, overlap, 
                             returned, fate, ffSnap, ffOK, ffRes, sdSnap, 
                             sdCalled, sdReturned, expSD, lateCall, expFF, 
                             consumed, evlog, stack, nt, ns, t, n, s1, ft, 
                             backlog, lp, s, sz, my, lpf, budget, res, 
                             timedout, already >>

BC6(self) == /\ pc[self] = "BC6"
             /\ IF notified >= my[self]
                   THEN /\ res' = [res EXCEPT ![self] = TRUE]
                        /\ pc' = [pc EXCEPT ![self] = "F_eval"]
                   ELSE /\ pc' = [pc EXCEPT ![self] = "BC7"]
                        /\ res' = res
             /\ UNCHANGED << queue, isShutdown, forceWake, pending, notified, 
                             ffm, shm, wWaiting, wSignalled, fWaiting, 
                             fSignalled, workerDone, joined, batches, inExport, 
                             overlap, returned, fate, ffSnap, ffOK, ffRes, 
                             sdSnap, sdCalled, sdReturned, expSD, lateCall, 
                             expFF, consumed, evlog, stack, nt, ns, t, n, s1, 
                             ft, backlog, lp, s, sz, my, lpf, budget, timedout, 
                             already >>

BC7(self) == /\ pc[self] = "BC7"
             /\ IF timedout[self]
                   THEN /\ pc' = [pc EXCEPT ![self] = "F_eval"]
                   ELSE /\ pc' = [pc EXCEPT ![self] = "F_block"]
             /\ UNCHANGED << queue, isShutdown, forceWake, pending, notified, 
                             ffm, shm, wWaiting, wSignalled, fWaiting, 
                             fSignalled, workerDone, joined, batches, inExport, 
                             overlap, returned, fate, ffSnap, ffOK, ffRes, 
                             sdSnap, sdCalled, sdReturned, expSD, lateCall, 
                             expFF, consumed, evlog, stack, nt, ns, t, n, s1, 
                             ft, backlog, lp, s, sz, my, lpf, budget, res, 
                             timedout, already >>

F_block(self) == /\ pc[self] = "F_block"
                 /\ ffm' = -1
                 /\ fWaiting' = (fWaiting \cup {self})
                 /\ fSignalled' = fSignalled \ {self}
                 /\ pc' = [pc EXCEPT ![self] = "F_wake"]
                 /\ UNCHANGED << queue, isShutdown, forceWake, pending, 
                                 notified, shm, wWaiting, wSignalled, 
                                 workerDone, joined, batches, inExport, 
                                 overlap, returned, fate, ffSnap, ffOK, ffRes, 
                                 sdSnap, sdCalled, sdReturned, expSD, lateCall, 
                                 expFF, consumed, evlog, stack, nt, ns, t, n, 
                                 s1, ft, backlog, lp, s, sz, my, lpf, budget, 
                                 res, timedout, already >>

F_wake(self) == /\ pc[self] = "F_wake"
                /\ \/ /\ self \in fSignalled
                      /\ fSignalled' = fSignalled \ {self}
                      /\ UNCHANGED <<fWaiting, timedout>>
                   \/ /\ fWaiting' = fWaiting \ {self}
                      /\ fSignalled' = fSignalled \ {self}
                      /\ timedout' = [timedout EXCEPT ![self] = TRUE]
                /\ pc' = [pc EXCEPT ![self] = "F_relock"]
                /\ UNCHANGED << queue, isShutdown, forceWake, pending, 
                                notified, ffm, shm, wWaiting, wSignalled, 
                                workerDone, joined, batches, inExport, overlap, 
                                returned, fate, ffSnap, ffOK, ffRes, sdSnap, 
                                sdCalled, sdReturned, expSD, lateCall, expFF, 
                                consumed, evlog, stack, nt, ns, t, n, s1, ft, 
                                backlog, lp, s, sz, my, lpf, budget, res, 
                                already >>

F_relock(self) == /\ pc[self] = "F_relock"
                  /\ ffm = -1
                  /\ ffm' = self
                  /\ pc' = [pc EXCEPT ![self] = "BC1"]
                  /\ UNCHANGED << queue, isShutdown, forceWake, pending, 
                                  notified, shm, wWaiting, wSignalled, 
                                  fWaiting, fSignalled, workerDone, joined, 
                                  batches, inExport, overlap, returned, fate, 
                                  ffSnap, ffOK, ffRes, sdSnap, sdCalled, 
                                  sdReturned, expSD, lateCall, expFF, consumed, 
                                  evlog, stack, nt, ns, t, n, s1, ft, backlog, 
                                  lp, s, sz, my, lpf, budget, res, timedout, 
                                  already >>

F_eval(self) == /\ pc[self] = "F_eval"
                /\ IF timedout[self] /\ budget[self] # Inf
                      THEN /\ budget' = [budget EXCEPT ![self] = budget[self] - 1]
                      ELSE /\ TRUE
                           /\ UNCHANGED budget
                /\ pc' = [pc EXCEPT ![self] = "F_loop"]
                /\ UNCHANGED << queue, isShutdown, forceWake, pending, 
                                notified, ffm, shm, wWaiting, wSignalled, 
                                fWaiting, fSignalled, workerDone, joined, 
                                batches, inExport, overlap, returned, fate, 
                                ffSnap, ffOK, ffRes, sdSnap, sdCalled, 
                                sdReturned, expSD, lateCall, expFF, consumed, 
                                evlog, stack, nt, ns, t, n, s1, ft, backlog, 
                                lp, s, sz, my, lpf, res, timedout, already >>

F_ret(self) == /\ pc[self] = "F_ret"
               /\ ffRes' = [ffRes EXCEPT ![self] = IF notified >= my[self] THEN "true" ELSE "false"]
               /\ IF Hist
                     THEN /\ evlog' = evlog \o (<<[e |-> "FFRet", f |-> self, r |-> (notified >= my[self])]>>)
                     ELSE /\ TRUE
                          /\ evlog' = evlog
               /\ ffm' = -1
               /\ pc' = [pc EXCEPT ![self] = "F_done"]
               /\ UNCHANGED << queue, isShutdown, forceWake, pending, notified, 
                               shm, wWaiting, wSignalled, fWaiting, fSignalled, 
                               workerDone, joined, batches, inExport, overlap, 
                               returned, fate, ffSnap, ffOK, sdSnap, sdCalled, 
                               sdReturned, expSD, lateCall, expFF, consumed, 
                               stack, nt, ns, t, n, s1, ft, backlog, lp, s, sz, 
                               my, lpf, budget, res, timedout, already >>

F_done(self) == /\ pc[self] = "F_done"
                /\ TRUE
                /\ pc' = [pc EXCEPT ![self] = "Done"]
                /\ UNCHANGED << queue, isShutdown, forceWake, pending, 
                                notified, ffm, shm, wWaiting, wSignalled, 
                                fWaiting, fSignalled, workerDone, joined, 
                                batches, inExport, overlap, returned, fate, 
                                ffSnap, ffOK, ffRes, sdSnap, sdCalled, 
                                sdReturned, expSD, lateCall, expFF, consumed, 
                                evlog, stack, nt, ns, t, n, s1, ft, backlog, 
                                lp, s, sz, my, lpf, budget, res, timedout, 
                                already >>

flush(self) == F_chk(self) \/ F_lock(self) \/ F_ticket(self)
                  \/ F_loop(self) \/ BC1(self) \/ BC2(self) \/ BC3(self)
                  \/ BC4(self) \/ BC5(self) \/ BC6(self) \/ BC7(self)
                  \/ F_block(self) \/ F_wake(self) \/ F_relock(self)
                  \/ F_eval(self) \/ F_ret(self) \/ F_done(self)

S_call(self) == /\ pc[self] = "S_call"
                /\ IF ~sdCalled
                      THEN /\ sdSnap' = returned
                           /\ sdCalled' = TRUE
                      ELSE /\ TRUE
                           /\ UNCHANGED << sdSnap, sdCalled >>
                /\ IF Hist
                      THEN /\ evlog' = evlog \o (<<[e |-> "SDCall", s |-> self]>>)
                      ELSE /\ TRUE
                           /\ evlog' = evlog
                /\ pc' = [pc EXCEPT ![self] = "S_lock"]
                /\ UNCHANGED << queue, isShutdown, forceWake, pending, 
                                notified, ffm, shm, wWaiting, wSignalled, 
                                fWaiting, fSignalled, workerDone, joined, 
                                batches, inExport, overlap, returned, fate, 
                                ffSnap, ffOK, ffRes, sdReturned, expSD, 
                                lateCall, expFF, consumed, stack, nt, ns, t, n, 
                                s1, ft, backlog, lp, s, sz, my, lpf, budget, 
                                res, timedout, already >>

S_lock(self) == /\ pc[self] = "S_lock"
                /\ shm = -1
                /\ shm' = self
                /\ pc' = [pc EXCEPT ![self] = "S_xchg"]
                /\ UNCHANGED << queue, isShutdown, forceWake, pending, 
                                notified, ffm, wWaiting, wSignalled, fWaiting, 
                                fSignalled, workerDone, joined, batches, 
                                inExport, overlap, returned, fate, ffSnap, 
                                ffOK, ffRes, sdSnap, sdCalled, sdReturned, 
                                expSD, lateCall, expFF, consumed, evlog, stack, 
                                nt, ns, t, n, s1, ft, backlog, lp, s, sz, my, 
                                lpf, budget, res, timedout, already >>

S_xchg(self) == /\ pc[self] = "S_xchg"
                /\ already' = [already EXCEPT ![self] = isShutdown]
                /\ isShutdown' = TRUE
                /\ pc' = [pc EXCEPT ![self] = "S_join0"]
                /\ UNCHANGED << queue, forceWake, pending, notified, ffm, shm, 
                                wWaiting, wSignalled, fWaiting, fSignalled, 
                                workerDone, joined, batches, inExport, overlap, 
                                returned, fate, ffSnap, ffOK, ffRes, sdSnap, 
                                sdCalled, sdReturned, expSD, lateCall, expFF, 
                                consumed, evlog, stack, nt, ns, t, n, s1, ft, 
                                backlog, lp, s, sz, my, lpf, budget, res, 
                                timedout >>

S_join0(self) == /\ pc[self] = "S_join0"
                 /\ IF ~joined
                       THEN /\ pc' = [pc EXCEPT ![self] = "S_wake"]
                       ELSE /\ pc' = [pc EXCEPT ![self] = "S_exp"]
                 /\ UNCHANGED << queue, isShutdown, forceWake, pending, 
                                 notified, ffm, shm, wWaiting, wSignalled, 
                                 fWaiting, fSignalled, workerDone, joined, 
                                 batches, inExport, overlap, returned, fate, 
                                 ffSnap, ffOK, ffRes, sdSnap, sdCalled, 
                                 sdReturned, expSD, lateCall, expFF, consumed, 
                                 evlog, stack, nt, ns, t, n, s1, ft, backlog, 
                                 lp, s, sz, my, lpf, budget, res, timedout, 
                                 already >>

S_wake(self) == /\ pc[self] = "S_wake"
                /\ forceWake' = TRUE
                /\ pc' = [pc EXCEPT ![self] = "S_notify"]
                /\ UNCHANGED << queue, isShutdown, pending, notified, ffm, shm, 
                                wWaiting, wSignalled, fWaiting, fSignalled, 
                                workerDone, joined, batches, inExport, overlap, 
                                returned, fate, ffSnap, ffOK, ffRes, sdSnap, 
                                sdCalled, sdReturned, expSD, lateCall, expFF, 
                                consumed, evlog, stack, nt, ns, t, n, s1, ft, 
                                backlog, lp, s, sz, my, lpf, budget, res, 
                                timedout, already >>

S_notify(self) == /\ pc[self] = "S_notify"
                  /\ IF wWaiting
                        THEN /\ wSignalled' = TRUE
                        ELSE /\ TRUE
                             /\ UNCHANGED wSignalled
                  /\ pc' = [pc EXCEPT ![self] = "S_join"]
                  /\ UNCHANGED << queue, isShutdown, forceWake, pending, 
                                  notified, ffm, shm, wWaiting, fWaiting, 
                                  fSignalled, workerDone, joined, batches, 
                                  inExport, overlap, returned, fate, ffSnap, 
                                  ffOK, ffRes, sdSnap, sdCalled, sdReturned, 
                                  expSD, lateCall, expFF, consumed, evlog, 
                                  stack, nt, ns, t, n, s1, ft, backlog, lp, s, 
                                  sz, my, lpf, budget, res, timedout, already >>

S_join(self) == /\ pc[self] = "S_join"
                /\ workerDone
                /\ joined' = TRUE
                /\ pc' = [pc EXCEPT ![self] = "S_exp"]
                /\ UNCHANGED << queue, isShutdown, forceWake, pending, 
                                notified, ffm, shm, wWaiting, wSignalled, 
                                fWaiting, fSignalled, workerDone, batches, 
                                inExport, overlap, returned, fate, ffSnap, 
                                ffOK, ffRes, sdSnap, sdCalled, sdReturned, 
                                expSD, lateCall, expFF, consumed, evlog, stack, 
                                nt, ns, t, n, s1, ft, backlog, lp, s, sz, my, 
                                lpf, budget, res, timedout, already >>

S_exp(self) == /\ pc[self] = "S_exp"
               /\ IF ~already[self]
                     THEN /\ expSD' = expSD + 1
                          /\ lateCall' = (lateCall \/ sdReturned)
                          /\ IF Hist
                                THEN /\ evlog' = evlog \o (<<[e |-> "ExpSD"]>>)
                                ELSE /\ TRUE
                                     /\ evlog' = evlog
                     ELSE /\ TRUE
                          /\ UNCHANGED << expSD, lateCall, evlog >>
               /\ pc' = [pc EXCEPT ![self] = "S_ret"]
               /\ UNCHANGED << queue, isShutdown, forceWake, pending, notified, 
                               ffm, shm, wWaiting, wSignalled, fWaiting, 
                               fSignalled, workerDone, joined, batches, 
                               inExport, overlap, returned, fate, ffSnap, ffOK, 
                               ffRes, sdSnap, sdCalled, sdReturned, expFF, 
                               consumed, stack, nt, ns, t, n, s1, ft, backlog, 
                               lp, s, sz, my, lpf, budget, res, timedout, 
                               already >>

S_ret(self) == /\ pc[self] = "S_ret"
               /\ shm' = -1
               /\ sdReturned' = TRUE
               /\ IF Hist
                     THEN /\ evlog' = evlog \o (<<[e |-> "SDRet", s |-> self]>>)
                     ELSE /\ TRUE
                          /\ evlog' = evlog
               /\ pc' = [pc EXCEPT ![self] = "Done"]
               /\ UNCHANGED << queue, isShutdown, forceWake, pending, notified, 
                               ffm, wWaiting, wSignalled, fWaiting, fSignalled, 
                               workerDone, joined, batches, inExport, overlap, 
                               returned, fate, ffSnap, ffOK, ffRes, sdSnap, 
                               sdCalled, expSD, lateCall, expFF, consumed, 
                               stack, nt, ns, t, n, s1, ft, backlog, lp, s, sz, 
                               my, lpf, budget, res, timedout, already >>

shut(self) == S_call(self) \/ S_lock(self) \/ S_xchg(self) \/ S_join0(self)
                 \/ S_wake(self) \/ S_notify(self) \/ S_join(self)
                 \/ S_exp(self) \/ S_ret(self)

(* Allow infinite stuttering to prevent deadlock on termination. *)
Terminating == /\ \A self \in ProcSet: pc[self] = "Done"
               /\ UNCHANGED vars

Next == worker
           \/ (\E self \in ProcSet: Notify(self) \/ Export(self))
           \/ (\E self \in Prods: prod(self))
           \/ (\E self \in Flushers: flush(self))
           \/ (\E self \in Shuts: shut(self))
           \/ Terminating

Spec == /\ Init /\ [][Next]_vars
        /\ WF_vars(worker) /\ WF_vars(Export(Worker)) /\ WF_vars(Notify(Worker))
        /\ \A self \in Prods : WF_vars(prod(self))
        /\ \A self \in Flushers : WF_vars(flush(self))
        /\ \A self \in Shuts : WF_vars(shut(self))

Termination == <>(\A self \in ProcSet: pc[self] = "Done")

\* END TRANSLATION

(* ---- properties -------------------------------------------------------- *)
AllRecs == {Rec(pp, ss) : pp \in Prods, ss \in 0..(NRec - 1)}
ExportOnce == \A i, j \in 1..Len(batches) : \A a \in 1..Len(batches[i]), b \in 1..Len(batches[j]) :
                 (i # j \/ a # b) => batches[i][a] # batches[j][b]
SeqOf(r) == r % 100
ProdOf(r) == r \div 100
AllOut == IF batches = <<>> THEN <<>> ELSE
          LET RECURSIVE cat(_) cat(k) == IF k = 0 THEN <<>> ELSE cat(k - 1) \o batches[k] IN cat(Len(batches))
Order == \A i, j \in 1..Len(AllOut) : (i < j /\ ProdOf(AllOut[i]) = ProdOf(AllOut[j])) => SeqOf(AllOut[i]) < SeqOf(AllOut[j])
BatchBound == \A i \in 1..Len(batches) : Len(batches[i]) >= 1 /\ Len(batches[i]) <= BMax
NoOverlap == ~overlap
NoLateCall == ~lateCall
ShutdownOnce == expSD <= 1 /\ (sdReturned => expSD = 1)
FlushComplete == \A f \in Flushers : ffRes[f] = "true" => ffOK[f]
ShutdownComplete == sdReturned => \A r \in sdSnap : Accounted(r)
QueueBounded == Len(queue) <= QMax
NoPhantom == Exported \subseteq AllRecs
DroppedNotExported == \A r \in DOMAIN fate : fate[r] \in {"dropped", "discarded"} => r \notin Exported
\* quiescence: every record whose call returned before the first Shutdown call is accounted for
NoLoss == (\A sh \in Shuts : pc[sh] = "Done") /\ NShut > 0 => \A r \in sdSnap : Accounted(r)

Safety == ExportOnce /\ Order /\ NoOverlap /\ NoLateCall /\ ShutdownOnce /\ FlushComplete /\ ShutdownComplete
          /\ QueueBounded /\ NoPhantom /\ DroppedNotExported /\ NoLoss

\* liveness (FairSpec): every ForceFlush and every Shutdown call returns
FlushersDone == \A f \in Flushers : pc[f] = "Done"
ShutsDone == \A sh \in Shuts : pc[sh] = "Done"
Termination2 == <>(FlushersDone /\ ShutsDone)
\* generation: print the Level-A event log of every finished behaviour (fed to BatchMonitor.tla: a rejection
\* there means the monitor is stricter than the design - a broken check, never a violation)
AllDone == \A q \in ProcSet : pc[q] = "Done"
EmitLog == AllDone => PrintT(<<"BEH", ToJson(evlog)>>)
=============================================================================
