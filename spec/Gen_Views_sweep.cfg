\* generation (sweep export): one BEHS line per view list = the expectation for EVERY instrument
CONSTANTS
  TypeSet <- Types2   PatSet <- PatsAll   UnitSelSet <- UnitSelAll   MSelSet <- MSelsAll   ShapeSet <- Shape1
  INameSet <- INamesAll   IUnitSet <- IUnitsAll   MeterSet <- Meters3   AttrSet <- Attrs1
  MaxViews = 1  MaxInst = 0  Hist = FALSE
INIT Init
NEXT Next
VIEW View
INVARIANTS EmitSweep
