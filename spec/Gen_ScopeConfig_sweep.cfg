\* generation (sweep export): every rule list of <= 3 rules x both defaults x the three signals
CONSTANTS
  SignalSet <- SignalsAll  MatcherSet <- Matchers5  ScopeSet <- Scopes7
  MaxRules = 3  MaxGets = 0  MaxEmits = 0  Dev <- NoDev  Hist = FALSE
INIT Init
NEXT Next
VIEW View
INVARIANTS EmitSweep
